SPECIFICATION Spec
CONSTANTS
  MaxLen = 4
  Progs = {1, 2}
CHECK_DEADLOCK FALSE
