SPECIFICATION Spec
CONSTANTS
  MaxLen = 6
  ATOMIC = TRUE
INVARIANTS Inv AckAfterApply
CHECK_DEADLOCK FALSE
