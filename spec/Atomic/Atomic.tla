------------------------------- MODULE Atomic -------------------------------
(* Abstract specification (property MONITOR) of atomic regions (C34): "once an output
   released through an atomic region's end has been observed, every later atomic snapshot of
   state updated in that region reflects the acknowledged update".

   Client-visible events (pure steps on the monitor record a):
     WriteStep(a, w)      the client sent write w into the atomic region
     AckStep(a, w)        the client observed w on the output of end_atomic
     ReadStep(a, r)       the client sent read request r (answered from a use::atomic snapshot)
     SnapStep(a, r, s)    the client observed the answer to r: the set s of applied writes
   A snapshot for r is taken after r was sent; so every write acknowledged (observed) BEFORE
   r was sent precedes that snapshot and must be in s:
        Ack(w) before Read(r)  =>  w \in Snapshot(r)
   (an acknowledgement observed between Read(r) and its answer constrains nothing). *)
EXTENDS Naturals, Integers, Sequences, FiniteSets

AInitRec == [written |-> {}, acked |-> {}, must |-> <<>>,   \* must[r]: writes acked before read r
             answered |-> {}, bad |-> {}]
AFlag(cond, name) == IF cond THEN {name} ELSE {}

WriteStep(a, w) == [a EXCEPT !.written = @ \cup {w},
                             !.bad = @ \cup AFlag(w \in a.written, "PRE-write-id-reused")]

AckStep(a, w) == [a EXCEPT !.acked = @ \cup {w},
                           !.bad = @ \cup AFlag(w \notin a.written, "acknowledged-a-write-that-was-not-sent")
                                     \cup AFlag(w \in a.acked, "write-acknowledged-twice")]

\* reads are numbered 1, 2, ... in the order they are sent
ReadStep(a, r) == [a EXCEPT !.must = Append(@, a.acked),
                            !.bad = @ \cup AFlag(r # Len(a.must) + 1, "PRE-reads-not-numbered-in-order")]

SnapStep(a, r, s) ==
    [a EXCEPT !.answered = @ \cup {r},
              !.bad = @ \cup AFlag(r \notin 1..Len(a.must), "answered-a-read-that-was-not-sent")
                        \cup AFlag(r \in a.answered, "read-answered-twice")
                        \cup AFlag(~(s \subseteq a.written), "snapshot-contains-a-write-that-was-not-sent")
                        \cup AFlag(r \in 1..Len(a.must) /\ ~(a.must[r] \subseteq s),
                                   "acknowledged-write-missing-from-later-snapshot")]

PanicStep(a) == [a EXCEPT !.bad = @ \cup {"panic"}]

C34Inv(a) == a.bad = {}
BrokenOf(a) == a.bad

-----------------------------------------------------------------------------
VARIABLE at
avars == <<at>>
AInit == at = AInitRec
AReset == at' = AInitRec
AWrite(w) == at' = WriteStep(at, w)
AAck(w) == at' = AckStep(at, w)
ARead(r) == at' = ReadStep(at, r)
ASnap(r, s) == at' = SnapStep(at, r, s)
APanic == at' = PanicStep(at)
Broken == BrokenOf(at)
=============================================================================
