------------------------------ MODULE AtomicGen ------------------------------
(* spec -> code: every well-formed client script of length <= MaxLen (ops: 0 send write,
   1 await ack, 2 send read, 3 await answer; every read is eventually awaited), for each corpus
   program in Progs.  The harness plays the script against the real program in the simulator
   under every schedule. *)
EXTENDS Naturals, Sequences, FiniteSets, TLC, Json

CONSTANTS MaxLen, Progs

Count(s, op, n) == Cardinality({i \in 1..n : s[i] = op})
WellFormed(s) == /\ \A n \in 1..Len(s) : Count(s, 1, n) <= Count(s, 0, n) /\ Count(s, 3, n) <= Count(s, 2, n)
                 /\ Count(s, 3, Len(s)) = Count(s, 2, Len(s))
                 /\ Count(s, 2, Len(s)) > 0
Scripts == UNION {{s \in [1..n -> 0..3] : WellFormed(s)} : n \in 1..MaxLen}

ASSUME \A p \in Progs : \A s \in Scripts : PrintT(<<"CASE", ToJson([prog |-> p, script |-> s])>>)

VARIABLE x
Init == x = 0
Next == UNCHANGED x
Spec == Init /\ [][Next]_x
=============================================================================
