----------------------------- MODULE AtomicTrace -----------------------------
(* Trace validation of the atomic corpus (hv_std::atomic_flows in the Hydro simulator under
   exhaustive schedules; one case per explored schedule) against the Atomic monitor.
     {"e":"reset","case":c,"prog":p}      p: 1 = k1, 2 = k2, 0 = n1 (negative control)
     {"e":"write","w":w,"k":key} {"e":"ack","w":w,"k":key}
     {"e":"read","r":r} {"e":"snap","r":r,"s":[w,..],"wrongkey":0|1}
     {"e":"panic"} {"e":"end"} {"e":"eof"} *)
EXTENDS Atomic, TLC, Json, IOUtils

Rec == ndJsonDeserialize(IOEnv.TRACE)

VARIABLES l, case, viol
tvars == <<avars, l, case, viol>>
Ev == Rec[l]

TInit == l = 1 /\ case = 0 /\ viol = {} /\ AInit
Consume == l <= Len(Rec) /\ l' = l + 1

TReset == Ev.e = "reset" /\ AReset /\ case' = Ev.case
TWrite == Ev.e = "write" /\ AWrite(Ev.w) /\ UNCHANGED case
TAck == Ev.e = "ack" /\ AAck(Ev.w) /\ UNCHANGED case
TRead == Ev.e = "read" /\ ARead(Ev.r) /\ UNCHANGED case
TSnap == /\ Ev.e = "snap"
         /\ at' = LET a2 == SnapStep(at, Ev.r, {Ev.s[i] : i \in 1..Len(Ev.s)})
                  IN [a2 EXCEPT !.bad = @ \cup AFlag(Ev.wrongkey = 1, "snapshot-lists-a-write-under-the-wrong-key")
                                          \cup AFlag(Len(Ev.s) # Cardinality({Ev.s[i] : i \in 1..Len(Ev.s)}),
                                                     "snapshot-lists-a-write-twice")]
         /\ UNCHANGED case
TPanic == Ev.e = "panic" /\ APanic /\ UNCHANGED case
TEnd == Ev.e = "end" /\ UNCHANGED <<at, case>>
TEof == Ev.e = "eof" /\ UNCHANGED <<at, case>> /\ PrintT(<<"VIOL", ToJson(viol)>>)

TNext ==
    /\ Consume
    /\ (TReset \/ TWrite \/ TAck \/ TRead \/ TSnap \/ TPanic \/ TEnd \/ TEof)
    /\ viol' = viol \cup {<<case', b>> : b \in Broken'}

TSpec == TInit /\ [][TNext]_tvars

TraceAccepted ==
    LET d == TLCGet("stats").diameter IN
    IF d - 1 = Len(Rec) THEN TRUE
    ELSE Print(<<"UNMATCHED-EVENT-AT-LINE", d, Rec[d]>>, FALSE)
=============================================================================
