----------------------------- MODULE AtomicImpl -----------------------------
(* Implementation-shaped model of an atomic write/ack + atomic read program (the corpus
   programs k1 / k2 of hv_std::atomic_flows, i.e. hydro_lang's sim_atomic_stream), composed
   with the Atomic monitor and a client that follows a script.
   The atomic region and the slice that reads with use::atomic share ONE tick (sim/builder.rs:
   begin_atomic = batch into the region's tick, batch_atomic / snapshot_atomic from the region
   = identity, end_atomic = yield_from_tick): a Tick step takes a prefix of the pending writes
   and a prefix of the pending reads; the fold applies the writes; the reads of that tick are
   answered from the state INCLUDING these writes; the acknowledgements leave the tick at its
   end.  ATOMIC = FALSE models the non-atomic variant (negative control n1): the
   acknowledgement is the raw input (available at once) and the read uses an asynchronous
   snapshot (any version between the last one seen and the current one) -- TLC must find the
   violation there.
   Client script ops: 0 send write, 1 await ack, 2 send read, 3 await answer.  Model checked
   for every well-formed script of length <= MaxLen and every schedule. *)
EXTENDS Atomic, TLC

CONSTANTS MaxLen, ATOMIC

VARIABLES
    script, pc,         \* the client
    pendW, pendR,       \* sent, not yet taken into a tick
    applied,            \* the folded state: sequence of applied writes
    ackQ, ansQ,         \* outputs not yet consumed by the client
    nw, nr,             \* writes / reads sent
    seenV               \* non-atomic variant: number of writes in the last snapshot version seen

ivars == <<script, pc, pendW, pendR, applied, ackQ, ansQ, nw, nr, seenV>>
vars == <<avars, ivars>>

Count(s, op, n) == Cardinality({i \in 1..n : s[i] = op})
WellFormed(s) == /\ \A n \in 1..Len(s) : Count(s, 1, n) <= Count(s, 0, n) /\ Count(s, 3, n) <= Count(s, 2, n)
                 /\ Count(s, 3, Len(s)) = Count(s, 2, Len(s))
Scripts == UNION {{s \in [1..n -> 0..3] : WellFormed(s)} : n \in 1..MaxLen}

Init ==
    \E s \in Scripts :
        /\ AInit
        /\ script = s /\ pc = 1
        /\ pendW = <<>> /\ pendR = <<>> /\ applied = <<>> /\ ackQ = <<>> /\ ansQ = <<>>
        /\ nw = 0 /\ nr = 0 /\ seenV = 0

Op == IF pc <= Len(script) THEN script[pc] ELSE -1
Set(q) == {q[i] : i \in 1..Len(q)}

ClientWrite ==
    /\ Op = 0
    /\ AWrite(nw + 1)
    /\ nw' = nw + 1 /\ pc' = pc + 1
    /\ pendW' = IF ATOMIC THEN Append(pendW, nw + 1) ELSE pendW
    \* not atomic: the fold and the "acknowledgement" both hang off the raw input stream
    /\ applied' = IF ATOMIC THEN applied ELSE Append(applied, nw + 1)
    /\ ackQ' = IF ATOMIC THEN ackQ ELSE Append(ackQ, nw + 1)
    /\ UNCHANGED <<script, pendR, ansQ, nr, seenV>>

ClientAck ==
    /\ Op = 1 /\ ackQ # <<>>
    /\ AAck(Head(ackQ))
    /\ ackQ' = Tail(ackQ) /\ pc' = pc + 1
    /\ UNCHANGED <<script, pendW, pendR, applied, ansQ, nw, nr, seenV>>

ClientRead ==
    /\ Op = 2
    /\ ARead(nr + 1)
    /\ nr' = nr + 1 /\ pc' = pc + 1
    /\ pendR' = Append(pendR, nr + 1)
    /\ UNCHANGED <<script, pendW, applied, ackQ, ansQ, nw, seenV>>

ClientAnswer ==
    /\ Op = 3 /\ ansQ # <<>>
    /\ ASnap(Head(ansQ)[1], Head(ansQ)[2])
    /\ ansQ' = Tail(ansQ) /\ pc' = pc + 1
    /\ UNCHANGED <<script, pendW, pendR, applied, ackQ, nw, nr, seenV>>

\* one tick: kw pending writes, kr pending reads; v only matters when not ATOMIC
Tick(kw, kr, v) ==
    /\ kw \in 0..Len(pendW) /\ kr \in 0..Len(pendR) /\ kw + kr > 0
    /\ IF ATOMIC THEN v = 0 ELSE kw = 0 /\ v \in seenV..Len(applied)
    /\ LET ws == SubSeq(pendW, 1, kw)
           rs == SubSeq(pendR, 1, kr)
           st == applied \o ws
           view == IF ATOMIC THEN Set(st) ELSE Set(SubSeq(applied, 1, v))
       IN /\ applied' = st
          /\ ansQ' = ansQ \o [i \in 1..kr |-> <<rs[i], view>>]
          /\ ackQ' = IF ATOMIC THEN ackQ \o ws ELSE ackQ
    /\ pendW' = SubSeq(pendW, kw + 1, Len(pendW))
    /\ pendR' = SubSeq(pendR, kr + 1, Len(pendR))
    /\ seenV' = IF ATOMIC THEN seenV ELSE v
    /\ UNCHANGED <<at, script, pc, nw, nr>>

Next == ClientWrite \/ ClientAck \/ ClientRead \/ ClientAnswer
        \/ (\E kw, kr, v \in 0..MaxLen : Tick(kw, kr, v))
Spec == Init /\ [][Next]_vars

Inv == C34Inv(at)
\* implementation fact: an acknowledgement is only released for an applied write
AckAfterApply == Set(ackQ) \cup at.acked \subseteq Set(applied)
=============================================================================
