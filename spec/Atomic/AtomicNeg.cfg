SPECIFICATION Spec
CONSTANTS
  MaxLen = 4
  ATOMIC = FALSE
INVARIANTS Inv
CHECK_DEADLOCK FALSE
