SPECIFICATION Spec
INVARIANTS C36Inv Drained Emit
CHECK_DEADLOCK FALSE
