--------------------------- MODULE SimHooksTrace ---------------------------
(* Trace validation of the REAL simulator hooks (hydro_lang::sim::runtime, run_hooks) against the
   SimHooks monitor.  The trace (ndjson, path in env TRACE) is a concatenation of cases:
     {"e":"reset","case":n,"hooks":[kind,..]}
     {"e":"enq","h":h,"k":k,"v":v}
     {"e":"tick","hs":[h,..],"must":0|1}
     {"e":"rel","h":h,"b":[[k,v],..],"q":[[k,[v,..]],..]}
     {"e":"endtick"} | {"e":"panic","msg":..}
     {"e":"cover","hs":[..],"must":0|1,"how":..,"skipped":0|1,"reached":[outcome,..]}
         outcome = [[h,[[k,v],..]],..]  -- the set of outcomes the real hooks reached for a
         decision round started in the current state (C37: must EQUAL Allowed(hs, must))
     {"e":"eof"}
   Rule breaks are collected per case in `viol` (printed at eof); cover mismatches are printed
   as COVER lines and collected in `cov`. *)
EXTENDS SimHooks, Json, IOUtils

Rec == ndJsonDeserialize(IOEnv.TRACE)

VARIABLES l, case, viol, cov
tvars == <<mvars, l, case, viol, cov>>

Ev == Rec[l]
SeqToSet(s) == {s[i] : i \in 1..Len(s)}

TInit ==
    /\ l = 1 /\ case = 0 /\ viol = {} /\ cov = {}
    /\ MInit(<<>>)

Consume == l <= Len(Rec) /\ l' = l + 1

TReset == /\ Ev.e = "reset" /\ MReset(Ev.hooks) /\ case' = Ev.case /\ UNCHANGED cov
TEnq == /\ Ev.e = "enq" /\ MEnq(Ev.h, Ev.k, Ev.v) /\ UNCHANGED <<case, cov>>
TTick == /\ Ev.e = "tick" /\ MTick(SeqToSet(Ev.hs), Ev.must = 1) /\ UNCHANGED <<case, cov>>
TRel == /\ Ev.e = "rel" /\ MRel(Ev.h, Ev.b, Ev.q) /\ UNCHANGED <<case, cov>>
TEndTick == /\ Ev.e = "endtick" /\ MEndTick /\ UNCHANGED <<case, cov>>
TPanic == /\ Ev.e = "panic" /\ MPanic /\ UNCHANGED <<case, cov>>

TCover ==
    /\ Ev.e = "cover"
    /\ ~inTick
    /\ LET hs == SeqToSet(Ev.hs)
           must == Ev.must = 1
           runnable == IF must THEN CanRun(hs) ELSE \A h \in hs : Ready(h) /\ (kind[h] = "pass" => CanNontrivial(h))   \* unforced: a bare decision
           allowed == IF runnable THEN Allowed(hs, must) ELSE {}
           reached == IF Ev.skipped = 1 THEN {}
                      ELSE {CanonOutcome(hs, Ev.reached[i]) : i \in 1..Len(Ev.reached)}
           missing == allowed \ reached
           extra == reached \ allowed
           cls == IF StarvedPass(hs, {}) THEN "passthrough-hook-without-input" ELSE "-"
       IN IF Ev.unstable = 1
          \* the scripted prefix did not leave the same state in every run: the implementation is
          \* nondeterministic (C38's business); outcome sets of different states are not comparable
          THEN cov' = cov \cup {<<case, Ev.how, "unstable-prefix", "-">>}
          ELSE
          /\ cov' = cov \cup (IF missing # {} THEN {<<case, Ev.how, "outcome-not-reached", cls>>} ELSE {})
                        \cup (IF extra # {} THEN {<<case, Ev.how, "outcome-not-allowed", cls>>} ELSE {})
          /\ (missing # {} \/ extra # {}) =>
                PrintT(<<"COVER", ToJson([case |-> case, how |-> Ev.how, hooks |-> kind,
                                          nallowed |-> Cardinality(allowed), nreached |-> Cardinality(reached),
                                          missing |-> missing, extra |-> extra])>>)
          /\ PrintT(<<"COVERED", ToJson([case |-> case, how |-> Ev.how, n |-> Cardinality(allowed)])>>)
    /\ UNCHANGED <<mvars, case>>

TEof == /\ Ev.e = "eof" /\ UNCHANGED <<mvars, case, cov>>
        /\ PrintT(<<"VIOL", ToJson(viol)>>) /\ PrintT(<<"COV", ToJson(cov)>>)

TNext ==
    /\ Consume
    /\ (TReset \/ TEnq \/ TTick \/ TRel \/ TEndTick \/ TPanic \/ TCover \/ TEof)
    /\ viol' = viol \cup {<<case', b>> : b \in Broken'}

TSpec == TInit /\ [][TNext]_tvars

TraceAccepted ==
    LET d == TLCGet("stats").diameter IN
    IF d - 1 = Len(Rec) THEN TRUE
    ELSE Print(<<"UNMATCHED-EVENT-AT-LINE", d, Rec[d]>>, FALSE)
=============================================================================
