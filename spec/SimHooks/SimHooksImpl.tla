---------------------------- MODULE SimHooksImpl ----------------------------
(* Implementation-shaped model of the simulator's decision hooks
   (hydro_lang/src/sim/runtime.rs: autonomous_decision / release_decision of every SimHook kind)
   and of `run_hooks` (hydro_lang/src/sim/compiled.rs), composed with the SimHooks monitor.

   The driver's answers -- the *choice script* -- are explicit: every decision procedure is
   transcribed as the set of its runs, a run being the sequence of driver requests
   <<lo, hi, answer>> it makes (requests with a single possible answer are not recorded, as in the
   real exhaustive driver) together with the batch it releases and the queue it leaves.
   Keys are positional: key 1 is the key the hook's FxHashMap iterates first.

   A behaviour: Rounds x (enqueue the items of the plan; one decision round).  The plan (hook
   kinds, how many items arrive where, kind of round) is chosen in Init; the run of every round
   is chosen by TLC, so all decision sequences are explored.  Invariants: the C36 rules of the
   monitor, agreement of the scheduler predicate, and ImplComplete (C37 on the model: the
   outcomes of the runs are exactly Allowed).  With EMIT = TRUE every finished behaviour is
   printed as a CASE for replay into the real hooks. *)
EXTENDS SimHooks, Json

CONSTANTS
    MaxHooks,   \* 1 or 2 hooks per round
    MaxQ,       \* items arriving at an unkeyed hook before the first round: 0..MaxQ
    MaxKQ,      \* ... per key at a keyed hook
    MaxQ2,      \* items arriving (per hook / per key) before every later round: 0..MaxQ2
    Rounds,     \* number of (arrivals; round) pairs
    TopLevel,   \* include the top-level (observation) hook kinds
    EMIT

VARIABLES
    hq,         \* hq[h][k]: the hook's input queue(s)
    hlast,      \* hlast[h][k]: last_released (singleton hooks); 0 = None
    plan,       \* [kinds, mode, fill]: fill[r][h][k] = number of arrivals before round r
    pc,         \* "fill" | "round" | "rel" | "end" | "done"
    rnd,        \* current round 1..Rounds
    todo,       \* arrivals still to enqueue in this fill phase: seq of <<h, k>>
    cur,        \* the run chosen for the current round
    ri,         \* next release of cur to hand to the monitor
    steps, pred,\* the log printed as CASE
    known       \* TRUE once the known passthrough panic (see KnownPanic) was hit

ivars == <<hq, hlast, plan, pc, rnd, todo, cur, ri, steps, pred, known>>
vars == <<mvars, ivars>>

BaseKinds == {"ord", "unord", "kord", "kunord", "single", "ksingle", "pass"}
TopKinds == {"top1", "topk1", "toppo", "topmerge", "fold"}
Keyed(kd) == kd \in {"kord", "kunord", "ksingle", "topk1", "toppo", "topmerge"}

KindTuples ==
    {<<a>> : a \in BaseKinds \cup (IF TopLevel THEN TopKinds ELSE {})}
    \cup (IF MaxHooks >= 2 THEN {<<a, b>> : a \in BaseKinds, b \in BaseKinds} ELSE {})

-----------------------------------------------------------------------------
(* helpers *)
Rq(lo, hi, a) == IF lo = hi THEN <<>> ELSE <<<<lo, hi, a>>>>
Tag(k, s) == [i \in 1..Len(s) |-> <<k, s[i]>>]
RemoveAt(s, i) == SubSeq(s, 1, i - 1) \o SubSeq(s, i + 1, Len(s))
Swap(s, i, j) == [s EXCEPT ![i] = s[j], ![j] = s[i]]
NonEmptyKeys(qs) == SelectSeq(<<1, 2>>, LAMBDA k : qs[k] # <<>>)
NoLast == [k \in Keys |-> 0]

(* ---- StreamHook<TotalOrder>::autonomous_decision: count in (force?1:0)..=len ---- *)
OrdRuns(q, f) ==
    LET lo == IF f THEN 1 ELSE 0 IN
    {[reqs |-> Rq(lo, Len(q), c), out |-> SubSeq(q, 1, c), rest |-> SubSeq(q, c + 1, Len(q))] : c \in lo..Len(q)}

(* ---- StreamHook<NoOrder>: the while loop; min = min_index (0-based) ---- *)
RECURSIVE UnordLoop(_, _, _, _)
UnordLoop(q, out, min, f) ==
    IF q = <<>> THEN {[reqs |-> <<>>, out |-> out, rest |-> q]}
    ELSE LET must == f /\ out = <<>>
             pre == IF must THEN <<>> ELSE <<<<0, 1, 0>>>>
             stop == IF must THEN {} ELSE {[reqs |-> <<<<0, 1, 1>>>>, out |-> out, rest |-> q]}
             pick(i) ==      \* idx = i (0-based) in min..len-1
                LET q2 == RemoveAt(q, i + 1)
                    out2 == Append(out, q[i + 1])
                    r == pre \o Rq(min, Len(q) - 1, i)
                IN IF i = Len(q2)
                   THEN {[reqs |-> r, out |-> out2, rest |-> q2]}
                   ELSE {[reqs |-> r \o x.reqs, out |-> x.out, rest |-> x.rest] : x \in UnordLoop(q2, out2, i, f)}
         IN stop \cup UNION {pick(i) : i \in min..(Len(q) - 1)}

(* ---- KeyedStreamHook<_, _, TotalOrder | NoOrder>: iterate the non-empty keys ---- *)
RECURSIVE KeyedRuns(_, _, _, _, _, _)
KeyedRuns(ordered, qs, nk, j, fl, acc) ==
    IF j > Len(nk) THEN {[reqs |-> acc.reqs, b |-> acc.b, q |-> qs, last |-> NoLast, nt |-> acc.b # <<>>]}
    ELSE LET k == nk[j]
             f == fl /\ j = Len(nk)       \* force_nontrivial && remaining_nonempty_keys == 0
             per == IF ordered THEN OrdRuns(qs[k], f) ELSE UnordLoop(qs[k], <<>>, 0, f)
         IN UNION {KeyedRuns(ordered, [qs EXCEPT ![k] = r.rest], nk, j + 1, fl /\ r.out = <<>>,
                             [reqs |-> acc.reqs \o r.reqs, b |-> acc.b \o Tag(k, r.out)]) : r \in per}

(* ---- SingletonHook ---- *)
SingleRuns(qs, la, f) ==
    LET q == qs[1]  l == la[1] IN
    IF q = <<>>
    THEN {[reqs |-> <<>>, b |-> <<<<1, l>>>>, q |-> qs, last |-> la, nt |-> FALSE]}     \* re-release
    ELSE LET ask == ~f /\ l # 0
             re == IF ask THEN {[reqs |-> <<<<0, 1, 1>>>>, b |-> <<<<1, l>>>>, q |-> qs, last |-> la, nt |-> FALSE]} ELSE {}
             pre == IF ask THEN <<<<0, 1, 0>>>> ELSE <<>>
         IN re \cup {[reqs |-> pre \o Rq(0, Len(q) - 1, i), b |-> <<<<1, q[i + 1]>>>>,
                      q |-> [qs EXCEPT ![1] = SubSeq(q, i + 2, Len(q))],
                      last |-> [la EXCEPT ![1] = q[i + 1]], nt |-> TRUE] : i \in 0..(Len(q) - 1)}

(* ---- KeyedSingletonHook: iterate all keys of the map ---- *)
RECURSIVE KSingleRuns(_, _, _, _, _, _)
KSingleRuns(qs, la, k, fl, rem, acc) ==      \* rem = remaining_nonempty_keys
    IF k > 2 THEN {[reqs |-> acc.reqs, b |-> acc.b, q |-> qs, last |-> la, nt |-> acc.nt]}
    ELSE IF qs[k] = <<>> /\ la[k] = 0 THEN KSingleRuns(qs, la, k + 1, fl, rem, acc)     \* key not in the map
    ELSE IF qs[k] = <<>>
    THEN KSingleRuns(qs, la, k + 1, fl, rem, [acc EXCEPT !.b = @ \o <<<<k, la[k]>>>>])
    ELSE LET q == qs[k]
             do == fl /\ rem - 1 = 0
             new(pre) == UNION {KSingleRuns([qs EXCEPT ![k] = SubSeq(q, i + 2, Len(q))], [la EXCEPT ![k] = q[i + 1]],
                                            k + 1, FALSE, rem - 1,
                                            [reqs |-> acc.reqs \o pre \o Rq(0, Len(q) - 1, i),
                                             b |-> acc.b \o <<<<k, q[i + 1]>>>>, nt |-> TRUE]) : i \in 0..(Len(q) - 1)}
         IN IF do THEN new(<<>>)
            ELSE IF la[k] # 0
            THEN KSingleRuns(qs, la, k + 1, fl, rem - 1, [acc EXCEPT !.reqs = @ \o <<<<0, 1, 1>>>>, !.b = @ \o <<<<k, la[k]>>>>])
                 \cup new(<<<<0, 1, 0>>>>)
            ELSE KSingleRuns(qs, la, k + 1, fl, rem - 1, [acc EXCEPT !.reqs = @ \o <<<<0, 1, 1>>>>])   \* null release
                 \cup new(<<<<0, 1, 0>>>>)

(* ---- top-level (observation) hooks ---- *)
Top1Runs(qs, f) ==
    LET q == qs[1] IN
    IF q = <<>> THEN {[reqs |-> <<>>, b |-> <<>>, q |-> qs, last |-> NoLast, nt |-> FALSE]}
    ELSE LET pre == IF f THEN <<>> ELSE <<<<0, 1, 0>>>>
             none == IF f THEN {} ELSE {[reqs |-> <<<<0, 1, 1>>>>, b |-> <<>>, q |-> qs, last |-> NoLast, nt |-> FALSE]}
         IN none \cup {[reqs |-> pre \o Rq(0, Len(q) - 1, i), b |-> <<<<1, q[i + 1]>>>>,
                        q |-> [qs EXCEPT ![1] = RemoveAt(q, i + 1)], last |-> NoLast, nt |-> TRUE] : i \in 0..(Len(q) - 1)}

TopKeyedRuns(front, qs, f) ==        \* topk1 (any item of a key) / toppo (front of a key)
    LET nk == NonEmptyKeys(qs) IN
    IF nk = <<>> THEN {[reqs |-> <<>>, b |-> <<>>, q |-> qs, last |-> NoLast, nt |-> FALSE]}
    ELSE LET pre == IF f THEN <<>> ELSE <<<<0, 1, 0>>>>
             none == IF f THEN {} ELSE {[reqs |-> <<<<0, 1, 1>>>>, b |-> <<>>, q |-> qs, last |-> NoLast, nt |-> FALSE]}
         IN none \cup UNION {
              LET k == nk[ki + 1]  q == qs[k]  kr == pre \o Rq(0, Len(nk) - 1, ki) IN
              IF front
              THEN {[reqs |-> kr, b |-> <<<<k, q[1]>>>>, q |-> [qs EXCEPT ![k] = Tail(q)], last |-> NoLast, nt |-> TRUE]}
              ELSE {[reqs |-> kr \o Rq(0, Len(q) - 1, i), b |-> <<<<k, q[i + 1]>>>>,
                     q |-> [qs EXCEPT ![k] = RemoveAt(q, i + 1)], last |-> NoLast, nt |-> TRUE] : i \in 0..(Len(q) - 1)}
              : ki \in 0..(Len(nk) - 1)}

TopMergeRuns(qs, f) ==               \* key 1 = first input, key 2 = second input
    IF qs[1] = <<>> /\ qs[2] = <<>> THEN {[reqs |-> <<>>, b |-> <<>>, q |-> qs, last |-> NoLast, nt |-> FALSE]}
    ELSE LET pre == IF f THEN <<>> ELSE <<<<0, 1, 0>>>>
             none == IF f THEN {} ELSE {[reqs |-> <<<<0, 1, 1>>>>, b |-> <<>>, q |-> qs, last |-> NoLast, nt |-> FALSE]}
             take(k, r) == [reqs |-> pre \o r, b |-> <<<<k, qs[k][1]>>>>, q |-> [qs EXCEPT ![k] = Tail(qs[k])], last |-> NoLast, nt |-> TRUE]
         IN none \cup (IF qs[1] = <<>> THEN {take(2, <<>>)}
                       ELSE IF qs[2] = <<>> THEN {take(1, <<>>)}
                       ELSE {take(1, <<<<0, 1, 0>>>>), take(2, <<<<0, 1, 1>>>>)})

RECURSIVE FoldSel(_, _, _, _)
FoldSel(q, i, sel, rem) ==
    IF i > Len(q) THEN {[reqs |-> <<>>, sel |-> sel, rem |-> rem]}
    ELSE IF i = Len(q) /\ sel = <<>> THEN FoldSel(q, i + 1, Append(sel, q[i]), rem)      \* must_include
    ELSE {[reqs |-> <<<<0, 1, 1>>>> \o x.reqs, sel |-> x.sel, rem |-> x.rem] : x \in FoldSel(q, i + 1, Append(sel, q[i]), rem)}
         \cup {[reqs |-> <<<<0, 1, 0>>>> \o x.reqs, sel |-> x.sel, rem |-> x.rem] : x \in FoldSel(q, i + 1, sel, Append(rem, q[i]))}
RECURSIVE FisherYates(_, _)
FisherYates(s, i) ==                 \* i: 0-based, from len-1 down to 1
    IF i < 1 THEN {[reqs |-> <<>>, s |-> s]}
    ELSE UNION {{[reqs |-> Rq(0, i, j) \o x.reqs, s |-> x.s] : x \in FisherYates(Swap(s, i + 1, j + 1), i - 1)} : j \in 0..i}
FoldRuns(qs, f) ==
    IF qs[1] = <<>> THEN {[reqs |-> <<>>, b |-> <<>>, q |-> qs, last |-> NoLast, nt |-> FALSE]}
    ELSE UNION {{[reqs |-> x.reqs \o y.reqs, b |-> Tag(1, y.s), q |-> [qs EXCEPT ![1] = x.rem], last |-> NoLast, nt |-> TRUE]
                 : y \in FisherYates(x.sel, Len(x.sel) - 1)} : x \in FoldSel(qs[1], 1, <<>>, <<>>)}

(* ---- one hook's autonomous_decision(driver, force) followed by release_decision ---- *)
HookRuns(kd, qs, la, f) ==
    CASE kd = "ord" -> {[reqs |-> r.reqs, b |-> Tag(1, r.out), q |-> [qs EXCEPT ![1] = r.rest], last |-> NoLast, nt |-> r.out # <<>>] : r \in OrdRuns(qs[1], f)}
      [] kd = "unord" -> {[reqs |-> r.reqs, b |-> Tag(1, r.out), q |-> [qs EXCEPT ![1] = r.rest], last |-> NoLast, nt |-> r.out # <<>>] : r \in UnordLoop(qs[1], <<>>, 0, f)}
      [] kd = "kord" -> KeyedRuns(TRUE, qs, NonEmptyKeys(qs), 1, f, [reqs |-> <<>>, b |-> <<>>])
      [] kd = "kunord" -> KeyedRuns(FALSE, qs, NonEmptyKeys(qs), 1, f, [reqs |-> <<>>, b |-> <<>>])
      [] kd = "single" -> SingleRuns(qs, la, f)
      [] kd = "ksingle" -> KSingleRuns(qs, la, 1, f, Len(NonEmptyKeys(qs)), [reqs |-> <<>>, b |-> <<>>, nt |-> FALSE])
      [] kd = "pass" -> {[reqs |-> <<>>, b |-> <<<<1, qs[1][Len(qs[1])]>>>>, q |-> [qs EXCEPT ![1] = <<>>],
                          last |-> [la EXCEPT ![1] = qs[1][Len(qs[1])]], nt |-> TRUE]}    \* only called with input
      [] kd = "top1" -> Top1Runs(qs, f)
      [] kd = "topk1" -> TopKeyedRuns(FALSE, qs, f)
      [] kd = "toppo" -> TopKeyedRuns(TRUE, qs, f)
      [] kd = "topmerge" -> TopMergeRuns(qs, f)
      [] kd = "fold" -> FoldRuns(qs, f)

ICanNT(h) == \E k \in Keys : hq[h][k] # <<>>                    \* can_make_nontrivial_decision
IReady(h) == kind[h] = "single" => (hq[h][1] # <<>> \/ hlast[h][1] # 0)       \* is_ready
ICanRun == (\A h \in Hooks : IReady(h)) /\ (\E h \in Hooks : ICanNT(h))       \* SimTick::can_run

QSeq(qs) == <<<<1, qs[1]>>, <<2, qs[2]>>>>

(* ---- run_hooks over all hooks of the tick ----
   first pass: hooks that cannot make a non-trivial decision decide trivially (no choice);
   second pass, in order: undecided hooks decide, the last one forced if nothing non-trivial was
   decided so far; every hook is released right after its turn.
   A PassthroughSingletonHook without input never gets a decision and panics when released. *)
RECURSIVE TickRuns(_, _, _, _, _, _)
TickRuns(h, made, remaining, Q, L, acc) ==
    IF h > nh THEN {[reqs |-> acc.reqs, rels |-> acc.rels, Q |-> Q, L |-> L, panic |-> 0]}
    ELSE IF kind[h] = "pass" /\ Q[h][1] = <<>>
    THEN {[reqs |-> acc.reqs, rels |-> acc.rels, Q |-> Q, L |-> L, panic |-> 1]}
    ELSE LET decided1 == \A k \in Keys : Q[h][k] = <<>>          \* decided in the first pass
             f == ~decided1 /\ ~made /\ remaining = 1
         IN UNION {TickRuns(h + 1, made \/ (~decided1 /\ r.nt), IF decided1 THEN remaining ELSE remaining - 1,
                            [Q EXCEPT ![h] = r.q],
                            [L EXCEPT ![h] = IF Disc(kind[h]) = "snap" THEN r.last ELSE L[h]],
                            [reqs |-> acc.reqs \o r.reqs, rels |-> Append(acc.rels, <<h, r.b, QSeq(r.q)>>)])
                   : r \in HookRuns(kind[h], Q[h], L[h], f)}

Undecided1 == Cardinality({h \in Hooks : ICanNT(h)})
RoundRuns ==
    IF plan.mode = "tick"
    THEN TickRuns(1, FALSE, Undecided1, hq, hlast, [reqs |-> <<>>, rels |-> <<>>])
    ELSE {[reqs |-> r.reqs, rels |-> <<<<1, r.b, QSeq(r.q)>>>>, Q |-> [hq EXCEPT ![1] = r.q],
           L |-> [hlast EXCEPT ![1] = IF Disc(kind[1]) = "snap" THEN r.last ELSE hlast[1]], panic |-> 0]
          : r \in HookRuns(kind[1], hq[1], hlast[1], plan.mode = "dec1")}

Must == plan.mode # "dec0"
Enabled ==
    CASE plan.mode = "tick" -> ICanRun
      [] plan.mode = "dec1" -> IReady(1) /\ ICanNT(1)
      [] plan.mode = "dec0" -> IReady(1) /\ (kind[1] = "pass" => ICanNT(1))

-----------------------------------------------------------------------------
FillOf(kinds) ==
    [1..Rounds -> [1..Len(kinds) -> [Keys -> 0..(IF MaxQ > MaxKQ THEN MaxQ ELSE MaxKQ)]]]
FillOk(kinds, fill) ==
    \A r \in 1..Rounds : \A h \in 1..Len(kinds) :
        /\ ~Keyed(kinds[h]) => fill[r][h][2] = 0
        /\ \A k \in Keys : fill[r][h][k] <= (IF r = 1 THEN (IF Keyed(kinds[h]) THEN MaxKQ ELSE MaxQ) ELSE MaxQ2)

TodoOf(fill, r, n) ==
    LET RECURSIVE rep(_, _, _)
        rep(h, k, c) == IF c = 0 THEN <<>> ELSE <<<<h, k>>>> \o rep(h, k, c - 1)
        RECURSIVE hooks(_)
        hooks(h) == IF h > n THEN <<>> ELSE rep(h, 1, fill[r][h][1]) \o rep(h, 2, fill[r][h][2]) \o hooks(h + 1)
    IN hooks(1)

Init ==
    \E kinds \in KindTuples :
    \E mode \in (IF Len(kinds) = 1 THEN {"tick", "dec0", "dec1"} ELSE {"tick"}) :
    \E fill \in FillOf(kinds) :
        /\ FillOk(kinds, fill)
        /\ MInit(kinds)
        /\ hq = [h \in 1..Len(kinds) |-> EmptyQ]
        /\ hlast = [h \in 1..Len(kinds) |-> NoLast]
        /\ plan = [kinds |-> kinds, mode |-> mode, fill |-> fill]
        /\ pc = "fill" /\ rnd = 1
        /\ todo = TodoOf(fill, 1, Len(kinds))
        /\ cur = [reqs |-> <<>>, rels |-> <<>>, Q |-> <<>>, L |-> <<>>, panic |-> 0]
        /\ ri = 1
        /\ steps = <<>> /\ pred = <<>> /\ known = FALSE

Fill ==
    /\ pc = "fill"
    /\ IF todo = <<>>
       THEN /\ pc' = "round" /\ UNCHANGED <<mvars, hq, todo, steps>>
       ELSE LET h == Head(todo)[1]  k == Head(todo)[2]
                v == h * 1000 + (k - 1) * 500 + Len(hist[h][k]) + 1
            IN /\ MEnq(h, k, v)
               /\ hq' = [hq EXCEPT ![h][k] = Append(@, v)]
               /\ todo' = Tail(todo)
               /\ steps' = Append(steps, <<"enq", h, k, v>>)
               /\ pc' = "fill"
    /\ UNCHANGED <<hlast, plan, rnd, cur, ri, pred, known>>

Answers(reqs) == [i \in 1..Len(reqs) |-> reqs[i][3]]
StepOf(run) == IF plan.mode = "tick" THEN <<"tick", Answers(run.reqs)>>
               ELSE <<"dec", 1, IF plan.mode = "dec1" THEN 1 ELSE 0, Answers(run.reqs)>>
PredOf(run) == [skip |-> 0, reqs |-> run.reqs, panic |-> run.panic,
                rels |-> [i \in 1..Len(run.rels) |-> <<run.rels[i][1], run.rels[i][2]>>]]

NextRound ==
    IF rnd = Rounds THEN /\ pc' = "done" /\ UNCHANGED <<rnd, todo>>
    ELSE /\ pc' = "fill" /\ rnd' = rnd + 1 /\ todo' = TodoOf(plan.fill, rnd + 1, nh)

Round ==
    /\ pc = "round"
    /\ IF ~Enabled
       THEN /\ steps' = Append(steps, StepOf([reqs |-> <<>>]))
            /\ pred' = Append(pred, [skip |-> 1, reqs |-> <<>>, panic |-> 0, rels |-> <<>>])
            /\ NextRound
            /\ UNCHANGED <<mvars, cur, ri>>
       ELSE \E run \in RoundRuns :
            /\ MTick(IF plan.mode = "tick" THEN Hooks ELSE {1}, Must)
            /\ cur' = run /\ ri' = 1
            /\ steps' = Append(steps, StepOf(run))
            /\ pred' = Append(pred, PredOf(run))
            /\ pc' = "rel"
            /\ UNCHANGED <<rnd, todo>>
    /\ UNCHANGED <<hq, hlast, plan, known>>

Rel ==
    /\ pc = "rel"
    /\ IF ri <= Len(cur.rels)
       THEN /\ MRel(cur.rels[ri][1], cur.rels[ri][2], cur.rels[ri][3])
            /\ ri' = ri + 1 /\ pc' = "rel" /\ UNCHANGED known
       ELSE IF cur.panic = 1
       THEN /\ MPanic /\ known' = TRUE /\ pc' = "end" /\ UNCHANGED ri
       ELSE /\ pc' = "end" /\ UNCHANGED <<mvars, ri, known>>
    /\ UNCHANGED <<hq, hlast, plan, rnd, todo, cur, steps, pred>>

EndRound ==
    /\ pc = "end"
    /\ MEndTick
    /\ hq' = cur.Q /\ hlast' = cur.L
    /\ IF cur.panic = 1 THEN pc' = "done" /\ UNCHANGED <<rnd, todo>> ELSE NextRound
    /\ UNCHANGED <<plan, cur, ri, steps, pred, known>>

Done == pc = "done" /\ UNCHANGED vars

Next == Fill \/ Round \/ Rel \/ EndRound \/ Done
Spec == Init /\ [][Next]_vars

-----------------------------------------------------------------------------
\* C36 on the model; the one known exception is the panic of a scheduled tick that contains a
\* PassthroughSingletonHook without input (genuine defect, reported from the real code)
ImplC36 == known \/ C36Inv
\* implementation state = monitor state (between rounds)
ImplInv ==
    pc \in {"fill", "round", "done"} /\ ~known =>
        /\ \A h \in Hooks : \A k \in Keys : hq[h][k] = pend[h][k]
        /\ \A h \in Hooks : Disc(kind[h]) = "snap" => \A k \in Keys : hlast[h][k] = last[h][k]
        /\ (plan.mode = "tick" /\ (\A h \in Hooks : kind[h] = "pass" => hq[h][1] # <<>>)
               => (ICanRun <=> CanRun(Hooks)))
\* C37 on the model: the runs of a round reach exactly the allowed outcomes
RunOutcome(run) == CanonOutcome(IF plan.mode = "tick" THEN Hooks ELSE {1},
                                [i \in 1..Len(run.rels) |-> <<run.rels[i][1], run.rels[i][2]>>])
ImplComplete ==
    (pc = "round" /\ Enabled /\ (\A r \in RoundRuns : r.panic = 0)) =>
        {RunOutcome(r) : r \in RoundRuns} = Allowed(IF plan.mode = "tick" THEN Hooks ELSE {1}, Must)

Emit == (EMIT /\ pc = "done") =>
          PrintT(<<"CASE", ToJson([hooks |-> plan.kinds, steps |-> steps, pred |-> pred])>>)
=============================================================================
