--------------------------- MODULE SimReplayTrace ---------------------------
(* C38 -- simulator runs replay deterministically.  A simulation instance is a function of its
   decision input: the specification is the memo table  input |-> (decisions, outputs, verdict).
   The trace holds runs of the REAL simulator / hooks; several runs carry the same `input`
   (same process twice, and a second process); a run is accepted only if it equals the memoised
   one.
     {"e":"run","input":id,"proc":p,"rep":r,"decisions":..,"outputs":..,"verdict":..}
     {"e":"eof"} *)
EXTENDS Naturals, Sequences, FiniteSets, TLC, Json, IOUtils

Rec == ndJsonDeserialize(IOEnv.TRACE)

VARIABLES l, memo, viol, nruns
vars == <<l, memo, viol, nruns>>
Ev == Rec[l]

TInit == l = 1 /\ memo = <<>> /\ viol = {} /\ nruns = 0

Key(e) == e.input
Obs(e) == [decisions |-> e.decisions, outputs |-> e.outputs, verdict |-> e.verdict]
Seen(k) == \E i \in 1..Len(memo) : memo[i][1] = k
Memo(k) == memo[CHOOSE i \in 1..Len(memo) : memo[i][1] = k][2]

TRun ==
    /\ Ev.e = "run"
    /\ nruns' = nruns + 1
    /\ IF Seen(Key(Ev))
       THEN /\ memo' = memo
            /\ LET m == Memo(Key(Ev))  o == Obs(Ev)
                   d == (IF m.decisions # o.decisions THEN {<<Key(Ev), Ev.proc, Ev.rep, "decisions-differ">>} ELSE {})
                        \cup (IF m.outputs # o.outputs THEN {<<Key(Ev), Ev.proc, Ev.rep, "outputs-differ">>} ELSE {})
                        \cup (IF m.verdict # o.verdict THEN {<<Key(Ev), Ev.proc, Ev.rep, "verdict-differs">>} ELSE {})
               IN viol' = viol \cup d
       ELSE /\ memo' = Append(memo, <<Key(Ev), Obs(Ev)>>)
            /\ viol' = viol

TEof == /\ Ev.e = "eof" /\ UNCHANGED <<memo, viol, nruns>>
        /\ PrintT(<<"VIOL", ToJson(viol)>>)
        /\ PrintT(<<"STATS", ToJson([inputs |-> Len(memo), runs |-> nruns])>>)

TNext == l <= Len(Rec) /\ l' = l + 1 /\ (TRun \/ TEof)
TSpec == TInit /\ [][TNext]_vars

\* replays exist: every input was run at least twice (checked at eof by the driver through STATS)
TraceAccepted ==
    LET d == TLCGet("stats").diameter IN
    IF d - 1 = Len(Rec) THEN TRUE
    ELSE Print(<<"UNMATCHED-EVENT-AT-LINE", d, Rec[d]>>, FALSE)
=============================================================================
