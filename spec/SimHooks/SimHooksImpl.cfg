SPECIFICATION Spec
CONSTANTS
  MaxHooks = 1
  MaxQ = 3
  MaxKQ = 2
  MaxQ2 = 1
  Rounds = 2
  TopLevel = TRUE
  EMIT = FALSE
INVARIANTS ImplC36 ImplInv ImplComplete Emit
CHECK_DEADLOCK FALSE
