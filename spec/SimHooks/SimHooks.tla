------------------------------ MODULE SimHooks ------------------------------
(* Abstract specification (property monitor) of the Hydro deterministic simulator's decision
   hooks (C36, C37).

   A *hook* sits between the asynchronous part of a simulated program and a tick: items that
   arrive are appended to its pending queue (per key for keyed hooks; for singleton hooks the
   queue holds the successive *versions* of the value), and when the scheduler runs a tick
   (`run_hooks`) every hook of the tick decides what to release and sends it into the tick.

   Events (one per call observed at the implementation):
     Enq(h, k, v)       item/version v (unique per case) was appended to hook h, key k
     Tick(hs, must)     a decision round on the hooks hs starts; must = the round was scheduled
                        (run_hooks) or forced, so it has to release something new
     Rel(h, b, q)       hook h released the batch b = <<<<k, v>>, ...>>; q = the pending queue the
                        implementation holds afterwards, <<<<k, <<v, ...>>>>, ...>>
     EndTick            the round is over
     Panic              the implementation panicked

   Release disciplines:
     "prefix"  totally ordered inputs: per key the batch is an in-order prefix of the pending items
     "subbag"  unordered inputs: per key the batch is a sub-bag of the pending items
     "snap"    snapshots: per key at most one version; either the last released one again
               (unchanged -- trivial) or a pending one, which makes all older versions obsolete

   The same module defines, for C37, the set Allowed(hs, must) of *all* outcomes of a decision
   round that these rules permit in the current state, in a canonical form. *)
EXTENDS Naturals, Integers, Sequences, FiniteSets, TLC

Keys == 1..2

Kinds == {"ord", "unord", "kord", "kunord", "single", "ksingle", "pass",
          "top1", "topk1", "toppo", "topmerge", "fold"}

Disc(kind) ==
    CASE kind \in {"ord", "kord", "toppo", "topmerge"} -> "prefix"
      [] kind \in {"unord", "kunord", "top1", "topk1", "fold"} -> "subbag"
      [] kind \in {"single", "ksingle", "pass"} -> "snap"

\* top-level hooks release one element at a time (a fact of these hook kinds, part of their
\* decision space for C37; not demanded by C36)
OneAtATime(kind) == kind \in {"top1", "topk1", "toppo", "topmerge"}
\* the order inside a released batch is significant only for the fold hook (it feeds a fold)
OrderMatters(kind) == kind = "fold"

VARIABLES
    nh,         \* number of hooks of the case
    kind,       \* kind[h]
    pend,       \* pend[h][k]: pending items, in arrival order
    hist,       \* hist[h][k]: every item that ever arrived, in arrival order
    outn,       \* outn[h][k]: items released as NEW, in release order
    last,       \* last[h][k]: last released snapshot version (0 = none) -- snap hooks
    dropped,    \* dropped[h][k]: versions skipped because a newer one was released
    inTick, tickHs, tickMust,
    tickNew,    \* number of new items / new snapshots released in the current round
    tickRel,    \* hooks released in the current round
    bad         \* "" or the name of the first rule broken

mvars == <<nh, kind, pend, hist, outn, last, dropped, inTick, tickHs, tickMust, tickNew, tickRel, bad>>

Hooks == 1..nh
EmptyQ == [k \in Keys |-> <<>>]

MInit(kinds) ==
    /\ nh = Len(kinds)
    /\ kind = kinds
    /\ pend = [h \in 1..Len(kinds) |-> EmptyQ]
    /\ hist = [h \in 1..Len(kinds) |-> EmptyQ]
    /\ outn = [h \in 1..Len(kinds) |-> EmptyQ]
    /\ last = [h \in 1..Len(kinds) |-> [k \in Keys |-> 0]]
    /\ dropped = [h \in 1..Len(kinds) |-> [k \in Keys |-> {}]]
    /\ inTick = FALSE /\ tickHs = {} /\ tickMust = FALSE /\ tickNew = 0 /\ tickRel = {}
    /\ bad = ""

MReset(kinds) ==
    /\ nh' = Len(kinds)
    /\ kind' = kinds
    /\ pend' = [h \in 1..Len(kinds) |-> EmptyQ]
    /\ hist' = [h \in 1..Len(kinds) |-> EmptyQ]
    /\ outn' = [h \in 1..Len(kinds) |-> EmptyQ]
    /\ last' = [h \in 1..Len(kinds) |-> [k \in Keys |-> 0]]
    /\ dropped' = [h \in 1..Len(kinds) |-> [k \in Keys |-> {}]]
    /\ inTick' = FALSE /\ tickHs' = {} /\ tickMust' = FALSE /\ tickNew' = 0 /\ tickRel' = {}
    /\ bad' = ""

Flag(cond, name) == IF bad = "" /\ cond THEN name ELSE bad
\* first of several candidate rule names (in order) whose condition holds
Flag2(c1, n1, c2, n2, c3, n3) ==
    IF bad # "" THEN bad
    ELSE IF c1 THEN n1 ELSE IF c2 THEN n2 ELSE IF c3 THEN n3 ELSE ""

Range(s) == {s[i] : i \in 1..Len(s)}
NoDup(s) == Cardinality(Range(s)) = Len(s)
Remove(s, S) == SelectSeq(s, LAMBDA x : x \notin S)
IsPrefix(a, b) == Len(a) <= Len(b) /\ \A i \in 1..Len(a) : a[i] = b[i]
IndexOf(s, v) == CHOOSE i \in 1..Len(s) : s[i] = v
AllItems == UNION {Range(hist[h][k]) : h \in Hooks, k \in Keys}

\* items of batch b (a sequence of <<k, v>>) that carry key k, in batch order
BK(b, k) == LET s == SelectSeq(b, LAMBDA e : e[1] = k) IN [i \in 1..Len(s) |-> s[i][2]]
\* the queue of key k in q (a sequence of <<k, <<v..>>>>); absent = empty
QK(q, k) == LET idx == {i \in 1..Len(q) : q[i][1] = k}
            IN IF idx = {} THEN <<>> ELSE q[CHOOSE i \in idx : TRUE][2]

MEnq(h, k, v) ==
    /\ h \in Hooks /\ k \in Keys
    /\ v \notin AllItems /\ v > 0              \* ids are unique (harness contract)
    /\ ~inTick                                 \* a scheduler step is atomic
    /\ pend' = [pend EXCEPT ![h][k] = Append(@, v)]
    /\ hist' = [hist EXCEPT ![h][k] = Append(@, v)]
    /\ UNCHANGED <<nh, kind, outn, last, dropped, inTick, tickHs, tickMust, tickNew, tickRel, bad>>

MTick(hs, must) ==
    /\ ~inTick
    /\ hs \subseteq Hooks /\ hs # {}
    /\ inTick' = TRUE /\ tickHs' = hs /\ tickMust' = must /\ tickNew' = 0 /\ tickRel' = {}
    /\ UNCHANGED <<nh, kind, pend, hist, outn, last, dropped, bad>>

(* --- the rules for one released batch ------------------------------------------------- *)
Known(h, k, v) == v \in Range(hist[h][k])
\* per key: the batch entries that are NEW under the discipline of hook h
NewOf(h, b, k) ==
    IF Disc(kind[h]) = "snap"
    THEN SelectSeq(BK(b, k), LAMBDA v : v # last[h][k])
    ELSE BK(b, k)

UnknownItem(h, b) == \E k \in Keys : \E v \in Range(BK(b, k)) : ~Known(h, k, v)
ReleasedTwice(h, b) ==
    \/ \E k \in Keys : ~NoDup(NewOf(h, b, k))
    \/ \E k \in Keys : \E v \in Range(NewOf(h, b, k)) : v \in Range(outn[h][k])
WentBack(h, b) ==      \* a snapshot older than the last released one
    /\ Disc(kind[h]) = "snap"
    /\ \E k \in Keys : \E v \in Range(NewOf(h, b, k)) :
          Known(h, k, v) /\ v \notin Range(pend[h][k])
ShapeBroken(h, b) ==
    CASE Disc(kind[h]) = "prefix" -> \E k \in Keys : ~IsPrefix(BK(b, k), pend[h][k])
      [] Disc(kind[h]) = "subbag" -> \E k \in Keys : ~(Range(BK(b, k)) \subseteq Range(pend[h][k]))
      [] Disc(kind[h]) = "snap"   -> \E k \in Keys : Len(BK(b, k)) > 1
                                        \/ \E v \in Range(NewOf(h, b, k)) : v \notin Range(pend[h][k])
ShapeName(h) ==
    CASE Disc(kind[h]) = "prefix" -> "ordered-batch-not-a-prefix"
      [] Disc(kind[h]) = "subbag" -> "unordered-batch-not-a-subbag"
      [] Disc(kind[h]) = "snap"   -> "snapshot-not-a-pending-version"

\* the pending queue after the release, as the rules say it must be
PendAfter(h, b, k) ==
    LET new == NewOf(h, b, k) IN
    IF Disc(kind[h]) = "snap"
    THEN IF new # <<>> /\ new[1] \in Range(pend[h][k])
         THEN SubSeq(pend[h][k], IndexOf(pend[h][k], new[1]) + 1, Len(pend[h][k]))
         ELSE pend[h][k]
    ELSE IF Disc(kind[h]) = "prefix" /\ IsPrefix(new, pend[h][k])
         THEN SubSeq(pend[h][k], Len(new) + 1, Len(pend[h][k]))
         ELSE Remove(pend[h][k], Range(new))
DroppedBy(h, b, k) ==
    LET new == NewOf(h, b, k) IN
    IF Disc(kind[h]) = "snap" /\ new # <<>> /\ new[1] \in Range(pend[h][k])
    THEN Range(SubSeq(pend[h][k], 1, IndexOf(pend[h][k], new[1]) - 1))
    ELSE {}
SameBag(a, b) == Len(a) = Len(b) /\ Range(a) = Range(b) /\ NoDup(a) /\ NoDup(b)

RECURSIVE SumNew(_, _, _)
SumNew(h, b, k) == IF k = 0 THEN 0 ELSE Len(NewOf(h, b, k)) + SumNew(h, b, k - 1)

MRel(h, b, q) ==
    /\ inTick /\ h \in tickHs
    /\ LET lost == \E k \in Keys : ~SameBag(QK(q, k), PendAfter(h, b, k)) IN
       bad' = IF bad # "" THEN bad
              ELSE IF h \in tickRel THEN "hook-released-twice-in-one-round"
              ELSE IF UnknownItem(h, b) THEN "unknown-item-released"
              ELSE IF WentBack(h, b) THEN "snapshot-went-back"
              ELSE IF ReleasedTwice(h, b) THEN "item-released-twice"
              ELSE IF ShapeBroken(h, b) THEN ShapeName(h)
              ELSE IF lost THEN "pending-item-lost-or-duplicated"
              ELSE ""
    /\ pend' = [pend EXCEPT ![h] = [k \in Keys |-> PendAfter(h, b, k)]]
    /\ outn' = [outn EXCEPT ![h] = [k \in Keys |-> outn[h][k] \o NewOf(h, b, k)]]
    /\ dropped' = [dropped EXCEPT ![h] = [k \in Keys |-> dropped[h][k] \cup DroppedBy(h, b, k)]]
    /\ last' = [last EXCEPT ![h] = [k \in Keys |->
                   IF Disc(kind[h]) = "snap" /\ BK(b, k) # <<>> THEN BK(b, k)[Len(BK(b, k))] ELSE last[h][k]]]
    /\ tickNew' = tickNew + SumNew(h, b, 2)
    /\ tickRel' = tickRel \cup {h}
    /\ UNCHANGED <<nh, kind, hist, inTick, tickHs, tickMust>>

MEndTick ==
    /\ inTick
    /\ bad' = Flag2(tickMust /\ tickNew = 0, "scheduled-tick-released-nothing-new",
                    tickRel # tickHs, "hook-of-the-round-not-released", FALSE, "")
    /\ inTick' = FALSE
    /\ UNCHANGED <<nh, kind, pend, hist, outn, last, dropped, tickHs, tickMust, tickNew, tickRel>>

\* a passthrough hook (snapshot of an already hooked fold) of the round that has no new version
\* and was not released: the known cause of a panicking round
StarvedPass(hs, released) == \E h \in hs \ released : kind[h] = "pass" /\ pend[h][1] = <<>>
MPanic ==
    /\ bad' = Flag2(inTick /\ StarvedPass(tickHs, tickRel), "panic-passthrough-hook-without-input",
                    TRUE, "panic", FALSE, "")
    /\ UNCHANGED <<nh, kind, pend, hist, outn, last, dropped, inTick, tickHs, tickMust, tickNew, tickRel>>

-----------------------------------------------------------------------------
(* C36 as state predicates over the monitor state *)
NoRuleBroken == bad = ""

\* ordered hooks: arrival order = released order followed by what is still pending
OrderedConservation ==
    \A h \in Hooks : Disc(kind[h]) = "prefix" =>
        \A k \in Keys : hist[h][k] = outn[h][k] \o pend[h][k]
\* unordered hooks: arrived = released (+) pending, as bags
BagConservation ==
    \A h \in Hooks : Disc(kind[h]) = "subbag" =>
        \A k \in Keys : SameBag(hist[h][k], outn[h][k] \o pend[h][k])
\* snapshots: every version is pending, released or skipped; released versions only move forward
SnapshotMonotone ==
    \A h \in Hooks : Disc(kind[h]) = "snap" =>
        \A k \in Keys :
            /\ Range(hist[h][k]) = Range(pend[h][k]) \cup Range(outn[h][k]) \cup dropped[h][k]
            /\ \A i, j \in 1..Len(outn[h][k]) : i < j =>
                   IndexOf(hist[h][k], outn[h][k][i]) < IndexOf(hist[h][k], outn[h][k][j])
            /\ \A v \in Range(pend[h][k]) : last[h][k] # 0 =>
                   IndexOf(hist[h][k], last[h][k]) < IndexOf(hist[h][k], v)

C36Inv == NoRuleBroken /\ OrderedConservation /\ BagConservation /\ SnapshotMonotone

Broken ==
    (IF bad # "" THEN {bad} ELSE {})
    \cup (IF OrderedConservation THEN {} ELSE {"OrderedConservation"})
    \cup (IF BagConservation THEN {} ELSE {"BagConservation"})
    \cup (IF SnapshotMonotone THEN {} ELSE {"SnapshotMonotone"})

-----------------------------------------------------------------------------
(* C37: the decision space.  An outcome of a round on hooks hs (ascending order) is a sequence
   with one entry per hook: a function key -> released items, canonical: sorted where the order
   inside a batch carries no meaning. *)
RECURSIVE SortedSeq(_)
SortedSeq(S) == IF S = {} THEN <<>>
                ELSE LET m == CHOOSE x \in S : \A y \in S : x <= y IN <<m>> \o SortedSeq(S \ {m})

Prefixes(s) == {SubSeq(s, 1, n) : n \in 0..Len(s)}
RECURSIVE Perms(_)
Perms(S) == IF S = {} THEN {<<>>} ELSE UNION {{<<x>> \o p : p \in Perms(S \ {x})} : x \in S}

CanNontrivial(h) == \E k \in Keys : pend[h][k] # <<>>
\* a snapshot hook is ready once it has a value to show (a new version or the last released one)
Ready(h) == kind[h] \in {"single", "pass"} => (pend[h][1] # <<>> \/ last[h][1] # 0)
\* the scheduler's SimTick::can_run / SimObservation::can_run
CanRun(hs) == (\A h \in hs : Ready(h)) /\ (\E h \in hs : CanNontrivial(h))

\* per key: what hook h may release for key k when nothing forces it
KeyChoices(h, k) ==
    LET p == pend[h][k] IN
    CASE kind[h] \in {"ord", "kord", "toppo", "topmerge"} -> Prefixes(p)
      [] kind[h] \in {"unord", "kunord", "top1", "topk1"} -> {SortedSeq(T) : T \in SUBSET Range(p)}
      [] kind[h] = "fold" -> UNION {Perms(T) : T \in SUBSET Range(p)}
      [] kind[h] = "single" ->
            IF p = <<>> THEN (IF last[h][k] # 0 THEN {<<last[h][k]>>} ELSE {<<>>})
            ELSE (IF last[h][k] # 0 THEN {<<last[h][k]>>} ELSE {}) \cup {<<v>> : v \in Range(p)}
      [] kind[h] = "ksingle" ->
            IF hist[h][k] = <<>> THEN {<<>>}                          \* key not in the map
            ELSE IF p = <<>> THEN {<<last[h][k]>>}
            ELSE (IF last[h][k] # 0 THEN {<<last[h][k]>>} ELSE {<<>>}) \cup {<<v>> : v \in Range(p)}
      \* passthrough of a fold that is already hooked: always the latest version; without a new
      \* version the snapshot is unchanged
      [] kind[h] = "pass" -> IF p = <<>> THEN (IF last[h][k] # 0 THEN {<<last[h][k]>>} ELSE {}) ELSE {<<p[Len(p)]>>}

UsedKeys(h) == IF kind[h] \in {"kord", "kunord", "ksingle", "topk1", "toppo", "topmerge"} THEN Keys ELSE {1}

NewCount(h, o) ==   \* number of new items / snapshots in outcome o of hook h
    LET n(k) == IF Disc(kind[h]) = "snap"
                THEN (IF o[k] # <<>> /\ o[k][1] # last[h][k] THEN 1 ELSE 0)
                ELSE Len(o[k])
    IN n(1) + n(2)

HookOutcomes(h) ==
    LET all == {o \in [Keys -> UNION {KeyChoices(h, k) : k \in Keys} \cup {<<>>}] :
                   \A k \in Keys : IF k \in UsedKeys(h) THEN o[k] \in KeyChoices(h, k) ELSE o[k] = <<>>}
    IN {o \in all :
          /\ OneAtATime(kind[h]) => NewCount(h, o) <= 1
          \* a fold hook with input always releases a non-empty batch
          /\ (kind[h] = "fold" /\ CanNontrivial(h)) => NewCount(h, o) > 0}

RECURSIVE Product(_)
Product(sets) == IF sets = <<>> THEN {<<>>}
                 ELSE {<<x>> \o r : x \in Head(sets), r \in Product(Tail(sets))}

HsSeq(hs) == SortedSeq(hs)
Allowed(hs, must) ==
    LET hq == HsSeq(hs)
        all == Product([i \in 1..Len(hq) |-> HookOutcomes(hq[i])])
    IN {o \in all : must => \E i \in 1..Len(hq) : NewCount(hq[i], o[i]) > 0}

\* canonical form of an observed outcome r = <<<<h, b>>, ...>> for the hooks hs
NotReleased == [k \in Keys |-> <<-1>>]
Canon(h, b) == [k \in Keys |-> IF OrderMatters(kind[h]) \/ Disc(kind[h]) = "prefix"
                               THEN BK(b, k) ELSE SortedSeq(Range(BK(b, k)))]
CanonOutcome(hs, r) ==
    LET hq == HsSeq(hs) IN
    [i \in 1..Len(hq) |->
        LET idx == {j \in 1..Len(r) : r[j][1] = hq[i]} IN
        IF idx = {} THEN NotReleased ELSE Canon(hq[i], r[CHOOSE j \in idx : TRUE][2])]
=============================================================================
