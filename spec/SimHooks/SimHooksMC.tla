----------------------------- MODULE SimHooksMC -----------------------------
(* C37, program level: the set of distinct outcomes the SimHooks specification allows for small
   simulated programs, computed by TLC.  A program = the hooks of its tick and the items that
   arrive before the scheduler starts; the scheduler then runs decision rounds (each choosing
   ANY outcome in Allowed) until no round can run.  The *trail* of a behaviour is the sequence
   of outcomes of its rounds -- exactly what a tick that reports its input exposes.  Every
   finished behaviour prints one TRAIL line; the set of trails of program p must equal the set
   of tick-output sequences the real simulator produces under `flow.sim().exhaustive`. *)
EXTENDS SimHooks, Json

VARIABLES prog, trail
vars == <<mvars, prog, trail>>

\* name, kinds, arrivals: <<h, k, v>> in arrival order
Programs == {
    [name |-> "p1", kinds |-> <<"ord">>,        arr |-> <<<<1, 1, 1>>, <<1, 1, 2>>, <<1, 1, 3>>>>],
    [name |-> "p2", kinds |-> <<"unord">>,      arr |-> <<<<1, 1, 1>>, <<1, 1, 2>>, <<1, 1, 3>>>>],
    [name |-> "p3", kinds |-> <<"single">>,     arr |-> <<<<1, 1, 1>>, <<1, 1, 2>>, <<1, 1, 3>>, <<1, 1, 4>>>>],
    [name |-> "p4", kinds |-> <<"ord", "ord">>, arr |-> <<<<1, 1, 1>>, <<1, 1, 2>>, <<2, 1, 11>>, <<2, 1, 12>>>>],
    [name |-> "p6", kinds |-> <<"kunord">>,     arr |-> <<<<1, 1, 1>>, <<1, 2, 2>>, <<1, 1, 3>>>>],
    [name |-> "p7", kinds |-> <<"unord", "single">>,
                                                arr |-> <<<<1, 1, 1>>, <<1, 1, 2>>, <<2, 1, 11>>, <<2, 1, 12>>>>]
}

RECURSIVE Load(_, _)
Load(arr, st) ==      \* st = [pend, hist]
    IF arr = <<>> THEN st
    ELSE LET a == Head(arr) IN
         Load(Tail(arr), [pend |-> [st.pend EXCEPT ![a[1]][a[2]] = Append(@, a[3])],
                          hist |-> [st.hist EXCEPT ![a[1]][a[2]] = Append(@, a[3])]])

Init ==
    \E p \in Programs :
        LET n == Len(p.kinds)
            st == Load(p.arr, [pend |-> [h \in 1..n |-> EmptyQ], hist |-> [h \in 1..n |-> EmptyQ]])
        IN /\ prog = p.name
           /\ nh = n /\ kind = p.kinds
           /\ pend = st.pend /\ hist = st.hist
           /\ outn = [h \in 1..n |-> EmptyQ]
           /\ last = [h \in 1..n |-> [k \in Keys |-> 0]]
           /\ dropped = [h \in 1..n |-> [k \in Keys |-> {}]]
           /\ inTick = FALSE /\ tickHs = {} /\ tickMust = FALSE /\ tickNew = 0 /\ tickRel = {}
           /\ bad = ""
           /\ trail = <<>>

\* the batch of hook h in outcome entry o (key -> items)
BatchOf(o) == [i \in 1..Len(o[1]) |-> <<1, o[1][i]>>] \o [i \in 1..Len(o[2]) |-> <<2, o[2][i]>>]

\* one scheduled decision round: all hooks, any allowed outcome
Round ==
    /\ CanRun(Hooks)
    /\ \E o \in Allowed(Hooks, TRUE) :
        /\ pend' = [h \in Hooks |-> [k \in Keys |-> PendAfter(h, BatchOf(o[h]), k)]]
        /\ outn' = [h \in Hooks |-> [k \in Keys |-> outn[h][k] \o NewOf(h, BatchOf(o[h]), k)]]
        /\ dropped' = [h \in Hooks |-> [k \in Keys |-> dropped[h][k] \cup DroppedBy(h, BatchOf(o[h]), k)]]
        /\ last' = [h \in Hooks |-> [k \in Keys |->
                       IF Disc(kind[h]) = "snap" /\ o[h][k] # <<>> THEN o[h][k][Len(o[h][k])] ELSE last[h][k]]]
        /\ trail' = Append(trail, o)
    /\ UNCHANGED <<nh, kind, hist, inTick, tickHs, tickMust, tickNew, tickRel, bad, prog>>

Finished == ~CanRun(Hooks)
Done == Finished /\ UNCHANGED vars
Next == Round \/ Done
Spec == Init /\ [][Next]_vars

Emit == Finished => PrintT(<<"TRAIL", ToJson([prog |-> prog, trail |-> trail])>>)
\* every program runs to completion with everything released (stream hooks) / the newest
\* version shown (snapshot hooks)
Drained == Finished => \A h \in Hooks : \A k \in Keys : pend[h][k] = <<>>
=============================================================================
