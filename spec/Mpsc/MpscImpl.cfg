SPECIFICATION FairSpec
CONSTANTS
  NSend = 2
  Caps = {1, 2}
  DataKinds = {"send", "feed", "try"}
  MaxOps = 2
  Enders = {"drop", "keep"}
  RCloseAt = {1}
  NeverClose = TRUE
  SPURIOUS = FALSE
  MaxSpur = 0
  EMIT = FALSE
INVARIANTS C16Safety C16Wake ImplInv Emit
PROPERTIES SenderProgress RecvProgress Settles
CHECK_DEADLOCK FALSE
