\* default exhaustive configuration (the check writes tier-dependent ones into runs/cfg)
SPECIFICATION Spec
CONSTANTS
  NSend = 2
  Caps = {1, 2}
  DataKinds = {"send", "try"}
  MaxOps = 2
  Enders = {"drop", "keep"}
  RCloseAt = {1}
  NeverClose = TRUE
  SPURIOUS = FALSE
  MaxSpur = 0
  EMIT = FALSE
INVARIANTS C16Safety C16Wake ImplInv
CHECK_DEADLOCK FALSE
