----------------------------- MODULE MpscTrace -----------------------------
(* Trace validation of the real dfir_rs::util::unsync::mpsc channel against the Mpsc monitor.
   The trace (ndjson, path in env TRACE) is a concatenation of cases:
     {"e":"reset","case":k,"cap":c,"progs":[[["send",11],["drop",0]],..],"rclose":-1}
     {"e":"step","t":t,"op":"send","item":11,"r":"ok","v":0,"w":[0,2]}
           t = 0 is the receiver (op "recv" | "rclose"; r "item" | "pending" | "none" | "ok",
           v the received item); w = tasks whose wake flag is set after the call
     {"e":"panic","msg":..}
     {"e":"eof"}
   Property-level rule breaks are collected per case in `viol` and printed at eof.  Events no
   monitor action can consume (a harness inconsistency) leave the trace unaccepted. *)
EXTENDS Mpsc, TLC, Json, IOUtils

Rec == ndJsonDeserialize(IOEnv.TRACE)

VARIABLES l, case, viol, drift
tvars == <<mvars, l, case, viol, drift>>

Ev == Rec[l]

TInit ==
    /\ l = 1
    /\ case = 0
    /\ viol = {}
    /\ drift = {}
    /\ MInit(0, 0, <<>>, -1)

Consume == l <= Len(Rec) /\ l' = l + 1

SetOf(s) == {s[i] : i \in 1..Len(s)}

TReset == /\ Ev.e = "reset"
          /\ MReset(Len(Ev.progs), Ev.cap, Ev.progs, Ev.rclose)
          /\ case' = Ev.case
TStep == /\ Ev.e = "step"
         /\ MStep(Ev.t, Ev.op, Ev.item, Ev.r, Ev.v, SetOf(Ev.w))
         /\ UNCHANGED case
TPanic == /\ Ev.e = "panic" /\ MPanic /\ UNCHANGED case
TEof == /\ Ev.e = "eof" /\ UNCHANGED <<mvars, case>>
        /\ PrintT(<<"VIOL", ToJson(viol)>>) /\ PrintT(<<"DRIFT", ToJson(drift)>>)

TNext ==
    /\ Consume
    /\ (TReset \/ TStep \/ TPanic \/ TEof)
    /\ viol' = viol \cup {<<case', b>> : b \in Broken'}
    /\ drift' = drift \cup {<<case', o>> : o \in odd'}

TSpec == TInit /\ [][TNext]_tvars

TraceAccepted ==
    LET d == TLCGet("stats").diameter IN
    IF d - 1 = Len(Rec) THEN TRUE
    ELSE Print(<<"UNMATCHED-EVENT-AT-LINE", d, Rec[d]>>, FALSE)
=============================================================================
