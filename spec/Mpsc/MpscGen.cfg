\* generator: one CASE line per terminal state / per state breaking a rule (path cover via VIEW)
SPECIFICATION Spec
CONSTANTS
  NSend = 2
  Caps = {1}
  DataKinds = {"send", "feed"}
  MaxOps = 2
  Enders = {"drop"}
  RCloseAt = {}
  NeverClose = TRUE
  SPURIOUS = TRUE
  MaxSpur = 1
  EMIT = TRUE
INVARIANTS C16Safety C16Wake ImplInv Emit
VIEW NoHist
CHECK_DEADLOCK FALSE
