------------------------------- MODULE Mpsc -------------------------------
(* Abstract specification (property monitor) of the single-threaded (unsync) mpsc channel
   dfir_rs::util::unsync::mpsc (C16).

   A case is a closed system of tasks sharing one channel of capacity `cap` (0 = unbounded):
     task 0       the receiver: `loop { recv }` until None; if rclose >= 0 it calls
                  Receiver::close() once it has received `rclose` items and then drains.
     task 1..n    senders, each owning one Sender handle and running a program: a sequence
                  of ops <<kind, item>>:
                     "send"  poll the future returned by Sender::send(item) until Ready
                     "feed"  poll SinkExt::feed(item) (Sink::poll_ready + start_send) until Ready
                     "try"   one call of Sender::try_send(item)
                     "close" Sender::close_this_sender()
                     "drop"  drop the handle (always the last op; a program without it keeps
                             its handle alive forever)
   Every task has a wake flag (set by the Waker handed to its polls, cleared by the scheduler
   just before it polls the task).  One event = one step of one task:

     MStep(t, op, item, r, v, w)   task t executed op (for item) with result r (and received
                                   value v when r = "item"); afterwards the set of tasks whose
                                   wake flag is set is w.

   The channel's answers are a function of the abstract state (queue, capacity, which handles
   are alive, receiver closed); which task gets woken is the implementation's business.  The
   monitor therefore (1) checks every answer against the abstract queue -- FIFO, exactly once,
   capacity, consistent closure -- and (2) checks in every QUIESCENT state (no task that an
   executor is obliged to poll) that nobody is left waiting for something that is available:
   the safety form of "a waiting sender is eventually woken when capacity becomes available
   while the receiver keeps receiving".  The same module is composed with the
   implementation-shaped model MpscImpl (model checked) and driven by traces recorded from the
   real channel (MpscTrace). *)
EXTENDS Naturals, Integers, Sequences, FiniteSets

VARIABLES
    n,        \* number of sender tasks
    cap,      \* capacity, 0 = unbounded
    progs,    \* progs[t]: program of sender t
    rclose,   \* receiver closes after this many received items (-1: never)
    pcs,      \* pcs[t]: index of the next op of sender t
    st,       \* st[t] \in {"run", "wait", "done"}, t \in 0..n
    woken,    \* set of tasks whose wake flag is set
    abuf,     \* abstract queue: items sent successfully and not yet received
    alive,    \* sender handles neither dropped nor closed
    rclosed,  \* the receiver called close()
    rcvd,     \* items received so far, in order
    bad,      \* names of the answer-level rules broken so far in this case
    odd       \* answers that differ from the abstract channel without contradicting C16
              \* (e.g. Pending although there is room): reported as model drift only

mvars == <<n, cap, progs, rclose, pcs, st, woken, abuf, alive, rclosed, rcvd, bad, odd>>

Tasks == 0..n
Senders == 1..n

MInit(N, C, P, RC) ==
    /\ n = N /\ cap = C /\ progs = P /\ rclose = RC
    /\ pcs = [t \in 1..N |-> 1]
    /\ st = [t \in 0..N |-> IF t > 0 /\ Len(P[t]) = 0 THEN "done" ELSE "run"]
    /\ woken = {}
    /\ abuf = <<>>
    /\ alive = 1..N
    /\ rclosed = FALSE
    /\ rcvd = <<>>
    /\ bad = {}
    /\ odd = {}

MReset(N, C, P, RC) ==
    /\ n' = N /\ cap' = C /\ progs' = P /\ rclose' = RC
    /\ pcs' = [t \in 1..N |-> 1]
    /\ st' = [t \in 0..N |-> IF t > 0 /\ Len(P[t]) = 0 THEN "done" ELSE "run"]
    /\ woken' = {}
    /\ abuf' = <<>>
    /\ alive' = 1..N
    /\ rclosed' = FALSE
    /\ rcvd' = <<>>
    /\ bad' = {}
    /\ odd' = {}

Full == cap # 0 /\ Len(abuf) >= cap
HasRx(t) == ~rclosed /\ t \in alive          \* the handle's Weak can still be upgraded

\* what the next op of the receiver is
RecvOp == IF rclose >= 0 /\ ~rclosed /\ Len(rcvd) = rclose THEN "rclose" ELSE "recv"

\* The answer the abstract channel gives to a sender op
ExpectSend(t, kind) ==
    IF ~HasRx(t) THEN "closed"
    ELSE IF Full THEN (IF kind = "try" THEN "full" ELSE "pending")
    ELSE "ok"
ExpectRecv ==
    IF abuf # <<>> THEN "item"
    ELSE IF alive = {} \/ rclosed THEN "none" ELSE "pending"

Rules(S) == bad \cup {x \in S : x # ""}
If(c, name) == IF c THEN name ELSE ""

RemoveFirst(q, v) ==
    LET idx == {i \in 1..Len(q) : q[i] = v} IN
    IF idx = {} THEN q
    ELSE LET k == CHOOSE i \in idx : \A j \in idx : i <= j
         IN [i \in 1..(Len(q) - 1) |-> IF i < k THEN q[i] ELSE q[i + 1]]

(* One step of sender t. *)
MSender(t, op, item, r, w) ==
    /\ t \in Senders /\ st[t] # "done"
    /\ pcs[t] <= Len(progs[t])
    /\ progs[t][pcs[t]] = <<op, item>>
    /\ LET more == pcs[t] < Len(progs[t])
           fin == IF more THEN "run" ELSE "done"
       IN
       CASE op \in {"send", "feed", "try"} ->
              /\ r \in {"ok", "pending", "closed", "full"}
              /\ odd' = IF r # ExpectSend(t, op) THEN odd \cup {<<op, r, ExpectSend(t, op)>>} ELSE odd
              /\ bad' = Rules({
                    If(r = "ok" /\ ~HasRx(t), "send-ok-after-close"),
                    If(r = "ok" /\ HasRx(t) /\ Full, "send-ok-over-capacity"),
                    If(r = "closed" /\ HasRx(t), "send-closed-while-open"),
                    If(r \in {"pending", "full"} /\ ~HasRx(t), "send-not-told-of-closure")})
              /\ abuf' = IF r = "ok" THEN Append(abuf, item) ELSE abuf
              /\ st' = [st EXCEPT ![t] = IF r = "pending" THEN "wait" ELSE fin]
              /\ pcs' = [pcs EXCEPT ![t] = IF r = "pending" THEN @ ELSE @ + 1]
              /\ UNCHANGED alive
         [] op = "close" ->
              /\ r = "ok"
              /\ alive' = alive \ {t}
              /\ st' = [st EXCEPT ![t] = fin]
              /\ pcs' = [pcs EXCEPT ![t] = @ + 1]
              /\ UNCHANGED <<abuf, bad, odd>>
         [] op = "drop" ->
              /\ r = "ok"
              /\ alive' = alive \ {t}
              /\ st' = [st EXCEPT ![t] = "done"]
              /\ pcs' = [pcs EXCEPT ![t] = @ + 1]
              /\ UNCHANGED <<abuf, bad, odd>>
         [] OTHER -> FALSE
    /\ woken' = w
    /\ UNCHANGED <<n, cap, progs, rclose, rclosed, rcvd>>

(* One step of the receiver. *)
MRecv(op, r, v, w) ==
    /\ st[0] # "done"
    /\ op = RecvOp
    /\ CASE op = "recv" ->
              /\ r \in {"item", "pending", "none"}
              /\ odd' = IF r # ExpectRecv THEN odd \cup {<<op, r, ExpectRecv>>} ELSE odd
              /\ bad' = Rules({
                    If(r = "item" /\ (abuf = <<>> \/ Head(abuf) # v), "recv-not-head-of-queue"),
                    If(r = "none" /\ abuf # <<>>, "recv-none-with-items-queued"),
                    If(r = "none" /\ alive # {} /\ ~rclosed, "recv-none-while-senders-alive")})
              /\ abuf' = IF r = "item" THEN RemoveFirst(abuf, v) ELSE abuf
              /\ rcvd' = IF r = "item" THEN Append(rcvd, v) ELSE rcvd
              /\ st' = [st EXCEPT ![0] = CASE r = "item" -> "run" [] r = "pending" -> "wait"
                                              [] OTHER -> "done"]
              /\ UNCHANGED rclosed
         [] op = "rclose" ->
              /\ r = "ok"
              /\ rclosed' = TRUE
              /\ st' = [st EXCEPT ![0] = "run"]
              /\ UNCHANGED <<abuf, rcvd, bad, odd>>
         [] OTHER -> FALSE
    /\ woken' = w
    /\ UNCHANGED <<n, cap, progs, rclose, pcs, alive>>

MStep(t, op, item, r, v, w) ==
    IF t = 0 THEN MRecv(op, r, v, w) ELSE MSender(t, op, item, r, w)

\* the implementation panicked inside a call
MPanic ==
    /\ bad' = bad \cup {"panic"}
    /\ UNCHANGED <<n, cap, progs, rclose, pcs, st, woken, abuf, alive, rclosed, rcvd, odd>>

-----------------------------------------------------------------------------
(* Properties of C16 *)

NoRuleBroken == bad = {}

\* a task an executor is obliged to poll: it has work and is not waiting, or it was woken
Runnable(t) == st[t] = "run" \/ (st[t] = "wait" /\ t \in woken)
Quiescent == \A t \in Tasks : ~Runnable(t)

HasRoom == cap = 0 \/ Len(abuf) < cap

\* NoStrandedSender: nobody will ever be polled again, yet a sender waits although there is room
StrandedSenders == {t \in Senders : st[t] = "wait" /\ HasRx(t) /\ HasRoom}
NoStrandedSender == Quiescent => StrandedSenders = {}
\* ... or waits although the channel is closed for it (must be woken to be told)
NoSenderWaitingOnClosed == Quiescent => \A t \in Senders : st[t] = "wait" => HasRx(t)
\* the receiver sleeps although items are queued
NoRecvAsleepOnItems == Quiescent => ~(st[0] = "wait" /\ abuf # <<>>)
\* the receiver sleeps although every sender is gone (it must be woken to report None)
NoRecvAsleepOnClosed == Quiescent => ~(st[0] = "wait" /\ abuf = <<>> /\ (alive = {} \/ rclosed))

\* exactly once / FIFO as a state predicate: received items are distinct
NoDup == \A i, j \in 1..Len(rcvd) : i # j => rcvd[i] # rcvd[j]
\* capacity is respected
WithinCap == cap = 0 \/ Len(abuf) <= cap

C16Safety == NoRuleBroken /\ NoDup /\ WithinCap
C16Wake == NoStrandedSender /\ NoSenderWaitingOnClosed /\ NoRecvAsleepOnItems /\ NoRecvAsleepOnClosed

\* names of the property-level rules broken now
Broken ==
    bad
    \cup (IF NoDup THEN {} ELSE {"NoDup"})
    \cup (IF WithinCap THEN {} ELSE {"WithinCap"})
    \cup (IF NoStrandedSender THEN {} ELSE {"NoStrandedSender"})
    \cup (IF NoSenderWaitingOnClosed THEN {} ELSE {"NoSenderWaitingOnClosed"})
    \cup (IF NoRecvAsleepOnItems THEN {} ELSE {"NoRecvAsleepOnItems"})
    \cup (IF NoRecvAsleepOnClosed THEN {} ELSE {"NoRecvAsleepOnClosed"})
=============================================================================
