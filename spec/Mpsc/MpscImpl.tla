----------------------------- MODULE MpscImpl -----------------------------
(* Implementation-shaped model of dfir_rs/src/util/unsync/mpsc.rs, composed with the Mpsc
   monitor.  Fields as in `Shared<T>` / `Sender` / `Receiver`:
     ibuf     Shared.buffer            (VecDeque, push_back / pop_front)
     wakers   Shared.send_wakers       (SmallVec: one entry pushed per Pending poll -- duplicates
                                        are kept, exactly as the code keeps them; poll_recv
                                        wakes and removes ALL entries after popping a value)
     rwaker   Shared.recv_waker.is_some()
     weak     sender handles whose Weak still points at the live Rc (Receiver::close replaces
              the Rc, which invalidates all of them; close_this_sender / drop remove one, both
              after waking the receiver)
   One TLA+ step = one poll / call, which is atomic because the channel is single threaded.
   The scheduler polls a task that is runnable (has work and is not waiting, or waits and was
   woken) and -- constant SPURIOUS -- at most MaxSpur times per behaviour a task that waits and
   was NOT woken (executors, join!, select! do that legitimately).
   All configurations (capacity, programs, receiver close point) are chosen in Init. *)
EXTENDS Mpsc, TLC, Json

CONSTANTS NSend,      \* number of sender tasks
          Caps,       \* set of capacities, 0 = unbounded
          DataKinds,  \* subset of {"send", "feed", "try"}
          MaxOps,     \* data ops per sender program: 0..MaxOps
          Enders,     \* subset of {"drop", "close", "keep"}: how a program ends
          RCloseAt,   \* set of receiver close points (close after that many received items)
          NeverClose, \* TRUE: also the receiver that never closes (rclose = -1)
          SPURIOUS, MaxSpur,
          EMIT        \* record the schedule and print one CASE line per finished behaviour

VARIABLES ibuf, wakers, rwaker, weak, spur, hist
ivars == <<ibuf, wakers, rwaker, weak, spur, hist>>
vars == <<mvars, ivars>>
\* state identity for generator runs (cfg: VIEW NoHist): the recorded schedule is not part of it,
\* so every distinct channel state is expanded once and carries the (shortest) schedule by
\* which breadth-first search reached it first
NoHist == <<mvars, ibuf, wakers, rwaker, weak, spur>>

RCloses == RCloseAt \cup (IF NeverClose THEN {-1} ELSE {})
DataSeqs == UNION {[1..k -> DataKinds] : k \in 0..MaxOps}
EndSeq(e) == IF e = "keep" THEN <<>> ELSE <<e>>
Shapes == {d \o EndSeq(e) : d \in DataSeqs, e \in Enders}
Instantiate(t, sh) ==
    [i \in 1..Len(sh) |-> <<sh[i], IF sh[i] \in {"send", "feed", "try"} THEN t * 10 + i ELSE 0>>]

Init ==
    /\ \E c \in Caps, rc \in RCloses, sh \in [1..NSend -> Shapes] :
          MInit(NSend, c, [t \in 1..NSend |-> Instantiate(t, sh[t])], rc)
    /\ ibuf = <<>>
    /\ wakers = <<>>
    /\ rwaker = FALSE
    /\ weak = 1..NSend
    /\ spur = 0
    /\ hist = <<>>

Range(s) == {s[i] : i \in 1..Len(s)}
IFull == cap # 0 /\ cap <= Len(ibuf)     \* capacity.is_some_and(|cap| cap.get() <= buffer.len())

Record(t, op, item, r, v, w) ==
    hist' = IF EMIT THEN Append(hist, [t |-> t, op |-> op, item |-> item, r |-> r, v |-> v, w |-> w,
                                        sp |-> ~Runnable(t)])     \* sp: a spurious poll
            ELSE hist

(* Sender::send (one poll of the poll_fn), Sink::poll_ready + start_send (one poll of
   SinkExt::feed), Sender::try_send, close_this_sender, Drop for Sender. *)
SenderStep(t) ==
    LET op == progs[t][pcs[t]]
        kind == op[1]
        item == op[2]
        fl == woken \ {t}                       \* the executor cleared t's flag before polling
        open == t \in weak                      \* Weak::upgrade succeeds
        isData == kind \in {"send", "feed", "try"}
        r == CASE kind \in {"send", "feed"} ->
                    IF ~open THEN "closed" ELSE IF IFull THEN "pending" ELSE "ok"
               [] kind = "try" ->
                    IF ~open THEN "closed" ELSE IF IFull THEN "full" ELSE "ok"
               [] OTHER -> "ok"
        \* wake_receiver() is called after a push, and by Drop and close_this_sender (if the
        \* upgrade succeeds) before the Weak goes away
        wakesRx == (isData /\ r = "ok") \/ (kind \in {"drop", "close"} /\ open)
        w == IF wakesRx /\ rwaker THEN fl \cup {0} ELSE fl
    IN /\ ibuf' = IF isData /\ r = "ok" THEN Append(ibuf, item) ELSE ibuf
       /\ wakers' = IF r = "pending" THEN Append(wakers, t) ELSE wakers
       /\ rwaker' = IF wakesRx THEN FALSE ELSE rwaker
       /\ weak' = IF kind \in {"drop", "close"} THEN weak \ {t} ELSE weak
       /\ MSender(t, kind, item, r, w)
       /\ Record(t, kind, item, r, 0, w)

(* Receiver::poll_recv and Receiver::close *)
RecvStep ==
    LET fl == woken \ {0} IN
    IF RecvOp = "rclose" THEN
        \* wake_all_senders; new Shared { buffer: take(buffer), ..Default }; old Rc dropped
        /\ wakers' = <<>> /\ weak' = {} /\ rwaker' = FALSE /\ ibuf' = ibuf
        /\ MRecv("rclose", "ok", 0, fl \cup Range(wakers))
        /\ Record(0, "rclose", 0, "ok", 0, fl \cup Range(wakers))
    ELSE IF ibuf # <<>> THEN
        \* pop_front; wake_all_senders drains send_wakers (stale entries cannot eat the wake-up)
        LET w == fl \cup Range(wakers) IN
        /\ ibuf' = Tail(ibuf)
        /\ wakers' = <<>>
        /\ UNCHANGED <<rwaker, weak>>
        /\ MRecv("recv", "item", Head(ibuf), w)
        /\ Record(0, "recv", 0, "item", Head(ibuf), w)
    ELSE IF weak = {} THEN                     \* 0 == Rc::weak_count
        /\ UNCHANGED <<ibuf, wakers, rwaker, weak>>
        /\ MRecv("recv", "none", 0, fl)
        /\ Record(0, "recv", 0, "none", 0, fl)
    ELSE
        /\ rwaker' = TRUE
        /\ UNCHANGED <<ibuf, wakers, weak>>
        /\ MRecv("recv", "pending", 0, fl)
        /\ Record(0, "recv", 0, "pending", 0, fl)

CanSpur(t) == SPURIOUS /\ spur < MaxSpur /\ st[t] = "wait" /\ t \notin woken
CanStep(t) == Runnable(t) \/ CanSpur(t)

Sched(t) ==
    /\ CanStep(t)
    /\ spur' = IF Runnable(t) THEN spur ELSE spur + 1
SendTask(t) == Sched(t) /\ SenderStep(t)
RecvTask == Sched(0) /\ RecvStep
Step(t) == IF t = 0 THEN RecvTask ELSE SendTask(t)

\* only the polls an executor is obliged to make (for fairness)
Due(t) == Runnable(t) /\ Step(t)

Terminal == \A t \in Tasks : ~CanStep(t)
Done == ~EMIT /\ Terminal /\ UNCHANGED vars     \* generator runs end in a deadlock instead

Next == (\E t \in 1..NSend : SendTask(t)) \/ RecvTask \/ Done
Spec == Init /\ [][Next]_vars
FairSpec == Spec /\ \A t \in 0..NSend : WF_vars(Due(t))

-----------------------------------------------------------------------------
\* the implementation state refines the abstract state
ImplInv ==
    /\ ibuf = abuf
    /\ weak = (IF rclosed THEN {} ELSE alive)
    /\ Range(wakers) \subseteq Senders
    /\ odd = {}

\* liveness under weak fairness of the due polls (finite programs)
SenderProgress == \A t \in 1..NSend : (st[t] = "wait") ~> (st[t] # "wait")
RecvProgress == (st[0] = "wait" /\ (abuf # <<>> \/ alive = {})) ~> (st[0] # "wait")
Settles == <>[]Quiescent

\* generator output: one line per terminal state
Emit == (EMIT /\ Terminal) =>
          PrintT(<<"CASE", ToJson([cap |-> cap, progs |-> progs, rclose |-> rclose, steps |-> hist])>>)
=============================================================================
