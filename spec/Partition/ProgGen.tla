------------------------------ MODULE ProgGen ------------------------------
(* Generator of ALL tiny DFIR programs over a small operator alphabet chosen to span the cases the
   partitioner distinguishes: colours (source/sink/unary/fan-in/fan-out), delays (defer_tick,
   defer_tick_lazy), references (singleton + a reader), unary union/tee (rewrite), loops (batch /
   all_iterations).  A program is abstract: operator kinds, for every input port the producing
   node, a loop flag per node, a reference target per reader.  The driver renders it as DFIR
   source text; the real compiler decides what it makes of it (many are rejected by the flat graph
   builder or contain same-tick cycles -- that is intended).

   One initial state = one program; the invariant Emit prints it.  Thin > 1 keeps the programs whose
   arithmetic hash is 0 modulo Thin (deterministic sampling of the MaxK-operator programs; smaller ones are all kept). *)
EXTENDS Naturals, Integers, Sequences, FiniteSets, TLC, Json

CONSTANTS MinK, MaxK, \* number of operators: MinK..MaxK
          Thin,     \* keep 1/Thin of the programs
          Ordered   \* TRUE: every order of operator kinds, FALSE: non-decreasing kind index only

\* kind -> <<name, number of inputs, allowed numbers of outputs>>
Alphabet == <<
    <<"src", 0, {1}>>,
    <<"map", 1, {1}>>,
    <<"union1", 1, {1}>>,
    <<"union", 2, {1}>>,
    <<"tee1", 1, {1}>>,
    <<"tee", 1, {2}>>,
    <<"join", 2, {1}>>,
    <<"fold", 1, {0, 1}>>,
    <<"dt", 1, {1}>>,
    <<"dtl", 1, {1}>>,
    <<"sink", 1, {0}>>,
    <<"sing", 1, {0, 1}>>,
    <<"mapref", 1, {1}>>,
    <<"batch", 1, {1}>>,
    <<"alliter", 1, {1}>>
>>
A == 1..Len(Alphabet)
Name(a) == Alphabet[a][1]
NIn(a) == Alphabet[a][2]
Outs(a) == Alphabet[a][3]

VARIABLES prog
vars == <<prog>>

KindSeqs(K) == IF Ordered THEN [1..K -> A] ELSE {ks \in [1..K -> A] : \A i \in 1..(K - 1) : ks[i] <= ks[i + 1]}

\* all wirings: for node i a tuple of producers, one per input port
RECURSIVE Wirings(_, _, _)
Wirings(K, ks, i) ==
    IF i > K THEN {<<>>}
    ELSE {<<w>> \o rest : w \in [1..NIn(ks[i]) -> 1..K], rest \in Wirings(K, ks, i + 1)}

OutDeg(K, ks, ws, x) == Cardinality({<<i, p>> \in (1..K) \X (1..2) : p <= NIn(ks[i]) /\ ws[i][p] = x})

RECURSIVE Sum(_, _)
Sum(f, i) == IF i = 0 THEN 0 ELSE f[i] + Sum(f, i - 1)
Hash(K, ks, ws, lp, rf) ==
    Sum([i \in 1..K |-> (i * i + 1) * (ks[i] * 3 + lp[i] * 7 + rf[i] * 11 + Sum([p \in 1..NIn(ks[i]) |-> (p + 1) * ws[i][p]], NIn(ks[i])))], K)

LoopOK(K, ks, ws, lp) ==
    \A i \in 1..K :
        LET nm == Name(ks[i]) IN
        IF nm = "src" THEN lp[i] = 0
        ELSE IF nm = "batch" THEN lp[i] = 1 /\ lp[ws[i][1]] = 0
        ELSE IF nm = "alliter" THEN lp[i] = 0 /\ lp[ws[i][1]] = 1
        ELSE \A p \in 1..NIn(ks[i]) : lp[ws[i][p]] = lp[i]

Init ==
    \E K \in MinK..MaxK :
    \E ks \in KindSeqs(K) :
      \E ws \in Wirings(K, ks, 1) :
        /\ \A x \in 1..K : OutDeg(K, ks, ws, x) \in Outs(ks[x])
        /\ \E lp \in [1..K -> {0, 1}] :
             /\ LoopOK(K, ks, ws, lp)
             /\ LET sings == {i \in 1..K : Name(ks[i]) = "sing"} IN
                \E rf \in [1..K -> sings \cup {0}] :
                  /\ \A i \in 1..K : (Name(ks[i]) = "mapref") = (rf[i] # 0)
                  /\ (Thin <= 1 \/ K < MaxK \/ Hash(K, ks, ws, lp, rf) % Thin = 0)
                  /\ prog = [ops |-> [i \in 1..K |-> Name(ks[i])], src |-> ws, loop |-> lp, ref |-> rf]

Next == UNCHANGED vars
Spec == Init /\ [][Next]_vars

Emit == PrintT(<<"PROG", ToJson(prog)>>)
=============================================================================
