------------------------- MODULE PartitionAlgoTrace -------------------------
(* Runs the implementation-shaped partitioner model (PartitionAlgo) on the flat graph of every recorded
   program that reached partition_graph, and prints
     MVIOL  = {<<program, C18/C19 rule broken by the MODEL's outcome>>}   (design level)
     MDRIFT = {<<program, difference between the model's and the real partitioner's outcome>>}
     MSTAT  = number of programs the model was run on *)
EXTENDS PartitionAlgo, Json, IOUtils

Rec == ndJsonDeserialize(IOEnv.TRACE)
VARIABLES l, mviol, mdrift, cnt
tvars == <<mvars, l, mviol, mdrift, cnt>>
Ev == Rec[l]

TInit == l = 1 /\ mviol = {} /\ mdrift = {} /\ cnt = 0 /\ MInit
Consume == l <= Len(Rec) /\ l' = l + 1
Reached(r) == r.verdict \in {"ok", "err", "panic"}
TProg == /\ Ev.e = "prog"
         /\ IF Reached(Ev)
            THEN /\ mviol' = mviol \cup {<<Ev.id, b>> : b \in ModelRules(Ev)}
                 /\ mdrift' = mdrift \cup {<<Ev.id, b>> : b \in ModelVsCode(Ev)}
                 /\ cnt' = cnt + 1
            ELSE UNCHANGED <<mviol, mdrift, cnt>>
         /\ UNCHANGED mvars
TEof == /\ Ev.e = "eof" /\ UNCHANGED <<mvars, mviol, mdrift, cnt>>
        /\ PrintT(<<"MVIOL", ToJson(mviol)>>) /\ PrintT(<<"MDRIFT", ToJson(mdrift)>>) /\ PrintT(<<"MSTAT", cnt>>)
TNext == Consume /\ (TProg \/ TEof)
TSpec == TInit /\ [][TNext]_tvars

TraceAccepted ==
    LET d == TLCGet("stats").diameter IN
    IF d - 1 = Len(Rec) THEN TRUE
    ELSE Print(<<"UNMATCHED-EVENT-AT-LINE", d>>, FALSE)
=============================================================================
