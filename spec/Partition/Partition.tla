------------------------------ MODULE Partition ------------------------------
(* Relational specification of the DFIR graph compiler's structure-level obligations
   (C18 partitioning is well-formed, C19 exact rejection of same-tick cycles, C20 rewrites and
   serialization preserve the dataflow).  Nothing here says HOW to partition; it says which
   partitioned graphs are acceptable for a given flat graph.

   Inputs are graph dumps made through the public DfirGraph API (harness hv_graph::dump_graph):
     g.nodes : seq of [id, kind ("op"|"hoff"|"mod"), name, text, label, hk, loop (0 = root), sg (0 = none),
                       delay (handoff mark: ""|"tick"|"ticklazy"|"loop"|"looplazy"), inst, refs: seq of
                       [t (target id, 0 unresolved), mut, grp (-1 = none)], din, dout, fp (forced push)]
     g.edges : seq of [id, s, d, sp, dp, delay ("" | delay the destination operator declares for port dp)]
     g.loops : seq of [id, parent (0 = root level), nodes]
     g.sgs   : seq of [id, nodes (in order), loop]
     g.topo  : seq of subgraph ids
   One record per compiled program:
     r.G  flat graph from FlatGraphBuilder;  r.G1 after merge_modules + unary union/tee removal;
     r.P  partitioned graph;  r.P2 after serde round trip + insert_node_op_insts_all;
     r.GM flat graph with module boundaries spliced in and merged away again;
     r.stage / r.verdict ("ok"|"err"|"panic") / r.cyc (labels of the reported cycle) / r.codegen / ... *)
EXTENDS Naturals, Integers, Sequences, FiniteSets

Range(s) == {s[i] : i \in 1..Len(s)}
Rule(cond, name) == IF cond THEN {name} ELSE {}
PosIn(s, x) == CHOOSE i \in 1..Len(s) : s[i] = x

-----------------------------------------------------------------------------
(* Views: lookup tables over one dump *)
View(g) ==
    LET ns == Range(g.nodes)
        ids == {n.id : n \in ns}
        ls == Range(g.loops)
        lids == {x.id : x \in ls}
    IN [ns |-> ns,
        es |-> Range(g.edges),
        ids |-> ids,
        nm |-> [i \in ids |-> CHOOSE n \in ns : n.id = i],
        ops |-> {n.id : n \in {m \in ns : m.kind = "op"}},
        hoffs |-> {n.id : n \in {m \in ns : m.kind = "hoff"}},
        lids |-> lids,
        lp |-> [l \in lids |-> (CHOOSE x \in ls : x.id = l).parent],
        g |-> g]

RECURSIVE AncSelf(_, _)
\* the contexts enclosing loop l, itself included, the root context 0 included
AncSelf(lp, l) == IF l = 0 THEN {0} ELSE {l} \cup AncSelf(lp, lp[l])

Ctx(v, x) == v.nm[x].loop
InSub(v, anc, x, C) == C \in anc[Ctx(v, x)]
\* the vertex of context C's block graph that node x belongs to: itself, or (negated id of) the child loop of C
Lift(v, anc, x, C) ==
    IF Ctx(v, x) = C THEN x
    ELSE 0 - (CHOOSE c \in anc[Ctx(v, x)] \ {0} : v.lp[c] = C)

RECURSIVE Peel(_, _)
\* Kahn: what is left after repeatedly removing vertices without incoming edges
Peel(V, E) ==
    LET tgt == {e[2] : e \in E}
        src == V \ tgt
    IN IF src = {} \/ V = {} THEN V ELSE Peel(V \ src, {e \in E : e[1] \notin src})
CyclicK(V, E) == Peel(V, {e \in E : e[1] \in V /\ e[2] \in V}) # {}

-----------------------------------------------------------------------------
(* Same-tick dependencies (C19).  Vertices are node ids (explicit handoffs included). *)
PipeDeps(v) == {<<e.s, e.d>> : e \in {f \in v.es : f.delay = ""}}
RefPairs(v) ==   \* <<reader, target, group>>
    UNION {{<<n.id, n.refs[i].t, n.refs[i].grp>> : i \in {j \in 1..Len(n.refs) : n.refs[j].t # 0}} : n \in v.ns}
RefDeps(v) == {<<rp[2], rp[1]>> : rp \in RefPairs(v)}
\* a reader must see a referenced handoff before its same-tick pipe consumer drains it
RefConsumerDeps(v) ==
    UNION {{<<rp[1], e.d>> : e \in {f \in v.es : f.s = rp[2] /\ f.delay = ""}} : rp \in RefPairs(v)}
\* readers of one target: lower access group first
AccessDeps(v) ==
    LET rps == RefPairs(v) IN
    {<<q[1][1], q[2][1]>> : q \in {w \in rps \X rps : w[1][2] = w[2][2] /\ w[2][3] > w[1][3]}}
Deps(v) == PipeDeps(v) \cup RefDeps(v) \cup RefConsumerDeps(v) \cup AccessDeps(v)

\* used only to classify a disagreement (fingerprints): the reader->consumer ordering taken for EVERY
\* consumer edge of a referenced handoff, also a delayed one (which drains last tick's buffer)
RefConsumerDepsAll(v) == UNION {{<<rp[1], e.d>> : e \in {f \in v.es : f.s = rp[2]}} : rp \in RefPairs(v)}

AncTable(v) == [l \in v.lids \cup {0} |-> AncSelf(v.lp, l)]

(* A loop must run as one contiguous block, so a same-tick cycle is a cycle of the block graph of
   some context: vertices = the context's own nodes and its child loops (each one block). *)
BlockCyclic(v, anc, D, C) ==
    LET inC == {x \in v.ids : InSub(v, anc, x, C)}
        DC == {d \in D : d[1] \in inC /\ d[2] \in inC}
        QE == {q \in {<<Lift(v, anc, d[1], C), Lift(v, anc, d[2], C)>> : d \in DC} : q[1] # q[2]}
        V == {Lift(v, anc, x, C) : x \in inC}
    IN CyclicK(V, QE)

AcceptD(v, D) ==
    LET anc == AncTable(v) IN
    /\ \A d \in D : d[1] # d[2]
    /\ \A C \in v.lids \cup {0} : ~BlockCyclic(v, anc, D, C)
Accept(v) == AcceptD(v, Deps(v))

(* node-level form of the same relation, used to validate a reported cycle: a dependency between two
   blocks orders every node of the one block before every node of the other *)
CommonCtx(v, anc, a, b) ==
    LET cs == anc[Ctx(v, a)] \cap anc[Ctx(v, b)]
    IN CHOOSE c \in cs : \A c2 \in cs : c2 \in anc[c]
BlockOf(v, anc, x, C) ==
    IF Ctx(v, x) = C THEN {x}
    ELSE LET ch == 0 - Lift(v, anc, x, C) IN {y \in v.ids : ch \in anc[Ctx(v, y)]}
HDepsD(v, D) ==
    LET anc == AncTable(v) IN
    UNION {LET C == CommonCtx(v, anc, d[1], d[2]) IN BlockOf(v, anc, d[1], C) \X BlockOf(v, anc, d[2], C) : d \in D}

RECURSIVE WalkSets(_, _, _, _, _)
\* nodes reachable from `cur` by a walk spelling labels lab[i..] along E
WalkSets(v, E, lab, i, cur) ==
    IF i > Len(lab) THEN cur
    ELSE WalkSets(v, E, lab, i + 1, {e[2] : e \in {f \in E : f[1] \in cur /\ v.nm[f[2]].label = lab[i]}})
ClosedWalk(v, E, lab) ==
    \E s \in {x \in v.ids : v.nm[x].label = lab[1]} :
        LET last == WalkSets(v, E, lab, 2, {s}) IN \E z \in last : <<z, s>> \in E
CycleLabelsOK(v, D, lab) ==
    LET H == HDepsD(v, D)
        rev == [i \in 1..Len(lab) |-> lab[Len(lab) + 1 - i]]
    IN Len(lab) >= 1 /\ (ClosedWalk(v, H, lab) \/ ClosedWalk(v, H, rev))

C19Rules(r) ==
    LET v == View(r.G1)
        acc == Accept(v)
        rejected == r.verdict = "err" \/ (r.verdict = "panic" /\ r.refpanic)
        \* classes of disagreement (for fingerprints only)
        sameCtx == {d \in Deps(v) : Ctx(v, d[1]) = Ctx(v, d[2])} \cup PipeDeps(v)
        clsAcc == IF AcceptD(v, sameCtx) THEN "-closed-only-by-a-reference-across-loop-contexts" ELSE ""
        clsRej == IF ~AcceptD(v, Deps(v) \cup RefConsumerDepsAll(v))
                  THEN "-reader-ordered-before-delayed-consumer-of-referenced-handoff" ELSE ""
    IN Rule(r.verdict = "ok" /\ ~acc, "C19:accepted-a-graph-with-a-same-tick-cycle" \o clsAcc)
       \cup Rule(rejected /\ acc, "C19:rejected-a-graph-without-same-tick-cycle" \o clsRej)
       \cup Rule(r.verdict = "panic" /\ ~r.refpanic /\ ~acc, "C19:panic-instead-of-cycle-diagnostic")
       \cup Rule(r.verdict = "err" /\ ~acc /\ r.cycok /\ ~CycleLabelsOK(v, Deps(v), r.cyc),
                 "C19:reported-cycle-is-not-a-cycle-of-the-dependencies"
                 \o (IF CycleLabelsOK(v, Deps(v) \cup RefConsumerDepsAll(v), r.cyc)
                     THEN "-it-orders-reader-before-delayed-consumer-of-referenced-handoff" ELSE ""))

-----------------------------------------------------------------------------
(* C18: WellFormed(G1, P) *)
Color(n) ==
    IF n.kind = "hoff" THEN "hoff"
    ELSE IF n.fp THEN "push"
    ELSE IF n.din = 0 /\ n.dout = 0 THEN "none"
    ELSE IF n.din = 0 /\ n.dout = 1 THEN "pull"
    ELSE IF n.din = 1 /\ n.dout = 0 THEN "push"
    ELSE IF n.din = 1 /\ n.dout = 1 THEN "none"
    ELSE IF n.dout <= 1 THEN "pull"
    ELSE IF n.din <= 1 THEN "push"
    ELSE "comp"

\* 1. operators partitioned into non-empty subgraphs, handoffs in none, same operators as the flat graph
Partitioned(v1, vp) ==
    LET sgs == Range(vp.g.sgs) IN
    /\ vp.ops = v1.ops
    /\ \A x \in v1.ops : vp.nm[x].text = v1.nm[x].text /\ vp.nm[x].loop = v1.nm[x].loop
    /\ v1.hoffs \subseteq vp.hoffs
    /\ \A h \in vp.hoffs : vp.nm[h].sg = 0 /\ \A s \in sgs : h \notin Range(s.nodes)
    /\ \A s \in sgs : Len(s.nodes) > 0 /\ Cardinality(Range(s.nodes)) = Len(s.nodes)
    /\ \A x \in vp.ops : /\ vp.nm[x].sg # 0
                         /\ Cardinality({s \in sgs : x \in Range(s.nodes)}) = 1
                         /\ \A s \in sgs : x \in Range(s.nodes) => s.id = vp.nm[x].sg
    /\ \A s \in sgs : Range(s.nodes) \subseteq vp.ops
    /\ Cardinality({s.id : s \in sgs}) = Len(vp.g.sgs)

\* 2. one loop context per subgraph
OneLoop(vp) == \A s \in Range(vp.g.sgs) : \A x \in Range(s.nodes) : x \in vp.ids => vp.nm[x].loop = s.loop

\* 3. pipeline shape required by code generation: nodes before the pivot form a pull in-tree ending at
\*    the pivot, nodes from the pivot on form a push out-tree; all internal edges go forward.
PivotIdx(vp, S) ==
    LET forced == {i \in 1..Len(S) : Color(vp.nm[S[i]]) \notin {"none", "pull"}}
    IN IF forced = {} THEN Len(S) + 1 ELSE CHOOSE i \in forced : \A j \in forced : i <= j

ShapeOK(vp, S) ==
    LET piv == PivotIdx(vp, S)
        idx == [x \in Range(S) |-> PosIn(S, x)]
        inS(x) == x \in Range(S)
        isH(x) == x \in vp.hoffs
        ins(x) == {e \in vp.es : e.d = x}
        outs(x) == {e \in vp.es : e.s = x}
        sends == {e \in vp.es : inS(e.s) /\ isH(e.d)}
    IN /\ \A i \in 1..Len(S) : i < piv =>
            LET x == S[i] IN
            /\ \A e \in ins(x) : isH(e.s) \/ (inS(e.s) /\ idx[e.s] < i)
            /\ Cardinality(outs(x)) = 1
            /\ \A e \in outs(x) :
                 IF i < piv - 1 THEN inS(e.d) /\ idx[e.d] > i /\ idx[e.d] < piv
                 ELSE IF piv <= Len(S) THEN e.d = S[piv]
                 ELSE isH(e.d) /\ Cardinality(sends) = 1
       /\ \A i \in 1..Len(S) : i >= piv =>
            LET x == S[i] IN
            /\ Cardinality(ins(x)) = 1
            /\ \A e \in ins(x) :
                 IF i = piv THEN (IF piv > 1 THEN e.s = S[piv - 1] ELSE isH(e.s))
                 ELSE inS(e.s) /\ idx[e.s] >= piv /\ idx[e.s] < i
            /\ \A e \in outs(x) : isH(e.d) \/ (inS(e.d) /\ idx[e.d] > i)
       /\ \A i \in 1..Len(S) : Color(vp.nm[S[i]]) # "comp"

Shape(vp) == \A s \in Range(vp.g.sgs) : (Range(s.nodes) \subseteq vp.ids /\ Len(s.nodes) > 0) => ShapeOK(vp, s.nodes)

\* 4. every edge of the flat graph is internal to one subgraph or replaced by exactly one fresh Vec handoff
EKey(e) == <<e.s, e.d, e.sp, e.dp>>
CountKey(S, k) == Cardinality({e \in S : EKey(e) = k})
EdgesHandoffs(v1, vp) ==
    LET fresh == vp.hoffs \ v1.hoffs
        old1 == {e \in v1.es : e.s \in v1.hoffs \/ e.d \in v1.hoffs}
        oldp == {e \in vp.es : e.s \in v1.hoffs \/ e.d \in v1.hoffs}
        flat == v1.es \ old1
        direct == {e \in vp.es : e.s \in vp.ops /\ e.d \in vp.ops}
        inOf(h) == {e \in vp.es : e.d = h}
        outOf(h) == {e \in vp.es : e.s = h}
        viaKeys == {<<h, (CHOOSE e \in inOf(h) : TRUE), (CHOOSE e \in outOf(h) : TRUE)>> :
                        h \in {x \in fresh : Cardinality(inOf(x)) = 1 /\ Cardinality(outOf(x)) = 1}}
        via(k) == Cardinality({t \in viaKeys : <<t[2].s, t[3].d, t[2].sp, t[3].dp>> = k})
    IN /\ \A h \in fresh : /\ vp.nm[h].hk = "vec"
                           /\ Cardinality(inOf(h)) = 1 /\ Cardinality(outOf(h)) = 1
                           /\ \A e \in inOf(h) : e.s \in vp.ops /\ e.dp = "_"
                           /\ \A e \in outOf(h) : e.d \in vp.ops /\ e.sp = "_"
       /\ {<<EKey(e), CountKey(old1, EKey(e))>> : e \in old1} = {<<EKey(e), CountKey(oldp, EKey(e))>> : e \in oldp}
       /\ \A e \in direct : vp.nm[e.s].sg = vp.nm[e.d].sg
       /\ \A k \in {EKey(e) : e \in flat} \cup {EKey(e) : e \in direct} :
             CountKey(flat, k) = CountKey(direct, k) + via(k)
       /\ Cardinality(vp.es) = Cardinality(oldp) + Cardinality(direct) + 2 * Cardinality(fresh)
       /\ \A e \in vp.es : ~(e.s \in vp.hoffs /\ e.d \in vp.hoffs)

\* 5. delayed inputs cross a handoff carrying the declared delay (remapped inside nested loops); no other mark
Remap(vp, d, consumer) ==
    LET l == vp.nm[consumer].loop IN
    IF l # 0 /\ vp.lp[l] # 0
    THEN (IF d = "tick" THEN "loop" ELSE IF d = "ticklazy" THEN "looplazy" ELSE d)
    ELSE d
DelayMarks(vp) ==
    /\ \A e \in vp.es : e.delay # "" => e.s \in vp.hoffs
    /\ \A h \in vp.hoffs :
          LET outs == {e \in vp.es : e.s = h /\ e.delay # ""} IN
          IF outs = {} THEN vp.nm[h].delay = ""
          ELSE \A e \in outs : vp.nm[h].delay = Remap(vp, e.delay, e.d)

\* operator-level dependencies: handoffs skipped
OpDeps(v) ==
    LET D == Deps(v) IN
    {d \in D : d[1] \in v.ops /\ d[2] \in v.ops}
    \cup UNION {{<<a[1], b[2]>> : b \in {c \in D : c[1] = a[2] /\ c[2] \in v.ops}} :
                    a \in {c \in D : c[1] \in v.ops /\ c[2] \in v.hoffs}}
RefOpDeps(v) ==     \* dependencies that force different subgraphs: producer -> reader, access order
    LET prod(t) == {e.s : e \in {f \in v.es : f.d = t}} IN
    UNION {{<<p, rp[1]>> : p \in prod(rp[2])} : rp \in RefPairs(v)} \cup AccessDeps(v)

\* 6. reference producer and reader (and readers of different access groups) in different subgraphs
RefsSeparated(v1, vp) == \A d \in RefOpDeps(v1) : (d[1] \in vp.ops /\ d[2] \in vp.ops) => vp.nm[d[1]].sg # vp.nm[d[2]].sg

\* 7. subgraph order
TopoPerm(vp) == /\ Len(vp.g.topo) = Len(vp.g.sgs)
                /\ Range(vp.g.topo) = {s.id : s \in Range(vp.g.sgs)}
SgPos(vp, x) == PosIn(vp.g.topo, vp.nm[x].sg)
OrderViolations(v1, vp) ==
    {d \in OpDeps(v1) : /\ d[1] \in vp.ops /\ d[2] \in vp.ops
                        /\ vp.nm[d[1]].sg # vp.nm[d[2]].sg
                        /\ ~(SgPos(vp, d[1]) < SgPos(vp, d[2]))}
LoopsContiguous(vp, anc) ==
    \A L \in vp.lids :
        LET sgl == [s \in {x.id : x \in Range(vp.g.sgs)} |-> (CHOOSE x \in Range(vp.g.sgs) : x.id = s).loop]
            ps == {i \in 1..Len(vp.g.topo) : L \in anc[sgl[vp.g.topo[i]]]}
        IN \A i, j \in ps : \A m \in (i + 1)..(j - 1) : m \in ps

\* classification of an order violation (for fingerprints)
PipeOpDeps(v) ==
    LET D == PipeDeps(v) IN
    {d \in D : d[1] \in v.ops /\ d[2] \in v.ops}
    \cup UNION {{<<a[1], b[2]>> : b \in {c \in D : c[1] = a[2] /\ c[2] \in v.ops}} :
                    a \in {c \in D : c[1] \in v.ops /\ c[2] \in v.hoffs}}
DepKind(v1, d) ==
    LET ref == d \in RefOpDeps(v1)
        rc == d \in RefConsumerDeps(v1) /\ d \notin PipeOpDeps(v1)
        intoLoop == v1.nm[d[2]].loop # 0 /\ v1.nm[d[1]].loop # v1.nm[d[2]].loop
    IN (IF ref THEN "reference" ELSE IF rc THEN "reference-reader-before-consumer" ELSE "pipe")
       \o (IF intoLoop THEN "-into-loop" ELSE "")

C18Rules(r) ==
    LET v1 == View(r.G1)
        vp == View(r.P)
        anc == AncTable(vp)
        part == Partitioned(v1, vp)
    IN IF ~part THEN {"C18:operators-not-partitioned-into-subgraphs"}
       ELSE Rule(~OneLoop(vp), "C18:subgraph-spans-loop-contexts")
            \cup Rule(~Shape(vp), "C18:subgraph-is-not-a-pull-then-push-pipeline")
            \cup Rule(~EdgesHandoffs(v1, vp), "C18:edge-not-internal-or-one-handoff")
            \cup Rule(~DelayMarks(vp), "C18:delayed-input-handoff-mark-wrong")
            \cup Rule(~RefsSeparated(v1, vp), "C18:reference-producer-and-reader-in-one-subgraph")
            \cup (IF ~TopoPerm(vp) THEN {"C18:toposort-not-a-permutation-of-subgraphs"}
                  ELSE {"C18:order-" \o DepKind(v1, d) \o "-producer-not-before-consumer" : d \in OrderViolations(v1, vp)}
                       \cup Rule(~LoopsContiguous(vp, anc), "C18:loop-subgraphs-not-contiguous"))

-----------------------------------------------------------------------------
(* C20: rewrites and serialization preserve the dataflow *)
NodeSig(n) == <<n.id, n.kind, n.name, n.text, n.hk, n.loop, n.refs>>
EdgeBag(es) == {<<EKey(e), CountKey(es, EKey(e))>> : e \in es}

\* the 1-in/1-out unions and tees that the rewrite contracts; one whose single input is its own output
\* cannot be spliced out and must stay untouched (the partitioner then reports the same-tick cycle)
Unary(v) == {x \in v.ops : /\ v.nm[x].name \in {"union", "tee"} /\ v.nm[x].din = 1 /\ v.nm[x].dout = 1
                           /\ \A e \in v.es : e.d = x => e.s # x}
RECURSIVE Follow(_, _, _, _)
\* end of the chain of removed nodes starting with edge e: <<dst, dst port>>, or <<0, "">> for a ring
Follow(v, rem, e, fuel) ==
    IF e.d \notin rem THEN <<e.d, e.dp>>
    ELSE IF fuel = 0 THEN <<0, "">>
    ELSE Follow(v, rem, CHOOSE f \in v.es : f.s = e.d, fuel - 1)
Contracted(v) ==
    LET rem == Unary(v)
        keep == {e \in v.es : e.s \notin rem}
        n == Cardinality(rem)
    IN {<<e.id, e.s, Follow(v, rem, e, n)[1], e.sp, Follow(v, rem, e, n)[2]>> : e \in keep}

\* unary unions/tees lying on a ring made only of such nodes (an isolated component: every node has one
\* input and one output).  Contracting such a ring is not defined; the rewrite may keep any part of it, but
\* must keep at least one node so that the partitioner still sees (and reports) the same-tick cycle.
RingNodes(v) ==
    LET rem == Unary(v)  n == Cardinality(rem) IN
    {x \in rem : \E e \in v.es : e.s = x /\ Follow(v, rem, e, n)[1] = 0}

RewriteRules(r) ==
    LET v == View(r.G)
        v1 == View(r.G1)
        ring == RingNodes(v)
        rem == Unary(v) \ ring
        con == {t \in Contracted(v) : t[2] \notin ring}
        es1 == {e \in v1.es : e.s \notin ring}
        bagC == {<<<<t[2], t[3], t[4], t[5]>>, Cardinality({u \in con : <<u[2], u[3], u[4], u[5]>> = <<t[2], t[3], t[4], t[5]>>})>> : t \in con}
    IN Rule({NodeSig(n) : n \in {m \in v1.ns : m.id \notin ring}} # {NodeSig(n) : n \in {m \in v.ns : m.id \notin rem /\ m.id \notin ring}},
            "C20:rewrite-changed-the-remaining-operators")
       \cup Rule(bagC # EdgeBag(es1), "C20:rewrite-changed-the-port-wiring")
       \cup Rule(Cardinality(es1) # Cardinality(con), "C20:rewrite-changed-the-number-of-edges")
       \cup Rule(ring # {} /\ ring \cap v1.ids = {}, "C20:rewrite-removed-a-whole-ring-of-unary-unions-or-tees")

ModuleRules(r) ==
    IF r.mod = "none" \/ r.mod = "" THEN {}
    ELSE IF r.mod # "ok" THEN {"C20:merge-modules-failed"}
    ELSE LET v == View(r.G)  vm == View(r.GM) IN
         Rule({NodeSig(n) : n \in vm.ns} # {NodeSig(n) : n \in v.ns}, "C20:merge-modules-changed-the-operators")
         \cup Rule(EdgeBag(vm.es) # EdgeBag(v.es) \/ Cardinality(vm.es) # Cardinality(v.es),
                   "C20:merge-modules-changed-the-port-wiring")

SerdeRules(r) ==
    IF r.serde # "ok" THEN {"C20:meta-graph-json-round-trip-failed"}
    ELSE LET a == r.P  b == r.P2
             sigP(n) == <<NodeSig(n), n.sg, n.delay>>
             esig(e) == <<e.id, e.s, e.d, e.sp, e.dp, e.delay>>
         IN Rule(r.serde_diags # 0, "C20:reloaded-meta-graph-has-diagnostics")
            \cup Rule({sigP(n) : n \in Range(a.nodes)} # {sigP(n) : n \in Range(b.nodes)} \/ Len(a.nodes) # Len(b.nodes),
                      "C20:json-round-trip-changed-operators-or-handoffs")
            \cup Rule(\E n \in Range(b.nodes) : n.kind = "op" /\ ~n.inst, "C20:reloaded-operator-without-instance")
            \cup Rule({esig(e) : e \in Range(a.edges)} # {esig(e) : e \in Range(b.edges)} \/ Len(a.edges) # Len(b.edges),
                      "C20:json-round-trip-changed-the-port-wiring")
            \cup Rule(Range(a.sgs) # Range(b.sgs) \/ Len(a.sgs) # Len(b.sgs), "C20:json-round-trip-changed-subgraphs")
            \cup Rule(a.topo # b.topo, "C20:json-round-trip-changed-execution-order")
            \cup Rule({<<l.id, l.parent>> : l \in Range(a.loops)} # {<<l.id, l.parent>> : l \in Range(b.loops)},
                      "C20:json-round-trip-changed-loops")

\* implementation fact, reported as drift: removed nodes stay listed as loop members
StaleLoopMembers(r) ==
    LET v1 == View(r.G1) IN \E l \in Range(r.G1.loops) : \E x \in Range(l.nodes) : x \notin v1.ids

-----------------------------------------------------------------------------
(* All rules of one program record *)
ProgRules(r) ==
    IF r.stage \in {"parse-error", "build-error"} THEN {}
    ELSE IF r.stage = "build-panic" THEN {"C18:flat-graph-builder-panicked"}
    ELSE IF r.stage = "rewrite-panic"
         THEN {"C20:rewrite-panicked" \o (IF RingNodes(View(r.G)) # {} THEN "-on-a-ring-of-unary-unions-or-tees" ELSE "")}
              \cup ModuleRules(r)
    ELSE IF r.stage = "adjacent-handoffs" THEN RewriteRules(r) \cup ModuleRules(r)
    ELSE RewriteRules(r) \cup ModuleRules(r) \cup C19Rules(r)
         \cup (IF r.verdict = "ok"
               THEN SerdeRules(r) \cup (IF r.codegen = "ok" THEN C18Rules(r)
                                        ELSE Rule(r.codegen = "panic", "C18:code-generation-panicked"))
               ELSE Rule(r.verdict = "panic" /\ ~r.refpanic /\ Accept(View(r.G1)), "C18:partitioner-panicked-on-acceptable-graph"))

ProgFacts(r) ==
    IF r.stage \in {"parse-error", "build-error", "build-panic", "rewrite-panic"} THEN {}
    ELSE Rule(StaleLoopMembers(r), "removed-nodes-still-listed-as-loop-members")

VARIABLES bad, facts
mvars == <<bad, facts>>
MInit == bad = {} /\ facts = {}
MProg(r) == bad' = ProgRules(r) /\ facts' = ProgFacts(r)
Broken == bad
=============================================================================
