---------------------------- MODULE PartitionAlgo ----------------------------
(* Implementation-shaped model of dfir_lang::graph::flat_to_partitioned::partition_graph, transcribed
   from the Rust source, evaluated on the flat graph G1 exactly as the real partitioner received it
   (same node / edge iteration order as the dump = slotmap order):
     find_edge_barriers, find_access_group_ordering (with its assert), node_color,
     find_subgraph_unionfind (predecessor lists in push order: pipe edges, references and
     reader->consumer of the referenced handoff, access-group pairs, loop-ingress constraints; enemies;
     SubgraphMerge::new with its assert; the greedy progress loop with can_connect_colorize and
     try_merge), make_subgraphs (handoff insertion, subgraph registration), make_loops_contiguous,
     the final validate_topo_sort assert, mark_tick_boundary_handoffs.
   The topo_sort / SubgraphMerge / union-find operators below are the same text as in
   spec/GraphAlgo/GraphAlgoImpl.tla, which is model-checked against the C17 monitor.

   Design-level question, decided by TLC for every tiny program: does the algorithm AS WRITTEN produce a
   partition satisfying the relational WellFormed(G1, P) whenever Accept(G1) holds, and reject otherwise?
   ModelRules(r) = the C18/C19 rules of Partition.tla broken by the MODEL's outcome; the driver compares
   them with the rules broken by the real code on the same program (a known finding must show up in
   both).  ModelVsCode(r) = exact differences between the model's and the real partition (drift). *)
EXTENDS Partition, TLC

RECURSIVE SortedSeq(_)
SortedSeq(S) == IF S = {} THEN <<>>
                ELSE LET m == CHOOSE x \in S : \A y \in S : x <= y IN <<m>> \o SortedSeq(S \ {m})

(* ---- topo_sort: pred_dfs_postorder with marks (0 none, 1 temporary, 2 permanent) ---- *)
RECURSIVE Dfs(_, _, _), DfsPreds(_, _, _, _)
Dfs(P, st, x) ==
    IF st.m[x] = 2 THEN st
    ELSE IF st.m[x] = 1 THEN [st EXCEPT !.o = <<x>>, !.e = TRUE]          \* cycle found: clear, push
    ELSE LET r == DfsPreds(P, [st EXCEPT !.m[x] = 1], x, 1)
         IN IF r.e THEN r ELSE [r EXCEPT !.o = Append(@, x), !.m[x] = 2]
DfsPreds(P, st, x, i) ==
    IF i > Len(P[x]) THEN st
    ELSE LET s2 == Dfs(P, st, P[x][i]) IN
         IF s2.e
         THEN (IF Len(s2.o) = 1 \/ s2.o[1] # s2.o[Len(s2.o)] THEN [s2 EXCEPT !.o = Append(@, x)] ELSE s2)
         ELSE DfsPreds(P, s2, x, i + 1)

RECURSIVE TopoIter(_, _, _, _)
TopoIter(P, ids, i, st) ==
    IF i > Len(ids) THEN st
    ELSE LET s2 == Dfs(P, st, ids[i]) IN IF s2.e THEN s2 ELSE TopoIter(P, ids, i + 1, s2)

TopoSortImpl(U, ids, P) ==
    LET st == TopoIter(P, ids, 1, [m |-> [x \in U |-> 0], o |-> <<>>, e |-> FALSE]) IN
    IF st.e
    THEN LET end == st.o[Len(st.o)]
             beg == CHOOSE i \in 1..Len(st.o) : st.o[i] = end /\ \A j \in 1..(i - 1) : st.o[j] # end
         IN [ok |-> FALSE, res |-> SubSeq(st.o, beg + 1, Len(st.o))]
    ELSE [ok |-> TRUE, res |-> st.o]

(* ---- UnionFind: links[k] = 0 (absent) or parent ---- *)
RECURSIVE RootOf(_, _)
RootOf(L, x) == IF L[x] = 0 \/ L[x] = x THEN x ELSE RootOf(L, L[x])
RECURSIVE PathOf(_, _)
PathOf(L, x) == IF L[x] = 0 \/ L[x] = x THEN {x} ELSE {x} \cup PathOf(L, L[x])
\* find(x): every node on the path (and an absent x) ends up linked to the root
FindL(L, x) == LET r == RootOf(L, x) p == PathOf(L, x) IN [y \in DOMAIN L |-> IF y \in p THEN r ELSE L[y]]
\* union(a, b): i = find(a); j = find(b); links[j] = i; return i
UnionL(L, a, b) ==
    LET L1 == FindL(L, a)  i == RootOf(L, a)
        L2 == FindL(L1, b) j == RootOf(L1, b)
    IN [links |-> [L2 EXCEPT ![j] = i], ret |-> i]
RepsOf(L, n) == [x \in 1..n |-> RootOf(L, x)]

RECURSIVE SgsFrom(_, _)
SgsFrom(s, i) ==
    IF i > Len(s.order) THEN <<>>
    ELSE LET r == s.order[i]  l == s.len[r] IN
         IF l = 0 THEN <<>> ELSE <<SubSeq(s.order, i, i + l - 1)>> \o SgsFrom(s, i + l)
Sgs(s) == SgsFrom(s, 1)

ClosureStep(s, L, u, lo, hi, vis) ==
    LET cand == UNION {{RootOf(L, s.preds[x][i]) : i \in 1..Len(s.preds[x])} : x \in vis}
    IN {r \in cand : r # u /\ s.idx[r] >= lo /\ s.idx[r] <= hi}
RECURSIVE Closure2(_, _, _, _, _, _)
Closure2(s, L, u, lo, hi, vis) ==
    LET nxt == ClosureStep(s, L, u, lo, hi, vis) \ vis
    IN IF nxt = {} THEN vis ELSE Closure2(s, L, u, lo, hi, vis \cup nxt)

RECURSIVE WinPreds(_, _, _, _, _, _)
\* predecessors mapped to their representatives, pruned to the window, in list order
WinPreds(ps, i, L, idx, lo, hi) ==
    IF i > Len(ps) THEN <<>>
    ELSE LET r == RootOf(L, ps[i]) IN
         (IF idx[r] >= lo /\ idx[r] <= hi THEN <<r>> ELSE <<>>) \o WinPreds(ps, i + 1, L, idx, lo, hi)

RECURSIVE LayOut(_, _, _, _, _, _)
\* concatenated member slices of the groups in sorted order
LayOut(groups, i, s, len2, u, uv) ==
    IF i > Len(groups) THEN <<>>
    ELSE LET g == groups[i]
             seg == IF g = u THEN uv ELSE SubSeq(s.order, s.idx[g], s.idx[g] + len2[g] - 1)
         IN seg \o LayOut(groups, i + 1, s, len2, u, uv)

RECURSIVE StartOf(_, _, _, _)
StartOf(groups, len2, lo, g) ==   \* window start + lengths of the groups before g
    IF groups[1] = g THEN lo ELSE StartOf(Tail(groups), len2, lo + len2[groups[1]], g)

TryMerge(s, u0, v0) ==
    LET L1 == FindL(s.links, u0)   ru == RootOf(s.links, u0)
        L2 == FindL(L1, v0)        rv == RootOf(L1, v0)
        s1 == [s EXCEPT !.links = L2]
    IN
    IF ru = rv THEN [ret |-> TRUE, sm |-> s1, sorted |-> TRUE]
    ELSE IF rv \in s.enem[ru] THEN [ret |-> FALSE, sm |-> s1, sorted |-> TRUE]
    ELSE
      LET u == IF s.idx[ru] < s.idx[rv] THEN ru ELSE rv
          v == IF s.idx[ru] < s.idx[rv] THEN rv ELSE ru
          uidx == s.idx[u]  ulen == s.len[u]
          vidx == s.idx[v]  vlen == s.len[v]
          lo == uidx
          hi == vidx + vlen - 1
          vis == Closure2(s, L2, u, lo, hi, {v})
          cyc == \E x \in vis \ {v} : \E i \in 1..Len(s.preds[x]) : RootOf(L2, s.preds[x][i]) = u
      IN
      IF cyc THEN [ret |-> FALSE, sm |-> s1, sorted |-> TRUE]
      ELSE
        LET L3 == [L2 EXCEPT ![v] = u]
            both == s.preds[u] \o s.preds[v]
            newp == SortedSeq({RootOf(L3, both[i]) : i \in 1..Len(both)} \ {u})
            preds2 == [s.preds EXCEPT ![u] = newp, ![v] = <<>>]
            len2 == [s.len EXCEPT ![u] = ulen + vlen, ![v] = 0]
            idx2 == [s.idx EXCEPT ![v] = 0]
            ev == s.enem[v]
            enem2 == [x \in DOMAIN s.enem |->
                        IF x = u THEN s.enem[u] \cup ev
                        ELSE IF x = v THEN {}
                        ELSE IF x \in ev THEN (s.enem[x] \ {v}) \cup {u}
                        ELSE s.enem[x]]
            reps == SortedSeq({RootOf(L3, s.order[i]) : i \in lo..hi})
            wp(g) == WinPreds(preds2[g], 1, L3, idx2, lo, hi)
            t == TopoSortImpl(DOMAIN s.idx, reps, [g \in DOMAIN s.idx |-> wp(g)])
            unodes == SubSeq(s.order, uidx, uidx + ulen - 1)
            vnodes == SubSeq(s.order, vidx, vidx + vlen - 1)
            buf == LayOut(t.res, 1, s, len2, u, unodes \o vnodes)
            order2 == SubSeq(s.order, 1, lo - 1) \o buf \o SubSeq(s.order, hi + 1, Len(s.order))
            idx3 == [x \in DOMAIN idx2 |-> IF x \in Range(t.res) THEN StartOf(t.res, len2, lo, x) ELSE idx2[x]]
        IN [ret |-> TRUE, sorted |-> t.ok,
            sm |-> [order |-> IF t.ok THEN order2 ELSE s.order, idx |-> IF t.ok THEN idx3 ELSE idx2,
                    len |-> len2, links |-> L3, preds |-> preds2, enem |-> enem2]]


-----------------------------------------------------------------------------
(* ---- partition_graph ---- *)
RECURSIVE CatTo(_, _)
\* F[1] \o F[2] \o ... \o F[i]  (F: function 1..n -> sequences)
CatTo(F, i) == IF i = 0 THEN <<>> ELSE CatTo(F, i - 1) \o F[i]

\* can_connect_colorize: <<can connect, colour of src afterwards, colour of dst afterwards>>
Colorize(cs, cd) ==
    IF cs = "none" /\ cd = "none" THEN <<FALSE, cs, cd>>
    ELSE IF cs = "none" /\ cd \in {"pull", "comp"} THEN <<TRUE, "pull", cd>>
    ELSE IF cs = "none" /\ cd \in {"push", "hoff"} THEN <<TRUE, "push", cd>>
    ELSE IF cs \in {"pull", "hoff"} /\ cd = "none" THEN <<TRUE, cs, "pull">>
    ELSE IF cs \in {"comp", "push"} /\ cd = "none" THEN <<TRUE, cs, "push">>
    ELSE IF cs = "pull" /\ cd \in {"pull", "comp", "push"} THEN <<TRUE, cs, cd>>
    ELSE IF cs = "comp" /\ cd = "push" THEN <<TRUE, cs, cd>>
    ELSE IF cs = "push" /\ cd = "push" THEN <<TRUE, cs, cd>>
    ELSE <<FALSE, cs, cd>>

\* the greedy progress loop: st = [sm, col, cut, progress]; c = constant context
RECURSIVE Pass(_, _, _)
Pass(c, st, i) ==
    IF i > c.m THEN st
    ELSE LET s == c.S[i]  d == c.D[i] IN
         IF c.isH[s] \/ c.isH[d] THEN Pass(c, [st EXCEPT !.cut = @ \ {i}], i + 1)
         ELSE IF RootOf(st.sm.links, s) = RootOf(st.sm.links, d) THEN Pass(c, st, i + 1)
         ELSE IF c.lo[s] # c.lo[d] THEN Pass(c, st, i + 1)
         ELSE LET cc == Colorize(st.col[s], st.col[d]) IN
              IF ~cc[1] THEN Pass(c, st, i + 1)
              ELSE LET col2 == [st.col EXCEPT ![s] = cc[2], ![d] = cc[3]]
                       r == TryMerge(st.sm, s, d)
                   IN Pass(c, [sm |-> r.sm, col |-> col2,
                               cut |-> IF r.ret THEN st.cut \ {i} ELSE st.cut,
                               progress |-> st.progress \/ r.ret,
                               sorted |-> st.sorted /\ r.sorted], i + 1)
RECURSIVE Greedy(_, _)
Greedy(c, st) ==
    LET st2 == Pass(c, [st EXCEPT !.progress = FALSE], 1)
    IN IF st2.progress THEN Greedy(c, st2) ELSE st2

\* make_loops_contiguous helper: acc = [out, done]
RECURSIVE Hoist(_, _, _, _, _)
Hoist(c, order, i, cur, acc) ==
    IF i > Len(order) THEN acc
    ELSE LET sg == order[i]  l == c.sgl[sg] IN
         IF l = cur THEN Hoist(c, order, i + 1, cur, [acc EXCEPT !.out = Append(@, sg)])
         ELSE IF l # 0 /\ c.par[l] = cur
         THEN (IF l \in acc.done THEN Hoist(c, order, i + 1, cur, acc)
               ELSE Hoist(c, order, i + 1, cur,
                          Hoist(c, SelectSeq(c.flat, LAMBDA x : l \in c.anc[c.sgl[x]]), 1, l,
                                [acc EXCEPT !.done = @ \cup {l}])))
         ELSE Hoist(c, order, i + 1, cur, acc)

AlgoRun(g) ==
    LET v == View(g)
        n == Len(g.nodes)
        m == Len(g.edges)
        ids == [i \in 1..n |-> g.nodes[i].id]
        ps == [x \in v.ids |-> PosIn(ids, x)]
        U == 1..n
        isH == [p \in U |-> g.nodes[p].kind = "hoff"]
        lo == [p \in U |-> g.nodes[p].loop]
        par == [l \in v.lids |-> v.lp[l]]
        anc == AncTable(v)
        S == [i \in 1..m |-> ps[g.edges[i].s]]
        D == [i \in 1..m |-> ps[g.edges[i].d]]
        tick == {i \in 1..m : g.edges[i].delay # ""}
        \* references in node order / reference order: <<reader, target, group>>
        refs == CatTo([p \in U |-> CatTo([j \in 1..Len(g.nodes[p].refs) |->
                          IF g.nodes[p].refs[j].t # 0 THEN <<<<p, ps[g.nodes[p].refs[j].t], g.nodes[p].refs[j].grp>>>> ELSE <<>>],
                          Len(g.nodes[p].refs))], n)
        \* find_access_group_ordering: targets in key order, consecutive groups
        targets == SortedSeq({rf[2] : rf \in Range(refs)})
        groupsOf(t) == SortedSeq({rf[3] : rf \in {x \in Range(refs) : x[2] = t}})
        members(t, gr) == SelectSeq(refs, LAMBDA x : x[2] = t /\ x[3] = gr)
        pairsOf(t) == LET gs == groupsOf(t) IN
                      CatTo([k \in 1..(Len(gs) - 1) |->
                               LET A == members(t, gs[k])  B == members(t, gs[k + 1]) IN
                               CatTo([ia \in 1..Len(A) |-> [ib \in 1..Len(B) |-> <<A[ia][1], B[ib][1]>>]], Len(A))],
                            Len(gs) - 1)
        access == CatTo([k \in 1..Len(targets) |-> pairsOf(targets[k])], Len(targets))
        refpanic == \E q \in Range(access) : q[1] = q[2]
        \* predecessor push events <<dst, src>> in the order the code pushes them
        ev1 == CatTo([i \in 1..m |-> IF i \in tick THEN <<>> ELSE <<<<D[i], S[i]>>>>], m)
        consumers(t) == CatTo([i \in 1..m |-> IF S[i] = t THEN <<D[i]>> ELSE <<>>], m)
        ev2 == CatTo([k \in 1..Len(refs) |->
                        <<<<refs[k][1], refs[k][2]>>>>
                        \o (IF isH[refs[k][2]]
                            THEN [j \in 1..Len(consumers(refs[k][2])) |-> <<consumers(refs[k][2])[j], refs[k][1]>>]
                            ELSE <<>>)], Len(refs))
        ev3 == [k \in 1..Len(access) |-> <<access[k][2], access[k][1]>>]
        loopNodes(l) == LET raw == (CHOOSE x \in Range(g.loops) : x.id = l).nodes
                        IN SelectSeq(raw, LAMBDA y : y \in v.ids)
        ev4 == CatTo([i \in 1..m |->
                        IF i \in tick \/ lo[D[i]] = 0 \/ lo[S[i]] # par[lo[D[i]]] THEN <<>>
                        ELSE LET ln == loopNodes(lo[D[i]]) IN [j \in 1..Len(ln) |-> <<ps[ln[j]], S[i]>>]], m)
        ev == ev1 \o ev2 \o ev3 \o ev4
        preds == [x \in U |-> LET sel == SelectSeq(ev, LAMBDA e : e[1] = x) IN [j \in 1..Len(sel) |-> sel[j][2]]]
        enemyPairs == {<<S[i], D[i]>> : i \in tick} \cup Range(access) \cup {<<rf[2], rf[1]>> : rf \in Range(refs)}
        selfEnemy == \E q \in enemyPairs : q[1] = q[2]
        color0 == [p \in U |-> Color(g.nodes[p])]
        t0 == TopoSortImpl(U, [i \in 1..n |-> i], preds)
        sm0 == [order |-> t0.res,
                idx |-> [x \in U |-> IF t0.ok THEN PosIn(t0.res, x) ELSE 0],
                len |-> [x \in U |-> 1],
                links |-> [x \in U |-> 0],
                preds |-> preds,
                enem |-> [x \in U |-> {q[2] : q \in {z \in enemyPairs : z[1] = x}} \cup {q[1] : q \in {z \in enemyPairs : z[2] = x}}]]
    IN
    IF refpanic THEN [verdict |-> "panic", refpanic |-> TRUE, why |-> "conflicting-references-assert", pm |-> g]
    \* SubgraphMerge::new: topo_sort(..)? comes before the enemies assert
    ELSE IF ~t0.ok THEN [verdict |-> "err", refpanic |-> FALSE, why |-> "cycle", pm |-> g,
                          cyc |-> [j \in 1..Len(t0.res) |-> g.nodes[t0.res[j]].label]]
    ELSE IF selfEnemy THEN [verdict |-> "panic", refpanic |-> FALSE, why |-> "no-merge-pair-assert", pm |-> g]
    ELSE
      LET c0 == [m |-> m, S |-> S, D |-> D, isH |-> isH, lo |-> lo]
          fin == Greedy(c0, [sm |-> sm0, col |-> color0, cut |-> 1..m, progress |-> TRUE, sorted |-> TRUE])
          allsgs == Sgs(fin.sm)
          flatsgs == SelectSeq(allsgs, LAMBDA sg : \A j \in 1..Len(sg) : ~isH[sg[j]])
          k == Len(flatsgs)
          sgl == [j \in 1..k |-> lo[flatsgs[j][1]]]
          c1 == [sgl |-> sgl, par |-> par, anc |-> anc, flat |-> [j \in 1..k |-> j]]
          topo == Hoist(c1, c1.flat, 1, 0, [out |-> <<>>, done |-> {}]).out
          sgOf == [p \in U |-> IF isH[p] THEN 0 ELSE CHOOSE j \in 1..k : p \in Range(flatsgs[j])]
          \* validate_topo_sort over operators, jumping over explicit handoffs
          flatNodes == CatTo([j \in 1..Len(topo) |-> flatsgs[topo[j]]], Len(topo))
          predOp(i) == IF isH[S[i]] THEN CHOOSE q \in U : \E e \in 1..m : D[e] = S[i] /\ S[e] = q ELSE S[i]
          invalid == \E i \in (1..m) \ tick :
                        /\ ~isH[D[i]]
                        /\ (isH[S[i]] => \E e \in 1..m : D[e] = S[i])
                        /\ ~(PosIn(flatNodes, predOp(i)) < PosIn(flatNodes, D[i]))
          remap(d, consumer) == IF lo[consumer] # 0 /\ par[lo[consumer]] # 0
                                THEN (IF d = "tick" THEN "loop" ELSE IF d = "ticklazy" THEN "looplazy" ELSE d)
                                ELSE d
          hmark(p) == LET outs == {i \in tick : S[i] = p} IN
                      IF outs = {} THEN "" ELSE LET i == CHOOSE i \in outs : \A j \in outs : i <= j IN remap(g.edges[i].delay, D[i])
          fresh(i) == [g.nodes[1] EXCEPT !.id = 900000 + i, !.kind = "hoff", !.name = "handoff", !.text = "handoff",
                                          !.label = "handoff", !.hk = "vec", !.loop = 0, !.color = "hoff", !.sg = 0,
                                          !.delay = (IF i \in tick THEN remap(g.edges[i].delay, D[i]) ELSE ""),
                                          !.inst = FALSE, !.refs = <<>>, !.din = 1, !.dout = 1, !.fp = FALSE]
          cutseq == SortedSeq(fin.cut)
          nodes2 == [p \in U |-> [g.nodes[p] EXCEPT !.sg = sgOf[p], !.delay = IF isH[p] THEN hmark(p) ELSE ""]]
                    \o [j \in 1..Len(cutseq) |-> fresh(cutseq[j])]
          edges2 == CatTo([i \in 1..m |->
                             IF i \in fin.cut
                             THEN <<[g.edges[i] EXCEPT !.id = 800000 + 2 * i, !.d = 900000 + i, !.dp = "_", !.delay = ""],
                                    [g.edges[i] EXCEPT !.id = 800001 + 2 * i, !.s = 900000 + i, !.sp = "_"]>>
                             ELSE <<g.edges[i]>>], m)
          pm == [nodes |-> nodes2, edges |-> edges2, loops |-> g.loops,
                 sgs |-> [j \in 1..k |-> [id |-> j, nodes |-> [q \in 1..Len(flatsgs[j]) |-> ids[flatsgs[j][q]]], loop |-> sgl[j]]],
                 topo |-> topo]
      IN IF ~fin.sorted THEN [verdict |-> "panic", refpanic |-> FALSE, why |-> "re-toposort-found-cycle", pm |-> g]
         ELSE IF invalid THEN [verdict |-> "panic", refpanic |-> FALSE, why |-> "toposort-invalid-after-make-loops-contiguous", pm |-> pm]
         ELSE [verdict |-> "ok", refpanic |-> FALSE, why |-> "", pm |-> pm]

-----------------------------------------------------------------------------
\* the C18 / C19 rules of Partition.tla broken by the MODEL's outcome on G1
ModelRules(r) ==
    LET a == AlgoRun(r.G1)
        v == View(r.G1)
        acc == Accept(v)
        rr == [G1 |-> r.G1, verdict |-> a.verdict, refpanic |-> a.refpanic, cycok |-> FALSE, cyc |-> <<>>, P |-> a.pm]
    IN C19Rules(rr)
       \cup (IF a.verdict = "ok" THEN C18Rules(rr)
             ELSE Rule(a.verdict = "panic" /\ ~a.refpanic /\ acc, "C18:partitioner-panicked-on-acceptable-graph"))

\* exact differences between the model's outcome and the real partitioner's (implementation drift)
SgLists(p) == {s.nodes : s \in Range(p.sgs)}
TopoLists(p) == [j \in 1..Len(p.topo) |-> (CHOOSE s \in Range(p.sgs) : s.id = p.topo[j]).nodes]
Marks(p) == LET vp == View(p) IN
            {<<e.s, e.d, vp.nm[e.s].delay>> : e \in {f \in vp.es : f.s \in vp.hoffs /\ vp.nm[f.s].delay # ""}}
Cuts(p) == LET vp == View(p) IN
           {<<(CHOOSE f \in vp.es : f.d = h).s, (CHOOSE f \in vp.es : f.s = h).d>> :
                h \in {x \in vp.hoffs : vp.nm[x].hk = "vec" /\ (\E f \in vp.es : f.d = x) /\ (\E f \in vp.es : f.s = x)}}
ModelVsCode(r) ==
    LET a == AlgoRun(r.G1) IN
    Rule(a.verdict # r.verdict, "verdict-differs-model-" \o a.verdict \o "-code-" \o r.verdict)
    \cup (IF a.verdict = "ok" /\ r.verdict = "ok"
          THEN Rule(SgLists(a.pm) # SgLists(r.P), "subgraph-membership-or-order-differs")
               \cup Rule(SgLists(a.pm) = SgLists(r.P) /\ TopoLists(a.pm) # TopoLists(r.P), "subgraph-toposort-differs")
               \cup Rule({<<q[2], q[3]>> : q \in Marks(a.pm)} # {<<q[2], q[3]>> : q \in Marks(r.P)}, "delay-marks-differ")
               \cup Rule(Cuts(a.pm) # Cuts(r.P), "handoff-placement-differs")
          ELSE {})
    \cup (IF a.verdict = "err" /\ r.verdict = "err" /\ r.cycok /\ a.cyc # r.cyc THEN {"reported-cycle-differs"} ELSE {})
=============================================================================
