SPECIFICATION Spec
CONSTANTS
  MinK = 1
  MaxK = 3
  Thin = 1
  Ordered = FALSE
INVARIANT Emit
CHECK_DEADLOCK FALSE
