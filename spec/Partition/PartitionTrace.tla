--------------------------- MODULE PartitionTrace ---------------------------
(* Structure validation: evaluates Partition.tla on the records the harness (graphc run) dumped
   from the real FlatGraphBuilder / eliminate_extra_unions_tees / merge_modules / partition_graph /
   serde / as_code.  One ndjson line per program ({"e":"prog",...}), then {"e":"eof"}.
   Rule breaks are collected per program in `viol` (implementation facts in `drift`) and printed
   at eof; the verdict of every program is printed as well (<<"ACC", ..>>) for the evidence. *)
EXTENDS Partition, TLC, Json, IOUtils

Rec == ndJsonDeserialize(IOEnv.TRACE)

VARIABLES l, viol, drift
tvars == <<mvars, l, viol, drift>>
Ev == Rec[l]

TInit == l = 1 /\ viol = {} /\ drift = {} /\ MInit
Consume == l <= Len(Rec) /\ l' = l + 1
TProg == Ev.e = "prog" /\ MProg(Ev)
TEof == /\ Ev.e = "eof" /\ bad' = {} /\ facts' = {}
        /\ PrintT(<<"VIOL", ToJson(viol)>>) /\ PrintT(<<"DRIFT", ToJson(drift)>>)
TNext ==
    /\ Consume
    /\ (TProg \/ TEof)
    /\ viol' = viol \cup {<<Ev.id, b>> : b \in bad'}
    /\ drift' = drift \cup {<<Ev.id, f>> : f \in facts'}
TSpec == TInit /\ [][TNext]_tvars

TraceAccepted ==
    LET d == TLCGet("stats").diameter IN
    IF d - 1 = Len(Rec) THEN TRUE
    ELSE Print(<<"UNMATCHED-EVENT-AT-LINE", d>>, FALSE)
=============================================================================
