------------------------------- MODULE Slice -------------------------------
(* Abstract specification (property MONITOR) of `sliced!` (C31).  A slice program has input
   ports 0..2 (streams), batch hooks on some of them, possibly a snapshot hook on the
   running count of port 2, and slice-local state.  The corpus programs report, per slice
   execution, what each hook observed:

     InStep(s, port, v)            the environment appended v to the stream of `port`
     BatchStep(s, h, tick, b)      hook h (= its port) observed batch b in slice number `tick`
                                   (tick = -1: the program does not number its slices)
     SnapStep(s, tick, v)          the snapshot hook observed count v in slice number `tick`
     StateStep(s, before, after, n)   slice-local singleton state: value at the start / end of
                                   a slice that consumed n elements (program p1: after = before + n)
     CarryStep(s, all)             slice-local stream state (p3): everything carried + batch
     QuiesceStep(s)                nothing is pending

   C31: the batches of a hook partition its stream (each element in exactly one batch, in
   order); snapshots never go back; all hooks of one slice are taken at the same point (the
   k-th observation of every hook belongs to slice k: none skipped, none twice, same number
   of observations); slice-local state is carried to the next slice. *)
EXTENDS Naturals, Integers, Sequences, FiniteSets

Ports == 0..2
SInitRec == [ins |-> [p \in Ports |-> <<>>],      \* what was sent per port
             got |-> [p \in Ports |-> <<>>],      \* concatenation of the batches seen per hook
             nobs |-> [p \in Ports |-> 0],        \* observations per batch hook
             nsnap |-> 0, lastSnap |-> 0,
             st |-> 0, stSeen |-> FALSE,          \* last reported slice-local state
             bad |-> {}]
SFlag(cond, name) == IF cond THEN {name} ELSE {}

IsPrefix(a, b) == Len(a) <= Len(b) /\ \A i \in 1..Len(a) : a[i] = b[i]

InStep(s, port, v) == [s EXCEPT !.ins[port] = Append(@, v)]

BatchStep(s, h, tick, b) ==
    LET g2 == s.got[h] \o b IN
    [s EXCEPT !.got[h] = g2,
              !.nobs[h] = @ + 1,
              !.bad = @ \cup SFlag(~IsPrefix(g2, s.ins[h]),
                                   "batch-is-not-the-next-elements-of-the-stream")
                        \cup SFlag(tick # -1 /\ tick # s.nobs[h],
                                   "hook-observation-not-in-the-slice-it-belongs-to")]

SnapStep(s, tick, v) ==
    [s EXCEPT !.nsnap = @ + 1,
              !.lastSnap = v,
              !.bad = @ \cup SFlag(v < s.lastSnap, "snapshot-went-back-to-an-older-state")
                        \cup SFlag(v > Len(s.ins[2]), "snapshot-of-a-state-that-never-existed")
                        \cup SFlag(tick # -1 /\ tick # s.nsnap,
                                   "hook-observation-not-in-the-slice-it-belongs-to")]

StateStep(s, before, after, n) ==
    [s EXCEPT !.st = after, !.stSeen = TRUE,
              !.bad = @ \cup SFlag(before # s.st, "slice-state-not-carried-over")
                        \cup SFlag(after # before + n, "slice-state-update-lost")]

CarryStep(s, all) ==
    [s EXCEPT !.bad = @ \cup SFlag(all # s.got[0], "carried-stream-state-differs-from-what-was-batched")]

\* hooks of the program: set of batch-hook ports, whether there is a snapshot hook
QuiesceStep(s, hooks, snap) ==
    [s EXCEPT !.bad = @ \cup SFlag(\E h \in hooks : s.got[h] # s.ins[h], "element-in-no-batch")
                        \cup SFlag(\E h1, h2 \in hooks : s.nobs[h1] # s.nobs[h2],
                                   "hooks-of-one-slice-not-taken-together")
                        \cup SFlag(snap /\ \E h \in hooks : s.nobs[h] # s.nsnap,
                                   "hooks-of-one-slice-not-taken-together")]

PanicStep(s) == [s EXCEPT !.bad = @ \cup {"panic"}]

\* state predicates
Partition(s) == \A p \in Ports : IsPrefix(s.got[p], s.ins[p])
C31Inv(s) == s.bad = {} /\ Partition(s)
BrokenOf(s) == s.bad \cup (IF Partition(s) THEN {} ELSE {"Partition"})

-----------------------------------------------------------------------------
VARIABLE sl
svars == <<sl>>
SInit == sl = SInitRec
SReset == sl' = SInitRec
SIn(port, v) == sl' = InStep(sl, port, v)
SBatch(h, tick, b) == sl' = BatchStep(sl, h, tick, b)
SSnap(tick, v) == sl' = SnapStep(sl, tick, v)
SPanic == sl' = PanicStep(sl)
Broken == BrokenOf(sl)
=============================================================================
