------------------------------ MODULE SliceGen ------------------------------
(* spec -> code: every small input script for the slice corpus.  A case = program and a
   split of each port's elements into <= 2 stages (the harness sends a stage, lets the
   simulator explore every schedule up to quiescence, records, sends the next stage).
   Element i of port p has value 10*i + p (as in SliceImpl).  Ops are <<port, value>>. *)
EXTENDS Naturals, Sequences, TLC, Json

CONSTANTS MaxIn

Elem(p, i) == 10 * i + p
\* n1 elements of port p in stage 1, n2 in stage 2
Ops(p, from, n) == [i \in 1..n |-> <<p, Elem(p, from + i)>>]

Single == {[prog |-> pr, stages |-> <<Ops(0, 0, n1), Ops(0, n1, n2)>>] :
             pr \in {1, 3}, n1 \in 0..MaxIn, n2 \in 0..MaxIn}
Multi == {[prog |-> 2,
           stages |-> <<Ops(0, 0, a[1]) \o Ops(1, 0, b[1]) \o Ops(2, 0, c[1]),
                        Ops(0, a[1], a[2]) \o Ops(1, b[1], b[2]) \o Ops(2, c[1], c[2])>>] :
             a \in (0..1) \X (0..1), b \in (0..1) \X (0..1), c \in (0..MaxIn) \X (0..1)}
Cases == {c \in Single \cup Multi : Len(c.stages[1]) + Len(c.stages[2]) > 0}

ASSUME \A c \in Cases : PrintT(<<"CASE", ToJson(c)>>)

VARIABLE x
Init == x = 0
Next == UNCHANGED x
Spec == Init /\ [][Next]_x
=============================================================================
