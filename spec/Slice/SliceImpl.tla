------------------------------ MODULE SliceImpl ------------------------------
(* Implementation-shaped model of slice execution, composed with the Slice monitor.
   As in hydro_lang: `sliced!` = one tick; `use::batch` = a hook that releases a prefix of what
   is buffered on its stream into that tick (sim/builder.rs `batch`: StreamHook; production:
   whatever arrived before the tick); `use::snapshot` = a hook that releases one of the not
   yet seen versions of the singleton, never an older one; `use::state` = a cycle through
   defer_tick.  One Tick step = one slice execution in which EVERY hook fires once.
   Programs (as in the corpus): 1 = batch(0) + singleton state; 2 = batch(0), batch(1),
   snapshot(count of 2) + slice counter; 3 = batch(0) + stream state.
   Model checked for all inputs <= MaxIn per port and all tick choices. *)
EXTENDS Slice, TLC

CONSTANTS MaxIn, Progs

VARIABLES
    prog,
    todo,       \* todo[p]: elements still to be sent on port p
    taken,      \* taken[p]: number of elements of port p released into slices
    version,    \* snapshot hook: the version (count) last released
    idx,        \* slice counter state (p2)
    total       \* singleton state (p1)

ivars == <<prog, todo, taken, version, idx, total>>
vars == <<svars, ivars>>

Hooks(p) == IF p = 2 THEN {0, 1} ELSE {0}
HasSnap(p) == p = 2

Init ==
    \E p \in Progs : \E n \in [Ports -> 0..MaxIn] :
        /\ (p # 2 => n[1] = 0 /\ n[2] = 0)
        /\ SInit
        /\ prog = p
        /\ todo = n
        /\ taken = [q \in Ports |-> 0]
        /\ version = 0 /\ idx = 0 /\ total = 0

\* element number i of port p (distinct values)
Elem(p, i) == 10 * i + p

Send(p) ==
    /\ todo[p] > 0
    /\ SIn(p, Elem(p, Len(sl.ins[p]) + 1))
    /\ todo' = [todo EXCEPT ![p] = @ - 1]
    /\ UNCHANGED <<prog, taken, version, idx, total>>

Avail(p) == Len(sl.ins[p]) - taken[p]
Batch(p, k) == SubSeq(sl.ins[p], taken[p] + 1, taken[p] + k)

\* one slice execution: hook 0 takes k0, hook 1 takes k1 (p2), the snapshot hook moves to v
Tick(k0, k1, v) ==
    /\ k0 \in 0..Avail(0)
    /\ IF prog = 2 THEN k1 \in 0..Avail(1) /\ v \in version..Len(sl.ins[2])
                   ELSE k1 = 0 /\ v = version
    \* some hook has something new (the very first slice may just see the initial snapshot)
    /\ k0 + k1 > 0 \/ v > version \/ (prog = 2 /\ idx = 0)
    /\ LET s0 == BatchStep(sl, 0, IF prog = 2 THEN idx ELSE -1, Batch(0, k0))
           s1 == IF prog = 2 THEN SnapStep(BatchStep(s0, 1, idx, Batch(1, k1)), idx, v) ELSE s0
           s2 == IF prog = 1 THEN StateStep(s1, total, total + k0, k0)
                 ELSE IF prog = 3 THEN CarryStep(s1, s1.got[0]) ELSE s1
       IN sl' = s2
    /\ taken' = [taken EXCEPT ![0] = @ + k0, ![1] = @ + k1]
    /\ version' = v
    /\ idx' = idx + 1
    /\ total' = IF prog = 1 THEN total + k0 ELSE total
    /\ UNCHANGED <<prog, todo>>

Quiesce ==
    /\ \A p \in Hooks(prog) : Avail(p) = 0
    /\ (HasSnap(prog) => version = Len(sl.ins[2]))
    /\ sl' = QuiesceStep(sl, Hooks(prog), HasSnap(prog))
    /\ UNCHANGED ivars

Next == (\E p \in Ports : Send(p)) \/ (\E k0, k1, v \in 0..MaxIn : Tick(k0, k1, v)) \/ Quiesce
Spec == Init /\ [][Next]_vars

Inv == C31Inv(sl)
=============================================================================
