SPECIFICATION Spec
CONSTANTS
  MaxIn = 2
  Progs = {1, 2, 3}
INVARIANTS Inv
CHECK_DEADLOCK FALSE
