----------------------------- MODULE SliceTrace -----------------------------
(* Trace validation of the sliced! corpus (hv_std::slice_flows, run in the Hydro simulator
   under exhaustive schedules; one case per explored schedule) against the Slice monitor.
     {"e":"reset","case":c,"prog":1|2|3}
     {"e":"in","port":p,"v":x}
     {"e":"rec1","batch":[..],"before":b,"after":a}        p1: one per slice execution
     {"e":"rec3","all":[..]}                               p3: one per slice execution
     {"e":"hook","h":0|1,"tick":i,"batch":[..]}            p2: per hook and slice execution
     {"e":"snap","tick":i,"v":n}                           p2: the snapshot hook
     {"e":"quiesce"} {"e":"panic"} {"e":"end"} {"e":"eof"} *)
EXTENDS Slice, TLC, Json, IOUtils

Rec == ndJsonDeserialize(IOEnv.TRACE)

VARIABLES l, case, prog, viol
tvars == <<svars, l, case, prog, viol>>
Ev == Rec[l]

TInit == l = 1 /\ case = 0 /\ prog = 0 /\ viol = {} /\ SInit
Consume == l <= Len(Rec) /\ l' = l + 1

TReset == Ev.e = "reset" /\ SReset /\ case' = Ev.case /\ prog' = Ev.prog
TIn == Ev.e = "in" /\ SIn(Ev.port, Ev.v) /\ UNCHANGED <<case, prog>>
TRec1 == /\ Ev.e = "rec1"
         /\ sl' = StateStep(BatchStep(sl, 0, -1, Ev.batch), Ev.before, Ev.after, Len(Ev.batch))
         /\ UNCHANGED <<case, prog>>
\* p3 reports the carried stream plus the batch: the batch is what is new in it
TRec3 == /\ Ev.e = "rec3"
         /\ sl' = IF IsPrefix(sl.got[0], Ev.all)
                  THEN BatchStep(sl, 0, -1, SubSeq(Ev.all, Len(sl.got[0]) + 1, Len(Ev.all)))
                  ELSE [sl EXCEPT !.bad = @ \cup {"slice-stream-state-not-carried-over"}]
         /\ UNCHANGED <<case, prog>>
THook == Ev.e = "hook" /\ SBatch(Ev.h, Ev.tick, Ev.batch) /\ UNCHANGED <<case, prog>>
TSnap == Ev.e = "snap" /\ SSnap(Ev.tick, Ev.v) /\ UNCHANGED <<case, prog>>
TQuiesce == /\ Ev.e = "quiesce"
            /\ sl' = QuiesceStep(sl, IF prog = 2 THEN {0, 1} ELSE {0}, prog = 2)
            /\ UNCHANGED <<case, prog>>
TPanic == Ev.e = "panic" /\ SPanic /\ UNCHANGED <<case, prog>>
TEnd == Ev.e = "end" /\ UNCHANGED <<sl, case, prog>>
TEof == Ev.e = "eof" /\ UNCHANGED <<sl, case, prog>> /\ PrintT(<<"VIOL", ToJson(viol)>>)

TNext ==
    /\ Consume
    /\ (TReset \/ TIn \/ TRec1 \/ TRec3 \/ THook \/ TSnap \/ TQuiesce \/ TPanic \/ TEnd \/ TEof)
    /\ viol' = viol \cup {<<case', b>> : b \in Broken'}

TSpec == TInit /\ [][TNext]_tvars

TraceAccepted ==
    LET d == TLCGet("stats").diameter IN
    IF d - 1 = Len(Rec) THEN TRUE
    ELSE Print(<<"UNMATCHED-EVENT-AT-LINE", d, Rec[d]>>, FALSE)
=============================================================================
