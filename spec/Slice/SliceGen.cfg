SPECIFICATION Spec
CONSTANTS
  MaxIn = 2
CHECK_DEADLOCK FALSE
