------------------------------ MODULE DfirTick ------------------------------
(* Tick-level operational semantics of DFIR programs: the reference interpreter of
   C21-C26, written in TLA+ and evaluated by TLC.

   PROGRAM AS DATA.  A program P is a record
       [nodes |-> <<node, ...>>, loops |-> <<loop, ...>>, nsrc |-> Nat, nsink |-> Nat]
   node = [op, fn, pers, in, din, k, items, lp, refs]     (all fields always present)
       op    operator name (see Step below)
       fn    name of the closure from the CLOSED VOCABULARY below (empty if none)
       pers  tuple of tick / static persistence arguments (already defaulted)
       in    tuple of <<node, port>> (1-based): same-tick inputs, in port order
       din   <<node, port>> of the producer of a delayed (defer_tick or defer_tick_lazy) input, else <<>>
       k     integer argument (source / sink number, chain_first_n count, group ...)
       items tuple: the items of a source_iter
       lp    loop id (0 = not in a loop)
       refs  tuple of node ids whose handoff this operator's closure references (#name)
   Nodes are listed in an order in which every same-tick edge goes forward and the nodes of
   every loop are contiguous (the order in which one tick evaluates them). Cycles exist
   only through defer nodes, which read what was stored for them earlier.

   The semantics below never mentions pull/push, subgraphs or handoffs: C22 is therefore a
   pure conformance statement (every shape-perturbed variant is validated against the same
   model run).

   VALUES are integers and tuples of values.  A stream is a sequence. *)
EXTENDS Naturals, Integers, Sequences, FiniteSets, TLC

-----------------------------------------------------------------------------
(* Sequence helpers *)

RECURSIVE Flat(_)
Flat(ss) == IF ss = <<>> THEN <<>> ELSE Head(ss) \o Flat(Tail(ss))

\* TLC keeps a function constructor [i \in S |-> e] LAZY (FcnLambdaValue): every application
\* re-evaluates e.  Chains of such constructors that read their predecessor twice per element (TblPut,
\* SwapDefers, ...) cost 2^depth.  Mat materialises a sequence-shaped function once.
Mat(f) == f \o <<>>
SeqMap(F(_), s) == Mat([i \in 1..Len(s) |-> F(s[i])])
SeqFlatMap(F(_), s) == Flat([i \in 1..Len(s) |-> F(s[i])])
Count(s, x) == Cardinality({i \in 1..Len(s) : s[i] = x})
Range(s) == {s[i] : i \in 1..Len(s)}
BagEq(a, b) == Len(a) = Len(b) /\ \A i \in 1..Len(a) : Count(a, a[i]) = Count(b, a[i])
\* first occurrences, in order
Dedup(s) == SelectSeq([i \in 1..Len(s) |-> <<i, s[i]>>],
                      LAMBDA p : \A j \in 1..(p[1] - 1) : s[j] # p[2])
DedupVals(s) == LET d == Dedup(s) IN Mat([i \in 1..Len(d) |-> d[i][2]])
Max2(a, b) == IF a >= b THEN a ELSE b
Min2(a, b) == IF a <= b THEN a ELSE b
Take(s, n) == SubSeq(s, 1, Min2(n, Len(s)))
Drop(s, n) == SubSeq(s, Min2(n, Len(s)) + 1, Len(s))

RECURSIVE FoldL(_, _, _)
\* (TLC caches LET definitions but re-evaluates plain argument expressions at every use: an
\* accumulator that the callee reads k times would cost k^depth -- so every accumulator is LET-bound
\* before it is passed down; the same idiom is used in all recursive operators of this module)
FoldL(F(_, _), acc, s) == IF s = <<>> THEN acc
                          ELSE LET a2 == F(acc, Head(s))  t2 == Tail(s) IN FoldL(F, a2, t2)

-----------------------------------------------------------------------------
(* THE CLOSED CLOSURE VOCABULARY -- defined identically in Rust (hv_dfir/src/vocab.rs).
   Integer division / modulo are floor based (Rust side uses div_euclid / rem_euclid with
   positive divisors). *)

MapFn(f, x) ==
    CASE f = "inc" -> x + 1
      [] f = "dbl" -> 2 * x
      [] f = "mod3" -> x % 3
      [] f = "id" -> x
      [] f = "key_mod2" -> <<x % 2, x>>
      [] f = "key_mod3" -> <<x % 3, x>>
      [] f = "pair_self" -> <<x, x>>
      [] f = "fst" -> x[1]
      [] f = "snd" -> x[2]
      [] f = "swap" -> <<x[2], x[1]>>
      [] f = "sum_pair" -> x[1] + x[2]
      [] f = "val_inc" -> <<x[1], x[2] + 1>>
      [] f = "join_sum" -> <<x[1], x[2][1] + x[2][2]>>       \* (k,(a,b)) -> (k, a+b)
      [] f = "join_right" -> x[2][2]                          \* (k,(a,b)) -> b
      [] f = "mul10" -> 10 * x
      [] f = "add10" -> x + 10
      [] f \in {"to_max", "from_max", "kv_to_max", "kv_to_min"} -> x     \* lattice wrappers: Max / Min of naturals

PredFn(f, x) ==
    CASE f = "is_even" -> x % 2 = 0
      [] f = "lt3" -> x < 3
      [] f = "lt6" -> x < 6
      [] f = "lt100" -> x < 100
      [] f = "eq3" -> x = 3
      [] f = "eq13" -> x = 13
      [] f = "gt1" -> x > 1
      [] f = "key_even" -> x[1] % 2 = 0
      [] f = "val_lt3" -> x[2] < 3
      [] f = "true" -> TRUE

FlatFn(f, x) ==
    CASE f = "dup" -> <<x, x + 10>>
      [] f = "rep_mod3" -> [i \in 1..(x % 3) |-> x]
      [] f = "pair_flat" -> <<x[1], x[2]>>                    \* flatten of [a, b]

\* filter_map: <<>> = None, <<y>> = Some(y)
OptFn(f, x) ==
    CASE f = "half_even" -> IF x % 2 = 0 THEN <<x \div 2>> ELSE <<>>
      [] f = "dec_pos" -> IF x > 0 THEN <<x - 1>> ELSE <<>>

AccInit(f) ==
    CASE f = "sum" -> 0
      [] f = "max" -> 0
      [] f = "count" -> 0
      [] f = "push" -> <<>>
      [] f = "sum_snd" -> 0

AccStep(f, a, x) ==
    CASE f = "sum" -> a + x
      [] f = "max" -> Max2(a, x)
      [] f = "count" -> a + 1
      [] f = "push" -> Append(a, x)
      [] f = "sum_snd" -> a + x[2]

RedStep(f, a, x) ==
    CASE f = "sum" -> a + x
      [] f = "max" -> Max2(a, x)
      [] f = "min" -> Min2(a, x)

\* scan: returns <<>> (None: the scan is finished) or <<newacc, output>>
ScanStep(f, a, x) ==
    CASE f = "running_sum" -> <<a + x, a + x>>
      [] f = "sum_until_10" -> IF a + x > 10 THEN <<>> ELSE <<a + x, a + x>>

SortKey(f, x) ==
    CASE f = "neg" -> 0 - x
      [] f = "id" -> x
      [] f = "snd" -> x[2]
      [] f = "fst" -> x[1]

\* total order on values of one shape: "i" integers, "p" pairs of integers
ValLt(ty, a, b) ==
    CASE ty = "i" -> a < b
      [] ty = "p" -> a[1] < b[1] \/ (a[1] = b[1] /\ a[2] < b[2])
      [] ty = "kp" -> a[1] < b[1] \/ (a[1] = b[1] /\ (a[2][1] < b[2][1] \/ (a[2][1] = b[2][1] /\ a[2][2] < b[2][2])))

\* closures that read / write a referenced handoff cell (C25). cell is the CONTENT of the
\* referenced handoff: a sequence (<<v>> for a singleton, <<>> or <<v>> for an optional,
\* any sequence for handoff()).  Result: <<output value, new cell>>.
RefMapFn(f, x, cell) ==
    CASE f = "add_ref" -> <<x + cell[1], cell>>                           \* x + *#s
      [] f = "add_opt" -> <<x + (IF cell = <<>> THEN 100 ELSE cell[1]), cell>>   \* x + #o.unwrap_or(100)
      [] f = "add_len" -> <<x + Len(cell), cell>>                         \* x + #h.len()
      [] f = "mul_ref" -> <<x * cell[1], cell>>                           \* x * *#s
      [] f = "opt_mut" -> LET old == IF cell = <<>> THEN 100 ELSE cell[1]  \* *#mut o = Some(old + x); x + old
                          IN <<x + old, <<old + x>> >>
      [] f = "acc_mut" -> <<x + cell[1], <<cell[1] + x>> >>              \* *#mut s += x; x + old
      [] f = "push_mut" -> <<Len(cell), Append(cell, x)>>                 \* #mut h.push(x); old len
      [] f = "retain_gt" -> <<x, SelectSeq(cell, LAMBDA y : y > x)>>      \* #mut h.retain(|y| y > x); x
RefPredFn(f, x, cell) ==
    CASE f = "le_ref" -> x <= cell[1]                                     \* x <= *#s
      [] f = "le_opt" -> x <= (IF cell = <<>> THEN 2 ELSE cell[1])        \* x <= #o.unwrap_or(2)

-----------------------------------------------------------------------------
(* Join helpers.  A half-join state is a sequence of <<k, v>>.  `join` keeps sets (an equal
   (k,v) is stored once), `join_multiset` keeps everything. *)
Absorb(multi, state, items) ==
    IF multi THEN state \o items ELSE DedupVals(state \o items)

JoinAll(l, r) ==
    Flat([i \in 1..Len(l) |->
            LET m == SelectSeq(r, LAMBDA q : q[1] = l[i][1])
            IN [j \in 1..Len(m) |-> <<l[i][1], <<l[i][2], m[j][2]>> >>]])

CrossAll(l, r) == Flat([i \in 1..Len(l) |-> [j \in 1..Len(r) |-> <<l[i], r[j]>>]])

\* keyed tables: sequence of <<k, acc>> in first-seen key order
TblHas(t, k) == \E i \in 1..Len(t) : t[i][1] = k
TblGet(t, k) == t[CHOOSE i \in 1..Len(t) : t[i][1] = k][2]
TblPut(t, k, v) == IF TblHas(t, k)
                   THEN Mat([i \in 1..Len(t) |-> IF t[i][1] = k THEN <<k, v>> ELSE t[i]])
                   ELSE Append(t, <<k, v>>)

\* multiset_delta: emit the occurrences exceeding the previous tick's count, in order
MsDelta(prev, cur) ==
    LET idx == SelectSeq([i \in 1..Len(cur) |-> i],
                         LAMBDA i : Cardinality({j \in 1..i : cur[j] = cur[i]}) > Count(prev, cur[i]))
    IN Mat([i \in 1..Len(idx) |-> cur[idx[i]]])

-----------------------------------------------------------------------------
(* Per-operator state *)
NONE == <<>>
Some(v) == <<v>>

InitSt(nd) ==
    CASE nd.op \in {"fold", "fold_no_replay"} -> AccInit(nd.fn)
      [] nd.op \in {"reduce", "reduce_no_replay", "reduce_no_replay_pushbug"} -> NONE
      [] nd.op \in {"fold_keyed", "reduce_keyed"} -> <<>>
      [] nd.op \in {"join", "join_multiset", "cross_join", "cross_join_multiset", "zip", "join_fused",
                    "join_fused_lhs", "join_fused_rhs", "join_multiset_half"} -> <<<<>>, <<>>>>
      [] nd.op \in {"anti_join", "difference"} -> <<<<>>, {}>>       \* <<pos vector, neg set>>
      [] nd.op \in {"state", "lattice_fold_batch"} -> 0              \* Max lattice over naturals: bottom 0
      [] nd.op = "state_by" -> {}
      [] nd.op = "unique" -> {}
      [] nd.op = "persist" -> <<>>
      [] nd.op = "multiset_delta" -> <<>>
      [] nd.op = "enumerate" -> 0
      [] nd.op = "scan" -> Some(0)
      [] nd.op \in {"defer_tick", "defer_tick_lazy"} -> [buf |-> <<>>, back |-> <<>>]
      [] nd.op = "source_iter" -> FALSE                              \* already emitted?
      [] nd.op = "cross_singleton" -> NONE
      [] nd.op = "defer_signal" -> <<>>
      [] OTHER -> 0

IsTick(nd, i) == nd.pers[i] = "tick"

\* state after `write_tick_end`: 'tick state is reset, 'static state kept
TickEnd(nd, s) ==
    CASE nd.op \in {"fold", "fold_no_replay"} -> IF IsTick(nd, 1) THEN AccInit(nd.fn) ELSE s
      [] nd.op \in {"reduce", "reduce_no_replay", "reduce_no_replay_pushbug"} -> IF IsTick(nd, 1) THEN NONE ELSE s
      [] nd.op \in {"fold_keyed", "reduce_keyed"} -> IF IsTick(nd, 1) THEN <<>> ELSE s
      [] nd.op \in {"join", "join_multiset", "cross_join", "cross_join_multiset", "zip", "join_fused",
                    "join_fused_lhs", "join_fused_rhs", "join_multiset_half"} ->
            <<IF IsTick(nd, 1) THEN <<>> ELSE s[1], IF IsTick(nd, 2) THEN <<>> ELSE s[2]>>
      [] nd.op = "state" -> IF IsTick(nd, 1) THEN 0 ELSE s
      [] nd.op = "state_by" -> IF IsTick(nd, 1) THEN {} ELSE s
      [] nd.op \in {"anti_join", "difference"} ->
            <<IF IsTick(nd, 1) THEN <<>> ELSE s[1], IF IsTick(nd, 2) THEN {} ELSE s[2]>>
      [] nd.op = "unique" -> IF IsTick(nd, 1) THEN {} ELSE s
      [] nd.op = "enumerate" -> IF IsTick(nd, 1) THEN 0 ELSE s
      [] nd.op = "scan" -> IF IsTick(nd, 1) THEN Some(0) ELSE s
      [] nd.op = "cross_singleton" -> IF IsTick(nd, 1) THEN NONE ELSE s
      [] OTHER -> s

-----------------------------------------------------------------------------
(* One operator, one run: ins = tuple of complete input sequences (blocking inputs see
   the tick's complete input by construction -- this IS the statement of C23), s = state,
   tick = value of the tick counter, ext = external inputs of this tick, cells = contents
   of the handoffs this operator references.  Result [o |-> tuple of output-port
   sequences, s |-> new state, c |-> new contents of the referenced cells]. *)

RECURSIVE UniqueRun(_, _, _)
UniqueRun(seen, s, out) ==
    IF s = <<>> THEN <<seen, out>>
    ELSE LET t2 == Tail(s) IN
         IF Head(s) \in seen THEN UniqueRun(seen, t2, out)
         ELSE LET s2 == seen \cup {Head(s)}  o2 == Append(out, Head(s)) IN UniqueRun(s2, t2, o2)

RECURSIVE ScanRun(_, _, _, _)
ScanRun(f, acc, s, out) ==       \* acc: NONE or Some(a)
    IF s = <<>> \/ acc = NONE THEN <<acc, out>>
    ELSE LET r == ScanStep(f, acc[1], Head(s))
         IN IF r = <<>> THEN <<NONE, out>>
            ELSE LET a2 == Some(r[1])  t2 == Tail(s)  o2 == Append(out, r[2]) IN ScanRun(f, a2, t2, o2)

RECURSIVE KeyedRun(_, _, _, _)
KeyedRun(isFold, f, t, s) ==
    IF s = <<>> THEN t
    ELSE LET k == Head(s)[1]  v == Head(s)[2]
             nv == IF isFold THEN AccStep(f, IF TblHas(t, k) THEN TblGet(t, k) ELSE AccInit(f), v)
                   ELSE IF TblHas(t, k) THEN RedStep(f, TblGet(t, k), v) ELSE v
             nt == TblPut(t, k, nv)
             t2 == Tail(s)
         IN KeyedRun(isFold, f, nt, t2)

RECURSIVE RefMapRun(_, _, _, _)
RefMapRun(f, s, cell, out) ==
    IF s = <<>> THEN <<out, cell>>
    ELSE LET r == RefMapFn(f, Head(s), cell)  t2 == Tail(s)  c2 == r[2]  o2 == Append(out, r[1])
         IN RefMapRun(f, t2, c2, o2)

\* state::<Max>: items that strictly raise the maximum pass; result <<new max, passed items>>
RECURSIVE StateMaxRun(_, _, _)
StateMaxRun(m, s, out) ==
    IF s = <<>> THEN <<m, out>>
    ELSE LET t2 == Tail(s) IN
         IF Head(s) > m THEN LET m2 == Head(s)  o2 == Append(out, Head(s)) IN StateMaxRun(m2, t2, o2)
         ELSE StateMaxRun(m, t2, out)

RECURSIVE SetToSeqP(_)
SetToSeqP(S) == IF S = {} THEN <<>> ELSE LET x == CHOOSE y \in S : TRUE IN <<x>> \o SetToSeqP(S \ {x})

RECURSIVE SetSorted(_)
SetSorted(S) == IF S = {} THEN <<>>
                ELSE LET m == CHOOSE x \in S : \A y \in S : x <= y IN <<m>> \o SetSorted(S \ {m})

\* join_fused accumulators, selected by nd.k: 1 = (Reduce max, Fold sum), 2 = (Min lattice, Max lattice)
FusedTbl(k, side, t, items) ==
    CASE k = 1 /\ side = 1 -> KeyedRun(FALSE, "max", t, items)
      [] k = 1 /\ side = 2 -> KeyedRun(TRUE, "sum", t, items)
      [] k = 2 /\ side = 1 -> KeyedRun(FALSE, "min", t, items)
      [] k = 2 /\ side = 2 -> KeyedRun(FALSE, "max", t, items)

Res(o, s) == [o |-> o, s |-> s, c |-> <<>>]
ResC(o, s, c) == [o |-> o, s |-> s, c |-> c]

Step(nd, ins, s, tick, ext, cells) ==
    LET op == nd.op IN
    CASE op = "source_stream" -> Res(<<ext[nd.k]>>, s)
      [] op = "source_iter" -> Res(<<IF s THEN <<>> ELSE nd.items>>, TRUE)
      [] op \in {"identity", "tee", "inspect", "batch", "batch_lazy", "all_iterations",
                 "handoff", "singleton", "optional", "sink", "resolve_futures", "resolve_futures_ordered",
                 "resolve_futures_blocking", "resolve_futures_blocking_ordered"} -> Res(<<ins[1]>>, s)
      [] op = "null" -> Res(<<<<>>>>, s)
      [] op = "map" -> Res(<<SeqMap(LAMBDA x : MapFn(nd.fn, x), ins[1])>>, s)
      [] op = "filter" -> Res(<<SelectSeq(ins[1], LAMBDA x : PredFn(nd.fn, x))>>, s)
      [] op = "flat_map" -> Res(<<SeqFlatMap(LAMBDA x : FlatFn(nd.fn, x), ins[1])>>, s)
      [] op = "filter_map" -> Res(<<SeqFlatMap(LAMBDA x : OptFn(nd.fn, x), ins[1])>>, s)
      [] op = "flatten" -> Res(<<Flat(ins[1])>>, s)
      [] op \in {"union", "chain"} -> Res(<<Flat(ins)>>, s)
      [] op = "chain_first_n" -> Res(<<Take(Flat(ins), nd.k)>>, s)
      [] op = "fold" ->
            LET a == FoldL(LAMBDA acc, x : AccStep(nd.fn, acc, x), s, ins[1])
            IN Res(<<<<a>>>>, a)
      [] op = "fold_no_replay" ->
            LET a == FoldL(LAMBDA acc, x : AccStep(nd.fn, acc, x), s, ins[1])
            IN Res(<<IF ins[1] # <<>> \/ tick = 0 THEN <<a>> ELSE <<>>>>, a)
      [] op = "reduce" ->
            LET a == FoldL(LAMBDA acc, x : IF acc = NONE THEN Some(x) ELSE Some(RedStep(nd.fn, acc[1], x)),
                           s, ins[1])
            IN Res(<<a>>, a)
      [] op = "reduce_no_replay" ->
            LET a == FoldL(LAMBDA acc, x : IF acc = NONE THEN Some(x) ELSE Some(RedStep(nd.fn, acc[1], x)),
                           s, ins[1])
            IN Res(<<IF ins[1] # <<>> \/ tick = 0 THEN a ELSE <<>>>>, a)
      \* NOT the documented semantics: the behaviour of the known defect
      \* dfirtick/reduce_no_replay/push-side-first-item (the first item of an empty accumulator does
      \* not count as an update).  Never generated; only substituted by the driver to decide whether
      \* a mismatch is fully explained by that known finding.
      [] op = "reduce_no_replay_pushbug" ->
            LET a == FoldL(LAMBDA acc, x : IF acc = NONE THEN Some(x) ELSE Some(RedStep(nd.fn, acc[1], x)),
                           s, ins[1])
                upd == Len(ins[1]) >= 2 \/ (Len(ins[1]) >= 1 /\ s # NONE)
            IN Res(<<IF upd \/ tick = 0 THEN a ELSE <<>>>>, a)
      [] op \in {"fold_keyed", "reduce_keyed"} ->
            LET t == KeyedRun(op = "fold_keyed", nd.fn, s, ins[1]) IN Res(<<t>>, t)
      [] op \in {"join", "join_multiset"} ->
            LET l == Absorb(op = "join_multiset", s[1], ins[1])
                r == Absorb(op = "join_multiset", s[2], ins[2])
            IN Res(<<JoinAll(l, r)>>, <<l, r>>)
      [] op = "cross_join" ->
            LET l == Absorb(FALSE, s[1], ins[1])
                r == Absorb(FALSE, s[2], ins[2])
            IN Res(<<CrossAll(l, r)>>, <<l, r>>)
      [] op = "cross_join_multiset" ->
            LET l == s[1] \o ins[1]
                r == s[2] \o ins[2]
            IN Res(<<CrossAll(l, r)>>, <<l, r>>)
      [] op = "anti_join" ->         \* ins[1] = pos, ins[2] = neg  (our port order)
            LET neg == s[2] \cup {ins[2][i] : i \in 1..Len(ins[2])}
                pos == IF IsTick(nd, 1) THEN ins[1] ELSE s[1] \o ins[1]
            IN Res(<<SelectSeq(pos, LAMBDA kv : kv[1] \notin neg)>>, <<pos, neg>>)
      [] op = "difference" ->
            LET neg == s[2] \cup {ins[2][i] : i \in 1..Len(ins[2])}
                pos == IF IsTick(nd, 1) THEN ins[1] ELSE s[1] \o ins[1]
            IN Res(<<SelectSeq(pos, LAMBDA x : x \notin neg)>>, <<pos, neg>>)
      [] op = "unique" ->
            LET r == UniqueRun(s, ins[1], <<>>) IN Res(<<r[2]>>, r[1])
      [] op = "persist" -> Res(<<s \o ins[1]>>, s \o ins[1])
      [] op = "multiset_delta" -> Res(<<MsDelta(s, ins[1])>>, ins[1])
      [] op = "sort" -> Res(<<SortSeq(ins[1], LAMBDA a, b : ValLt(nd.fn, a, b))>>, s)
      [] op = "sort_by_key" ->
            Res(<<SortSeq(ins[1], LAMBDA a, b : SortKey(nd.fn, a) < SortKey(nd.fn, b))>>, s)
      [] op = "enumerate" ->
            Res(<<Mat([i \in 1..Len(ins[1]) |-> <<s + i - 1, ins[1][i]>>])>>, s + Len(ins[1]))
      [] op = "zip" ->
            LET l == s[1] \o ins[1]
                r == s[2] \o ins[2]
                n == Min2(Len(l), Len(r))
            IN Res(<<[i \in 1..n |-> <<l[i], r[i]>>]>>, <<Drop(l, n), Drop(r, n)>>)
      [] op = "scan" ->
            LET r == ScanRun(nd.fn, s, ins[1], <<>>) IN Res(<<r[2]>>, r[1])
      [] op = "cross_singleton" ->   \* ins[1] = input, ins[2] = single
            LET sg == IF s # NONE THEN s ELSE IF ins[2] # <<>> THEN Some(ins[2][1]) ELSE NONE
            IN Res(<<IF sg = NONE THEN <<>> ELSE [i \in 1..Len(ins[1]) |-> <<ins[1][i], sg[1]>>]>>, sg)
      [] op = "defer_signal" ->      \* ins[1] = input, ins[2] = signal
            LET b == s \o ins[1]
            IN IF ins[2] # <<>> THEN Res(<<b>>, <<>>) ELSE Res(<<<<>>>>, b)
      [] op = "state" ->             \* port 1 = [items], port 2 = [state] (emitted once every tick)
            LET r == StateMaxRun(s, ins[1], <<>>) IN Res(<<r[2], <<r[1]>>>>, r[1])
      [] op = "state_by" ->          \* set-union lattice
            LET r == UniqueRun(s, ins[1], <<>>) IN Res(<<r[2], <<SetSorted(r[1])>>>>, r[1])
      [] op = "zip_longest" ->       \* <<0,<<a,b>>>> both, <<1,<<a,-1>>>> left only, <<2,<<-1,b>>>> right only
            LET l == ins[1]  r == ins[2]  n == Max2(Len(l), Len(r))
            IN Res(<<[i \in 1..n |->
                        IF i <= Len(l) /\ i <= Len(r) THEN <<0, <<l[i], r[i]>>>>
                        ELSE IF i <= Len(l) THEN <<1, <<l[i], 0 - 1>>>> ELSE <<2, <<0 - 1, r[i]>>>>]>>, s)
      [] op = "join_fused" ->        \* both sides folded per key, then joined; re-emitted every tick
            LET l == FusedTbl(nd.k, 1, s[1], ins[1])
                r == FusedTbl(nd.k, 2, s[2], ins[2])
                m == SelectSeq(r, LAMBDA e : TblHas(l, e[1]))
            IN Res(<<[i \in 1..Len(m) |-> <<m[i][1], <<TblGet(l, m[i][1]), m[i][2]>>>>]>>, <<l, r>>)
      [] op = "join_fused_lhs" ->    \* port 1 reduced per key, port 2 a multiset (vector when 'static)
            LET l == KeyedRun(FALSE, nd.fn, s[1], ins[1])
                r == s[2] \o ins[2]
                m == SelectSeq(r, LAMBDA e : TblHas(l, e[1]))
            IN Res(<<[i \in 1..Len(m) |-> <<m[i][1], <<TblGet(l, m[i][1]), m[i][2]>>>>]>>, <<l, r>>)
      [] op = "join_fused_rhs" ->    \* port 1 a multiset, port 2 reduced per key
            LET l == s[1] \o ins[1]
                r == KeyedRun(FALSE, nd.fn, s[2], ins[2])
                m == SelectSeq(l, LAMBDA e : TblHas(r, e[1]))
            IN Res(<<[i \in 1..Len(m) |-> <<m[i][1], <<m[i][2], TblGet(r, m[i][1])>>>>]>>, <<l, r>>)
      [] op = "join_multiset_half" ->   \* ins[1] = build, ins[2] = probe; output in probe order
            LET b == s[1] \o ins[1]
                pr == s[2] \o ins[2]
            IN Res(<<Flat([i \in 1..Len(pr) |->
                            LET m == SelectSeq(b, LAMBDA e : e[1] = pr[i][1])
                            IN [j \in 1..Len(m) |-> <<pr[i][1], <<pr[i][2], m[j][2]>>>>]])>>, <<b, pr>>)
      [] op = "lattice_fold_batch" ->   \* ins[1] = input (Max lattice), ins[2] = signal; no tick reset
            LET a == FoldL(LAMBDA acc, x : Max2(acc, x), s, ins[1])
            IN IF ins[2] # <<>> THEN Res(<<<<a>>>>, 0) ELSE Res(<<<<>>>>, a)
      [] op \in {"partition", "demux_enum"} ->   \* fn: predicate; port 1 = true, port 2 = false
            Res(<<SelectSeq(ins[1], LAMBDA x : PredFn(nd.fn, x)),
                  SelectSeq(ins[1], LAMBDA x : ~PredFn(nd.fn, x))>>, s)
      [] op = "unzip" ->
            Res(<<SeqMap(LAMBDA x : x[1], ins[1]), SeqMap(LAMBDA x : x[2], ins[1])>>, s)
      [] op \in {"defer_tick", "defer_tick_lazy"} -> Res(<<s.back>>, [s EXCEPT !.back = <<>>])
      [] op = "ref_map" ->
            LET r == RefMapRun(nd.fn, ins[1], cells[1], <<>>) IN ResC(<<r[1]>>, s, <<r[2]>>)
      [] op = "ref_filter" ->
            ResC(<<SelectSeq(ins[1], LAMBDA x : RefPredFn(nd.fn, x, cells[1]))>>, s, cells)
      [] op = "iter_ref" -> ResC(<<cells[1]>>, s, cells)
      \* cartesian-product bimorphism over set unions: ins = the deltas of this tick, cells = the
      \* settled accumulated sets <<sorted seq>>; one merged set per tick, nothing without a delta
      [] op = "lattice_bimorphism" ->
            LET L == Range(cells[1][1])  R == Range(cells[2][1])
                S == {<<a, b>> : a \in Range(ins[1]), b \in R} \cup {<<a, b>> : a \in L, b \in Range(ins[2])}
            IN ResC(<<IF ins[1] = <<>> /\ ins[2] = <<>> THEN <<>> ELSE SortSeq(SetToSeqP(S), LAMBDA x, y : ValLt("p", x, y))>>, s, cells)

IsDefer(nd) == nd.op \in {"defer_tick", "defer_tick_lazy"}
NoDelay(nd) == ~IsDefer(nd)

-----------------------------------------------------------------------------
(* One tick.  `vals[n]` = tuple of the output-port sequences of node n in this tick (the
   content of the handoff after n, which reference readers may rewrite before its pipe
   consumers run -- C25). *)

NodeIns(P, vals, n) ==
    LET nd == P.nodes[n] IN Mat([i \in 1..Len(nd.in) |-> vals[nd.in[i][1]][nd.in[i][2]]])

\* evaluate node n, return the updated <<vals, sts>>
EvalNode(P, n, vals, sts, tick, ext) ==
    LET nd == P.nodes[n]
        cells == [i \in 1..Len(nd.refs) |-> vals[nd.refs[i]][1]]
        r == Step(nd, NodeIns(P, vals, n), sts[n], tick, ext, cells)
        v1 == [vals EXCEPT ![n] = r.o]
        v2 == Mat([m \in 1..Len(P.nodes) |->
                 IF \E i \in 1..Len(nd.refs) : nd.refs[i] = m
                 THEN <<r.c[CHOOSE i \in 1..Len(nd.refs) : nd.refs[i] = m]>> ELSE v1[m]])
    IN <<IF Len(nd.refs) = 0 THEN v1 ELSE v2, [sts EXCEPT ![n] = r.s]>>

(* Loops (C26).  P.loops[l] = [parent, first, last, root]: nodes first..last are the block of
   loop l (nested loops are sub-ranges).  `it` = 1 for the first iteration of the enclosing
   loop block in this activation: entry (windowing) nodes deliver their outside input only
   then (the entry handoff is drained by the first iteration).  *)
IsEntry(nd) == nd.op \in {"batch", "batch_lazy"}

\* the loop that directly contains node n, or 0
ChildLoopAt(P, n, ctx) ==
    LET c == {l \in 1..Len(P.loops) : P.loops[l].parent = ctx /\ P.loops[l].first = n}
    IN IF c = {} THEN 0 ELSE CHOOSE l \in c : TRUE

\* defer nodes whose consumer (the defer node itself) sits directly in loop l
DefersOf(P, l) == {n \in 1..Len(P.nodes) : IsDefer(P.nodes[n]) /\ P.nodes[n].lp = l}

\* swap the double buffers of the given defer nodes
SwapDefers(sts, ds) ==
    Mat([n \in DOMAIN sts |-> IF n \in ds THEN [buf |-> sts[n].back, back |-> sts[n].buf] ELSE sts[n]])

\* the producer of defer node d ran (in this pass) and wrote `items`: clear + fill its send buffer
\* (done for every defer whose producer node was evaluated in the pass over a..b)
WriteDefers(P, vals, sts, l) ==
    Mat([n \in DOMAIN sts |->
        IF IsDefer(P.nodes[n]) /\ P.nodes[P.nodes[n].din[1]].lp = l
        THEN [sts[n] EXCEPT !.buf = vals[P.nodes[n].din[1]][P.nodes[n].din[2]]]
        ELSE sts[n]])

EmptyAcc(P, l) == [n \in P.loops[l].first..P.loops[l].last |-> [p \in 1..3 |-> <<>>]]
RECURSIVE RunRange(_, _, _, _, _, _, _, _, _)
RECURSIVE RunLoop(_, _, _, _, _, _, _, _)

\* evaluate nodes a..b in loop context ctx; `it` as above. Returns <<vals, sts>>.
RunRange(P, a, b, ctx, it, vals, sts, tick, ext) ==
    IF a > b THEN <<vals, sts>>
    ELSE LET l == ChildLoopAt(P, a, ctx) IN
         IF l # 0
         THEN LET r == RunLoop(P, l, 1, vals, sts, tick, ext, EmptyAcc(P, l))
              IN RunRange(P, P.loops[l].last + 1, b, ctx, it, r[1], r[2], tick, ext)
         ELSE LET nd == P.nodes[a]
                  \* an entry node sees its outside input only in the first iteration
                  r == IF IsEntry(nd) /\ it > 1
                       THEN <<[vals EXCEPT ![a] = <<<<>>>>], sts>>
                       ELSE EvalNode(P, a, vals, sts, tick, ext)
              IN RunRange(P, a + 1, b, ctx, it, r[1], r[2], tick, ext)

\* gate of loop l before iteration `it`
EntryNonEmpty(P, l, vals, it) ==
    it = 1 /\ \E n \in P.loops[l].first..P.loops[l].last :
        /\ P.nodes[n].lp = l /\ P.nodes[n].op = "batch"
        /\ vals[P.nodes[n].in[1][1]][P.nodes[n].in[1][2]] # <<>>
HasGate(P, l) ==
    \/ \E n \in P.loops[l].first..P.loops[l].last : P.nodes[n].lp = l /\ P.nodes[n].op = "batch"
    \/ \E n \in DefersOf(P, l) : P.nodes[n].op = "defer_tick"
BackNonEmpty(P, l, sts) ==
    \E n \in DefersOf(P, l) : P.nodes[n].op = "defer_tick" /\ sts[n].back # <<>>

MAXITER == 40

\* exit nodes (all_iterations in the parent context) accumulate over the iterations: the
\* values of the loop's own nodes that are read from outside are accumulated in `acc`
\* (a function node -> tuple of port sequences, all empty at the start)
AccumVals(P, l, acc, vals) ==
    [n \in P.loops[l].first..P.loops[l].last |->
        [p \in 1..3 |-> acc[n][p] \o (IF p <= Len(vals[n]) THEN vals[n][p] ELSE <<>>)]]

RunLoop(P, l, it, vals, sts, tick, ext, acc) ==
    LET L == P.loops[l]
        fire == IF ~HasGate(P, l) THEN it = 1
                ELSE EntryNonEmpty(P, l, vals, it) \/ BackNonEmpty(P, l, sts)
        emptyVals == [n \in 1..Len(P.nodes) |->
                        IF n >= L.first /\ n <= L.last
                        THEN acc[n]
                        ELSE vals[n]]
    IN IF ~fire \/ it > MAXITER THEN <<emptyVals, sts>>
       ELSE LET r == RunRange(P, L.first, L.last, l, it, vals, sts, tick, ext)
                s1 == WriteDefers(P, r[1], r[2], l)
                \* only the defers consumed directly in this loop are swapped by its gate
                s2 == SwapDefers(s1, DefersOf(P, l))
                acc2 == AccumVals(P, l, acc, r[1])
            IN IF L.root THEN <<[n \in 1..Len(P.nodes) |->
                                   IF n >= L.first /\ n <= L.last THEN acc2[n] ELSE r[1][n]], s2>>
               ELSE RunLoop(P, l, it + 1, r[1], s2, tick, ext, acc2)

\* defers consumed outside any loop, or inside a NESTED loop but produced ... (tick-level swap)
TickLevelDefers(P) == {n \in 1..Len(P.nodes) : IsDefer(P.nodes[n]) /\ P.nodes[n].lp = 0}

InitSts(P) == [n \in 1..Len(P.nodes) |-> InitSt(P.nodes[n])]

\* the `schedule_subgraph(true)` condition at the end of the tick closure
WakeAfter(P, sts) ==
    \E n \in 1..Len(P.nodes) :
        /\ P.nodes[n].op = "defer_tick"
        /\ IF P.nodes[n].lp # 0 /\ P.loops[P.nodes[n].lp].root
           THEN sts[n].back # <<>> ELSE sts[n].buf # <<>>

(* One tick: result [outs |-> per sink k the sequence it received, sts |-> state after the
   tick, wake |-> whether the tick asked for another tick]. *)
TickRun(P, sts, tick, ext) ==
    LET N == Len(P.nodes)
        v0 == [n \in 1..N |-> [p \in 1..3 |-> <<>>]]
        r == RunRange(P, 1, N, 0, 1, v0, sts, tick, ext)
        \* producers outside loops wrote their send buffers
        s1 == Mat([n \in 1..N |->
                 IF IsDefer(P.nodes[n]) /\ P.nodes[P.nodes[n].din[1]].lp = 0
                 THEN [r[2][n] EXCEPT !.buf = r[1][P.nodes[n].din[1]][P.nodes[n].din[2]]]
                 ELSE r[2][n]])
        wake == WakeAfter(P, s1)
        s2 == SwapDefers(s1, TickLevelDefers(P))
        s3 == Mat([n \in 1..N |-> TickEnd(P.nodes[n], s2[n])])
        sinkNode(k) == CHOOSE n \in 1..N : P.nodes[n].op = "sink" /\ P.nodes[n].k = k
    IN [outs |-> [k \in 1..P.nsink |-> r[1][sinkNode(k)][1]], sts |-> s3, wake |-> wake]

(* run_available: clear the flag, run one tick, keep ticking while a tick asked for another
   one.  External inputs are consumed by the first tick.  Result: sequence of per-tick
   results (bounded by `fuel`; a longer run is reported by the caller). *)
RECURSIVE AvailRun(_, _, _, _, _, _)
AvailRun(P, sts, tick, ext, fuel, acc) ==
    LET r == TickRun(P, sts, tick, ext)
        acc2 == Append(acc, r)
    IN IF r.wake /\ fuel > 1
       THEN AvailRun(P, r.sts, tick + 1, [k \in DOMAIN ext |-> <<>>], fuel - 1, acc2)
       ELSE acc2

-----------------------------------------------------------------------------
(* The state machine (monitor): one DFIR instance.
     prog   the program (as data)
     sts    per-node operator state
     tick   the tick counter (Context::current_tick)
     pend   pend[k]: items queued on external source k and not yet taken by a tick
     outs   what the last Tick / RunAvailable produced: sequence (one entry per executed
            tick) of per-sink sequences
     asked  the last executed tick asked for another tick (a non-lazy deferred buffer was
            non-empty: `schedule_subgraph(true)`)                                        *)
VARIABLES prog, sts, tick, pend, outs, asked
mvars == <<prog, sts, tick, pend, outs, asked>>

NoPend(P) == [k \in 1..P.nsrc |-> <<>>]

MInit(P) ==
    /\ prog = P /\ sts = InitSts(P) /\ tick = 0 /\ pend = NoPend(P) /\ outs = <<>> /\ asked = FALSE
MReset(P) ==
    /\ prog' = P /\ sts' = InitSts(P) /\ tick' = 0 /\ pend' = NoPend(P) /\ outs' = <<>> /\ asked' = FALSE

\* the environment queues items on external source k
MSend(k, items) ==
    /\ pend' = [pend EXCEPT ![k] = @ \o items]
    /\ UNCHANGED <<prog, sts, tick, outs, asked>>

\* run_tick: exactly one tick
MTick ==
    LET r == TickRun(prog, sts, tick, pend) IN
    /\ sts' = r.sts /\ tick' = tick + 1 /\ pend' = NoPend(prog)
    /\ outs' = <<r.outs>> /\ asked' = r.wake /\ UNCHANGED prog

AVAILFUEL == 60
\* run_available: ticks until no tick asks for another one
MAvail ==
    LET rs == AvailRun(prog, sts, tick, pend, AVAILFUEL, <<>>) IN
    /\ sts' = rs[Len(rs)].sts /\ tick' = tick + Len(rs) /\ pend' = NoPend(prog)
    /\ outs' = [i \in 1..Len(rs) |-> rs[i].outs] /\ asked' = rs[Len(rs)].wake /\ UNCHANGED prog
=============================================================================
