SPECIFICATION Spec
CONSTANTS
  MaxSteps = 3
  Dom = {0, 1, 2}
  MaxLen = 1
INVARIANT Inv
CHECK_DEADLOCK FALSE
