SPECIFICATION Spec
CONSTANTS
  MaxSteps = 2
  Dom = {0, 2}
  MaxLen = 1
  Fuel = 8
INVARIANT Inv
CHECK_DEADLOCK FALSE
