----------------------------- MODULE DfirTickMC -----------------------------
(* Model checking of the DfirTick semantics itself on tiny programs x ALL input histories
   (every step: every input over a small domain, run_tick or run_available).  What is
   checked (the model-level statements of C24, C26 and the model half of C22):
     TickCounter       the tick counter equals the number of executed ticks (+1 per tick)
     DeferNextOnly     an item entering defer_tick / defer_tick_lazy in tick t is observed
                       downstream in tick t+1 and only there
     AvailLazyOneTick  run_available never ticks again just because lazy data is pending
     AvailDies         run_available terminates when the deferred chain dies out, and the
                       cycle delivers exactly x, x+1, .. up to the bound, one step per tick
     AvailForever      ... and does not terminate (fuel exhausted) when it never dies
     TickVsStatic      'tick state is cleared at the end of every tick, 'static state kept
     ShapeInvariance   a program and its shape-perturbed twin (identity / handoff / union with
                       an empty source / tee+null inserted) produce identical outputs forever
     NestedFixpoint    a nested loop iterates to its fixpoint within ONE tick
     RootOncePerTick   a root-level loop body runs at most once per tick (one step per tick)
   The same TickRun / AvailRun operators are the oracle of the trace validation. *)
EXTENDS DfirTick

CONSTANTS MaxSteps,     \* number of run calls per behaviour
          Dom,          \* item domain, e.g. 0..2
          MaxLen,       \* max items sent per source per step
          Fuel          \* ticks after which run_available is declared non-terminating

N(op, fn, pers, in, din, k, lp) ==
    [op |-> op, fn |-> fn, pers |-> pers, in |-> in, din |-> din, k |-> k, items |-> <<>>,
     lp |-> lp, refs |-> <<>>]
Src(k) == N("source_stream", "", <<>>, <<>>, <<>>, k, 0)
Sink(k, n, lp) == N("sink", "", <<>>, <<<<n, 1>>>>, <<>>, k, lp)
Prog(nodes, loops, nsrc, nsink) == [nodes |-> nodes, loops |-> loops, nsrc |-> nsrc, nsink |-> nsink]
NoLoops == <<>>

\* 1: src -> defer_tick -> sink            2: src -> defer_tick_lazy -> sink
PDefer(lazy) == Prog(<<Src(1),
                       N(IF lazy THEN "defer_tick_lazy" ELSE "defer_tick", "", <<>>, <<>>, <<1, 1>>, 0, 0),
                       Sink(1, 2, 0)>>, NoLoops, 1, 1)
\* 3: counting cycle through defer_tick: x -> x+1 while x < 3          (dies out)
\* 4: identity cycle through defer_tick                                 (never dies)
\* 5: counting cycle through defer_tick_lazy
PCycle(op, dies) == Prog(<<Src(1),
                           N(op, "", <<>>, <<>>, IF dies THEN <<5, 1>> ELSE <<3, 1>>, 0, 0),
                           N("union", "", <<>>, <<<<1, 1>>, <<2, 1>>>>, <<>>, 0, 0),
                           N("filter", "lt3", <<>>, <<<<3, 1>>>>, <<>>, 0, 0),
                           N("map", "inc", <<>>, <<<<4, 1>>>>, <<>>, 0, 0),
                           Sink(1, 3, 0),
                           Sink(2, 5, 0)>>, NoLoops, 1, 2)
\* 6: fold 'tick and fold 'static of the same source
PFold == Prog(<<Src(1),
                N("fold", "sum", <<"tick">>, <<<<1, 1>>>>, <<>>, 0, 0),
                N("fold", "sum", <<"static">>, <<<<1, 1>>>>, <<>>, 0, 0),
                Sink(1, 2, 0), Sink(2, 3, 0)>>, NoLoops, 1, 2)
\* 7 / 8: a stateful program and its shape-perturbed twin
PBase == Prog(<<Src(1), Src(2),
                N("map", "key_mod2", <<>>, <<<<1, 1>>>>, <<>>, 0, 0),
                N("map", "key_mod2", <<>>, <<<<2, 1>>>>, <<>>, 0, 0),
                N("join", "", <<"tick", "static">>, <<<<3, 1>>, <<4, 1>>>>, <<>>, 0, 0),
                N("unique", "", <<"static">>, <<<<1, 1>>>>, <<>>, 0, 0),
                N("reduce", "max", <<"tick">>, <<<<6, 1>>>>, <<>>, 0, 0),
                Sink(1, 5, 0), Sink(2, 7, 0)>>, NoLoops, 2, 2)
PTwin == Prog(<<Src(1), Src(2),
                N("identity", "", <<>>, <<<<1, 1>>>>, <<>>, 0, 0),                    \* 3
                N("map", "key_mod2", <<>>, <<<<3, 1>>>>, <<>>, 0, 0),                 \* 4
                N("handoff", "", <<>>, <<<<2, 1>>>>, <<>>, 0, 0),                     \* 5
                N("map", "key_mod2", <<>>, <<<<5, 1>>>>, <<>>, 0, 0),                 \* 6
                N("source_iter", "", <<>>, <<>>, <<>>, 0, 0),                         \* 7 (empty)
                N("union", "", <<>>, <<<<6, 1>>, <<7, 1>>>>, <<>>, 0, 0),             \* 8
                N("join", "", <<"tick", "static">>, <<<<4, 1>>, <<8, 1>>>>, <<>>, 0, 0), \* 9
                N("tee", "", <<>>, <<<<1, 1>>>>, <<>>, 0, 0),                         \* 10
                N("null", "", <<>>, <<<<10, 1>>>>, <<>>, 0, 0),                       \* 11
                N("unique", "", <<"static">>, <<<<10, 1>>>>, <<>>, 0, 0),             \* 12
                N("map", "id", <<>>, <<<<12, 1>>>>, <<>>, 0, 0),                      \* 13
                N("reduce", "max", <<"tick">>, <<<<13, 1>>>>, <<>>, 0, 0),            \* 14
                Sink(1, 9, 0), Sink(2, 14, 0)>>, NoLoops, 2, 2)
\* 9: nested loop: counting cycle inside loop { loop { } }       10: root-level loop with the cycle
PNested == Prog(<<Src(1),
                  N("batch", "", <<>>, <<<<1, 1>>>>, <<>>, 0, 1),                     \* 2
                  N("identity", "", <<>>, <<<<2, 1>>>>, <<>>, 0, 1),                  \* 3
                  N("batch", "", <<>>, <<<<3, 1>>>>, <<>>, 0, 2),                     \* 4
                  N("defer_tick", "", <<>>, <<>>, <<8, 1>>, 0, 2),                    \* 5
                  N("union", "", <<>>, <<<<4, 1>>, <<5, 1>>>>, <<>>, 0, 2),           \* 6
                  N("filter", "lt3", <<>>, <<<<6, 1>>>>, <<>>, 0, 2),                 \* 7
                  N("map", "inc", <<>>, <<<<7, 1>>>>, <<>>, 0, 2),                    \* 8
                  Sink(1, 6, 2),                                                      \* 9
                  N("all_iterations", "", <<>>, <<<<6, 1>>>>, <<>>, 0, 1),            \* 10
                  Sink(2, 10, 1)>>,
                <<[parent |-> 0, first |-> 2, last |-> 11, root |-> TRUE],
                  [parent |-> 1, first |-> 4, last |-> 9, root |-> FALSE]>>, 1, 2)
PRoot == Prog(<<Src(1),
                N("batch", "", <<>>, <<<<1, 1>>>>, <<>>, 0, 1),                       \* 2
                N("defer_tick", "", <<>>, <<>>, <<6, 1>>, 0, 1),                      \* 3
                N("union", "", <<>>, <<<<2, 1>>, <<3, 1>>>>, <<>>, 0, 1),             \* 4
                N("filter", "lt3", <<>>, <<<<4, 1>>>>, <<>>, 0, 1),                   \* 5
                N("map", "inc", <<>>, <<<<5, 1>>>>, <<>>, 0, 1),                      \* 6
                Sink(1, 4, 1), Sink(2, 6, 1)>>,
              <<[parent |-> 0, first |-> 2, last |-> 8, root |-> TRUE]>>, 1, 2)

Progs == <<PDefer(FALSE), PDefer(TRUE), PCycle("defer_tick", TRUE), PCycle("defer_tick", FALSE),
           PCycle("defer_tick_lazy", TRUE), PFold, PBase, PNested, PRoot>>
TwinOf(i) == IF i = 7 THEN PTwin ELSE Progs[i]

VARIABLES pi,       \* index of the program of this behaviour
          sts2,     \* state of the twin program (lock step)
          log,      \* one entry per EXECUTED tick: [inp, out, out2, avail (tick inside run_available), last]
          steps
vars == <<mvars, pi, sts2, log, steps>>

InputsUpTo(m) == UNION {[1..n -> Dom] : n \in 0..m}
\* two-source programs get at most one item per source and step (keeps the space finite-small)
Inputs == InputsUpTo(IF prog.nsrc > 1 THEN 1 ELSE MaxLen)

Init == \E i \in 1..Len(Progs) :
          /\ pi = i /\ MInit(Progs[i]) /\ sts2 = InitSts(TwinOf(i)) /\ log = <<>> /\ steps = 0

\* the twin executes the same call on the same inputs
RECURSIVE TwinTicks(_, _, _, _, _, _)
TwinTicks(P, s, t, ext, n, acc) ==
    IF n = 0 THEN <<s, acc>>
    ELSE LET r == TickRun(P, s, t, ext)
         IN TwinTicks(P, r.sts, t + 1, [k \in DOMAIN ext |-> <<>>], n - 1, Append(acc, r.outs))

Call(inp, avail) ==
    /\ steps < MaxSteps
    /\ pend = NoPend(prog)
    /\ LET withIn == [k \in 1..prog.nsrc |-> inp[k]]
           rs == IF avail THEN AvailRun(prog, sts, tick, withIn, Fuel, <<>>)
                 ELSE <<TickRun(prog, sts, tick, withIn)>>
           tw == TwinTicks(TwinOf(pi), sts2, tick, withIn, Len(rs), <<>>)
       IN /\ sts' = rs[Len(rs)].sts
          /\ tick' = tick + Len(rs)
          /\ outs' = [i \in 1..Len(rs) |-> rs[i].outs]
          /\ asked' = rs[Len(rs)].wake
          /\ sts2' = tw[1]
          /\ log' = log \o [i \in 1..Len(rs) |->
                               [inp |-> IF i = 1 THEN withIn ELSE NoPend(prog), out |-> rs[i].outs,
                                out2 |-> tw[2][i], avail |-> avail, last |-> (i = Len(rs)), n |-> Len(rs)]]
    /\ steps' = steps + 1
    /\ UNCHANGED <<prog, pend, pi>>

Next == \E inp \in [1..prog.nsrc -> Inputs] : \E avail \in BOOLEAN : Call(inp, avail)
Spec == Init /\ [][Next]_vars

-----------------------------------------------------------------------------
TickCounter == tick = Len(log)

\* programs 1, 2: what goes into the defer in tick t comes out in tick t+1, and only there
DeferNextOnly ==
    pi \in {1, 2} =>
        \A t \in 1..Len(log) : log[t].out[1] = (IF t = 1 THEN <<>> ELSE log[t - 1].inp[1])

\* program 2 and 5: a lazy deferral never makes run_available tick again
AvailLazyOneTick == pi \in {2, 5} => \A t \in 1..Len(log) : log[t].avail => log[t].n = 1

\* program 1: run_available runs a second tick exactly when something was deferred
AvailEagerSecondTick ==
    pi = 1 => \A t \in 1..Len(log) :
                 (log[t].avail /\ log[t].inp[1] # <<>>) => (log[t].n = 2 /\ ~log[t].last)

\* program 3: the cycle dies out: run_available always terminates before the fuel is spent, and
\* (without overlapping waves) an item x produces x, x+1, .., 3 on consecutive ticks
AvailDies == pi = 3 => \A t \in 1..Len(log) : log[t].n < Fuel
CycleStepPerTick ==
    pi \in {3, 5} =>
        \A t \in 1..(Len(log) - 1) :
            \* sink 2 = what was deferred in tick t = incremented items < 3 seen in tick t
            log[t + 1].out[1] = log[t + 1].inp[1] \o log[t].out[2]

\* program 4: the cycle never dies: once an item is in, run_available does not terminate
AvailForever ==
    pi = 4 => \A t \in 1..Len(log) :
                 (log[t].avail /\ \E u \in 1..t : log[u].inp[1] # <<>>) => log[t].n = Fuel

RECURSIVE SumSeq(_)
SumSeq(s) == IF s = <<>> THEN 0 ELSE Head(s) + SumSeq(Tail(s))
RECURSIVE SumUpTo(_, _)
SumUpTo(lg, t) == IF t = 0 THEN 0 ELSE SumSeq(lg[t].inp[1]) + SumUpTo(lg, t - 1)
TickVsStatic ==
    pi = 6 => \A t \in 1..Len(log) :
                 /\ log[t].out[1] = <<SumSeq(log[t].inp[1])>>
                 /\ log[t].out[2] = <<SumUpTo(log, t)>>

ShapeInvariance ==
    \A t \in 1..Len(log) : \A k \in 1..prog.nsink : BagEq(log[t].out[k], log[t].out2[k])

\* program 8: the nested loop reaches its fixpoint within the tick: every item x yields
\* x, x+1, .., 3 (or just x when x >= 3) in that same tick, inside and through all_iterations
RECURSIVE Closure(_)
Closure(s) == IF s = <<>> THEN <<>>
              ELSE [i \in 1..(IF Head(s) < 3 THEN 4 - Head(s) ELSE 1) |-> Head(s) + i - 1] \o Closure(Tail(s))
NestedFixpoint ==
    pi = 8 => \A t \in 1..Len(log) :
                 /\ BagEq(log[t].out[1], Closure(log[t].inp[1]))
                 /\ BagEq(log[t].out[2], Closure(log[t].inp[1]))
                 /\ log[t].n = 1

\* program 9: a root-level loop advances the cycle one step per tick and does nothing when
\* neither input nor deferred data is there
RootOncePerTick ==
    pi = 9 => \A t \in 1..Len(log) :
                 log[t].out[1] = log[t].inp[1] \o (IF t = 1 THEN <<>> ELSE log[t - 1].out[2])

Inv == /\ TickCounter /\ DeferNextOnly /\ AvailLazyOneTick /\ AvailEagerSecondTick /\ AvailDies
       /\ CycleStepPerTick /\ AvailForever /\ TickVsStatic /\ ShapeInvariance /\ NestedFixpoint
       /\ RootOncePerTick
=============================================================================
