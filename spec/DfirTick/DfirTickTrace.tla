--------------------------- MODULE DfirTickTrace ---------------------------
(* Trace validation of real DFIR programs (built with dfir_syntax!, driven by
   hv_dfir/run_progs) against the DfirTick reference interpreter.

   The trace (ndjson, path in env TRACE):
     {"e":"prog","id":p,"h":h,"desc":{nodes,loops,nsrc,nsink,ord}}   new instance of program p, history h
     {"e":"step","mode":"tick"|"avail","inputs":[[..]..],"tb":t0,"ta":t1,"nticks":n,"ticks":[[[sink1..],[sink2..]],..]}
        (tb/ta = current_tick() before/after the call, nticks = ticks executed, counted at the
         runtime's tick_swapped yield point, ticks = outputs grouped by the tick they occurred in)
     {"e":"panic","msg":..}
     {"e":"eof"}
   For every step the model executes the same call on the same inputs; each sink's per-tick
   outputs must equal the model's (as a sequence for sinks marked ordered, else as a bag);
   the tick counter and the number of ticks executed are bound as well.  Disagreements do not
   stop the validation: they are collected in `viol` per (program, history, step) and printed
   at eof, with the model's expectation in a MISMATCH line. *)
EXTENDS DfirTick, Json, IOUtils

Rec == ndJsonDeserialize(IOEnv.TRACE)

VARIABLES l, pid, hid, stepno, viol
tvars == <<mvars, l, pid, hid, stepno, viol>>

Ev == Rec[l]

EmptyProg == [nodes |-> <<>>, loops |-> <<>>, nsrc |-> 0, nsink |-> 0, ord |-> <<>>, pairs |-> <<>>]

TInit ==
    /\ l = 1 /\ pid = 0 /\ hid = 0 /\ stepno = 0 /\ viol = {}
    /\ MInit(EmptyProg)

Consume == l <= Len(Rec) /\ l' = l + 1

SameOut(k, model, real) == IF prog.ord[k] THEN model = real ELSE BagEq(model, real)

\* rules broken by the observed step, given the model's `outs'` / `tick'`
StepBroken(ev, mouts, mtick0) ==
    LET nreal == Len(ev.ticks)
        nmod == Len(mouts)
        ncmp == Min2(nreal, nmod)
        bad == {<<i, k>> \in (1..ncmp) \X (1..prog.nsink) : ~SameOut(k, mouts[i][k], ev.ticks[i][k])}
    IN (IF ev.tb # mtick0 THEN {"tick-counter-before"} ELSE {})
       \cup (IF ev.ta - ev.tb # ev.nticks THEN {"tick-counter-not-plus-one-per-tick"} ELSE {})
       \cup (IF nreal # nmod THEN {"ticks-executed"} ELSE {})
       \cup (IF bad # {} THEN {"outputs"} ELSE {})
       \* C22, side against side: prog.pairs lists sinks <<push placed, pull placed>> of the SAME
       \* operator fed with identical input; what the real code delivered to the two must agree
       \* tick by tick (independently of the model)
       \cup (IF \E i \in 1..Len(prog.pairs) : \E t \in 1..nreal :
                 LET a == ev.ticks[t][prog.pairs[i][1]]
                     b == ev.ticks[t][prog.pairs[i][2]]
                 IN IF prog.ord[prog.pairs[i][1]] /\ prog.ord[prog.pairs[i][2]] THEN a # b ELSE ~BagEq(a, b)
             THEN {"pull-vs-push-outputs-differ"} ELSE {})
       \* calibration steps carry the outputs asserted by the repository's own tests: the MODEL
       \* must reproduce them (a failure here is a fault of the spec, reported separately)
       \cup (IF "expect" \in DOMAIN ev
             THEN IF Len(ev.expect) # nmod
                     \/ \E i \in 1..Min2(nmod, Len(ev.expect)) : \E k \in 1..prog.nsink :
                            ~SameOut(k, mouts[i][k], ev.expect[i][k])
                  THEN {"calibration-model-differs-from-repo-test"} ELSE {}
             ELSE {})

TProg ==
    /\ Ev.e = "prog" /\ MReset(Ev.desc) /\ pid' = Ev.id /\ hid' = Ev.h /\ stepno' = 0
    /\ viol' = viol

\* after a panic or a wrong number of executed ticks the instance and the model are out of step:
\* the rest of that history is consumed without further comparison (no follow-on reports)
Dead == \E v \in viol : v[1] = pid /\ v[2] = hid /\ v[4] \in {"ticks-executed", "panic", "run-available-did-not-stop"}

TSkip ==
    /\ Ev.e = "step" /\ Dead
    /\ UNCHANGED <<mvars, pid, hid, viol>> /\ stepno' = stepno + 1

TStep ==
    /\ Ev.e = "step" /\ ~Dead
    /\ pend = NoPend(prog)
    /\ LET withIn == [k \in 1..prog.nsrc |-> Ev.inputs[k]]
           rs == IF Ev.mode = "tick" THEN <<TickRun(prog, sts, tick, withIn)>>
                 ELSE AvailRun(prog, sts, tick, withIn, AVAILFUEL, <<>>)
           mouts == [i \in 1..Len(rs) |-> rs[i].outs]
           b == StepBroken(Ev, mouts, tick)
       IN /\ sts' = rs[Len(rs)].sts
          /\ tick' = tick + Len(rs)
          /\ outs' = mouts
          /\ asked' = rs[Len(rs)].wake
          /\ viol' = viol \cup {<<pid, hid, stepno + 1, r>> : r \in b}
          /\ IF b # {} THEN PrintT(<<"MISMATCH", ToJson([prog |-> pid, h |-> hid, step |-> stepno + 1,
                                        rules |-> b, tick |-> tick, expected |-> mouts, got |-> Ev.ticks])>>)
             ELSE TRUE
    /\ stepno' = stepno + 1
    /\ UNCHANGED <<prog, pend, pid, hid>>

TPanic ==
    /\ Ev.e = "panic"
    \* "runaway": the harness stopped a run call after 30 ticks (run_available did not become idle;
    \* the generator only uses run_available where the model becomes idle)
    /\ viol' = viol \cup {<<pid, hid, stepno + 1,
                            IF Ev.msg = "runaway" THEN "run-available-did-not-stop" ELSE "panic">>}
    /\ UNCHANGED <<mvars, pid, hid, stepno>>

TEof ==
    /\ Ev.e = "eof" /\ UNCHANGED <<mvars, pid, hid, stepno, viol>>
    /\ PrintT(<<"VIOL", ToJson(viol)>>)

TNext == Consume /\ (TProg \/ TStep \/ TSkip \/ TPanic \/ TEof)

TSpec == TInit /\ [][TNext]_tvars

TraceAccepted ==
    LET d == TLCGet("stats").diameter IN
    IF d - 1 = Len(Rec) THEN TRUE
    ELSE Print(<<"UNMATCHED-EVENT-AT-LINE", d, Rec[d]>>, FALSE)
=============================================================================
