SPECIFICATION Spec
CONSTANTS
  Items = {0, 1, 2}
  MODES = {TRUE, FALSE}
  MaxOpsWf = 2
  MaxOpsMal = 1
  EMIT = FALSE
  FIXED = FALSE
INVARIANTS ModelOK RhoExact NoUnwrapPanic Bounded FixedTerminates Emit
CHECK_DEADLOCK FALSE
