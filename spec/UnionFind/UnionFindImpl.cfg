SPECIFICATION Spec
CONSTANTS
  Items = {0, 1, 2}
  MaxOps = 2
  MALFORMED = TRUE
  EMIT = FALSE
INVARIANTS ModelOK RhoExact NoUnwrapPanic Bounded Emit
CHECK_DEADLOCK FALSE
