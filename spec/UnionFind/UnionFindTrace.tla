--------------------------- MODULE UnionFindTrace ---------------------------
(* Trace validation of the real UnionFind against the UnionFind monitor (code -> spec).
   The trace (ndjson, env TRACE) is a concatenation of cases written by
   harness/hv_lat/src/bin/unionfind.rs:
     {"e":"reset","case":k,"rep":..,"init":[[k,p]..]}
     {"e":"union"|"same","a","b","ret","par"}   {"e":"merge","other","ret","par"}
     {"e":"diverge","a","b"}  {"e":"panic","msg"}  {"e":"eof"}
   Rule breaks are collected per case in `viol` (<<case, rule>>) and printed at eof. *)
EXTENDS UnionFind, Json, IOUtils

Rec == ndJsonDeserialize(IOEnv.TRACE)

VARIABLES l, case, viol
tvars == <<mvars, l, case, viol>>
Ev == Rec[l]

TInit == l = 1 /\ case = 0 /\ viol = {} /\ MInit(<<>>)
Consume == l <= Len(Rec) /\ l' = l + 1

TReset == Ev.e = "reset" /\ MReset(Ev.init) /\ case' = Ev.case
TUnion == Ev.e = "union" /\ MUnion(Ev.a, Ev.b, Ev.ret, Ev.par) /\ UNCHANGED case
TSame == Ev.e = "same" /\ MSame(Ev.a, Ev.b, Ev.ret, Ev.par) /\ UNCHANGED case
TMerge == Ev.e = "merge" /\ MMerge(Ev.other, Ev.ret, Ev.par) /\ UNCHANGED case
TDiverge == Ev.e = "diverge" /\ MDiverge(Ev.a, Ev.b) /\ UNCHANGED case
TPanic == Ev.e = "panic" /\ MPanic /\ UNCHANGED case
TEof == Ev.e = "eof" /\ UNCHANGED <<mvars, case>> /\ PrintT(<<"VIOL", ToJson(viol)>>)

TNext ==
    /\ Consume
    /\ (TReset \/ TUnion \/ TSame \/ TMerge \/ TDiverge \/ TPanic \/ TEof)
    /\ viol' = viol \cup {<<case', b>> : b \in Broken'}

TSpec == TInit /\ [][TNext]_tvars

TraceAccepted ==
    LET d == TLCGet("stats").diameter IN
    IF d - 1 = Len(Rec) THEN TRUE
    ELSE Print(<<"UNMATCHED-EVENT-AT-LINE", d, Rec[d]>>, FALSE)
=============================================================================
