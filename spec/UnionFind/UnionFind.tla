----------------------------- MODULE UnionFind -----------------------------
(* Abstract specification (property monitor) of the union-find lattice (C04):
   "two items are `same` exactly when they are connected by the equivalence closure of all
   unions ever merged in" -- for every parent map the public API can build (UnionFind::new_from
   accepts arbitrary maps, and the source handles loops explicitly), every call must return,
   and path compression must never change the partition.

   Events (one per public call observed at the implementation, after it returned):
     Reset(init)              a fresh value built from the parent map init (seq of <<k, p>>)
     Union(a, b, ret, par)    union(a, b) returned ret (1 = changed); par = parent map revealed after
     Same(a, b, ret, par)     same(a, b) returned ret
     Merge(other, ret, par)   merge(other) returned ret; other = seq of <<k, p>>
     Diverge(a, b)            the call union/same(a, b) exhausted the step budget (did not return)
     Panic
   The monitor keeps `edges` (initial pairs and every pair unioned/merged in) -- the reference
   partition is AddEdges({}, edges) -- and `par`, the last revealed concrete parent map, used
   (a) to check that compression preserved the partition and (b) to classify a divergence by
   the shape of the map it happened on. *)
EXTENDS Lattice

VARIABLES edges, par, bad
mvars == <<edges, par, bad>>

Part == AddEdges({}, edges)
Connected(a, b) == a = b \/ \E Bk \in Part : a \in Bk /\ b \in Bk

Flag(cond, name) == IF bad = "" /\ cond THEN name ELSE bad

MInit(init) == edges = UfEdges(init) /\ par = init /\ bad = ""
MReset(init) == edges' = UfEdges(init) /\ par' = init /\ bad' = ""

\* the partition denoted by the revealed parent map must be the reference partition
Preserved(newedges, p) == AddEdges({}, UfEdges(p)) = AddEdges({}, newedges)

MUnion(a, b, ret, p) ==
    LET ne == edges \cup {<<a, b>>} IN
    /\ edges' = ne
    /\ par' = p
    /\ bad' = IF bad # "" THEN bad
              ELSE IF ret # B(~Connected(a, b)) THEN "union/changed-flag"
              ELSE IF ~Preserved(ne, p) THEN "union/partition"
              ELSE ""

MSame(a, b, ret, p) ==
    /\ edges' = edges
    /\ par' = p
    /\ bad' = IF bad # "" THEN bad
              ELSE IF ret # B(Connected(a, b)) THEN "same/result"
              ELSE IF ~Preserved(edges, p) THEN "same/partition-changed-by-compression"
              ELSE ""

MMerge(other, ret, p) ==
    LET ne == edges \cup UfEdges(other) IN
    /\ edges' = ne
    /\ par' = p
    /\ bad' = IF bad # "" THEN bad
              ELSE IF ret # B(AddEdges({}, ne) # Part) THEN "merge/changed-flag"
              ELSE IF ~Preserved(ne, p) THEN "merge/partition"
              ELSE ""

\* a call that does not return although the property promises an answer; classified by the
\* shape of the parent map it ran on (rho = the walk from a or b enters a cycle it is not on)
MDiverge(a, b) ==
    /\ bad' = Flag(TRUE, IF UfRhoStart(par, a) \/ UfRhoStart(par, b)
                         THEN "find/rho-cycle" ELSE "find/diverges-other")
    /\ UNCHANGED <<edges, par>>

MPanic == bad' = Flag(TRUE, "panic") /\ UNCHANGED <<edges, par>>

NoRuleBroken == bad = ""
Broken == IF bad # "" THEN {bad} ELSE {}
=============================================================================
