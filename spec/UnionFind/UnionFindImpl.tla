--------------------------- MODULE UnionFindImpl ---------------------------
(* Implementation-shaped model of lattices::union_find::UnionFind (union_find.rs): `find` with
   its two loops (one TLA+ step per loop iteration, so non-termination is visible), `union`,
   `same`, `merge`, composed with the UnionFind monitor.

   All nondeterminism is chosen in Init (initial parent map, script of calls), so one initial
   state = one behaviour; with EMIT = TRUE every finished behaviour is printed as a CASE line
   and replayed into the real code (spec -> code).

   What TLC establishes here (the design-level statement of C04 for union-find):
     * from the empty map (mal = FALSE) every script of calls is answered exactly as the
       partition semantics demands and compression never changes the partition;
     * for ARBITRARY parent maps (mal = TRUE; `new_from` accepts them) the same holds
       EXCEPT that `find(x)` never leaves its first loop exactly when the walk from x enters
       a cycle of length >= 2 that x is not on (rho shape, UfRhoStart): RhoExact.
   FIXED = TRUE (the default: the code as shipped since /repo 263fd4bfaa9; FIXED = FALSE is the
   pre-fix loop 1, kept to document the finding) models loop 1 with Brent-style cycle detection: a
   checkpoint that moves to the current root after 1, 2, 4, ... steps; "parent == checkpoint"
   is treated like "parent == item": close the end).  With it TLC checks that NO behaviour
   breaks any rule: find terminates (FixedTerminates) from every parent map, answers equal the
   equivalence closure, compression preserves the partition.
   The monitor flags that divergence as "find/rho-cycle" -- the model documents the finding
   instead of hiding it; any other rule break fails the model check. *)
EXTENDS UnionFind, Json

CONSTANTS Items, MODES, MaxOpsWf, MaxOpsMal, EMIT, FIXED
\* FIXED = TRUE: find as shipped (Brent-style cycle detection in loop 1); FALSE: the pre-fix loop
\* MODES \subseteq BOOLEAN: FALSE = scripts from the empty map, TRUE = arbitrary (malformed) parent maps

VARIABLES
    pm,      \* parent map: function [K -> Items], K \subseteq Items (the Cell map)
    pc,      \* "idle" | "l1" | "l2" | "done"
    script,  \* remaining calls
    cur,     \* current call  <<kind, a, b>> / <<"merge", k, 0>>
    sub,     \* remaining <<k, p>> entries of the `other` being merged
    mch,     \* merge: changed so far
    which,   \* 1: finding the first argument, 2: the second
    item, root, ra,
    steps,   \* iterations of loop 1 in the current find
    chk, bs, bl,  \* FIXED only: Brent checkpoint, steps since the checkpoint moved, current limit
    fstart,  \* parent map at the start of the current find (for RhoExact)
    hist,    \* returned values so far (-1 = diverged)
    pars,    \* parent map after each call
    init0, script0,
    mal      \* this behaviour starts from an arbitrary (possibly malformed) parent map

ivars == <<pm, pc, script, cur, sub, mch, which, item, root, ra, steps, chk, bs, bl, fstart, hist, pars, init0, script0, mal>>
vars == <<mvars, ivars>>

ToSeq(f) == LET ks == AscSeq(DOMAIN f) IN [i \in 1..Len(ks) |-> <<ks[i], f[ks[i]]>>]
Put(f, key, v) == [x \in DOMAIN f \cup {key} |-> IF x = key THEN v ELSE f[x]]

\* `other` arguments of merge (ordered: VecMap-backed, so the iteration order is the written one)
Others == << <<<<1, 0>>, <<2, 1>>>>, <<<<0, 1>>, <<1, 2>>>>, <<<<2, 0>>, <<1, 0>>>>,
             <<<<0, 2>>, <<2, 0>>>>, <<<<1, 1>>, <<2, 0>>>>, <<<<0, 1>>>> >>

Calls(m) ==
    IF m
    THEN {<<"union", a, b>> : a \in Items, b \in Items} \cup {<<"same", a, b>> : a \in Items, b \in Items}
    ELSE {<<"union", p[1], p[2]>> : p \in {q \in Items \X Items : q[1] # q[2]}}
         \cup {<<"same", p[1], p[2]>> : p \in {q \in Items \X Items : q[1] < q[2]}}
         \cup {<<"merge", k, 0>> : k \in 1..Len(Others)}

Scripts(m) == UNION {[1..n -> Calls(m)] : n \in 0..(IF m THEN MaxOpsMal ELSE MaxOpsWf)}
InitMaps(m) == IF m THEN UNION {[K -> Items] : K \in SUBSET Items} ELSE {<<>>}

Init ==
    \E m \in MODES : \E f \in InitMaps(m) : \E sc \in Scripts(m) :
        /\ mal = m
        /\ MInit(ToSeq(f))
        /\ pm = f /\ pc = "idle" /\ script = sc /\ cur = <<"none", 0, 0>> /\ sub = <<>> /\ mch = 0
        /\ which = 0 /\ item = 0 /\ root = 0 /\ ra = 0 /\ steps = 0 /\ fstart = <<>>
        /\ chk = 0 /\ bs = 0 /\ bl = 1
        /\ hist = <<>> /\ pars = <<>> /\ init0 = ToSeq(f) /\ script0 = sc

StartFind(x, w) ==
    /\ which' = w /\ item' = x /\ root' = x /\ steps' = 0 /\ fstart' = ToSeq(pm) /\ pc' = "l1"
    /\ chk' = x /\ bs' = 0 /\ bl' = 1     \* let (mut checkpoint, mut steps, mut limit) = (item, 0, 1)

\* a call has returned ret: tell the monitor, record
Return(kind, a, b, ret, newpm) ==
    /\ CASE kind = "union" -> MUnion(a, b, ret, ToSeq(newpm))
         [] kind = "same" -> MSame(a, b, ret, ToSeq(newpm))
         [] kind = "merge" -> MMerge(Others[a], ret, ToSeq(newpm))
    /\ hist' = Append(hist, ret)
    /\ pars' = Append(pars, ToSeq(newpm))
    /\ pc' = "idle"

Begin ==
    /\ pc = "idle" /\ script # <<>>
    /\ LET c == Head(script) IN
       /\ script' = Tail(script)
       /\ IF c[1] = "merge"
          THEN IF Len(Others[c[2]]) = 0
               THEN /\ cur' = c /\ Return("merge", c[2], 0, 0, pm)
                    /\ UNCHANGED <<pm, sub, mch, which, item, root, ra, steps, chk, bs, bl, fstart>>
               ELSE \* merge = union(item, parent) for every entry of other, in order
                    /\ cur' = <<"munion", Head(Others[c[2]])[1], Head(Others[c[2]])[2], c[2]>>
                    /\ sub' = Tail(Others[c[2]]) /\ mch' = 0
                    /\ StartFind(Head(Others[c[2]])[1], 1)
                    /\ UNCHANGED <<mvars, pm, ra, hist, pars>>
          ELSE IF c[1] = "same" /\ c[2] = c[3]
               THEN \* `a == b ||` short-circuits: no find
                    /\ cur' = c /\ Return("same", c[2], c[3], 1, pm)
                    /\ UNCHANGED <<pm, sub, mch, which, item, root, ra, steps, chk, bs, bl, fstart>>
               ELSE /\ cur' = c /\ StartFind(c[2], 1)
                    /\ UNCHANGED <<mvars, pm, sub, mch, ra, hist, pars>>
    /\ UNCHANGED <<init0, script0, mal>>

\* one iteration of `while let Some(parent) = self.0.get(&root)`
LoopBound == IF FIXED THEN 4 * Cardinality(Items) + 4 ELSE Cardinality(Items)
Loop1 ==
    /\ pc = "l1"
    /\ IF root \notin DOMAIN pm
       THEN pc' = "l2" /\ UNCHANGED <<pm, root, steps, chk, bs, bl, script, mvars, hist, pars>>
       ELSE LET p == pm[root] IN
            IF p = root THEN pc' = "l2" /\ UNCHANGED <<pm, root, steps, chk, bs, bl, script, mvars, hist, pars>>
            ELSE IF p = item \/ (FIXED /\ p = chk)
            THEN \* "Loop detected, close the end": parent.set(root)
                 \* (FIXED: also when the parent is the Brent checkpoint)
                 pm' = [pm EXCEPT ![root] = root] /\ pc' = "l2"
                 /\ UNCHANGED <<root, steps, chk, bs, bl, script, mvars, hist, pars>>
            ELSE IF steps > LoopBound
            THEN \* root has walked further than the bound: it is going round a cycle; no exit fires
                 /\ MDiverge(cur[2], cur[3])
                 /\ hist' = Append(hist, -1) /\ pars' = Append(pars, ToSeq(pm))
                 /\ script' = <<>> /\ pc' = "idle"
                 /\ UNCHANGED <<pm, root, steps, chk, bs, bl>>
            ELSE /\ root' = p /\ steps' = steps + 1
                 \* FIXED: steps += 1; if steps == limit { checkpoint = root; steps = 0; limit *= 2; }
                 /\ IF FIXED /\ bs + 1 = bl
                    THEN chk' = p /\ bs' = 0 /\ bl' = 2 * bl
                    ELSE chk' = chk /\ bs' = (IF FIXED THEN bs + 1 ELSE bs) /\ bl' = bl
                 /\ UNCHANGED <<pm, pc, script, mvars, hist, pars>>
    /\ UNCHANGED <<cur, sub, mch, which, item, ra, fstart, init0, script0, mal>>

\* compression loop `while item != root` and the return of find
Loop2 ==
    /\ pc = "l2"
    /\ IF item # root
       THEN \* item = self.0.get(&item).unwrap().replace(root)
            /\ item \in DOMAIN pm          \* unwrap()
            /\ pm' = [pm EXCEPT ![item] = root]
            /\ item' = pm[item]
            /\ UNCHANGED <<mvars, pc, script, cur, sub, mch, which, root, ra, steps, chk, bs, bl, fstart, hist, pars>>
       ELSE IF which = 1
       THEN /\ ra' = item
            /\ StartFind(cur[3], 2)
            /\ UNCHANGED <<mvars, pm, script, cur, sub, mch, hist, pars>>
       ELSE LET rb == item IN
            CASE cur[1] = "same" ->
                    /\ Return("same", cur[2], cur[3], B(ra = rb), pm)
                    /\ UNCHANGED <<pm, script, cur, sub, mch, which, item, root, ra, steps, chk, bs, bl, fstart>>
              [] cur[1] = "union" ->
                    LET np == IF ra = rb THEN pm ELSE Put(pm, rb, ra) IN
                    /\ pm' = np
                    /\ Return("union", cur[2], cur[3], B(ra # rb), np)
                    /\ UNCHANGED <<script, cur, sub, mch, which, item, root, ra, steps, chk, bs, bl, fstart>>
              [] cur[1] = "munion" ->
                    LET np == IF ra = rb THEN pm ELSE Put(pm, rb, ra)
                        ch == IF ra # rb THEN 1 ELSE mch
                    IN IF sub = <<>>
                       THEN /\ pm' = np /\ mch' = ch
                            /\ Return("merge", cur[4], 0, ch, np)
                            /\ UNCHANGED <<script, cur, sub, which, item, root, ra, steps, chk, bs, bl, fstart>>
                       ELSE \* next entry of other; find runs on the updated map
                            /\ pm' = np /\ mch' = ch
                            /\ cur' = <<"munion", Head(sub)[1], Head(sub)[2], cur[4]>>
                            /\ sub' = Tail(sub)
                            /\ which' = 1 /\ item' = Head(sub)[1] /\ root' = Head(sub)[1]
                            /\ steps' = 0 /\ fstart' = ToSeq(np) /\ pc' = "l1"
                            /\ chk' = Head(sub)[1] /\ bs' = 0 /\ bl' = 1
                            /\ UNCHANGED <<mvars, script, ra, hist, pars>>
    /\ UNCHANGED <<init0, script0, mal>>

Finished == pc = "idle" /\ script = <<>>
Done == Finished /\ UNCHANGED vars

Next == Begin \/ Loop1 \/ Loop2 \/ Done
Spec == Init /\ [][Next]_vars

-----------------------------------------------------------------------------
StartItem == IF which = 1 THEN cur[2] ELSE cur[3]

\* the only rule the model may break is the documented divergence, and only on malformed maps
ModelOK == bad = "" \/ (~FIXED /\ mal /\ bad = "find/rho-cycle")
\* converse: a find that leaves loop 1 did not start on a rho-start
RhoExact == (~FIXED /\ pc = "l2") => ~UfRhoStart(fstart, StartItem)
\* unwrap() in loop 2 never fails; loop 1 never runs longer than the bound
NoUnwrapPanic == (pc = "l2" /\ item # root) => item \in DOMAIN pm
Bounded == steps <= LoopBound + 1
\* FIXED: the Brent bound -- loop 1 ends within 3 * |Items| + 1 iterations, far below LoopBound
FixedTerminates == FIXED => steps <= 3 * Cardinality(Items) + 1

\* replay output
CallJson(c) == IF c[1] = "merge" THEN <<"merge", Others[c[2]]>> ELSE <<c[1], c[2], c[3]>>
Emit == (EMIT /\ Finished) =>
    PrintT(<<"CASE", ToJson([init |-> init0, ops |-> [i \in 1..Len(script0) |-> CallJson(script0[i])],
                              rets |-> hist, pars |-> pars])>>)
=============================================================================
