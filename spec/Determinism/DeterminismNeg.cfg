SPECIFICATION Spec
CONSTANTS
  Inputs = {1, 2}
  Seeds = {0, 1}
  Runs = 3
  Functional = FALSE
INVARIANTS StatefulNeverFlagged
CHECK_DEADLOCK FALSE
