SPECIFICATION Spec
CONSTANTS
  Inputs = {1, 2, 3}
  Seeds = {0, 1, 2}
  Runs = 5
  Functional = TRUE
INVARIANTS OutputsValid FunctionalOK
CHECK_DEADLOCK FALSE
