---------------------------- MODULE Determinism ----------------------------
(* C42: code generation is a FUNCTION of its input.

   Determinism is a property of pairs of runs.  The specification keeps `memo`, a partial map from
   inputs to the output observed first, and accepts an event Compile(input, out) only if `out` equals
   the memoised output of that input (or the input is new).  An output is the tuple
       <<stage reached, verdict, content hash of the partitioned-graph JSON, content hash of the
         generated code text (token stream rendered as text)>>
   computed by the harness over the complete strings.  Events come from several runs of the same
   compiler binary: several compilations inside one process (different hash-map seeds per map, heap
   state differs) and separate processes (different RandomState seeds, address-space layout, heap
   ballast).

   DeterminismImpl composes this monitor with a small model of a compiler that resolves a nondeterministic
   choice (the partition Partition.tla leaves open) either as a function of the input or by consulting
   per-run state; TLC shows the monitor accepts exactly the former.  DeterminismTrace applies the monitor
   to the recorded runs of the real compiler. *)
EXTENDS Naturals, Sequences, FiniteSets

VARIABLES memo,   \* function: seen input -> first observed output
          bad     \* set of <<input, kind>> found non-deterministic so far
mvars == <<memo, bad>>

MInit == memo = <<>> /\ bad = {}

Seen == DOMAIN memo

\* which component differs (for the report)
Diff(a, b) ==
    IF a[1] # b[1] \/ a[2] # b[2] THEN "outcome-differs"
    ELSE IF a[3] # b[3] THEN "partitioned-graph-differs"
    ELSE "generated-code-differs"

MCompile(input, out) ==
    IF input \in Seen
    THEN /\ memo' = memo
         /\ bad' = IF memo[input] = out THEN bad ELSE bad \cup {<<input, Diff(memo[input], out)>>}
    ELSE /\ memo' = [x \in Seen \cup {input} |-> IF x = input THEN out ELSE memo[x]]
         /\ bad' = bad

C42Inv == bad = {}
=============================================================================
