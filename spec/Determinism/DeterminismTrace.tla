-------------------------- MODULE DeterminismTrace --------------------------
(* Applies the Determinism monitor to recorded compilations (ndjson, env TRACE):
     {"e":"compile","input":id,"proc":p,"run":r,"stage":..,"verdict":..,"graph":hash,"code":hash,...}
     {"e":"eof"}
   Inputs found non-deterministic are collected (not fatal) and printed at eof. *)
EXTENDS Determinism, TLC, Json, IOUtils

Rec == ndJsonDeserialize(IOEnv.TRACE)
VARIABLES l
tvars == <<mvars, l>>
Ev == Rec[l]

TInit == l = 1 /\ MInit
Consume == l <= Len(Rec) /\ l' = l + 1
TCompile == Ev.e = "compile" /\ MCompile(Ev.input, <<Ev.stage, Ev.verdict, Ev.graph, Ev.code>>)
TEof == /\ Ev.e = "eof" /\ UNCHANGED mvars
        /\ PrintT(<<"VIOL", ToJson(bad)>>) /\ PrintT(<<"INPUTS", Cardinality(Seen)>>)
TNext == Consume /\ (TCompile \/ TEof)
TSpec == TInit /\ [][TNext]_tvars

TraceAccepted ==
    LET d == TLCGet("stats").diameter IN
    IF d - 1 = Len(Rec) THEN TRUE
    ELSE Print(<<"UNMATCHED-EVENT-AT-LINE", d>>, FALSE)
=============================================================================
