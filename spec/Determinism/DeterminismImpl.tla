-------------------------- MODULE DeterminismImpl --------------------------
(* Design check of the memoised-equality monitor: a toy compiler has, for every input, a set of
   valid outputs (the valid partitions).  A *functional* compiler picks the output as a function
   of the input; a *stateful* one lets per-run state (hash seed) influence the pick.  TLC checks
   that over all run sequences the monitor flags nothing for the functional compiler
   (FunctionalOK) and that it does flag the stateful compiler on some behaviour (the negated
   invariant StatefulNeverFlagged is violated -- run as a separate config). *)
EXTENDS Determinism, TLC

CONSTANTS Inputs, Seeds, Runs, Functional

VARIABLES n
vars == <<mvars, n>>

\* valid outputs of an input: two alternatives per input
Valid(i) == {<<"done", "ok", i * 10, i * 100>>, <<"done", "ok", i * 10 + 1, i * 100 + 1>>}
Pick(i, seed) ==
    IF Functional THEN <<"done", "ok", i * 10, i * 100>>
    ELSE IF seed % 2 = 0 THEN <<"done", "ok", i * 10, i * 100>> ELSE <<"done", "ok", i * 10 + 1, i * 100 + 1>>

Init == MInit /\ n = 0
Compile == /\ n < Runs
           /\ \E i \in Inputs, s \in Seeds : MCompile(i, Pick(i, s))
           /\ n' = n + 1
Done == n = Runs /\ UNCHANGED vars
Next == Compile \/ Done
Spec == Init /\ [][Next]_vars

OutputsValid == \A i \in Seen : memo[i] \in Valid(i)
FunctionalOK == Functional => C42Inv
StatefulNeverFlagged == ~Functional => C42Inv     \* expected to be VIOLATED
=============================================================================
