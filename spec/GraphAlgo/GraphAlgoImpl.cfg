SPECIFICATION Spec
CONSTANTS
  MaxN = 4
  PermN = 3
  MaxMerges = 3
  MaxEnemies = 1
  UfKeys = 3
  UfOps = 3
  Modes = {"topo", "merge", "uf"}
  Variants = 2
  ThinLo = 4
  ThinUf = 2
  EMIT = TRUE
INVARIANTS C17Inv ImplInv Emit
CHECK_DEADLOCK FALSE
