---------------------------- MODULE GraphAlgoImpl ----------------------------
(* Implementation-shaped model of dfir_lang::graph::graph_algorithms::{topo_sort, SubgraphMerge}
   and dfir_lang::union_find::UnionFind, transcribed from the Rust source (DFS with temporary /
   permanent marks and the cycle extraction by drain; try_merge = find, enemy check, windowed
   reachability check, union, predecessor rewrite, windowed re-sort; parent-pointer forest with
   path compression), composed with the relational monitor GraphAlgo.

   One behaviour = one case chosen in Init and evaluated in ONE step (RunTopo / RunMerge / RunUf):
   the step computes the whole observation record `obs` (same shape as a recorded case of the
   real code) with the transcribed algorithms and hands it to the monitor (MCase):
     "topo"   every digraph on <= MaxN nodes (self loops included), node iteration orders as given
     "merge"  SubgraphMerge::new on every digraph without self loops on <= MaxN nodes; for the
              DAGs, every enemy set of <= MaxEnemies pairs and every sequence of MaxMerges merge
              attempts for n < MaxN (thinned to 1/ThinLo by a deterministic arithmetic hash) and
              `Variants` deterministic pseudo-random sequences per (DAG, enemy set) for n = MaxN; ThinUf likewise for the union-find call sequences)
     "uf"     every sequence of UfOps union/find/same_set calls over UfKeys keys
   Invariants: the C17 rules of the monitor never fire; implementation facts hold. *)
EXTENDS GraphAlgo, TLC, Json

CONSTANTS MaxN, PermN, MaxMerges, MaxEnemies, UfKeys, UfOps, Modes, Variants, ThinLo, ThinUf, EMIT

VARIABLES cs, pc, obs, implbad
ivars == <<cs, pc, obs, implbad>>
vars == <<mvars, ivars>>

-----------------------------------------------------------------------------
RECURSIVE SortedSeq(_)
SortedSeq(S) == IF S = {} THEN <<>>
                ELSE LET m == CHOOSE x \in S : \A y \in S : x <= y IN <<m>> \o SortedSeq(S \ {m})

PredSeq(E, x) == SortedSeq({e[1] : e \in {f \in E : f[2] = x}})

(* ---- topo_sort: pred_dfs_postorder with marks (0 none, 1 temporary, 2 permanent) ---- *)
RECURSIVE Dfs(_, _, _), DfsPreds(_, _, _, _)
Dfs(P, st, x) ==
    IF st.m[x] = 2 THEN st
    ELSE IF st.m[x] = 1 THEN [st EXCEPT !.o = <<x>>, !.e = TRUE]          \* cycle found: clear, push
    ELSE LET r == DfsPreds(P, [st EXCEPT !.m[x] = 1], x, 1)
         IN IF r.e THEN r ELSE [r EXCEPT !.o = Append(@, x), !.m[x] = 2]
DfsPreds(P, st, x, i) ==
    IF i > Len(P[x]) THEN st
    ELSE LET s2 == Dfs(P, st, P[x][i]) IN
         IF s2.e
         THEN (IF Len(s2.o) = 1 \/ s2.o[1] # s2.o[Len(s2.o)] THEN [s2 EXCEPT !.o = Append(@, x)] ELSE s2)
         ELSE DfsPreds(P, s2, x, i + 1)

RECURSIVE TopoIter(_, _, _, _)
TopoIter(P, ids, i, st) ==
    IF i > Len(ids) THEN st
    ELSE LET s2 == Dfs(P, st, ids[i]) IN IF s2.e THEN s2 ELSE TopoIter(P, ids, i + 1, s2)

TopoSortImpl(U, ids, P) ==
    LET st == TopoIter(P, ids, 1, [m |-> [x \in U |-> 0], o |-> <<>>, e |-> FALSE]) IN
    IF st.e
    THEN LET end == st.o[Len(st.o)]
             beg == CHOOSE i \in 1..Len(st.o) : st.o[i] = end /\ \A j \in 1..(i - 1) : st.o[j] # end
         IN [ok |-> FALSE, res |-> SubSeq(st.o, beg + 1, Len(st.o))]
    ELSE [ok |-> TRUE, res |-> st.o]

(* ---- UnionFind: links[k] = 0 (absent) or parent ---- *)
RECURSIVE RootOf(_, _)
RootOf(L, x) == IF L[x] = 0 \/ L[x] = x THEN x ELSE RootOf(L, L[x])
RECURSIVE PathOf(_, _)
PathOf(L, x) == IF L[x] = 0 \/ L[x] = x THEN {x} ELSE {x} \cup PathOf(L, L[x])
\* find(x): every node on the path (and an absent x) ends up linked to the root
FindL(L, x) == LET r == RootOf(L, x) p == PathOf(L, x) IN [y \in DOMAIN L |-> IF y \in p THEN r ELSE L[y]]
\* union(a, b): i = find(a); j = find(b); links[j] = i; return i
UnionL(L, a, b) ==
    LET L1 == FindL(L, a)  i == RootOf(L, a)
        L2 == FindL(L1, b) j == RootOf(L1, b)
    IN [links |-> [L2 EXCEPT ![j] = i], ret |-> i]
RepsOf(L, n) == [x \in 1..n |-> RootOf(L, x)]

(* ---- SubgraphMerge ---- *)
SmNew(U, E, En) ==
    LET P == [x \in U |-> PredSeq(E, x)]
        t == TopoSortImpl(U, SortedSeq(U), P)
    IN [ok |-> t.ok, res |-> t.res,
        sm |-> [order |-> IF t.ok THEN t.res ELSE <<>>,
                idx |-> [x \in U |-> IF t.ok THEN Pos(t.res, x) ELSE 0],
                len |-> [x \in U |-> 1],
                links |-> [x \in U |-> 0],
                preds |-> P,
                enem |-> [x \in U |-> {y \in U : {x, y} \in En}]]]

RECURSIVE SgsFrom(_, _)
SgsFrom(s, i) ==
    IF i > Len(s.order) THEN <<>>
    ELSE LET r == s.order[i]  l == s.len[r] IN
         IF l = 0 THEN <<>> ELSE <<SubSeq(s.order, i, i + l - 1)>> \o SgsFrom(s, i + l)
Sgs(s) == SgsFrom(s, 1)

ClosureStep(s, L, u, lo, hi, vis) ==
    LET cand == UNION {{RootOf(L, s.preds[x][i]) : i \in 1..Len(s.preds[x])} : x \in vis}
    IN {r \in cand : r # u /\ s.idx[r] >= lo /\ s.idx[r] <= hi}
RECURSIVE Closure2(_, _, _, _, _, _)
Closure2(s, L, u, lo, hi, vis) ==
    LET nxt == ClosureStep(s, L, u, lo, hi, vis) \ vis
    IN IF nxt = {} THEN vis ELSE Closure2(s, L, u, lo, hi, vis \cup nxt)

RECURSIVE WinPreds(_, _, _, _, _, _)
\* predecessors mapped to their representatives, pruned to the window, in list order
WinPreds(ps, i, L, idx, lo, hi) ==
    IF i > Len(ps) THEN <<>>
    ELSE LET r == RootOf(L, ps[i]) IN
         (IF idx[r] >= lo /\ idx[r] <= hi THEN <<r>> ELSE <<>>) \o WinPreds(ps, i + 1, L, idx, lo, hi)

RECURSIVE LayOut(_, _, _, _, _, _)
\* concatenated member slices of the groups in sorted order
LayOut(groups, i, s, len2, u, uv) ==
    IF i > Len(groups) THEN <<>>
    ELSE LET g == groups[i]
             seg == IF g = u THEN uv ELSE SubSeq(s.order, s.idx[g], s.idx[g] + len2[g] - 1)
         IN seg \o LayOut(groups, i + 1, s, len2, u, uv)

RECURSIVE StartOf(_, _, _, _)
StartOf(groups, len2, lo, g) ==   \* window start + lengths of the groups before g
    IF groups[1] = g THEN lo ELSE StartOf(Tail(groups), len2, lo + len2[groups[1]], g)

TryMerge(s, u0, v0) ==
    LET L1 == FindL(s.links, u0)   ru == RootOf(s.links, u0)
        L2 == FindL(L1, v0)        rv == RootOf(L1, v0)
        s1 == [s EXCEPT !.links = L2]
    IN
    IF ru = rv THEN [ret |-> TRUE, sm |-> s1, sorted |-> TRUE]
    ELSE IF rv \in s.enem[ru] THEN [ret |-> FALSE, sm |-> s1, sorted |-> TRUE]
    ELSE
      LET u == IF s.idx[ru] < s.idx[rv] THEN ru ELSE rv
          v == IF s.idx[ru] < s.idx[rv] THEN rv ELSE ru
          uidx == s.idx[u]  ulen == s.len[u]
          vidx == s.idx[v]  vlen == s.len[v]
          lo == uidx
          hi == vidx + vlen - 1
          vis == Closure2(s, L2, u, lo, hi, {v})
          cyc == \E x \in vis \ {v} : \E i \in 1..Len(s.preds[x]) : RootOf(L2, s.preds[x][i]) = u
      IN
      IF cyc THEN [ret |-> FALSE, sm |-> s1, sorted |-> TRUE]
      ELSE
        LET L3 == [L2 EXCEPT ![v] = u]
            both == s.preds[u] \o s.preds[v]
            newp == SortedSeq({RootOf(L3, both[i]) : i \in 1..Len(both)} \ {u})
            preds2 == [s.preds EXCEPT ![u] = newp, ![v] = <<>>]
            len2 == [s.len EXCEPT ![u] = ulen + vlen, ![v] = 0]
            idx2 == [s.idx EXCEPT ![v] = 0]
            ev == s.enem[v]
            enem2 == [x \in DOMAIN s.enem |->
                        IF x = u THEN s.enem[u] \cup ev
                        ELSE IF x = v THEN {}
                        ELSE IF x \in ev THEN (s.enem[x] \ {v}) \cup {u}
                        ELSE s.enem[x]]
            reps == SortedSeq({RootOf(L3, s.order[i]) : i \in lo..hi})
            wp(g) == WinPreds(preds2[g], 1, L3, idx2, lo, hi)
            t == TopoSortImpl(DOMAIN s.idx, reps, [g \in DOMAIN s.idx |-> wp(g)])
            unodes == SubSeq(s.order, uidx, uidx + ulen - 1)
            vnodes == SubSeq(s.order, vidx, vidx + vlen - 1)
            buf == LayOut(t.res, 1, s, len2, u, unodes \o vnodes)
            order2 == SubSeq(s.order, 1, lo - 1) \o buf \o SubSeq(s.order, hi + 1, Len(s.order))
            idx3 == [x \in DOMAIN idx2 |-> IF x \in Range(t.res) THEN StartOf(t.res, len2, lo, x) ELSE idx2[x]]
        IN [ret |-> TRUE, sorted |-> t.ok,
            sm |-> [order |-> IF t.ok THEN order2 ELSE s.order, idx |-> IF t.ok THEN idx3 ELSE idx2,
                    len |-> len2, links |-> L3, preds |-> preds2, enem |-> enem2]]

-----------------------------------------------------------------------------
(* Cases *)
Nodes(n) == 1..n
AllPairs(n) == Nodes(n) \X Nodes(n)
OffDiag(n) == {p \in AllPairs(n) : p[1] # p[2]}
UPairs(n) == {p \in AllPairs(n) : p[1] <= p[2]}
EnemySets(n) == {S \in SUBSET {{p[1], p[2]} : p \in {q \in AllPairs(n) : q[1] < q[2]}} : Cardinality(S) <= MaxEnemies}

RECURSIVE Perms(_)
Perms(S) == IF S = {} THEN {<<>>} ELSE UNION {{<<x>> \o p : p \in Perms(S \ {x})} : x \in S}

RECURSIVE SumSeq(_, _)
SumSeq(f, i) == IF i = 0 THEN 0 ELSE f[i] + SumSeq(f, i - 1)
EdgeHash(E) == LET s == SortedSeq({e[1] * 5 + e[2] : e \in E}) IN SumSeq([i \in 1..Len(s) |-> s[i] * s[i]], Len(s))
EnHash(En) == LET s == SortedSeq({(CHOOSE a \in x : \A b \in x : a <= b) * 5 + (CHOOSE a \in x : \A b \in x : a >= b) : x \in En})
              IN SumSeq([i \in 1..Len(s) |-> 7 * s[i]], Len(s))
SeqHash(sq) == SumSeq([i \in 1..Len(sq) |-> (i * i + 2) * (sq[i][1] * 5 + sq[i][2])], Len(sq))
Keep(n, E, En, sq) == ThinLo <= 1 \/ (EdgeHash(E) + EnHash(En) + SeqHash(sq)) % ThinLo = 0
\* deterministic pseudo-random merge sequence number j for the largest graphs
PairList(n) == LET ks == SortedSeq({p[1] * 10 + p[2] : p \in UPairs(n)}) IN [i \in 1..Len(ks) |-> <<ks[i] \div 10, ks[i] % 10>>]
PseudoSeq(n, E, En, j) ==
    LET pl == PairList(n)  h == EdgeHash(E) + EnHash(En)
    IN [i \in 1..MaxMerges |-> pl[((h + j * j * 31 + i * i * 17 + i * j * 7) % Len(pl)) + 1]]

\* sets as sequences (the observation records use sequences, as the JSON traces do)
PairSeq(E) == LET ks == SortedSeq({e[1] * 100 + e[2] : e \in E}) IN [i \in 1..Len(ks) |-> <<ks[i] \div 100, ks[i] % 100>>]
EnSeq(En) == PairSeq({<<CHOOSE a \in x : \A b \in x : a <= b, CHOOSE a \in x : \A b \in x : a >= b>> : x \in En})

CaseTopo ==
    \E n \in 1..MaxN : \E E \in SUBSET (IF n = MaxN /\ MaxN > PermN THEN OffDiag(n) ELSE AllPairs(n)) :
        \E ids \in (IF n <= PermN THEN Perms(Nodes(n)) ELSE {SortedSeq(Nodes(n))}) :
            cs = [mode |-> "topo", n |-> n, E |-> E, ids |-> ids, En |-> {}, ops |-> <<>>]

CaseMerge ==
    \E n \in 1..MaxN : \E E \in SUBSET OffDiag(n) :
        IF Cyclic(Nodes(n), E)
        THEN cs = [mode |-> "merge", n |-> n, E |-> E, ids |-> <<>>, En |-> {}, ops |-> <<>>]
        ELSE \E En \in EnemySets(n) :
                IF n = MaxN /\ Variants > 0
                THEN \E j \in 1..Variants :
                        cs = [mode |-> "merge", n |-> n, E |-> E, ids |-> <<>>, En |-> En, ops |-> PseudoSeq(n, E, En, j)]
                ELSE \E sq \in [1..MaxMerges -> UPairs(n)] :
                        /\ Keep(n, E, En, sq)
                        /\ cs = [mode |-> "merge", n |-> n, E |-> E, ids |-> <<>>, En |-> En, ops |-> sq]

UfOpSet == {<<"union", a, b>> : a \in 1..UfKeys, b \in 1..UfKeys}
           \cup {<<"find", a, 0>> : a \in 1..UfKeys}
           \cup {<<"same", a, b>> : a \in 1..UfKeys, b \in 1..UfKeys}
UfHash(sq) == SumSeq([i \in 1..Len(sq) |-> (i * i + 2) * (sq[i][2] * 7 + sq[i][3] + (IF sq[i][1] = "union" THEN 3 ELSE IF sq[i][1] = "find" THEN 11 ELSE 17))], Len(sq))
CaseUf == \E sq \in [1..UfOps -> UfOpSet] :
            /\ (ThinUf <= 1 \/ UfHash(sq) % ThinUf = 0)
            /\ cs = [mode |-> "uf", n |-> UfKeys, E |-> {}, ids |-> <<>>, En |-> {}, ops |-> sq]

Init ==
    /\ MInit
    /\ \/ ("topo" \in Modes /\ CaseTopo)
       \/ ("merge" \in Modes /\ CaseMerge)
       \/ ("uf" \in Modes /\ CaseUf)
    /\ pc = "start"
    /\ obs = <<>>
    /\ implbad = {}

-----------------------------------------------------------------------------
RunTopo ==
    /\ pc = "start" /\ cs.mode = "topo"
    /\ LET U == Nodes(cs.n)
           r == TopoSortImpl(U, cs.ids, [x \in U |-> PredSeq(cs.E, x)])
           o == [mode |-> "topo", n |-> cs.n, edges |-> PairSeq(cs.E), ids |-> cs.ids, ok |-> r.ok, res |-> r.res]
       IN /\ obs' = o
          /\ MCase(o)
    /\ implbad' = {}
    /\ pc' = "done"
    /\ UNCHANGED cs

\* the try_merge calls of the case, threaded through the SubgraphMerge state
RECURSIVE MergeRun(_, _, _, _)
MergeRun(s, ops, i, n) ==
    IF i > Len(ops) THEN [ms |-> <<>>, sorted |-> TRUE]
    ELSE LET r == TryMerge(s, ops[i][1], ops[i][2])
             rest == MergeRun(r.sm, ops, i + 1, n)
         IN [ms |-> <<[u |-> ops[i][1], v |-> ops[i][2], ret |-> r.ret, sgs |-> Sgs(r.sm),
                      reps |-> RepsOf(r.sm.links, n)]>> \o rest.ms,
             sorted |-> r.sorted /\ rest.sorted]

RunMerge ==
    /\ pc = "start" /\ cs.mode = "merge"
    /\ LET U == Nodes(cs.n)
           r == SmNew(U, cs.E, cs.En)
           run == IF r.ok THEN MergeRun(r.sm, cs.ops, 1, cs.n) ELSE [ms |-> <<>>, sorted |-> TRUE]
           o == [mode |-> "merge", n |-> cs.n, edges |-> PairSeq(cs.E), enemies |-> EnSeq(cs.En),
                 ok |-> r.ok, res |-> r.res, sgs0 |-> IF r.ok THEN Sgs(r.sm) ELSE <<>>, merges |-> run.ms]
       IN /\ obs' = o
          /\ MCase(o)
          /\ implbad' = (IF run.sorted THEN {} ELSE {"re-sort-found-cycle-after-cycle-check-passed"}) \cup CaseFacts(o)
    /\ pc' = "done"
    /\ UNCHANGED cs

RECURSIVE UfRun(_, _, _, _)
UfRun(L, ops, i, n) ==
    IF i > Len(ops) THEN <<>>
    ELSE LET op == ops[i] IN
         IF op[1] = "union"
         THEN LET r == UnionL(L, op[2], op[3]) IN
              <<[op |-> "union", a |-> op[2], b |-> op[3], ret |-> r.ret, reps |-> RepsOf(r.links, n)]>>
              \o UfRun(r.links, ops, i + 1, n)
         ELSE IF op[1] = "find"
         THEN LET L1 == FindL(L, op[2]) IN
              <<[op |-> "find", a |-> op[2], b |-> 0, ret |-> RootOf(L, op[2]), reps |-> RepsOf(L1, n)]>>
              \o UfRun(L1, ops, i + 1, n)
         ELSE LET L1 == FindL(L, op[2])
                  L2 == FindL(L1, op[3])
                  ret == IF RootOf(L, op[2]) = RootOf(L1, op[3]) THEN 1 ELSE 0
              IN <<[op |-> "same", a |-> op[2], b |-> op[3], ret |-> ret, reps |-> RepsOf(L2, n)]>>
                 \o UfRun(L2, ops, i + 1, n)

RunUf ==
    /\ pc = "start" /\ cs.mode = "uf"
    /\ LET o == [mode |-> "uf", n |-> cs.n, calls |-> UfRun([x \in 1..cs.n |-> 0], cs.ops, 1, cs.n)]
       IN /\ obs' = o
          /\ MCase(o)
          /\ implbad' = CaseFacts(o)
    /\ pc' = "done"
    /\ UNCHANGED cs

Done == pc = "done" /\ UNCHANGED vars

Next == RunTopo \/ RunMerge \/ RunUf \/ Done
Spec == Init /\ [][Next]_vars

-----------------------------------------------------------------------------
ImplInv == implbad = {}

Emit == (EMIT /\ pc = "done") => PrintT(<<"CASE", ToJson(obs)>>)
=============================================================================
