------------------------------ MODULE GraphAlgo ------------------------------
(* Relational specification (property monitor) of dfir_lang's graph algorithms (C17):
     graph_algorithms::topo_sort, graph_algorithms::SubgraphMerge, union_find::UnionFind.

   Graphs are over node ids 1..n; an edge <<p, s>> means "p is a predecessor of s"
   (p must come before s).  Everything here is *relational*: it says which results are
   acceptable, not how they are computed.

   An observation is one *case* = the calls made on one object, in order, with their results:
     topo   [n, edges, ids, ok, res]           topo_sort over nodes 1..n returned Ok(res) / Err(res)
     merge  [n, edges, enemies, ok, res, sgs0, merges]
                                               SubgraphMerge::new returned Ok (then subgraphs() = sgs0)
                                               or Err(cycle = res); merges[i] = [u, v, ret, sgs, reps]:
                                               try_merge(u, v) returned ret, afterwards subgraphs() = sgs
                                               and find(x) = reps[x] (reps = <<>> when not probed)
     uf     [n, calls]                         calls[i] = [op, a, b, ret, reps] on a stand-alone UnionFind
                                               ("union" -> key, "find" -> key, "same" -> 0/1); reps = find(x)
                                               for every key, evaluated on a clone after the call
   CaseRules(c) is the set of names of the C17 rules the case breaks.  The same operator is
   (a) applied to the cases computed by the implementation-shaped model GraphAlgoImpl for all
   small inputs (TLC model checking), and (b) applied to cases recorded from the real code
   (GraphAlgoTrace). *)
EXTENDS Naturals, Integers, Sequences, FiniteSets

-----------------------------------------------------------------------------
(* Pure graph definitions *)

Range(s) == {s[i] : i \in 1..Len(s)}
Distinct(s) == \A i, j \in 1..Len(s) : i # j => s[i] # s[j]
Pos(s, x) == CHOOSE i \in 1..Len(s) : s[i] = x

SuccSet(E, X) == {e[2] : e \in {f \in E : f[1] \in X}}

RECURSIVE ReachFrom(_, _, _)
ReachFrom(E, frontier, seen) ==
    LET nxt == SuccSet(E, frontier) \ seen
    IN IF nxt = {} THEN seen ELSE ReachFrom(E, nxt, seen \cup nxt)

\* vertices reachable from x by at least one edge
Reach(E, x) == ReachFrom(E, {x}, {})

Cyclic(N, E) == \E x \in N : x \in Reach(E, x)

\* order is a permutation of N in which every predecessor precedes its successor
TopoOK(order, N, E) ==
    /\ Len(order) = Cardinality(N)
    /\ Range(order) = N
    /\ \A e \in E : (e[1] \in N /\ e[2] \in N) => (e[1] # e[2] /\ Pos(order, e[1]) < Pos(order, e[2]))

\* cyc lists distinct nodes forming a closed walk along the edges (either orientation)
NextIdx(cyc, i) == IF i = Len(cyc) THEN 1 ELSE i + 1
CycleOK(cyc, E) ==
    /\ Len(cyc) >= 1
    /\ Distinct(cyc)
    /\ \/ \A i \in 1..Len(cyc) : <<cyc[i], cyc[NextIdx(cyc, i)]>> \in E
       \/ \A i \in 1..Len(cyc) : <<cyc[NextIdx(cyc, i)], cyc[i]>> \in E

RECURSIVE Concat(_)
Concat(ss) == IF Len(ss) = 0 THEN <<>> ELSE Head(ss) \o Concat(Tail(ss))

Rule(cond, name) == IF cond THEN {name} ELSE {}

-----------------------------------------------------------------------------
(* topo_sort *)
TopoRules(N, E, ok, res) ==
    Rule(ok /\ Cyclic(N, E), "topo-ok-on-cyclic-graph")
    \cup Rule(~ok /\ ~Cyclic(N, E), "topo-err-on-acyclic-graph")
    \cup Rule(ok /\ ~Cyclic(N, E) /\ ~TopoOK(res, N, E), "topo-order-not-topological")
    \cup Rule(~ok /\ Cyclic(N, E) /\ ~CycleOK(res, E), "topo-reported-cycle-not-a-cycle")

TopoCaseRules(c) == TopoRules(1..c.n, Range(c.edges), c.ok, c.res)

-----------------------------------------------------------------------------
(* SubgraphMerge.  P = current groups (set of sets of nodes), following the implementation's
   answers; N, E, En = nodes, edges, enemy pairs (set of two-element sets). *)
GroupOf(P, x) == CHOOSE g \in P : x \in g
Enemies(En, g, h) == \E a \in g, b \in h : {a, b} \in En
QuotEdges(P, E) == {<<GroupOf(P, e[1]), GroupOf(P, e[2])>> : e \in {f \in E : GroupOf(P, f[1]) # GroupOf(P, f[2])}}
MergeOf(P, g, h) == (P \ {g, h}) \cup {g \cup h}

\* the verdict try_merge must give for groups P (deterministic)
Expected(P, E, En, u, v) ==
    LET g == GroupOf(P, u)  h == GroupOf(P, v) IN
    IF g = h THEN TRUE
    ELSE IF Enemies(En, g, h) THEN FALSE
    ELSE LET P2 == MergeOf(P, g, h) IN ~Cyclic(P2, QuotEdges(P2, E))

PartAfter(P, u, v, ret) == IF ret THEN MergeOf(P, GroupOf(P, u), GroupOf(P, v)) ELSE P

\* what subgraphs() must look like for groups P
SgsRules(N, E, P, sgs) ==
    LET flat == Concat(sgs)
        perm == Len(flat) = Cardinality(N) /\ Range(flat) = N
    IN Rule(~perm, "subgraphs-not-a-permutation-of-the-nodes")
       \cup Rule({Range(sgs[i]) : i \in 1..Len(sgs)} # P \/ Len(sgs) # Cardinality(P),
                 "subgraphs-are-not-the-merged-groups-as-contiguous-ranges")
       \cup Rule(perm /\ ~TopoOK(flat, N, E), "node-order-not-topological")

StateRules(E, En, P) ==
    Rule(\E g \in P : \E a, b \in g : {a, b} \in En, "enemies-in-one-group")
    \cup Rule(Cyclic(P, QuotEdges(P, E)), "cycle-between-groups")

RepsRules(N, P, reps) ==
    IF Len(reps) = 0 THEN {}
    ELSE Rule(\E a, b \in N : (reps[a] = reps[b]) # (GroupOf(P, a) = GroupOf(P, b)),
              "union-find-connectivity-differs-from-groups")
         \cup Rule(\E a \in N : reps[a] \notin GroupOf(P, a), "representative-outside-its-group")

NewRules(N, E, ok, res, sgs0) ==
    LET P == {{x} : x \in N} IN
    Rule(ok /\ Cyclic(N, E), "new-ok-on-cyclic-graph")
    \cup Rule(~ok /\ ~Cyclic(N, E), "new-err-on-acyclic-graph")
    \cup Rule(~ok /\ Cyclic(N, E) /\ ~CycleOK(res, E), "new-reported-cycle-not-a-cycle")
    \cup (IF ok /\ ~Cyclic(N, E) THEN SgsRules(N, E, P, sgs0) ELSE {})

MergeRules(N, E, En, P, m) ==
    LET g == GroupOf(P, m.u)  h == GroupOf(P, m.v)
        exp == Expected(P, E, En, m.u, m.v)
        P2 == PartAfter(P, m.u, m.v, m.ret)
    IN Rule(m.ret /\ ~exp /\ Enemies(En, g, h), "merged-two-groups-declared-incompatible")
       \cup Rule(m.ret /\ ~exp /\ ~Enemies(En, g, h), "merge-created-a-cycle-between-groups")
       \cup Rule(~m.ret /\ exp, "refused-a-merge-that-creates-neither-cycle-nor-conflict")
       \cup SgsRules(N, E, P2, m.sgs)
       \cup StateRules(E, En, P2)
       \cup RepsRules(N, P2, m.reps)

RECURSIVE MergeSeqRules(_, _, _, _, _, _)
MergeSeqRules(N, E, En, P, ms, i) ==
    IF i > Len(ms) THEN {}
    ELSE MergeRules(N, E, En, P, ms[i])
         \cup MergeSeqRules(N, E, En, PartAfter(P, ms[i].u, ms[i].v, ms[i].ret), ms, i + 1)

MergeCaseRules(c) ==
    LET N == 1..c.n
        E == Range(c.edges)
        En == {{p[1], p[2]} : p \in Range(c.enemies)}
    IN NewRules(N, E, c.ok, c.res, c.sgs0)
       \cup (IF c.ok /\ ~Cyclic(N, E) THEN MergeSeqRules(N, E, En, {{x} : x \in N}, c.merges, 1) ELSE {})

\* implementation fact (not C17): the representative of a group is its first node in the order
RepIsFirst(sgs, reps) ==
    Len(reps) = 0 \/ \A i \in 1..Len(sgs) : \A j \in 1..Len(sgs[i]) : reps[sgs[i][j]] = sgs[i][1]
MergeCaseFacts(c) ==
    Rule(c.ok /\ \E i \in 1..Len(c.merges) : ~RepIsFirst(c.merges[i].sgs, c.merges[i].reps),
         "representative-is-not-first-node-of-group")

-----------------------------------------------------------------------------
(* stand-alone UnionFind.  P = partition of 1..n *)
UfRepsRules(n, P, reps) ==
    Rule(\E a, b \in 1..n : (reps[a] = reps[b]) # (GroupOf(P, a) = GroupOf(P, b)),
         "uf-find-disagrees-with-connectivity")
    \cup Rule(\E a \in 1..n : reps[a] \notin GroupOf(P, a), "uf-representative-outside-its-set")

UfPartAfter(P, cl) == IF cl.op = "union" THEN MergeOf(P, GroupOf(P, cl.a), GroupOf(P, cl.b)) ELSE P

UfCallRules(n, P, cl) ==
    LET P2 == UfPartAfter(P, cl) IN
    UfRepsRules(n, P2, cl.reps)
    \cup (IF cl.op = "union"
          THEN Rule(cl.ret \notin GroupOf(P2, cl.a), "uf-union-returned-key-outside-the-merged-set")
               \cup Rule(cl.ret # cl.reps[cl.a], "uf-union-returned-key-is-not-the-representative")
          ELSE IF cl.op = "find"
          THEN Rule(cl.ret \notin GroupOf(P, cl.a), "uf-find-returned-key-outside-the-set")
               \cup Rule(cl.ret # cl.reps[cl.a], "uf-find-not-stable")
          ELSE Rule((cl.ret = 1) # (GroupOf(P, cl.a) = GroupOf(P, cl.b)), "uf-same-set-wrong"))

RECURSIVE UfSeqRules(_, _, _, _)
UfSeqRules(n, P, cls, i) ==
    IF i > Len(cls) THEN {}
    ELSE UfCallRules(n, P, cls[i]) \cup UfSeqRules(n, UfPartAfter(P, cls[i]), cls, i + 1)

UfCaseRules(c) == UfSeqRules(c.n, {{x} : x \in 1..c.n}, c.calls, 1)

\* implementation fact (documented, relied on by SubgraphMerge): union keeps a's representative
RECURSIVE UfKeepRep(_, _, _)
UfKeepRep(cls, i, prev) ==     \* prev = reps before call i (<<>> = every key its own)
    IF i > Len(cls) THEN TRUE
    ELSE /\ (cls[i].op = "union" => cls[i].ret = (IF Len(prev) = 0 THEN cls[i].a ELSE prev[cls[i].a]))
         /\ UfKeepRep(cls, i + 1, cls[i].reps)
UfCaseFacts(c) == Rule(~UfKeepRep(c.calls, 1, <<>>), "union-did-not-keep-first-representative")

-----------------------------------------------------------------------------
CaseRules(c) ==
    IF c.mode = "topo" THEN TopoCaseRules(c)
    ELSE IF c.mode = "merge" THEN MergeCaseRules(c)
    ELSE UfCaseRules(c)

CaseFacts(c) ==
    IF c.mode = "merge" THEN MergeCaseFacts(c)
    ELSE IF c.mode = "uf" THEN UfCaseFacts(c)
    ELSE {}

(* Monitor state: the rules broken by the case observed last (property level) and the
   implementation facts it contradicts (drift level). *)
VARIABLES bad, facts
mvars == <<bad, facts>>
MInit == bad = {} /\ facts = {}
MCase(c) == bad' = CaseRules(c) /\ facts' = CaseFacts(c)
MPanic == bad' = {"panic"} /\ facts' = {}

C17Inv == bad = {}
Broken == bad
=============================================================================
