--------------------------- MODULE GraphAlgoTrace ---------------------------
(* Trace validation of the real topo_sort / SubgraphMerge / UnionFind against the GraphAlgo
   monitor.  The trace (ndjson, path in env TRACE) has one line per case:
     {"e":"case","case":k,"mode":"topo", "n":..,"edges":[[p,s]..],"ids":[..],"ok":b,"res":[..]}
     {"e":"case","case":k,"mode":"merge","n":..,"edges":..,"enemies":[[a,b]..],"ok":b,"res":[..],
        "sgs0":[[..]..],"merges":[{"u":..,"v":..,"ret":b,"sgs":[[..]..],"reps":[..]}..]}
     {"e":"case","case":k,"mode":"uf","n":..,"calls":[{"op":..,"a":..,"b":..,"ret":..,"reps":[..]}..]}
     {"e":"panic","case":k,...}
     {"e":"eof"}
   Property-level rule breaks do not stop the validation: they are collected per case in `viol`
   (implementation facts in `drift`) and printed at eof.  A line no action can consume leaves
   the trace unaccepted (POSTCONDITION). *)
EXTENDS GraphAlgo, TLC, Json, IOUtils

Rec == ndJsonDeserialize(IOEnv.TRACE)

VARIABLES l, viol, drift
tvars == <<mvars, l, viol, drift>>

Ev == Rec[l]

TInit == l = 1 /\ viol = {} /\ drift = {} /\ MInit

Consume == l <= Len(Rec) /\ l' = l + 1

TCase == Ev.e = "case" /\ MCase(Ev)
TPanic == Ev.e = "panic" /\ MPanic
TEof == /\ Ev.e = "eof" /\ bad' = {} /\ facts' = {}
        /\ PrintT(<<"VIOL", ToJson(viol)>>) /\ PrintT(<<"DRIFT", ToJson(drift)>>)

TNext ==
    /\ Consume
    /\ (TCase \/ TPanic \/ TEof)
    /\ viol' = viol \cup {<<Ev.case, b>> : b \in bad'}
    /\ drift' = drift \cup {<<Ev.case, f>> : f \in facts'}

TSpec == TInit /\ [][TNext]_tvars

TraceAccepted ==
    LET d == TLCGet("stats").diameter IN
    IF d - 1 = Len(Rec) THEN TRUE
    ELSE Print(<<"UNMATCHED-EVENT-AT-LINE", d, Rec[d]>>, FALSE)
=============================================================================
