---------------------------- MODULE HydroFlowTrace ----------------------------
(* Trace validation of runs of the REAL generated Dfir (hv_embedded, bin `hydroflow`)
   against the reference layer.  The trace (ndjson, env TRACE) has one line per run:
     {"e":"run","case":id,"prog":name,"ticks":[{"in1":[..],..},..],"outs":[[..],..],"panic":0|1
      [,"pred":[[..],..]]}
     {"e":"eof"}
   Property-level rule breaks (HydroFlow!Broken, or a panic) are collected in `viol`;
   differences from the implementation-shaped prediction (HydroLowering!Run, tick by tick)
   in `drift`; both are printed at eof.  Programs come from the corpus file (env CORPUS). *)
EXTENDS HydroLowering, Json, IOUtils

\* read once (an operator definition would re-read the files at every use); single worker
ASSUME TLCSet(1, ndJsonDeserialize(IOEnv.TRACE))
ASSUME TLCSet(2, ndJsonDeserialize(IOEnv.CORPUS))
Rec == TLCGet(1)
Corpus == TLCGet(2)

ProgOf(name) == Corpus[CHOOSE i \in 1..Len(Corpus) : Corpus[i].name = name]

VARIABLES l, viol, drift
tvars == <<l, viol, drift>>

Ev == Rec[l]

TInit == l = 1 /\ viol = {} /\ drift = {}

\* inputs fed are admissible for the declared item domain shape: nothing to check here, the
\* denotation is computed from what was actually fed

RunBroken(P, e) ==
    IF e.panic = 1 THEN {"panic"}
    ELSE IF Len(e.outs) # Len(e.ticks) THEN {"harness"}
    ELSE IF P.level = "prop" THEN Broken(P, e.ticks, e.outs) ELSE {}

\* tick-by-tick comparison with the lowered program (bags, or sequences where order is promised);
\* runs of TLC-generated schedules carry the prediction HydroFlowImpl computed for them (pred),
\* for the others it is computed here
DiffersFrom(P, e, pred) ==
    \E t \in 1..Len(e.ticks) : ~SameAs(IF P.kind = "seq" THEN "seq" ELSE "bag", e.outs[t], pred[t])
RunDrift(P, e) ==
    IF e.panic = 1 \/ Len(e.outs) # Len(e.ticks) THEN FALSE
    ELSE DiffersFrom(P, e, IF "pred" \in DOMAIN e THEN e.pred ELSE Run(P, e.ticks))

TRun == /\ Ev.e = "run"
        /\ LET P == ProgOf(Ev.prog)
           IN /\ viol' = viol \cup {<<Ev.case, Ev.prog, b>> : b \in RunBroken(P, Ev)}
              /\ drift' = IF RunDrift(P, Ev) THEN drift \cup {<<Ev.case, Ev.prog>>} ELSE drift

TEof == /\ Ev.e = "eof"
        /\ UNCHANGED <<viol, drift>>
        /\ PrintT(<<"VIOL", ToJson(viol)>>)
        /\ PrintT(<<"DRIFT", ToJson(drift)>>)

TNext == /\ l <= Len(Rec)
         /\ l' = l + 1
         /\ (TRun \/ TEof)

TSpec == TInit /\ [][TNext]_tvars

TraceAccepted ==
    LET d == TLCGet("stats").diameter IN
    IF d - 1 = Len(Rec) THEN TRUE
    ELSE Print(<<"UNMATCHED-EVENT-AT-LINE", d, Rec[d]>>, FALSE)
=============================================================================
