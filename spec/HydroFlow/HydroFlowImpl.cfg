SPECIFICATION Spec
CONSTANTS
  MaxLen = 3
  MaxTicks = 3
  EMIT = FALSE
INVARIANTS Design C28Ref Emit
CHECK_DEADLOCK FALSE
