------------------------------- MODULE HydroFlow -------------------------------
(* Reference (denotational) layer for Hydro live collections under tick partitions
   (properties C28, C29, C30, C32, C33).

   A program is a record
     [name, term, cycles, inputs, kind, obs, mono]
   whose `term` is a tree of nodes [op, f, n, c, in] over the closed closure vocabulary
   below.  Finite inputs are given as a *batching*  B : sequence over ticks of
   [input name |-> sequence of items]  (the tick partition pi, empty ticks included).

     Den(P, t, B, T)      value of the TOP-LEVEL (unbounded) collection t once the inputs of
                          ticks 1..T have been consumed.  For terms built only from safe
                          top-level operators it depends only on the concatenated inputs --
                          never on where the tick boundaries are (the content of C28).
     TickDen(P, t, B, k)  value of the TICK-scoped (bounded) collection t in tick k: the
                          batch operator applied to that tick's batch (C30); the only
                          cross-tick dependencies are defer_tick / cycle (exactly one tick
                          later) and batch/snapshot of a top-level collection.

   All collection values are sequences: streams as sequences (compared as bags unless the
   type promises order), keyed streams as sequences of <<k, v>>, singletons as one-element
   sequences, optionals as sequences of length <= 1, keyed singletons as sequences of
   <<k, v>> with distinct keys. *)
EXTENDS Integers, Sequences, FiniteSets, SequencesExt, TLC

-----------------------------------------------------------------------------
\* NOTE on evaluation cost: TLC represents [i \in S |-> e] lazily (FcnLambdaValue) and evaluates
\* e again at EVERY application, so a sequence built that way and indexed several times (or
\* nested in recursion) costs exponentially; every function constructor that stands for a
\* sequence is therefore forced with TLCEval.  Shared intermediate results are passed as
\* arguments of small named helper operators.

\* sequence / bag helpers
Map1(F(_), s) == TLCEval([i \in 1..Len(s) |-> F(s[i])])
SelIdx(s, P(_)) == LET idx == SetToSortSeq({i \in 1..Len(s) : P(i)}, <)
                   IN TLCEval([j \in 1..Len(idx) |-> s[idx[j]]])
Cat(ss) == FlattenSeq(ss)
Dedup(s) == SelIdx(s, LAMBDA i : \A j \in 1..(i - 1) : s[j] # s[i])
BagOf(s) == [x \in ToSet(s) |-> Cardinality({i \in 1..Len(s) : s[i] = x})]
BagEq(s, t) == BagOf(s) = BagOf(t)
Keys(s) == Dedup(Map1(LAMBDA x : x[1], s))            \* keys in order of first appearance
OfKey(s, k) == SelectSeq(s, LAMBDA x : x[1] = k)       \* sub-sequence of one key
ValsOf(s, k) == Map1(LAMBDA x : x[2], OfKey(s, k))
Max2(a, b) == IF a >= b THEN a ELSE b
Min2(a, b) == IF a <= b THEN a ELSE b

\* total order on items: integers, or pairs of integers compared lexicographically
ItemLt(ty, a, b) == IF ty = "int" THEN a < b
                    ELSE a[1] < b[1] \/ (a[1] = b[1] /\ a[2] < b[2])
SortItems(ty, s) == SortSeq(s, LAMBDA a, b : ItemLt(ty, a, b))

-----------------------------------------------------------------------------
\* the closed closure vocabulary (mirrored by hv_flows/src/flows.rs)
MapF(f, x) ==
    CASE f = "inc" -> x + 1
      [] f = "dbl" -> 2 * x
      [] f = "mod3" -> x % 3
      [] f = "kv_mod2" -> <<x % 2, x>>
      [] f = "kv_mod3" -> <<x % 3, x>>
      [] f = "swap" -> <<x[2], x[1]>>
      [] f = "fst" -> x[1]
      [] f = "snd" -> x[2]
      [] f = "pair_sum" -> x[1] + x[2]
      [] f = "join_sum" -> <<x[1], x[2][1] + x[2][2]>>

FilterP(f, x) ==
    CASE f = "even" -> x % 2 = 0
      [] f = "odd" -> x % 2 = 1
      [] f = "gt1" -> x > 1
      [] f = "v_even" -> x[2] % 2 = 0

FlatF(f, x) ==
    CASE f = "dup10" -> <<x, x + 10>>
      [] f = "rep" -> TLCEval([i \in 1..x |-> x])             \* x copies of x (none for 0)

FoldInit(f) ==
    CASE f = "sum" -> 0
      [] f = "cnt" -> 0
      [] f = "max0" -> 0
      [] f = "vec" -> <<>>
      [] f = "last" -> -1

FoldF(f, a, x) ==
    CASE f = "sum" -> a + x
      [] f = "cnt" -> a + 1
      [] f = "max0" -> Max2(a, x)
      [] f = "vec" -> Append(a, x)
      [] f = "last" -> x

ReduceF(f, a, x) ==
    CASE f = "sum" -> a + x
      [] f = "max" -> Max2(a, x)
      [] f = "min" -> Min2(a, x)
      [] f = "last" -> x
      [] f = "first" -> a

\* scan: state, item -> [s: new state, emit: sequence of <=1 outputs, stop: terminate the scan]
ScanInit(f) == 0
ScanF(f, s, x) ==
    CASE f = "runsum" -> [s |-> s + x, emit |-> <<s + x>>, stop |-> FALSE]
      [] f = "sum_le5" -> IF s + x > 5 THEN [s |-> s, emit |-> <<>>, stop |-> TRUE]
                          ELSE [s |-> s + x, emit |-> <<s + x>>, stop |-> FALSE]

\* strict left folds: the accumulator is bound as a VALUE at every step (a bounded variable),
\* so a step function that uses it several times does not re-evaluate the fold of the prefix
RECURSIVE FoldFrom(_, _, _), ReduceFrom(_, _, _)
FoldFrom(f, acc, s) == IF s = <<>> THEN acc
                       ELSE CHOOSE r \in {FoldFrom(f, a, Tail(s)) : a \in {FoldF(f, acc, Head(s))}} : TRUE
ReduceFrom(f, acc, s) == IF s = <<>> THEN acc
                         ELSE CHOOSE r \in {ReduceFrom(f, a, Tail(s)) : a \in {ReduceF(f, acc, Head(s))}} : TRUE
FoldAll(f, s) == FoldFrom(f, FoldInit(f), s)
ReduceAll(f, s) == ReduceFrom(f, Head(s), Tail(s))

\* scan over a whole sequence from state st0 (alive0 = not yet terminated);
\* result [out, s, alive]
RECURSIVE ScanFrom(_, _, _, _)
ScanJoin(r, rest) == [out |-> r.emit \o rest.out, s |-> rest.s, alive |-> rest.alive]
ScanCons(f, tl, r) == ScanJoin(r, ScanFrom(f, tl, r.s, ~r.stop))
ScanFrom(f, s, st0, alive0) ==
    IF s = <<>> \/ ~alive0 THEN [out |-> <<>>, s |-> st0, alive |-> alive0]
    ELSE ScanCons(f, Tail(s), ScanF(f, st0, Head(s)))
ScanAll(f, s) == ScanFrom(f, s, ScanInit(f), TRUE).out

-----------------------------------------------------------------------------
\* the batch operators: the meaning of every order/time-insensitive combinator is the pure
\* function below applied to the (whole, finite) argument collections
IsPure(op) == op \in {"map", "filter", "flat_map", "unique", "enumerate", "scan", "sort", "limit",
                      "fold", "reduce", "count", "max", "min", "first", "last", "is_empty",
                      "collect_vec", "chain", "interleave", "join", "cross_product",
                      "anti_join", "filter_not_in", "cross_singleton", "into_keyed", "entries",
                      "keys", "values", "kfold", "kreduce", "value_counts", "kfirst", "kscan",
                      "kenumerate", "kmap", "kfilter", "key_count", "get_max_key",
                      "repeat_with_keys", "k1_keys", "weaken"}

Apply(t, a) ==
    LET op == t.op
        f == t.f
        x == a[1]
    IN CASE op = "map" -> Map1(LAMBDA e : MapF(f, e), x)
         [] op = "filter" -> SelectSeq(x, LAMBDA e : FilterP(f, e))
         [] op = "flat_map" -> Cat(Map1(LAMBDA e : FlatF(f, e), x))
         [] op = "unique" -> Dedup(x)
         [] op = "enumerate" -> TLCEval([i \in 1..Len(x) |-> <<i - 1, x[i]>>])
         [] op = "scan" -> ScanAll(f, x)
         [] op = "sort" -> SortItems("int", x)
         [] op = "limit" -> SubSeq(x, 1, Min2(t.n, Len(x)))
         [] op = "fold" -> <<FoldAll(f, x)>>
         [] op = "collect_vec" -> <<x>>
         [] op = "reduce" -> IF x = <<>> THEN <<>> ELSE <<ReduceAll(f, x)>>
         [] op = "count" -> <<Len(x)>>
         [] op = "max" -> IF x = <<>> THEN <<>> ELSE <<ReduceAll("max", x)>>
         [] op = "min" -> IF x = <<>> THEN <<>> ELSE <<ReduceAll("min", x)>>
         [] op = "first" -> IF x = <<>> THEN <<>> ELSE <<Head(x)>>
         [] op = "last" -> IF x = <<>> THEN <<>> ELSE <<x[Len(x)]>>
         [] op = "is_empty" -> <<IF x = <<>> THEN 1 ELSE 0>>
         [] op = "chain" -> x \o a[2]
         [] op = "interleave" -> x \o a[2]
         [] op = "weaken" -> x
         \* (k, v1) join (k, v2): for each left element, in order, its matches in right order
         [] op = "join" -> Cat(Map1(LAMBDA l : Map1(LAMBDA r : <<l[1], <<l[2], r[2]>>>>, OfKey(a[2], l[1])), x))
         [] op = "cross_product" -> Cat(Map1(LAMBDA l : Map1(LAMBDA r : <<l, r>>, a[2]), x))
         [] op = "anti_join" -> SelectSeq(x, LAMBDA l : \A j \in 1..Len(a[2]) : a[2][j] # l[1])
         [] op = "filter_not_in" -> SelectSeq(x, LAMBDA l : \A j \in 1..Len(a[2]) : a[2][j] # l)
         [] op = "cross_singleton" -> IF a[2] = <<>> THEN <<>> ELSE Map1(LAMBDA e : <<e, a[2][1]>>, x)
         \* keyed streams / keyed singletons are sequences of <<k, v>>
         [] op = "into_keyed" -> x
         [] op = "entries" -> x
         [] op = "keys" -> Keys(x)
         [] op = "k1_keys" -> Keys(x)
         [] op = "values" -> Map1(LAMBDA e : e[2], x)
         [] op = "kmap" -> Map1(LAMBDA e : <<e[1], MapF(f, e[2])>>, x)
         [] op = "kfilter" -> SelectSeq(x, LAMBDA e : FilterP(f, e[2]))
         [] op = "kfold" -> Map1(LAMBDA k : <<k, FoldAll(f, ValsOf(x, k))>>, Keys(x))
         [] op = "kreduce" -> Map1(LAMBDA k : <<k, ReduceAll(f, ValsOf(x, k))>>, Keys(x))
         [] op = "value_counts" -> Map1(LAMBDA k : <<k, Len(ValsOf(x, k))>>, Keys(x))
         [] op = "kfirst" -> Map1(LAMBDA k : <<k, Head(ValsOf(x, k))>>, Keys(x))
         \* per-key streaming operators: output position follows the input position of the element
         [] op = "kscan" ->
              Cat(TLCEval([i \in 1..Len(x) |->
                     LET before == ValsOf(SubSeq(x, 1, i - 1), x[i][1])
                         st == ScanFrom(f, before, ScanInit(f), TRUE)
                         r == ScanF(f, st.s, x[i][2])
                     IN IF st.alive THEN Map1(LAMBDA o : <<x[i][1], o>>, r.emit) ELSE <<>>]))
         [] op = "kenumerate" ->
              TLCEval([i \in 1..Len(x) |-> <<x[i][1], <<Len(OfKey(SubSeq(x, 1, i - 1), x[i][1])), x[i][2]>>>>])
         [] op = "key_count" -> <<Len(Keys(x))>>
         [] op = "get_max_key" ->
              IF x = <<>> THEN <<>>
              ELSE <<CHOOSE e \in ToSet(x) : \A e2 \in ToSet(x) : e2[1] <= e[1]>>
         \* stream x repeated for every key of the keyed singleton a[2]
         [] op = "repeat_with_keys" -> Cat(Map1(LAMBDA k : Map1(LAMBDA e : <<k, e>>, x), Keys(a[2])))

-----------------------------------------------------------------------------
\* inputs through tick T
InUpTo(B, name, T) == Cat(TLCEval([k \in 1..T |-> B[k][name]]))

InputDesc(P, name) == CHOOSE d \in ToSet(P.inputs) : d.name = name

\* canonical representative of an input whose type allows reordering / duplication: the
\* denotation is a function of the bag (NoOrder) or of the set (NoOrder + AtLeastOnce) only
\* (TotalOrder + AtLeastOnce: an element may be re-delivered right after itself -- the
\* representative has the immediate repetitions removed)
Canon(d, s) == IF d.dup /\ d.ord = "none" THEN SortItems(d.ity, SetToSeq(ToSet(s)))
               ELSE IF d.dup THEN SelIdx(s, LAMBDA i : i = 1 \/ s[i] # s[i - 1])
               ELSE IF d.ord = "none" THEN SortItems(d.ity, s)
               ELSE s

RECURSIVE Den(_, _, _, _), TickDen(_, _, _, _)

\* top-level collections
Den(P, t, B, T) ==
    CASE t.op = "input" -> Canon(InputDesc(P, t.f), InUpTo(B, t.f, T))
      [] t.op = "const" -> IF T >= 1 THEN t.c ELSE <<>>
      [] t.op = "all_ticks" -> Cat(TLCEval([k \in 1..T |-> TickDen(P, t.in[1], B, k)]))
      [] t.op = "latest" -> IF T >= 1 THEN TickDen(P, t.in[1], B, T) ELSE <<>>
      [] OTHER -> Apply(t, TLCEval([i \in 1..Len(t.in) |-> Den(P, t.in[i], B, T)]))

\* operators that look at one element at a time: batching commutes with them
RECURSIVE Stateless(_)
Stateless(t) == CASE t.op = "input" -> TRUE
                  [] t.op \in {"weaken", "map", "filter", "flat_map", "into_keyed", "entries",
                               "values", "kmap", "kfilter"} -> Stateless(t.in[1])
                  [] OTHER -> FALSE

\* the elements of a top-level stream that fall into tick k: for element-wise pipelines over
\* an input it is the pipeline applied to the tick's own items (for a NoOrder / AtLeastOnce
\* input: to the canonical arrangement of the tick's items); for a stateful (prefix-monotone)
\* stream it is what tick k adds to the stream
Suffix(now, before) == SubSeq(now, Len(before) + 1, Len(now))
NewIn(P, t, B, k) ==
    IF Stateless(t) THEN Den(P, t, <<B[k]>>, 1)
    ELSE Suffix(Den(P, t, B, k), Den(P, t, B, k - 1))

\* tick-scoped collections
TickDen(P, t, B, k) ==
    CASE t.op = "batch" -> NewIn(P, t.in[1], B, k)
      [] t.op = "snapshot" -> Den(P, t.in[1], B, k)
      [] t.op = "defer_tick" -> IF k = 1 THEN <<>> ELSE TickDen(P, t.in[1], B, k - 1)
      [] t.op = "cycle" -> IF k = 1 THEN <<>> ELSE TickDen(P, P.cycles[t.f], B, k - 1)
      [] t.op = "tick_const" -> t.c
      [] OTHER -> Apply(t, TLCEval([i \in 1..Len(t.in) |-> TickDen(P, t.in[i], B, k)]))

-----------------------------------------------------------------------------
\* comparison of an observed collection with a denoted one, by collection kind
\*   "seq"   totally ordered stream          "bag"  unordered stream
\*   "kseq"  keyed stream, ordered per key    "kmap" keyed singleton (distinct keys)
\*   "single" / "optional"  sequences of length 1 / <= 1
PerKeyEq(s, t) == /\ ToSet(Keys(s)) = ToSet(Keys(t))
                  /\ \A k \in ToSet(Keys(s)) : OfKey(s, k) = OfKey(t, k)

SameAs(kind, obs, den) ==
    CASE kind = "seq" -> obs = den
      [] kind = "bag" -> BagEq(obs, den)
      [] kind = "kseq" -> PerKeyEq(obs, den)
      [] kind = "kmap" -> BagEq(obs, den)
      [] kind = "single" -> obs = den
      [] kind = "optional" -> obs = den

\* C33: admissible change of a snapshot from one tick to the next
\*   "inc"        singleton whose value never decreases
\*   "monokeys"   keyed singleton: keys never disappear
\*   "monovalue"  ... and values never decrease
\*   "boundedvalue" ... and values never change once present
ValOf(s, k) == (CHOOSE e \in ToSet(s) : e[1] = k)[2]
MonoStep(mono, prev, next) ==
    CASE mono = "inc" -> prev = <<>> \/ (next # <<>> /\ prev[1] <= next[1])
      [] mono = "monokeys" -> ToSet(Keys(prev)) \subseteq ToSet(Keys(next))
      [] mono = "monovalue" -> /\ ToSet(Keys(prev)) \subseteq ToSet(Keys(next))
                               /\ \A k \in ToSet(Keys(prev)) : ValOf(prev, k) <= ValOf(next, k)
      [] mono = "boundedvalue" -> /\ ToSet(Keys(prev)) \subseteq ToSet(Keys(next))
                                  /\ \A k \in ToSet(Keys(prev)) : ValOf(prev, k) = ValOf(next, k)
      [] OTHER -> TRUE

-----------------------------------------------------------------------------
\* the property statements on one finished run: program P, batching B (all ticks that were
\* run, trailing empty ticks included), outs[k] = what the program emitted in tick k
IsTickProg(P) == P.term.op = "all_ticks"
BagKind(kind) == IF kind \in {"seq", "kseq"} THEN "bag" ELSE kind

\* final content of the observed output: the whole emitted stream, or the last snapshot
FinalObs(P, outs) == IF P.obs = "snapshot" THEN outs[Len(outs)] ELSE Cat(outs)

\* rule names:
\*  final_content  C28: final output (as a bag / final value) differs from Den
\*  final_order    C29: right elements, but the promised (total / per-key) order is broken
\*  tick_content   C30: the output of some tick is not the batch operator on that tick's batch
\*  tick_order     C29/C30: right elements in that tick, wrong promised order
\*  mono           C33: a snapshot shrank / a bounded value changed
Verdict(P, T, tick, outs, fin, den, td) ==
    LET bagOk == IF tick THEN \A k \in 1..T : SameAs(BagKind(P.kind), outs[k], td[k])
                 ELSE SameAs(BagKind(P.kind), fin, den)
        ordOk == IF tick THEN \A k \in 1..T : SameAs(P.kind, outs[k], td[k])
                 ELSE SameAs(P.kind, fin, den)
    IN  (IF ~bagOk THEN {IF tick THEN "tick_content" ELSE "final_content"} ELSE {})
   \cup (IF bagOk /\ P.kind \in {"seq", "kseq"} /\ ~ordOk
        THEN {IF tick THEN "tick_order" ELSE "final_order"} ELSE {})

DistinctKeys(all) == Len(Keys(all)) = Len(all)

Broken(P, B, outs) ==
    Verdict(P, Len(B), IsTickProg(P), outs,
            IF IsTickProg(P) THEN <<>> ELSE FinalObs(P, outs),
            IF IsTickProg(P) THEN <<>> ELSE Den(P, P.term, B, Len(B)),
            IF IsTickProg(P) THEN TLCEval([k \in 1..Len(B) |-> TickDen(P, P.term.in[1], B, k)]) ELSE <<>>)
   \cup (IF P.mono = "boundedvalue_stream"
        THEN (IF ~DistinctKeys(Cat(outs)) THEN {"mono"} ELSE {})
        ELSE IF P.mono # "" /\ \E k \in 1..(Len(B) - 1) : ~MonoStep(P.mono, outs[k], outs[k + 1])
        THEN {"mono"} ELSE {})
=============================================================================
