----------------------------- MODULE HydroLowering -----------------------------
(* Implementation-shaped layer: the DFIR idiom that hydro_lang/src/compile/ir/mod.rs
   (emit_core, ProdDfirBuilder) emits for each Hydro operator, executed tick by tick with
   the per-tick semantics of the DFIR operators (dfir_lang/src/graph/ops/*.rs).

     Lower(P, t)             Hydro term -> DFIR term; the persistence lifetime of every
                             stateful operator is 'static when its input lives at top
                             level (cross_tick_state_lifetime) and 'tick inside a tick
                             (tick_state_lifetime); top-level Join/CrossProduct get
                             `-> multiset_delta()`; Fold/Reduce over a bounded top-level
                             input become fold_no_replay/reduce_no_replay; DeferTick becomes
                             defer_tick_lazy; batch/snapshot of a bounded top-level
                             singleton becomes persist::<'static>().
     Run(P, B)               per-tick outputs of the lowered program on the batching B.

   The design-level statements of C28/C30 (checked by TLC in HydroFlowImpl) are
   "Run accumulates to Den" and "Run's tick k output equals TickDen(k)". *)
EXTENDS HydroFlow

-----------------------------------------------------------------------------
\* static facts about a Hydro term
RECURSIVE IsTick(_)
IsTick(t) == CASE t.op \in {"batch", "snapshot", "defer_tick", "cycle", "tick_const"} -> TRUE
               [] t.op \in {"input", "const", "all_ticks", "latest"} -> FALSE
               [] OTHER -> IsTick(t.in[1])

\* top-level and Bounded: built from source_iter constants only
RECURSIVE IsBoundedTop(_)
IsBoundedTop(t) == CASE t.op = "const" -> TRUE
                     [] t.op \in {"input", "all_ticks", "latest", "batch", "snapshot",
                                  "defer_tick", "cycle", "tick_const"} -> FALSE
                     [] OTHER -> \A i \in 1..Len(t.in) : IsBoundedTop(t.in[i])

IsSingleOp(op) == op \in {"fold", "reduce", "count", "max", "min", "first", "last", "is_empty",
                          "collect_vec", "key_count", "get_max_key", "kfold", "kreduce",
                          "value_counts", "kfirst"}

Lt(t) == IF IsTick(t) THEN "tick" ELSE "static"

D(op, lt, f, n, c, names, kids) ==
    [op |-> op, lt |-> lt, f |-> f, n |-> n, c |-> c, names |-> names, in |-> kids]

RECURSIVE Lower(_)
Lower(t) ==
    LET op == t.op
        k == TLCEval([i \in 1..Len(t.in) |-> Lower(t.in[i])])
        lt1 == IF Len(t.in) >= 1 THEN Lt(t.in[1]) ELSE "static"
        lt2 == IF Len(t.in) >= 2 THEN Lt(t.in[2]) ELSE "static"
        S(o, names) == D(o, <<lt1, lt2>>, t.f, t.n, t.c, names, k)
        bounded1 == Len(t.in) >= 1 /\ ~IsTick(t.in[1]) /\ IsBoundedTop(t.in[1])
    IN CASE op = "input" -> S("src", <<"source_stream">>)
         [] op = "const" -> S("src_iter", <<"source_iter">>)
         [] op = "tick_const" -> S("src_iter_persist", <<"source_iter", "persist">>)
         \* ProdDfirBuilder::batch: persist::<'static>() only for bounded top-level singletons
         [] op \in {"batch", "snapshot"} ->
              IF bounded1 /\ IsSingleOp(t.in[1].op) THEN S("persist", <<"persist">>)
              ELSE S("ident", <<>>)
         [] op \in {"all_ticks", "latest", "into_keyed", "entries", "weaken"} -> S("ident", <<>>)
         [] op = "map" -> S("map", <<"map">>)
         [] op = "kmap" -> S("kmap", <<"map">>)
         [] op = "filter" -> S("filter", <<"filter">>)
         [] op = "kfilter" -> S("kfilter", <<"filter">>)
         [] op = "flat_map" -> S("flat_map", <<"flat_map">>)
         [] op = "values" -> S("values", <<"map">>)
         [] op = "k1_keys" -> S("k1_keys", <<"map">>)
         [] op = "keys" -> S("keys_unique", <<"map", "unique">>)
         [] op = "unique" -> S("unique", <<"unique">>)
         [] op = "enumerate" -> S("enumerate", <<"enumerate">>)
         [] op = "scan" -> S("scan", <<"scan">>)
         [] op = "sort" -> S("sort", <<"sort">>)
         \* Stream::limit / first / keyed generators are `scan -> flat_map` idioms
         [] op = "limit" -> S("limit", <<"scan", "flat_map">>)
         [] op \in {"kscan", "kenumerate"} -> S("kgen", <<"scan", "flat_map">>)
         [] op = "kfirst" -> S("kgen", <<"scan", "flat_map", "map">>)
         [] op \in {"fold", "collect_vec", "count"} ->
              LET ff == IF op = "fold" THEN t.f ELSE IF op = "count" THEN "cnt" ELSE "vec"
              IN IF bounded1
                 THEN D("fold_no_replay", <<lt1>>, ff, 0, <<>>, <<"fold_no_replay">>, k)
                 ELSE D("fold", <<lt1>>, ff, 0, <<>>, <<"fold">>, k)
         [] op \in {"reduce", "max", "min", "last"} ->
              LET ff == IF op = "reduce" THEN t.f ELSE op
              IN D(IF bounded1 THEN "reduce_no_replay" ELSE "reduce", <<lt1>>, ff, 0, <<>>,
                   <<IF bounded1 THEN "reduce_no_replay" ELSE "reduce">>, k)
         [] op = "first" -> D("reduce", <<lt1>>, "first", 0, <<>>, <<"scan", "flat_map", "reduce">>, k)
         \* first().is_none(): map -> (Optional::into_singleton) -> map
         [] op = "is_empty" -> S("is_empty", <<"scan", "flat_map", "reduce", "map", "map", "chain_first_n",
                                              "source_iter", "persist", "map">>)
         \* both sides unbounded: symmetric join, replayed every tick, hence multiset_delta at top level
         [] op \in {"join", "cross_product"} ->
              LET rightBounded == IsTick(t.in[2]) \/ IsBoundedTop(t.in[2])
                  bothTop == ~IsTick(t.in[1]) /\ ~IsTick(t.in[2])
                  core == IF op = "join" THEN "join_multiset" ELSE "cross_join_multiset"
                  \* cross_join_multiset is a DFIR macro: map -> join_multiset on a unit key -> map
                  cnames == IF op = "join" THEN <<"join_multiset">> ELSE <<"map", "map", "join_multiset", "map">>
              IN IF op = "join" /\ rightBounded
                 THEN D("join_half", <<"tick", lt2>>, "", 0, <<>>, <<"join_multiset_half">>, k)
                 ELSE IF bothTop
                 THEN D("multiset_delta", <<>>, "", 0, <<>>, <<"multiset_delta">>,
                        <<D(core, <<lt1, lt2>>, "", 0, <<>>, cnames, k)>>)
                 ELSE D(core, <<lt1, lt2>>, "", 0, <<>>, cnames, k)
         [] op = "anti_join" -> D("anti_join", <<"tick", lt2>>, "", 0, <<>>, <<"anti_join">>, k)
         [] op = "filter_not_in" -> D("difference", <<"tick", lt2>>, "", 0, <<>>, <<"difference">>, k)
         [] op = "chain" -> S("chain", <<"chain">>)
         \* merge_unordered is emitted as chain(): all of [0], then all of [1], every tick
         [] op = "interleave" -> S("union", <<"chain">>)
         [] op = "cross_singleton" ->
              D("cross_singleton",
                <<IF ~IsTick(t.in[2]) /\ IsBoundedTop(t.in[2]) THEN "static" ELSE "tick">>,
                "", 0, <<>>, <<"cross_singleton">>, k)
         [] op = "defer_tick" -> S("defer_tick_lazy", <<"defer_tick_lazy">>)
         [] op = "cycle" -> S("cycle_src", <<"defer_tick_lazy">>)
         [] op \in {"kfold", "value_counts"} ->
              D("fold_keyed", <<lt1>>, IF op = "kfold" THEN t.f ELSE "cnt", 0, <<>>, <<"fold_keyed">>, k)
         [] op = "kreduce" -> D("reduce_keyed", <<lt1>>, t.f, 0, <<>>, <<"reduce_keyed">>, k)
         \* KeyedSingleton::key_count on an unbounded top-level keyed singleton:
         \* snapshot -> entries().count() inside a tick -> latest
         [] op = "key_count" -> D("fold", <<"tick">>, "cnt", 0, <<>>, <<"fold">>, k)
         [] op = "get_max_key" -> D("reduce", <<lt1>>, "maxkey", 0, <<>>, <<"reduce">>, k)
         \* keys() is a map; cross_product_nested_loop reads the stream through a handoff reference
         [] op = "repeat_with_keys" -> S("repeat_with_keys", <<"map">>)

-----------------------------------------------------------------------------
\* operator state: a tree mirroring the DFIR term
DInit0(d) ==
    CASE d.op \in {"fold", "fold_no_replay"} -> FoldInit(d.f)
      [] d.op = "scan" -> [s |-> ScanInit(d.f), alive |-> TRUE]
      [] d.op = "enumerate" -> 0
      [] d.op = "limit" -> 0
      [] d.op \in {"join_multiset", "cross_join_multiset"} -> [l |-> <<>>, r |-> <<>>]
      [] OTHER -> <<>>

RECURSIVE DInit(_)
DInit(d) == [s |-> DInit0(d), kids |-> TLCEval([i \in 1..Len(d.in) |-> DInit(d.in[i])])]

\* multiset difference cur - prev, keeping the order of cur
MsDelta(cur, prev) ==
    SelIdx(cur, LAMBDA i :
        Cardinality({j \in 1..i : cur[j] = cur[i]}) > Cardinality({j \in 1..Len(prev) : prev[j] = cur[i]}))

MaxKeyF(a, x) == IF x[1] > a[1] THEN x ELSE a
RedF(f, a, x) == IF f = "maxkey" THEN MaxKeyF(a, x) ELSE ReduceF(f, a, x)

\* upsert into a table (sequence of <<k, acc>>, keys in first-insertion order)
Upsert(tab, k, v) ==
    IF \E i \in 1..Len(tab) : tab[i][1] = k
    THEN TLCEval([i \in 1..Len(tab) |-> IF tab[i][1] = k THEN <<k, v>> ELSE tab[i]])
    ELSE Append(tab, <<k, v>>)
Lookup(tab, k, dflt) ==
    IF \E i \in 1..Len(tab) : tab[i][1] = k
    THEN (CHOOSE e \in ToSet(tab) : e[1] = k)[2] ELSE dflt

\* result constructors (shared values are passed as arguments, see the note in HydroFlow)
Both(v) == [out |-> v, s |-> v]
FoldRes(acc, emit) == [out |-> IF emit THEN <<acc>> ELSE <<>>, s |-> acc]
OptRes(acc, emit) == [out |-> IF emit THEN acc ELSE <<>>, s |-> acc]
RECURSIVE RedFrom(_, _, _), KFoldFrom(_, _, _), KRedFrom(_, _, _)
RedFrom(f, acc, s) == IF s = <<>> THEN acc
                      ELSE CHOOSE r \in {RedFrom(f, a, Tail(s)) : a \in {RedF(f, acc, Head(s))}} : TRUE
RedAcc(f, all) == IF all = <<>> THEN <<>> ELSE <<RedFrom(f, Head(all), Tail(all))>>
\* keyed tables (sequence of <<k, acc>>), strict in the table
KFoldStep(f, tb, e) == Upsert(tb, e[1], FoldF(f, Lookup(tb, e[1], FoldInit(f)), e[2]))
KFoldFrom(f, tb, s) == IF s = <<>> THEN tb
                       ELSE CHOOSE r \in {KFoldFrom(f, t2, Tail(s)) : t2 \in {KFoldStep(f, tb, Head(s))}} : TRUE
KRedStep(f, tb, e) == IF \E i \in 1..Len(tb) : tb[i][1] = e[1]
                      THEN Upsert(tb, e[1], RedF(f, Lookup(tb, e[1], 0), e[2]))
                      ELSE Append(tb, e)
KRedFrom(f, tb, s) == IF s = <<>> THEN tb
                      ELSE CHOOSE r \in {KRedFrom(f, t2, Tail(s)) : t2 \in {KRedStep(f, tb, Head(s))}} : TRUE
NewOf(seen, x) == SelIdx(x, LAMBDA i : /\ \A j \in 1..Len(seen) : seen[j] # x[i]
                                      /\ \A j \in 1..(i - 1) : x[j] # x[i])
UniqRes(seen, new) == [out |-> new, s |-> seen \o new]
ScanRes(r) == [out |-> r.out, s |-> [s |-> r.s, alive |-> r.alive]]
GenRes(full, before, hist) == [out |-> SubSeq(full, Len(before) + 1, Len(full)), s |-> hist]
JoinRes(hop, l, r) == [out |-> Apply([op |-> hop, f |-> "", n |-> 0], <<l, r>>), s |-> [l |-> l, r |-> r]]
SideRes(hop, x, side) == [out |-> Apply([op |-> hop, f |-> "", n |-> 0], <<x, side>>), s |-> side]
CrossRes(x, held) == [out |-> IF held = <<>> THEN <<>> ELSE Map1(LAMBDA e : <<e, held[1]>>, x), s |-> held]

\* one tick of one DFIR operator: state s, argument batches a, tick number k -> [out, s]
DOp(d, s, a, B, k, cyc) ==
    LET op == d.op
        st(i) == d.lt[i] = "static"
        x == IF Len(a) >= 1 THEN a[1] ELSE <<>>
        Pure(hop) == Apply([op |-> hop, f |-> d.f, n |-> d.n], a)
    IN CASE op = "src" -> [out |-> B[k][d.f], s |-> s]
         [] op = "src_iter" -> [out |-> IF k = 1 THEN d.c ELSE <<>>, s |-> s]
         [] op = "src_iter_persist" -> [out |-> d.c, s |-> s]
         [] op = "cycle_src" -> [out |-> cyc[d.f], s |-> s]
         [] op = "ident" -> [out |-> x, s |-> s]
         [] op = "persist" -> [out |-> s \o x, s |-> s \o x]
         [] op \in {"map", "filter", "flat_map", "sort", "chain", "kmap", "kfilter", "values",
                    "k1_keys", "is_empty", "repeat_with_keys"} -> [out |-> Pure(op), s |-> s]
         [] op = "union" -> [out |-> x \o a[2], s |-> s]
         [] op = "keys_unique" -> UniqRes(IF st(1) THEN s ELSE <<>>,
                                          NewOf(IF st(1) THEN s ELSE <<>>, Map1(LAMBDA e : e[1], x)))
         [] op = "unique" -> UniqRes(IF st(1) THEN s ELSE <<>>, NewOf(IF st(1) THEN s ELSE <<>>, x))
         [] op = "enumerate" ->
              LET c0 == IF st(1) THEN s ELSE 0
              IN [out |-> TLCEval([i \in 1..Len(x) |-> <<c0 + i - 1, x[i]>>]), s |-> c0 + Len(x)]
         [] op = "limit" ->
              LET c0 == IF st(1) THEN s ELSE 0
                  take == Min2(Len(x), IF d.n > c0 THEN d.n - c0 ELSE 0)
              IN [out |-> SubSeq(x, 1, take), s |-> c0 + take]
         [] op = "scan" ->
              ScanRes(ScanFrom(d.f, x, IF st(1) THEN s.s ELSE ScanInit(d.f), IF st(1) THEN s.alive ELSE TRUE))
         \* state = the items seen in the operator's lifetime; output = what the streaming
         \* per-key operator adds for the new items
         [] op = "kgen" ->
              LET hist == IF st(1) THEN s ELSE <<>>
                  hop == IF d.names = <<"scan", "flat_map", "map">> THEN "kfirst"
                         ELSE IF d.f = "" THEN "kenumerate" ELSE "kscan"
                  ap(h) == Apply([op |-> hop, f |-> d.f, n |-> 0], <<h>>)
              IN GenRes(ap(hist \o x), ap(hist), hist \o x)
         \* fold emits its accumulator every tick; 'tick restarts from init
         [] op = "fold" ->
              FoldRes(FoldFrom(d.f, IF st(1) THEN s ELSE FoldInit(d.f), x), TRUE)
         \* fold_no_replay emits on ticks with new input and on the first tick
         [] op = "fold_no_replay" ->
              FoldRes(FoldFrom(d.f, s, x), x # <<>> \/ k = 1)
         [] op = "reduce" -> OptRes(RedAcc(d.f, (IF st(1) THEN s ELSE <<>>) \o x), TRUE)
         [] op = "reduce_no_replay" -> OptRes(RedAcc(d.f, s \o x), x # <<>> \/ k = 1)
         \* join_multiset / cross_join_multiset: drain-then-enumerate, the whole join of the
         \* accumulated sides every tick
         [] op \in {"join_multiset", "cross_join_multiset"} ->
              JoinRes(IF op = "join_multiset" THEN "join" ELSE "cross_product",
                      (IF st(1) THEN s.l ELSE <<>>) \o x, (IF st(2) THEN s.r ELSE <<>>) \o a[2])
         \* compares with the previous tick only
         [] op = "multiset_delta" -> [out |-> MsDelta(x, s), s |-> x]
         \* build side (second argument) accumulated first, probe side streams through
         [] op = "join_half" -> SideRes("join", x, (IF st(2) THEN s ELSE <<>>) \o a[2])
         [] op = "anti_join" -> SideRes("anti_join", x, (IF st(2) THEN s ELSE <<>>) \o a[2])
         [] op = "difference" -> SideRes("filter_not_in", x, (IF st(2) THEN s ELSE <<>>) \o a[2])
         \* keeps the first `single` item; 'static keeps it across ticks
         [] op = "cross_singleton" ->
              CrossRes(x, IF st(1) /\ s # <<>> THEN s ELSE IF a[2] # <<>> THEN <<a[2][1]>> ELSE <<>>)
         [] op = "defer_tick_lazy" -> [out |-> s, s |-> x]
         \* 'static replays every group every tick, 'tick only this tick's groups
         [] op = "fold_keyed" ->
              Both(KFoldFrom(d.f, IF st(1) THEN s ELSE <<>>, x))
         [] op = "reduce_keyed" -> Both(KRedFrom(d.f, IF st(1) THEN s ELSE <<>>, x))

RECURSIVE DStep(_, _, _, _, _)
DStep3(d, kr, r) == [out |-> r.out, st |-> [s |-> r.s, kids |-> TLCEval([i \in 1..Len(d.in) |-> kr[i].st])]]
DStep2(d, st, B, k, cyc, kr) == DStep3(d, kr, DOp(d, st.s, TLCEval([i \in 1..Len(d.in) |-> kr[i].out]), B, k, cyc))
DStep(d, st, B, k, cyc) ==
    DStep2(d, st, B, k, cyc, TLCEval([i \in 1..Len(d.in) |-> DStep(d.in[i], st.kids[i], B, k, cyc)]))

-----------------------------------------------------------------------------
\* the observed term: a top-level singleton is observed through snapshot -> all_ticks
Node(op, kids) == [op |-> op, f |-> "", n |-> 0, c |-> <<>>, in |-> kids]
ObsTerm(P) == IF P.obs = "snapshot" THEN Node("all_ticks", <<Node("snapshot", <<P.term>>)>>) ELSE P.term

CycNames(P) == DOMAIN P.cycles

\* the lowered program: main term and one term per cycle definition
LowProg(P) == [main |-> Lower(ObsTerm(P)), cdef |-> TLCEval([c \in CycNames(P) |-> Lower(P.cycles[c])])]

\* whole-program state: main tree, one tree per cycle definition, the deferred buffers
RunInit(L) == [main |-> DInit(L.main),
               cdef |-> TLCEval([c \in DOMAIN L.cdef |-> DInit(L.cdef[c])]),
               cyc |-> [c \in DOMAIN L.cdef |-> <<>>]]

\* one tick: [out, st]
RunTick2(L, m, cd) ==
    [out |-> m.out,
     st |-> [main |-> m.st, cdef |-> TLCEval([c \in DOMAIN L.cdef |-> cd[c].st]),
             cyc |-> TLCEval([c \in DOMAIN L.cdef |-> cd[c].out])]]
RunTick(L, rs, B, k) ==
    RunTick2(L, DStep(L.main, rs.main, B, k, rs.cyc),
             TLCEval([c \in DOMAIN L.cdef |-> DStep(L.cdef[c], rs.cdef[c], B, k, rs.cyc)]))

RECURSIVE RunFrom(_, _, _, _)
RunCons(L, B, k, r) == <<r.out>> \o RunFrom(L, r.st, B, k + 1)
RunFrom(L, rs, B, k) == IF k > Len(B) THEN <<>> ELSE RunCons(L, B, k, RunTick(L, rs, B, k))
RunLow(L, B) == RunFrom(L, RunInit(L), B, 1)
Run(P, B) == RunLow(LowProg(P), B)

\* DFIR operators of the lowered program (for comparison with the generated code)
RECURSIVE OpNames(_)
OpNames(d) == d.names \o Cat(TLCEval([i \in 1..Len(d.in) |-> OpNames(d.in[i])]))
=============================================================================
