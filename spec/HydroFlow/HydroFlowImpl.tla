---------------------------- MODULE HydroFlowImpl ----------------------------
(* Design-level model check (C28/C30 and the order / monotonicity corollaries C29, C33, C32)
   and schedule generator.  Every choice is made in Init -- a program of the corpus, one
   finite input per input port (every sequence over the port's item domain up to its length
   bound: for NoOrder / AtLeastOnce ports this is every permutation and every duplication of
   every base multiset), and a tick partition of each input into MaxTicks ticks (empty ticks
   allowed), followed by one empty tick -- so one initial state is one behaviour.  The single
   step runs all ticks of the LOWERED program (HydroLowering!Run).  At the end the property
   statements of HydroFlow (Broken) are evaluated on the outputs of the lowered program.
   With EMIT the finished behaviour is printed as a CASE line (the schedule, for replay into
   the real generated Dfir) together with the denoted expected observation (expect) and the
   per-tick outputs of the lowered program (pred). *)
EXTENDS HydroLowering, Json, IOUtils

CONSTANTS MaxLen,      \* global bound on input length (each port also has its own bound)
          MaxTicks,    \* number of ticks the inputs are spread over
          EMIT

\* read once (an operator definition would re-read the file at every use)
ASSUME TLCSet(1, ndJsonDeserialize(IOEnv.CORPUS))
Corpus == TLCGet(1)

\* DFIR operators named by the lowering of every program (compared with the generated code)
ASSUME \A i \in 1..Len(Corpus) :
         PrintT(<<"OPS", ToJson([prog |-> Corpus[i].name,
                                 ops |-> OpNames(Lower(ObsTerm(Corpus[i])))
                                         \o Cat([j \in 1..Len(Corpus[i].cycnames) |->
                                                   OpNames(Lower(Corpus[i].cycles[Corpus[i].cycnames[j]]))])])>>)

VARIABLES p,       \* index of the program in Corpus
          B,       \* the batching (MaxTicks + 1 ticks)
          pc,      \* "init" | "done"
          outs     \* per-tick outputs of the lowered program
vars == <<p, B, pc, outs>>

SeqsUpTo(S, n) == UNION {[1..m -> S] : m \in 0..n}
Cuts(n) == {c \in [1..(MaxTicks - 1) -> 0..n] : \A i \in 1..(MaxTicks - 2) : c[i] <= c[i + 1]}
Piece(s, c, t) == SubSeq(s, (IF t = 1 THEN 0 ELSE c[t - 1]) + 1, IF t = MaxTicks THEN Len(s) ELSE c[t])

Bound(d) == Min2(d.maxlen, MaxLen)

Init ==
    /\ p \in 1..Len(Corpus)
    /\ LET P == Corpus[p]
           d1 == P.inputs[1]
       IN \E s1 \in SeqsUpTo(ToSet(d1.dom), Bound(d1)) : \E c1 \in Cuts(Len(s1)) :
            IF Len(P.inputs) = 1
            THEN B = [t \in 1..(MaxTicks + 1) |->
                        [nm \in {d1.name} |-> IF t > MaxTicks THEN <<>> ELSE Piece(s1, c1, t)]]
            ELSE LET d2 == P.inputs[2] IN
                 \E s2 \in SeqsUpTo(ToSet(d2.dom), Bound(d2)) : \E c2 \in Cuts(Len(s2)) :
                   B = [t \in 1..(MaxTicks + 1) |->
                          [nm \in {d1.name, d2.name} |->
                             IF t > MaxTicks THEN <<>>
                             ELSE IF nm = d1.name THEN Piece(s1, c1, t) ELSE Piece(s2, c2, t)]]
    /\ pc = "init"
    /\ outs = <<>>

\* all ticks of the lowered program (HydroLowering!Run = RunTick iterated over the ticks of B)
RunAll ==
    /\ pc = "init"
    /\ outs' = Run(Corpus[p], B)
    /\ pc' = "done"
    /\ UNCHANGED <<p, B>>

Done == pc = "done" /\ UNCHANGED vars

Next == RunAll \/ Done
Spec == Init /\ [][Next]_vars

-----------------------------------------------------------------------------
Finished == pc = "done"
P0 == Corpus[p]

\* design-level verdicts: printed, not raised, so that one program cannot mask the others
DesignBroken == IF P0.level = "prop" THEN Broken(P0, B, outs) ELSE {}
Design == (Finished /\ DesignBroken # {}) =>
            PrintT(<<"DVIOL", ToJson([prog |-> P0.name, rules |-> DesignBroken, ticks |-> B, outs |-> outs])>>)

\* the tick-partition independence itself, on the reference layer: Den does not look at the
\* tick boundaries (evaluated on the one-tick batching of the same inputs)
OneTick == <<[nm \in DOMAIN B[1] |-> Cat([t \in 1..Len(B) |-> B[t][nm]])]>>
C28Ref == (Finished /\ ~IsTickProg(P0)) => Den(P0, P0.term, B, Len(B)) = Den(P0, P0.term, OneTick, 1)

Emit == (EMIT /\ Finished) =>
          PrintT(<<"CASE", ToJson([prog |-> P0.name, ticks |-> B, pred |-> outs,
                                   expect |-> IF IsTickProg(P0)
                                              THEN [t \in 1..Len(B) |-> TickDen(P0, P0.term.in[1], B, t)]
                                              ELSE Den(P0, P0.term, B, Len(B))])>>)
=============================================================================
