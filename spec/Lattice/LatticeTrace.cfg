SPECIFICATION TSpec
CONSTANTS
  WIDE = FALSE
POSTCONDITION TraceAccepted
CHECK_DEADLOCK FALSE
