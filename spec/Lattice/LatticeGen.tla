----------------------------- MODULE LatticeGen -----------------------------
(* Vector generation (spec -> code): for every descriptor of the catalogue TLC enumerates the
   whole concrete carrier Reps(t) and writes, one ndjson file per descriptor under IOEnv.OUT,
     k="v"  one line per value a            expected IsBot / IsTop / number of model atoms
     k="p"  one line per ordered pair a,b   expected Join (abstract), Changed flag, Cmp
     k="t"  one line per triple a,b,c (a spread sample of at most TRIPLECAP values per type)
     k="b"  bimorphism cases (a, da, b, side) with the expected output
   The harness rebuilds a, b, c in every backing representation, runs the real operations and
   logs what the code returned; LatticeTrace re-evaluates every logged operation. The expected
   values written here are used by the harness only as a cross-check of its scalar outputs
   (a disagreement between that cross-check and the TLC verdict is a tool error). *)
EXTENDS LatticeCat, Json, IOUtils, SequencesExt

CONSTANTS TRIPLECAP, PAIRCAP    \* at most TRIPLECAP^3 triples / PAIRCAP^2 pairs per descriptor (spread sample)

VARIABLES ph, ty
Mod(x, y) == x % y
Div(x, y) == x \div y
vars == <<ph, ty>>

\* a spread sample of at most cap elements of a sequence
Spread(s, cap) ==
    IF Len(s) <= cap THEN s
    ELSE [i \in 1..cap |-> s[1 + Div((i - 1) * (Len(s) - 1), cap - 1)]]

ValLines(n, t, rs) ==
    [i \in 1..Len(rs) |->
        LET a == Abs(t, rs[i]) IN
        [ty |-> n, k |-> "v", a |-> rs[i], xbot |-> B(IsBot(t, a)), xtop |-> B(IsTop(t, a)),
         xtopcode |-> B(IsTopCode(t, rs[i])),
         xatoms |-> IF Atomizable(t) THEN Cardinality(Atoms(t, a)) ELSE -1]]

PairSeq(t, rs0) ==
    LET rs == Spread(rs0, PAIRCAP) IN
    SelectSeq([i \in 1..(Len(rs) * Len(rs)) |-> <<rs[1 + Div(i - 1, Len(rs))], rs[1 + Mod(i - 1, Len(rs))]>>],
              LAMBDA p : Compat(t, Abs(t, p[1]), Abs(t, p[2])))

PairLines(n, t, rs) ==
    LET ps == PairSeq(t, rs) IN
    [i \in 1..Len(ps) |->
        LET a == Abs(t, ps[i][1])  b == Abs(t, ps[i][2]) IN
        [ty |-> n, k |-> "p", a |-> ps[i][1], b |-> ps[i][2],
         xj |-> Join(t, a, b), xflag |-> B(Changed(t, a, b)), xcmp |-> Cmp(t, a, b)]]

TripleLines(n, t, rs) ==
    LET s == Spread(rs, TRIPLECAP)
        m == Len(s)
        all == [i \in 1..(m * m * m) |->
                    <<s[1 + Div(i - 1, m * m)], s[1 + Mod(Div(i - 1, m), m)], s[1 + Mod(i - 1, m)]>>]
        ok == SelectSeq(all, LAMBDA q :
                    LET a == Abs(t, q[1]) b == Abs(t, q[2]) c == Abs(t, q[3]) IN
                    Compat(t, a, b) /\ Compat(t, b, c) /\ Compat(t, a, c))
    IN [i \in 1..Len(ok) |->
            [ty |-> n, k |-> "t", a |-> ok[i][1], b |-> ok[i][2], c |-> ok[i][3],
             xj |-> LET a == Abs(t, ok[i][1]) b == Abs(t, ok[i][2]) c == Abs(t, ok[i][3])
                    IN Join(t, Join(t, a, b), c)]]

TypeLines(n) ==
    LET t == Catalogue[n]
        rs == SetToSeq(Reps(t))
    IN ValLines(n, t, rs) \o PairLines(n, t, rs) \o TripleLines(n, t, rs)

BimoLines(n) ==
    LET bm == Bimos[n]
        ra == SetToSeq(Reps(bm.ta))
        rb == SetToSeq(Reps(bm.tb))
        left == [i \in 1..(Len(ra) * Len(ra) * Len(rb)) |->
                    <<ra[1 + Div(i - 1, Len(ra) * Len(rb))], ra[1 + Mod(Div(i - 1, Len(rb)), Len(ra))],
                      rb[1 + Mod(i - 1, Len(rb))]>>]
        right == [i \in 1..(Len(ra) * Len(rb) * Len(rb)) |->
                    <<ra[1 + Div(i - 1, Len(rb) * Len(rb))], rb[1 + Mod(Div(i - 1, Len(rb)), Len(rb))],
                      rb[1 + Mod(i - 1, Len(rb))]>>]
    IN [i \in 1..Len(left) |->
            [f |-> n, k |-> "b", side |-> "L", a |-> left[i][1], d |-> left[i][2], b |-> left[i][3],
             xo |-> BimoApply(bm.f, Join(bm.ta, Abs(bm.ta, left[i][1]), Abs(bm.ta, left[i][2])),
                              Abs(bm.tb, left[i][3]))]]
       \o
       [i \in 1..Len(right) |->
            [f |-> n, k |-> "b", side |-> "R", a |-> right[i][1], b |-> right[i][2], d |-> right[i][3],
             xo |-> BimoApply(bm.f, Abs(bm.ta, right[i][1]),
                              Join(bm.tb, Abs(bm.tb, right[i][2]), Abs(bm.tb, right[i][3])))]]

Init == ph = "start" /\ ty = ""
EmitType ==
    /\ ph = "start"
    /\ \E n \in Names :
          /\ ty' = n
          /\ ndJsonSerialize(IOEnv.OUT \o "/" \o n \o ".ndjson", TypeLines(n))
    /\ ph' = "done"
EmitBimo ==
    /\ ph = "start"
    /\ \E n \in BimoIds :
          /\ ty' = n
          /\ ndJsonSerialize(IOEnv.OUT \o "/bimo_" \o n \o ".ndjson", BimoLines(n))
    /\ ph' = "done"
Next == EmitType \/ EmitBimo
Spec == Init /\ [][Next]_vars
=============================================================================
