----------------------------- MODULE LatticeGen -----------------------------
(* Vector generation (spec -> code), definitions only; the emitting actions are in LatticeMC
   (EmitType / EmitBimo) so that one TLC run both checks the laws on the model and writes the
   vectors.  For every descriptor of the catalogue TLC enumerates the
   whole concrete carrier Reps(t) and writes, one ndjson file per descriptor under IOEnv.OUT,
     k="v"  one line per value a            expected IsBot / IsTop / number of model atoms
     k="p"  one line per ordered pair a,b   expected Changed flag, Cmp
     k="t"  one line per triple a,b,c (a spread sample of at most TRIPLECAP values per type)
     k="b"  bimorphism cases (a, delta, b, side)
   The harness rebuilds a, b, c in every backing representation, runs the real operations and
   logs what the code returned; LatticeTrace re-evaluates every logged operation. The expected
   values written here are used by the harness only as a cross-check of its scalar outputs
   (a disagreement between that cross-check and the TLC verdict is a tool error). *)
EXTENDS LatticeCat, Json, IOUtils, SequencesExt

CONSTANTS TRIPLECAP, PAIRCAP    \* at most TRIPLECAP^3 triples / PAIRCAP^2 pairs per descriptor (spread sample)

Mod(x, y) == x % y
Div(x, y) == x \div y

\* a spread sample of at most cap elements of a sequence
Spread(s, cap) ==
    IF Len(s) <= cap THEN s
    ELSE [i \in 1..cap |-> s[1 + Div((i - 1) * (Len(s) - 1), cap - 1)]]

ValLines(n, t, rs, as) ==
    [i \in 1..Len(rs) |->
        [ty |-> n, k |-> "v", a |-> rs[i], xbot |-> B(IsBot(t, as[i])), xtop |-> B(IsTop(t, as[i])),
         xtopcode |-> B(IsTopCode(t, rs[i])),
         xatoms |-> IF Atomizable(t) THEN Cardinality(Atoms(t, as[i])) ELSE -1]]

\* rs: sequence of representations, as: their abstract values (computed once)
PairLines(n, t, rs0, as0) ==
    LET rs == Spread(rs0, PAIRCAP)
        as == Spread(as0, PAIRCAP)
        m == Len(rs)
        idx == SelectSeq([i \in 1..(m * m) |-> <<1 + Div(i - 1, m), 1 + Mod(i - 1, m)>>],
                         LAMBDA p : Compat(t, as[p[1]], as[p[2]]))
    IN [i \in 1..Len(idx) |->
            LET a == as[idx[i][1]]  b == as[idx[i][2]] IN
            [ty |-> n, k |-> "p", a |-> rs[idx[i][1]], b |-> rs[idx[i][2]],
             xflag |-> B(Changed(t, a, b)), xcmp |-> Cmp(t, a, b)]]

TripleLines(n, t, rs0, as0) ==
    LET s == Spread(rs0, TRIPLECAP)
        as == Spread(as0, TRIPLECAP)
        m == Len(s)
        idx == SelectSeq([i \in 1..(m * m * m) |-> <<1 + Div(i - 1, m * m), 1 + Mod(Div(i - 1, m), m), 1 + Mod(i - 1, m)>>],
                         LAMBDA q : Compat(t, as[q[1]], as[q[2]]) /\ Compat(t, as[q[2]], as[q[3]])
                                    /\ Compat(t, as[q[1]], as[q[3]]))
    IN [i \in 1..Len(idx) |-> [ty |-> n, k |-> "t", a |-> s[idx[i][1]], b |-> s[idx[i][2]], c |-> s[idx[i][3]]]]

TypeLines(n) ==
    LET t == Desc(n)
        rs == SetToSeq(Reps(t))
        as == [i \in 1..Len(rs) |-> Abs(t, rs[i])]
    IN ValLines(n, t, rs, as) \o PairLines(n, t, rs, as) \o TripleLines(n, t, rs, as)

BimoLines(n) ==
    LET bm == Bimos[n]
        ra == SetToSeq(Reps(bm.ta))
        rb == SetToSeq(Reps(bm.tb))
        left == [i \in 1..(Len(ra) * Len(ra) * Len(rb)) |->
                    <<ra[1 + Div(i - 1, Len(ra) * Len(rb))], ra[1 + Mod(Div(i - 1, Len(rb)), Len(ra))],
                      rb[1 + Mod(i - 1, Len(rb))]>>]
        right == [i \in 1..(Len(ra) * Len(rb) * Len(rb)) |->
                    <<ra[1 + Div(i - 1, Len(rb) * Len(rb))], rb[1 + Mod(Div(i - 1, Len(rb)), Len(rb))],
                      rb[1 + Mod(i - 1, Len(rb))]>>]
    IN [i \in 1..Len(left) |->
            [f |-> n, k |-> "b", side |-> "L", a |-> left[i][1], d |-> left[i][2], b |-> left[i][3],
             xo |-> 0]]
       \o
       [i \in 1..Len(right) |->
            [f |-> n, k |-> "b", side |-> "R", a |-> right[i][1], b |-> right[i][2], d |-> right[i][3],
             xo |-> 0]]

=============================================================================
