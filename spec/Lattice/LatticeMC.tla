----------------------------- MODULE LatticeMC -----------------------------
(* Exhaustive check of the lattice laws ON THE MODEL, for every descriptor of the catalogue
   and every value of its carrier (job 1 of the family: a wrong model is caught here, before
   it is used as the oracle for the code).  One state per (descriptor, abstract value) and per
   (bimorphism, left value); the invariants quantify over the other values.  With EMIT = TRUE
   the same run writes the test vectors (job 2, definitions in LatticeGen). *)
EXTENDS LatticeGen

CONSTANT EMIT      \* TRUE: also write the vector files (LatticeGen) under IOEnv.OUT

VARIABLES ph, ty, val
vars == <<ph, ty, val>>

Init == ph = "start" /\ ty = "" /\ val = 0

PickType ==
    /\ ph = "start"
    /\ \E n \in Names : ty' = n
    /\ ph' = "type" /\ val' = 0

PickValue ==
    /\ ph = "type"
    /\ \E v \in Values(Catalogue[ty]) : val' = v
    /\ ph' = "value" /\ UNCHANGED ty

PickNonLattice ==
    /\ ph = "start"
    /\ \E n \in DOMAIN NonLattice : ty' = n
    /\ ph' = "nonlattice" /\ val' = 0

PickBimo ==
    /\ ph = "start"
    /\ \E n \in BimoIds : ty' = n
    /\ ph' = "bimo" /\ val' = 0

PickBimoValue ==
    /\ ph = "bimo"
    /\ \E v \in Values(Bimos[ty].ta) : val' = v
    /\ ph' = "bimovalue" /\ UNCHANGED ty

\* vector emission (spec -> code), one file per descriptor / bimorphism
EmitType ==
    /\ EMIT /\ ph = "type"
    /\ ndJsonSerialize(IOEnv.OUT \o "/" \o ty \o ".ndjson", TypeLines(ty))
    /\ ph' = "emitted" /\ UNCHANGED <<ty, val>>
EmitNonLattice ==
    /\ EMIT /\ ph = "nonlattice"
    /\ ndJsonSerialize(IOEnv.OUT \o "/" \o ty \o ".ndjson", TypeLines(ty))
    /\ ph' = "emitted" /\ UNCHANGED <<ty, val>>
EmitBimo ==
    /\ EMIT /\ ph = "bimo"
    /\ ndJsonSerialize(IOEnv.OUT \o "/bimo_" \o ty \o ".ndjson", BimoLines(ty))
    /\ ph' = "emitted" /\ UNCHANGED <<ty, val>>

Next == PickType \/ PickValue \/ PickNonLattice \/ PickBimo \/ PickBimoValue \/ EmitType \/ EmitNonLattice \/ EmitBimo
Spec == Init /\ [][Next]_vars

-----------------------------------------------------------------------------
TypeLaws ==
    ph = "type" =>
        LET t == Catalogue[ty] IN
        \* DomPair is only catalogued over totally ordered key lattices
        /\ t.k = "dompair" => TotalOrder(t.a)
        \* every default-constructible type has a bottom to default to
        /\ HasDefault(t) => HasBot(t)
        \* zero drift: what the (fixed) code computes for is_top is the model's IsTop
        /\ \A r \in Reps(t) : IsTopCode(t, r) = IsTop(t, Abs(t, r))

ValueLawsHold ==
    ph = "value" =>
        LET t == Catalogue[ty]  V == Values(t) IN ValueLaws(t, V, val)

(* the documented non-lattice: key not totally ordered => associativity fails *)
NonLatticeDocumented ==
    ph = "nonlattice" =>
        LET t == NonLattice[ty]  V == Values(t) IN
        /\ ~TotalOrder(t.a) /\ ~AssocHolds(t)
        \* what the documented DomPair join does guarantee, also over a partially ordered key:
        \* idempotent, commutative, an upper bound of both arguments in the documented order,
        \* and Changed exactly when the argument is not below the receiver
        /\ \A a \in V : LawIdem(t, a) /\ LawComm(t, V, a) /\ Leq(t, a, a)
        /\ \A a \in V : \A b \in V : Leq(t, a, Join(t, a, b)) /\ Leq(t, b, Join(t, a, b))
        /\ \A a \in V : LawChangedIsStrict(t, V, a) /\ LawBot(t, V, a)

BimoLawsHold ==
    ph = "bimovalue" =>
        LET b == Bimos[ty] IN BimoLaws(b.f, b.ta, b.tb, b.to, val)
=============================================================================
