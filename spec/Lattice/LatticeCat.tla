---------------------------- MODULE LatticeCat ----------------------------
(* The catalogue: descriptor names shared with the Rust harness (hv_lat/src/bin/lattice.rs,
   which lists, for every name, the concrete Rust types / backing representations).
   WIDE = TRUE (thorough tier) enlarges the element/key domains.  Abs/Join/Leq/... never look
   at the domains, so the same names also serve the seeded random larger values. *)
EXTENDS Lattice

CONSTANT WIDE

Dom    == IF WIDE THEN {0, 1, 2, 3} ELSE {0, 1, 2}       \* set elements
Small  == IF WIDE THEN {0, 1, 2} ELSE {0, 1}
One    == {0}
Keys   == {1, 2}
Keys3  == IF WIDE THEN {1, 2, 3} ELSE {1, 2}
Num    == {0, 1, 255}                                      \* u8 with MIN and MAX
Num2   == {0, 1}
Num3   == {0, 1, 2}
UfIt   == IF WIDE THEN {0, 1, 2, 3} ELSE {0, 1, 2}

Catalogue ==
    [ set          |-> TSet(Dom),
      max          |-> TMax(Num),
      min          |-> TMin(Num),
      maxbool      |-> TMaxBool,
      minbool      |-> TMinBool,
      unit         |-> TUnit,
      point        |-> TPoint(Small),
      conflict     |-> TConflict(Dom),
      map_set      |-> TMap(Keys, TSet(Small)),
      map_max      |-> TMap(Keys3, TMax(Num)),
      map_map_set  |-> TMap(Keys, TMap({1}, TSet(One))),
      map_wb_max   |-> TMap(Keys, TWithBot(TMax(Num2))),
      map_wt_set   |-> TMap(Keys, TWithTop(TSet(One))),
      map_conflict |-> TMap(Keys, TConflict({0, 1})),
      map_pair     |-> TMap(Keys, TPair(TSet(One), TMax(Num2))),
      map_vec      |-> TMap(Keys, TVec(TMax(Num2), 1)),
      wb_set       |-> TWithBot(TSet(Small)),
      wb_max       |-> TWithBot(TMax(Num)),
      wb_conflict  |-> TWithBot(TConflict(Small)),
      wt_set       |-> TWithTop(TSet(Small)),
      wt_maxbool   |-> TWithTop(TMaxBool),
      wt_max       |-> TWithTop(TMax(Num)),
      wb_wt_set    |-> TWithBot(TWithTop(TSet(One))),
      wt_wb_set    |-> TWithTop(TWithBot(TSet(One))),
      pair_set_max |-> TPair(TSet(Small), TMax(Num)),
      pair_wb_wt   |-> TPair(TWithBot(TSet(One)), TWithTop(TMaxBool)),
      dom_max_set  |-> TDomPair(TMax(Num3), TSet(Small)),
      dom_wbmax_max |-> TDomPair(TWithBot(TMax(Num2)), TMax(Num)),
      dom_min_wt   |-> TDomPair(TMin(Num), TWithTop(TSet(One))),
      vec_max      |-> TVec(TMax(Num2), 2),
      vec_set      |-> TVec(TSet(Small), 2),
      vec_wb       |-> TVec(TWithBot(TMax(Num2)), 2),
      struct3      |-> TStruct3(TSet(Small), TMax(Num2), TWithBot(TMaxBool)),
      uf           |-> TUf(UfIt) ]

Names == DOMAIN Catalogue

(* descriptors that are NOT lattices, kept to document the side condition of C01:
   DomPair over a key lattice that is not totally ordered fails associativity. *)
NonLattice ==
    [ dom_set_set |-> TDomPair(TSet({0, 1}), TSet(Small)),                 \* key: subsets of {0,1}
      dom_vc_max  |-> TDomPair(TMap(Keys, TMax(Num2)), TMax(Num)) ]          \* key: a 2-entry "vector clock"

(* These descriptors are nevertheless SHIPPED and documented (dom_pair.rs): a strictly greater
   key wins; equal OR incomparable keys merge both key and value; partial_cmp is the key's
   comparison unless the keys are equal, then the value's.  Join/Leq/Changed/Cmp/IsBot of
   Lattice.tla define exactly that, so C04 (result), C02 (flag) and the code-defined part of
   C03 (==, partial_cmp, is_bot, is_top, Default) are checked for them too -- only the C01
   laws are not (NonLatticeDocumented records why: associativity fails). *)
Desc(n) == IF n \in DOMAIN Catalogue THEN Catalogue[n] ELSE NonLattice[n]

(* bimorphism catalogue: name -> function, argument descriptors, output descriptor.
   Output descriptors are only used through Abs/Join (never Reps). *)
Bimos ==
    [ cart       |-> [f |-> "cart", ta |-> TSet(Small), tb |-> TSet(Small),
                      to |-> TSet(Small \X Small)],
      keyed_cart |-> [f |-> "keyed_cart", ta |-> TMap(Keys, TSet(One)), tb |-> TMap(Keys, TSet(One)),
                      to |-> TMap(Keys, TSet(One \X One))],
      keyed_cart1 |-> [f |-> "keyed_cart", ta |-> TMap({1}, TSet(Small)), tb |-> TMap({1}, TSet(Small)),
                      to |-> TMap({1}, TSet(Small \X Small))],
      pair       |-> [f |-> "pair", ta |-> TSet(Small), tb |-> TMax(Num),
                      to |-> TPair(TSet(Small), TMax(Num))] ]
BimoIds == DOMAIN Bimos
=============================================================================
