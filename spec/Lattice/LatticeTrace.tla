---------------------------- MODULE LatticeTrace ----------------------------
(* Trace validation of the real `lattices` code against Lattice.tla (code -> spec).
   The trace (ndjson, path in env TRACE) is written by harness/hv_lat/src/bin/lattice.rs: one
   event per (operation, revealed arguments) with the list g of DISTINCT results the real code
   returned over all backing representations (each group names its representations).  Each event is re-evaluated with the TLA+ operators: the arguments go through
   Abs, the model computes Join / Changed / Cmp / IsBot / IsTop / atoms / bimorphism output, and
   every disagreement is recorded as <<line, group, rule>> in `viol` (one bad case cannot mask
   another).  Rule names start with the property they break:
        C01 laws through the type's own ==        C02 change flag
        C03 comparisons, bottom, top, default     C04 result Abs-equal to the model Join
        C06 atoms                                 C07 bimorphism distributivity
   "@" in a rule is replaced by the descriptor name by the driver; rules without "@" are
   input-class fingerprints shared by all types (known findings).
   An event no action can consume leaves the trace unaccepted (POSTCONDITION). *)
EXTENDS LatticeCat, Json, IOUtils

Rec == ndJsonDeserialize(IOEnv.TRACE)

VARIABLES l, viol
tvars == <<l, viol>>

If(c, name) == IF c THEN {name} ELSE {}

(* a panic where the property promises a value.  Union-find: `find` diverges (step budget) on
   rho-shaped parent maps -- classified by the input so that any other divergence is distinct. *)
PropOf(op) ==
    CASE op \in {"merge", "from"} -> "C04"
      [] op \in {"cmp", "un", "default"} -> "C03"
      [] op = "atoms" -> "C06"
      [] op \in {"idem", "comm", "assoc"} -> "C01"
      [] op = "bimo" -> "C07"
ArgsOf(e) == (IF "a" \in DOMAIN e THEN {e.a} ELSE {}) \cup (IF "b" \in DOMAIN e THEN {e.b} ELSE {})
             \cup (IF "c" \in DOMAIN e THEN {e.c} ELSE {})
ChkPanic(e, g) ==
    IF e.ty = "uf" /\ g.panic = "budget"
    THEN IF \E r \in ArgsOf(e) : UfHasRho(r)
         THEN {PropOf(e.op) \o "|uf/find/rho-cycle"} ELSE {PropOf(e.op) \o "|uf/find/diverges-other"}
    ELSE {PropOf(e.op) \o "|@/" \o e.op \o "/panic"}

(* every Chk operator gets the event e (arguments) and one result group g *)
ChkMerge(e, g) ==
    LET t == Desc(e.ty)
        a == Abs(t, e.a)  b == Abs(t, e.b)
        j == Join(t, a, b)
    IN If(Abs(t, g.r) # j, "C04|@/merge/result")
       \cup If(Abs(t, g.ro) # j, "C04|@/merge_owned/result")
       \cup If(g.flag # B(j # a), "C02|@/merge/flag")

BitsOf(c) ==  \* lt, le, gt, ge, ne as the code must report them for Cmp = c
    B(c = -1) + 2 * B(c \in {-1, 0}) + 4 * B(c = 1) + 8 * B(c \in {0, 1}) + 16 * B(c # 0)
ChkCmp(e, g) ==
    LET t == Desc(e.ty)
        c == Cmp(t, Abs(t, e.a), Abs(t, e.b))
    IN If(g.c # c, "C03|@/partial_cmp/result")
       \cup If(g.eq # B(c = 0), "C03|@/eq/result")
       \cup If(g.bits # BitsOf(c), "C03|@/lt_le_gt_ge_ne/result")

ChkFrom(e, g) ==
    LET t == Desc(e.ty) IN If(Abs(t, g.r) # Abs(t, e.a), "C04|@/lattice_from/result")

ChkUn(e, g) ==
    LET t == Desc(e.ty)
        a == Abs(t, e.a)
    IN If(g.bot # B(IsBot(t, a)), "C03|@/is_bot/result")
       \cup (IF g.top = B(IsTop(t, a)) THEN {}
             ELSE IF g.top = B(IsTopPreFix(t, e.a)) THEN {"C03|withtop/is_top/some-inner-top"}
             ELSE {"C03|@/is_top/result"})

ChkDefault(e, g) ==
    LET t == Desc(e.ty) IN
    If(~IsBot(t, Abs(t, g.r)), "C03|@/default/not-bottom") \cup If(g.bot # 1, "C03|@/default/is_bot-false")

ChkAtoms(e, g) ==
    LET t == Desc(e.ty)
        a == Abs(t, e.a)
        ats == [i \in 1..Len(g.atoms) |-> Abs(t, g.atoms[i])]
    IN If(\E i \in 1..Len(ats) : IsBot(t, ats[i]), "C06|@/atomize/bottom-atom")
       \cup If(\E i \in 1..Len(g.abot) : g.abot[i] = 1, "C06|@/atomize/atom-is_bot")
       \cup If((Len(ats) = 0) # IsBot(t, a), "C06|@/atomize/empty-iff-bottom")
       \cup If(Len(ats) > 0 /\ JoinSeq(t, ats, 1) # a, "C06|@/atomize/atoms-do-not-rejoin")
       \cup If(Abs(t, g.re) # a, "C06|@/atomize/remerge-result")
       \cup If(g.eqre # 1, "C06|@/atomize/remerge-eq")

ChkIdem(e, g) ==
    LET t == Desc(e.ty) IN
    If(Abs(t, g.aa) # Abs(t, e.a), "C01|@/idempotent/value") \cup If(g.eq # 1, "C01|@/idempotent/eq")

ChkComm(e, g) ==
    LET t == Desc(e.ty) IN
    If(Abs(t, g.ab) # Abs(t, g.ba), "C01|@/commutative/value") \cup If(g.eq # 1, "C01|@/commutative/eq")
    \cup If(Abs(t, g.ab) # Join(t, Abs(t, e.a), Abs(t, e.b)), "C04|@/merge_owned/result")

ChkAssoc(e, g) ==
    LET t == Desc(e.ty) IN
    If(Abs(t, g.l) # Abs(t, g.r), "C01|@/associative/value") \cup If(g.eq # 1, "C01|@/associative/eq")
    \cup If(Abs(t, g.l) # Join(t, Join(t, Abs(t, e.a), Abs(t, e.b)), Abs(t, e.c)), "C04|@/merge_owned/result3")

ChkBimo(e, g) ==
    LET bm == Bimos[e.ty]
        a == Abs(bm.ta, e.a)  b == Abs(bm.tb, e.b)
        want == IF e.side = "L" THEN BimoApply(bm.f, Join(bm.ta, a, Abs(bm.ta, e.d)), b)
                ELSE BimoApply(bm.f, a, Join(bm.tb, b, Abs(bm.tb, e.d)))
    IN If(Abs(bm.to, g.o1) # Abs(bm.to, g.o2), "C07|@/distributes/value")
       \cup If(g.eq # 1, "C07|@/distributes/eq")
       \cup If(Abs(bm.to, g.o1) # want, "C07|@/call/result")

CheckG(e, g) ==
    IF "panic" \in DOMAIN g THEN ChkPanic(e, g)
    ELSE CASE e.op = "merge" -> ChkMerge(e, g)
           [] e.op = "cmp" -> ChkCmp(e, g)
           [] e.op = "from" -> ChkFrom(e, g)
           [] e.op = "un" -> ChkUn(e, g)
           [] e.op = "default" -> ChkDefault(e, g)
           [] e.op = "atoms" -> ChkAtoms(e, g)
           [] e.op = "idem" -> ChkIdem(e, g)
           [] e.op = "comm" -> ChkComm(e, g)
           [] e.op = "assoc" -> ChkAssoc(e, g)
           [] e.op = "bimo" -> ChkBimo(e, g)

(* <<group index, rule>> for every rule broken by a result group of event e *)
Check(e) == UNION {{<<i, r>> : r \in CheckG(e, e.g[i])} : i \in 1..Len(e.g)}

Ops == {"merge", "cmp", "from", "un", "default", "atoms", "idem", "comm", "assoc", "bimo"}

TInit == l = 1 /\ viol = {}

TStep ==
    /\ l <= Len(Rec)
    /\ Rec[l].op \in Ops
    /\ viol' = viol \cup {<<l, x[1], x[2]>> : x \in Check(Rec[l])}
    /\ l' = l + 1

TEof ==
    /\ l <= Len(Rec)
    /\ Rec[l].op = "eof"
    /\ PrintT(<<"VIOL", ToJson(viol)>>)
    /\ l' = l + 1
    /\ UNCHANGED viol

TNext == TStep \/ TEof
TSpec == TInit /\ [][TNext]_tvars

TraceAccepted ==
    LET d == TLCGet("stats").diameter IN
    IF d - 1 = Len(Rec) THEN TRUE
    ELSE Print(<<"UNMATCHED-EVENT-AT-LINE", d, Rec[d]>>, FALSE)
=============================================================================
