------------------------------ MODULE Lattice ------------------------------
(* The lattice algebra of the `lattices` crate (C01, C02, C03, C04, C06, C07).

   A *type descriptor* t is a record naming a lattice constructor and its parameters.
   For every descriptor the module defines

     Reps(t)        the CONCRETE carrier: JSON-shaped values exactly as the Rust types reveal
                    them (sets = sequences of distinct elements, maps = sequences of <<key, rep>>
                    with distinct keys, Option = <<>> / <<x>>, pair = <<a, b>>, vec = sequence,
                    booleans = 0/1).  Reps contain the representation details the code has to
                    see through: bottom-valued map entries, Some(bot) under WithBot.
     Abs(t, r)      the abstraction function into the ABSTRACT carrier (canonical values:
                    sets, sets of <<key, value>> without bottom values, ...)
     Values(t)      == {Abs(t, r) : r \in Reps(t)}
     Join, Leq      the documented join and order ON ABSTRACT VALUES (defined independently of
                    each other; that they agree is a checked law, see Laws below)
     IsBot, IsTop   least / greatest element
     Atoms          one legal atomization
     Changed        == Join(t, a, b) # a

   and the bimorphisms CartProd, Keyed(CartProd), PairBi on abstract values.

   Reading of the property text fixed here (and only here):
   * MapUnion: entries whose value is bottom are invisible (Abs drops them).
   * WithBot: Some(bottom-of-inner) IS the new bottom (the code's == and partial_cmp say so).
   * WithTop: None is a NEW greatest element strictly above every Some(x) (the code's ==,
     partial_cmp and merge say so).  Hence "is_top exactly for a greatest element" means
     IsTop(withtop) <=> None, exactly the adjoined top.  `IsTopCode` transcribes what the code
     computes on representations; since the fix "WithTop::is_top holds only for the adjoined
     top element" it coincides with IsTop (zero drift).  `IsTopPreFix` keeps the pre-fix
     behaviour (Some(x) with x top of the inner lattice also answered true) ONLY to give a
     regression its specific fingerprint withtop/is_top/some-inner-top.
   * VecUnion: the length is part of the value ("like MapUnion<usize, Lat> but without missing
     entries", README): [] < [bot]; is_bot <=> empty.  (eq, partial_cmp, is_bot and the merge
     flag of the code all agree with this reading.)
   * Set / map / vec / union-find carriers are unbounded (element and key types have more
     values than any one value mentions), so they have no greatest element.
   * Max<u8>/Min<u8>: bottom/top are 0 and 255.
   * Point only merges/compares equal values (Compat); DomPair is a lattice only for totally
     ordered key lattices (checked; see NonLattice below). *)
EXTENDS Naturals, Integers, Sequences, FiniteSets, TLC

U8MIN == 0
U8MAX == 255

-----------------------------------------------------------------------------
(* descriptors *)
TSet(dom)          == [k |-> "set", dom |-> dom]
TMap(keys, v)      == [k |-> "map", keys |-> keys, v |-> v]
TMax(dom)          == [k |-> "max", dom |-> dom]
TMin(dom)          == [k |-> "min", dom |-> dom]
TMaxBool           == [k |-> "maxbool"]
TMinBool           == [k |-> "minbool"]
TWithBot(v)        == [k |-> "withbot", v |-> v]
TWithTop(v)        == [k |-> "withtop", v |-> v]
TPair(a, b)        == [k |-> "pair", a |-> a, b |-> b]
TDomPair(key, val) == [k |-> "dompair", a |-> key, b |-> val]
TStruct3(a, b, c)  == [k |-> "struct3", a |-> a, b |-> b, c |-> c]
TVec(v, len)       == [k |-> "vec", v |-> v, len |-> len]
TConflict(dom)     == [k |-> "conflict", dom |-> dom]
TPoint(dom)        == [k |-> "point", dom |-> dom]
TUnit              == [k |-> "unit"]
TUf(items)         == [k |-> "uf", items |-> items]

-----------------------------------------------------------------------------
(* helpers *)
MinOf(S) == CHOOSE x \in S : \A y \in S : x <= y
MaxI(a, b) == IF a >= b THEN a ELSE b

RECURSIVE AscSeq(_)
AscSeq(S) == IF S = {} THEN <<>> ELSE LET m == MinOf(S) IN <<m>> \o AscSeq(S \ {m})

B(x) == IF x THEN 1 ELSE 0

MapKeys(m) == {p[1] : p \in m}
MapGet(m, key) == (CHOOSE p \in m : p[1] = key)[2]

(* union-find partitions: a set of disjoint blocks, singletons dropped *)
BlockOf(P, x) == IF \E Bk \in P : x \in Bk THEN CHOOSE Bk \in P : x \in Bk ELSE {x}
AddEdge(P, a, b) ==
    IF a = b THEN P
    ELSE LET Ba == BlockOf(P, a)  Bb == BlockOf(P, b) IN (P \ {Ba, Bb}) \cup {Ba \cup Bb}
RECURSIVE AddEdges(_, _)
AddEdges(P, E) ==
    IF E = {} THEN P
    ELSE LET e == CHOOSE e \in E : TRUE IN AddEdges(AddEdge(P, e[1], e[2]), E \ {e})
BlockEdges(P) == UNION {{<<MinOf(Bk), x>> : x \in Bk} : Bk \in P}
UfEdges(r) == {<<r[i][1], r[i][2]>> : i \in DOMAIN r}
(* parent-map shapes: Par(r, x) = parent of x or x itself when absent *)
UfPar(r, x) == IF \E i \in DOMAIN r : r[i][1] = x THEN r[CHOOSE i \in DOMAIN r : r[i][1] = x][2] ELSE x
RECURSIVE UfIter(_, _, _)
UfIter(r, x, n) == IF n = 0 THEN x ELSE UfIter(r, UfPar(r, x), n - 1)
(* x is on a cycle of length >= 2 of the parent map *)
UfOnCycle(r, x) == UfPar(r, x) # x /\ \E n \in 1..Len(r) : UfIter(r, x, n) = x
(* rho shape: some item that is NOT on a cycle walks into a cycle of length >= 2.
   The pre-fix `find` (before /repo 263fd4bfaa9) never returned when started at such an item;
   kept to give a regression its fingerprint uf/find/rho-cycle. *)
UfRhoStart(r, x) == ~UfOnCycle(r, x) /\ \E n \in 1..Len(r) : UfOnCycle(r, UfIter(r, x, n))
UfItems(r) == {r[i][1] : i \in DOMAIN r} \cup {r[i][2] : i \in DOMAIN r}
UfHasRho(r) == \E x \in UfItems(r) : UfRhoStart(r, x)

-----------------------------------------------------------------------------
(* concrete carrier *)
RECURSIVE Reps(_)
Reps(t) ==
    CASE t.k = "set" -> {AscSeq(S) : S \in SUBSET t.dom}
      [] t.k = "map" ->
            LET RV == Reps(t.v) IN
            UNION { LET ks == AscSeq(K) IN
                    { [i \in 1..Len(ks) |-> <<ks[i], f[ks[i]]>>] : f \in [K -> RV] }
                    : K \in SUBSET t.keys }
      [] t.k \in {"max", "min", "point"} -> t.dom
      [] t.k \in {"maxbool", "minbool"} -> {0, 1}
      [] t.k \in {"withbot", "withtop"} -> {<<>>} \cup {<<r>> : r \in Reps(t.v)}
      [] t.k \in {"pair", "dompair"} -> {<<x, y>> : x \in Reps(t.a), y \in Reps(t.b)}
      [] t.k = "struct3" -> {<<x, y, z>> : x \in Reps(t.a), y \in Reps(t.b), z \in Reps(t.c)}
      [] t.k = "vec" -> LET RV == Reps(t.v) IN UNION {[1..n -> RV] : n \in 0..t.len}
      [] t.k = "conflict" -> {<<>>} \cup {<<x>> : x \in t.dom}
      [] t.k = "unit" -> {0}
      [] t.k = "uf" ->
            UNION { LET ks == AscSeq(K) IN
                    { [i \in 1..Len(ks) |-> <<ks[i], f[ks[i]]>>] : f \in [K -> t.items] }
                    : K \in SUBSET t.items }

-----------------------------------------------------------------------------
(* abstract operations; IsBot first because Abs needs it *)
RECURSIVE IsBot(_, _)
IsBot(t, a) ==
    CASE t.k \in {"set", "map", "uf"} -> a = {}
      [] t.k = "max" -> a = U8MIN
      [] t.k = "min" -> a = U8MAX
      [] t.k = "maxbool" -> a = 0
      [] t.k = "minbool" -> a = 1
      [] t.k = "withbot" -> a = {}
      [] t.k = "withtop" -> a # {} /\ \A x \in a : IsBot(t.v, x)
      [] t.k \in {"pair", "dompair"} -> IsBot(t.a, a[1]) /\ IsBot(t.b, a[2])
      [] t.k = "struct3" -> IsBot(t.a, a[1]) /\ IsBot(t.b, a[2]) /\ IsBot(t.c, a[3])
      [] t.k = "vec" -> Len(a) = 0
      [] t.k = "conflict" -> FALSE
      [] t.k \in {"point", "unit"} -> TRUE

RECURSIVE Abs(_, _)
Abs(t, r) ==
    CASE t.k = "set" -> {r[i] : i \in DOMAIN r}
      [] t.k = "map" ->
            LET all == {<<r[i][1], Abs(t.v, r[i][2])>> : i \in DOMAIN r}
            IN {p \in all : ~IsBot(t.v, p[2])}
      [] t.k \in {"max", "min", "maxbool", "minbool", "point"} -> r
      [] t.k = "withbot" ->
            IF Len(r) = 0 THEN {}
            ELSE LET x == Abs(t.v, r[1]) IN IF IsBot(t.v, x) THEN {} ELSE {x}
      [] t.k = "withtop" -> IF Len(r) = 0 THEN {} ELSE {Abs(t.v, r[1])}
      [] t.k \in {"pair", "dompair"} -> <<Abs(t.a, r[1]), Abs(t.b, r[2])>>
      [] t.k = "struct3" -> <<Abs(t.a, r[1]), Abs(t.b, r[2]), Abs(t.c, r[3])>>
      [] t.k = "vec" -> [i \in 1..Len(r) |-> Abs(t.v, r[i])]
      [] t.k = "conflict" -> IF Len(r) = 0 THEN {} ELSE {r[1]}
      [] t.k = "unit" -> 0
      [] t.k = "uf" -> AddEdges({}, UfEdges(r))

Values(t) == {Abs(t, r) : r \in Reps(t)}

The(S) == CHOOSE x \in S : TRUE

RECURSIVE Leq(_, _, _)
Leq(t, a, b) ==
    CASE t.k = "set" -> a \subseteq b
      [] t.k = "map" -> \A p \in a : \E q \in b : q[1] = p[1] /\ Leq(t.v, p[2], q[2])
      [] t.k \in {"max", "maxbool"} -> a <= b
      [] t.k \in {"min", "minbool"} -> a >= b
      [] t.k = "withbot" -> a = {} \/ (b # {} /\ Leq(t.v, The(a), The(b)))
      [] t.k = "withtop" -> b = {} \/ (a # {} /\ Leq(t.v, The(a), The(b)))
      [] t.k = "pair" -> Leq(t.a, a[1], b[1]) /\ Leq(t.b, a[2], b[2])
      [] t.k = "struct3" -> Leq(t.a, a[1], b[1]) /\ Leq(t.b, a[2], b[2]) /\ Leq(t.c, a[3], b[3])
      [] t.k = "dompair" ->
            IF a[1] = b[1] THEN Leq(t.b, a[2], b[2]) ELSE Leq(t.a, a[1], b[1])
      [] t.k = "vec" -> Len(a) <= Len(b) /\ \A i \in 1..Len(a) : Leq(t.v, a[i], b[i])
      [] t.k = "conflict" -> a = b \/ b = {}
      [] t.k = "point" -> a = b
      [] t.k = "unit" -> TRUE
      [] t.k = "uf" -> \A Bk \in a : \E Ck \in b : Bk \subseteq Ck

RECURSIVE Join(_, _, _)
Join(t, a, b) ==
    CASE t.k = "set" -> a \cup b
      [] t.k = "map" ->
            LET ka == MapKeys(a)  kb == MapKeys(b) IN
            {<<key, IF key \in ka /\ key \in kb THEN Join(t.v, MapGet(a, key), MapGet(b, key))
                    ELSE IF key \in ka THEN MapGet(a, key) ELSE MapGet(b, key)>> : key \in ka \cup kb}
      [] t.k \in {"max", "maxbool"} -> IF a >= b THEN a ELSE b
      [] t.k \in {"min", "minbool"} -> IF a <= b THEN a ELSE b
      [] t.k = "withbot" ->
            IF a = {} THEN b ELSE IF b = {} THEN a ELSE {Join(t.v, The(a), The(b))}
      [] t.k = "withtop" ->
            IF a = {} \/ b = {} THEN {} ELSE {Join(t.v, The(a), The(b))}
      [] t.k = "pair" -> <<Join(t.a, a[1], b[1]), Join(t.b, a[2], b[2])>>
      [] t.k = "struct3" -> <<Join(t.a, a[1], b[1]), Join(t.b, a[2], b[2]), Join(t.c, a[3], b[3])>>
      [] t.k = "dompair" ->
            IF a[1] = b[1] THEN <<a[1], Join(t.b, a[2], b[2])>>
            ELSE IF Leq(t.a, a[1], b[1]) THEN b
            ELSE IF Leq(t.a, b[1], a[1]) THEN a
            ELSE <<Join(t.a, a[1], b[1]), Join(t.b, a[2], b[2])>>
      [] t.k = "vec" ->
            [i \in 1..MaxI(Len(a), Len(b)) |->
                IF i <= Len(a) /\ i <= Len(b) THEN Join(t.v, a[i], b[i])
                ELSE IF i <= Len(a) THEN a[i] ELSE b[i]]
      [] t.k = "conflict" -> IF a = b THEN a ELSE {}
      [] t.k = "point" -> a
      [] t.k = "unit" -> 0
      [] t.k = "uf" -> AddEdges(a, BlockEdges(b))

Changed(t, a, b) == Join(t, a, b) # a

(* -1 less, 0 equal, 1 greater, 2 incomparable *)
Cmp(t, a, b) ==
    IF a = b THEN 0 ELSE IF Leq(t, a, b) THEN -1 ELSE IF Leq(t, b, a) THEN 1 ELSE 2

(* inputs the property text excludes: Point merges/comparisons of unequal values *)
Compat(t, a, b) == IF t.k = "point" THEN a = b ELSE TRUE

RECURSIVE IsTop(_, _)
IsTop(t, a) ==
    CASE t.k \in {"set", "map", "vec", "uf"} -> FALSE
      [] t.k = "max" -> a = U8MAX
      [] t.k = "min" -> a = U8MIN
      [] t.k = "maxbool" -> a = 1
      [] t.k = "minbool" -> a = 0
      [] t.k = "withbot" -> a # {} /\ IsTop(t.v, The(a))
      [] t.k = "withtop" -> a = {}
      [] t.k \in {"pair", "dompair"} -> IsTop(t.a, a[1]) /\ IsTop(t.b, a[2])
      [] t.k = "struct3" -> IsTop(t.a, a[1]) /\ IsTop(t.b, a[2]) /\ IsTop(t.c, a[3])
      [] t.k = "conflict" -> a = {}
      [] t.k \in {"point", "unit"} -> TRUE

(* what the code computes for is_top, on representations (implementation-shaped); after the
   WithTop fix this is IsTop composed with Abs *)
RECURSIVE IsTopCode(_, _)
IsTopCode(t, r) ==
    CASE t.k \in {"set", "map", "vec", "uf"} -> FALSE
      [] t.k = "max" -> r = U8MAX
      [] t.k = "min" -> r = U8MIN
      [] t.k = "maxbool" -> r = 1
      [] t.k = "minbool" -> r = 0
      [] t.k = "withbot" -> Len(r) = 1 /\ IsTopCode(t.v, r[1])
      [] t.k = "withtop" -> Len(r) = 0
      [] t.k \in {"pair", "dompair"} -> IsTopCode(t.a, r[1]) /\ IsTopCode(t.b, r[2])
      [] t.k = "struct3" -> IsTopCode(t.a, r[1]) /\ IsTopCode(t.b, r[2]) /\ IsTopCode(t.c, r[3])
      [] t.k = "conflict" -> Len(r) = 0
      [] t.k \in {"point", "unit"} -> TRUE

(* the PRE-FIX WithTop::is_top (is_none_or(IsTop::is_top)): regression classifier only *)
RECURSIVE IsTopPreFix(_, _)
IsTopPreFix(t, r) ==
    CASE t.k \in {"set", "map", "vec", "uf"} -> FALSE
      [] t.k = "max" -> r = U8MAX
      [] t.k = "min" -> r = U8MIN
      [] t.k = "maxbool" -> r = 1
      [] t.k = "minbool" -> r = 0
      [] t.k = "withbot" -> Len(r) = 1 /\ IsTopPreFix(t.v, r[1])
      [] t.k = "withtop" -> Len(r) = 0 \/ IsTopPreFix(t.v, r[1])
      [] t.k \in {"pair", "dompair"} -> IsTopPreFix(t.a, r[1]) /\ IsTopPreFix(t.b, r[2])
      [] t.k = "struct3" -> IsTopPreFix(t.a, r[1]) /\ IsTopPreFix(t.b, r[2]) /\ IsTopPreFix(t.c, r[3])
      [] t.k = "conflict" -> Len(r) = 0
      [] t.k \in {"point", "unit"} -> TRUE

(* does the (sampled) carrier contain a least / greatest element at all *)
RECURSIVE HasBot(_)
HasBot(t) ==
    CASE t.k \in {"set", "map", "vec", "uf", "maxbool", "minbool", "withbot", "point", "unit"} -> TRUE
      [] t.k = "max" -> U8MIN \in t.dom
      [] t.k = "min" -> U8MAX \in t.dom
      [] t.k = "withtop" -> HasBot(t.v)
      [] t.k \in {"pair", "dompair"} -> HasBot(t.a) /\ HasBot(t.b)
      [] t.k = "struct3" -> HasBot(t.a) /\ HasBot(t.b) /\ HasBot(t.c)
      [] t.k = "conflict" -> FALSE
RECURSIVE HasTop(_)
HasTop(t) ==
    CASE t.k \in {"set", "map", "vec", "uf"} -> FALSE
      [] t.k \in {"maxbool", "minbool", "withtop", "conflict", "point", "unit"} -> TRUE
      [] t.k = "max" -> U8MAX \in t.dom
      [] t.k = "min" -> U8MIN \in t.dom
      [] t.k = "withbot" -> HasTop(t.v)
      [] t.k \in {"pair", "dompair"} -> HasTop(t.a) /\ HasTop(t.b)
      [] t.k = "struct3" -> HasTop(t.a) /\ HasTop(t.b) /\ HasTop(t.c)

(* types for which the crate implements Atomize *)
RECURSIVE Atomizable(_)
Atomizable(t) ==
    CASE t.k \in {"set", "uf", "unit"} -> TRUE
      [] t.k \in {"map", "withbot", "withtop"} -> Atomizable(t.v)
      [] OTHER -> FALSE

RECURSIVE Atoms(_, _)
Atoms(t, a) ==
    CASE t.k = "set" -> {{x} : x \in a}
      [] t.k = "map" -> UNION {{{<<p[1], at>>} : at \in Atoms(t.v, p[2])} : p \in a}
      [] t.k = "withbot" -> IF a = {} THEN {} ELSE {{at} : at \in Atoms(t.v, The(a))}
      [] t.k = "withtop" -> IF a = {} THEN {{}} ELSE {{at} : at \in Atoms(t.v, The(a))}
      [] t.k = "unit" -> {}
      [] t.k = "uf" -> UNION {{{{MinOf(Bk), x}} : x \in Bk \ {MinOf(Bk)}} : Bk \in a}

RECURSIVE JoinAll(_, _, _)
JoinAll(t, acc, S) ==
    IF S = {} THEN acc ELSE LET x == The(S) IN JoinAll(t, Join(t, acc, x), S \ {x})
(* join of a non-empty sequence of abstract values *)
RECURSIVE JoinSeq(_, _, _)
JoinSeq(t, s, i) == IF i = Len(s) THEN s[i] ELSE Join(t, s[i], JoinSeq(t, s, i + 1))

(* types with Default in the crate, and the abstract value Default must denote *)
RECURSIVE HasDefault(_)
HasDefault(t) ==
    CASE t.k \in {"set", "map", "uf", "vec", "max", "min", "maxbool", "minbool", "withbot", "unit", "point"} -> TRUE
      [] t.k = "withtop" -> HasDefault(t.v)
      [] t.k \in {"pair", "dompair"} -> HasDefault(t.a) /\ HasDefault(t.b)
      [] t.k = "struct3" -> HasDefault(t.a) /\ HasDefault(t.b) /\ HasDefault(t.c)
      [] t.k = "conflict" -> FALSE

-----------------------------------------------------------------------------
(* bimorphisms on abstract values *)
CartProd(a, b) == {<<x, y>> : x \in a, y \in b}                    \* set x set -> set of pairs
KeyedCart(a, b) ==                                                 \* map(set) x map(set) -> map(set of pairs)
    {<<key, CartProd(MapGet(a, key), MapGet(b, key))>> : key \in MapKeys(a) \cap MapKeys(b)}
PairBi(a, b) == <<a, b>>

BimoNames == {"cart", "keyed_cart", "pair"}
BimoApply(f, a, b) ==
    CASE f = "cart" -> CartProd(a, b)
      [] f = "keyed_cart" -> KeyedCart(a, b)
      [] f = "pair" -> PairBi(a, b)

-----------------------------------------------------------------------------
(* Laws, stated for one descriptor and one value a (so that TLC can spread the work over
   states); V is Values(t). *)
LawIdem(t, a) == Join(t, a, a) = a
LawComm(t, V, a) == \A b \in V : Compat(t, a, b) => Join(t, a, b) = Join(t, b, a)
LawAssoc(t, V, a) ==
    \A b \in V : \A c \in V :
        (Compat(t, a, b) /\ Compat(t, b, c) /\ Compat(t, a, c)) =>
            Join(t, Join(t, a, b), c) = Join(t, a, Join(t, b, c))
LawClosed(t, V, a) == \A b \in V : Compat(t, a, b) => Join(t, a, b) \in V
LawLeqJoin(t, V, a) == \A b \in V : Compat(t, a, b) => (Leq(t, a, b) <=> Join(t, a, b) = b)
LawLub(t, V, a) ==
    \A b \in V : Compat(t, a, b) =>
        LET j == Join(t, a, b) IN
        /\ Leq(t, a, j) /\ Leq(t, b, j)
        /\ \A c \in V : (Compat(t, a, c) /\ Leq(t, a, c) /\ Leq(t, b, c)) => Leq(t, j, c)
LawPartialOrder(t, V, a) ==
    /\ Leq(t, a, a)
    /\ \A b \in V : Compat(t, a, b) => ((Leq(t, a, b) /\ Leq(t, b, a)) => a = b)
    /\ \A b \in V : \A c \in V :
          (Compat(t, a, b) /\ Compat(t, b, c) /\ Leq(t, a, b) /\ Leq(t, b, c)) => Leq(t, a, c)
LawBot(t, V, a) == IsBot(t, a) <=> (HasBot(t) /\ \A b \in V : Compat(t, a, b) => Leq(t, a, b))
LawTop(t, V, a) == IsTop(t, a) <=> (HasTop(t) /\ \A b \in V : Compat(t, a, b) => Leq(t, b, a))
LawAtoms(t, a) ==
    Atomizable(t) =>
        LET ats == Atoms(t, a) IN
        /\ \A x \in ats : ~IsBot(t, x)
        /\ (ats = {}) <=> IsBot(t, a)
        /\ ats # {} => JoinAll(t, The(ats), ats) = a
LawChangedIsStrict(t, V, a) ==
    \A b \in V : Compat(t, a, b) => (Changed(t, a, b) <=> ~Leq(t, b, a))

ValueLaws(t, V, a) ==
    /\ LawIdem(t, a) /\ LawComm(t, V, a) /\ LawAssoc(t, V, a) /\ LawClosed(t, V, a)
    /\ LawLeqJoin(t, V, a) /\ LawLub(t, V, a) /\ LawPartialOrder(t, V, a)
    /\ LawBot(t, V, a) /\ LawTop(t, V, a) /\ LawAtoms(t, a) /\ LawChangedIsStrict(t, V, a)

(* is the key lattice of a dompair totally ordered (the side condition of C01) *)
TotalOrder(t) == LET V == Values(t) IN \A a \in V : \A b \in V : Leq(t, a, b) \/ Leq(t, b, a)
AssocHolds(t) ==
    LET V == Values(t) IN
    \A a \in V : \A b \in V : \A c \in V : Join(t, Join(t, a, b), c) = Join(t, a, Join(t, b, c))

BimoLaws(f, ta, tb, to, a) ==
    LET VA == Values(ta)  VB == Values(tb) IN
    /\ \A da \in VA : \A b \in VB :
          BimoApply(f, Join(ta, a, da), b) = Join(to, BimoApply(f, a, b), BimoApply(f, da, b))
    /\ \A b \in VB : \A db \in VB :
          BimoApply(f, a, Join(tb, b, db)) = Join(to, BimoApply(f, a, b), BimoApply(f, a, db))
=============================================================================
