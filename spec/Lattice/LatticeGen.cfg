SPECIFICATION Spec
CONSTANTS
  WIDE = FALSE
  TRIPLECAP = 6
  PAIRCAP = 25
CHECK_DEADLOCK FALSE
