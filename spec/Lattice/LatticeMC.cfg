SPECIFICATION Spec
CONSTANTS
  WIDE = FALSE
INVARIANTS TypeLaws ValueLawsHold NonLatticeDocumented BimoLawsHold
CHECK_DEADLOCK FALSE
