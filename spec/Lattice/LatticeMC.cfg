SPECIFICATION Spec
CONSTANTS
  WIDE = FALSE
  EMIT = FALSE
  TRIPLECAP = 5
  PAIRCAP = 20
INVARIANTS TypeLaws ValueLawsHold NonLatticeDocumented BimoLawsHold
CHECK_DEADLOCK FALSE
