--------------------------- MODULE PushPipeTrace ---------------------------
(* Trace validation of the real dfir_pipes push combinators against the PushPipe monitor.
   The trace (ndjson, path in env TRACE) is a concatenation of cases:
     {"e":"reset","case":k,"shape":..,"pipe":[{k,c,p}..],"inputs":[..],"rs":[[..]..],"fs":[[..]..],..}
     {"e":"call","evs":[[d,op,v,w],..]}      one driver call: the calls it caused (d > 0 downstream,
                                             d = 0 inner source) and last the driver-level event
                                             (d = -1, op = r|s|f|x|panic|stall)
     {"e":"note",...}                         ignored
     {"e":"eof"}
   Property-level rule breaks do not stop the validation: they are collected per case in `viol`
   and printed at eof.  A logged answer of a scripted double that differs from its script is
   a harness inconsistency: it is reported as rule "harness-script-mismatch" (tool error, never a
   VIOLATION); unparsable lines leave the trace unaccepted (POSTCONDITION). *)
EXTENDS PushPipe, TLC, Json, IOUtils

Rec == ndJsonDeserialize(IOEnv.TRACE)

VARIABLES l, case, viol
tvars == <<mvars, l, case, viol>>

Ev == Rec[l]

TInit ==
    /\ l = 1
    /\ case = 0
    /\ viol = {}
    /\ MInit(<<>>, <<>>, <<>>, <<>>)

Consume == l <= Len(Rec) /\ l' = l + 1

TReset == /\ Ev.e = "reset"
          /\ MReset(Ev.pipe, Ev.inputs, Ev.rs, Ev.fs)
          /\ case' = Ev.case
TEv == /\ Ev.e = "call"
       /\ MCall(Ev.evs)
       /\ UNCHANGED case
TNote == /\ Ev.e = "note" /\ UNCHANGED <<mvars, case>>
TEof == /\ Ev.e = "eof" /\ UNCHANGED <<mvars, case>>
        /\ PrintT(<<"VIOL", ToJson(viol)>>)

TNext ==
    /\ Consume
    /\ (TReset \/ TEv \/ TNote \/ TEof)
    /\ viol' = viol \cup {<<case', b>> : b \in Broken'}

TSpec == TInit /\ [][TNext]_tvars

TraceAccepted ==
    LET d == TLCGet("stats").diameter IN
    IF d - 1 = Len(Rec) THEN TRUE
    ELSE Print(<<"UNMATCHED-EVENT-AT-LINE", d, Rec[d]>>, FALSE)
=============================================================================
