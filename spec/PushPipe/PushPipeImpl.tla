---------------------------- MODULE PushPipeImpl ----------------------------
(* Implementation-shaped model of the dfir_pipes push combinators, composed with the PushPipe
   monitor.  Every combinator node keeps the fields of its Rust struct (FlatMap.buffer,
   Persist.{buf, replay_idx}, Accumulate.phase, Sort.{buf, sorted}, FoldKeyed.{map, flush_items,
   flush_idx}, FilterMapAsync.{buffer, resolved}, StatePush.state_sent, FlatMapStream.buffer{stream, item},
   ResolveFutures queue, SendPush.pull_ended); one public call (poll_ready / start_send /
   poll_finalize) on a node is the operator Call, transcribed from the method body: `ready!`
   becomes an early return of ret = 0, `ready_both!` evaluates both sides, `while` loops are
   recursive operators.  Call threads a record S = [st, rs, fs, fn, evs, err]:
     st   node id -> fields of that node        rs/fs  remaining scripts of the downstreams
     fn   set of finalized downstreams          evs    downstream calls made so far in this call
     err  "" or the message of the panic the Rust code would raise
   One TLA+ step `DriverCall` evaluates one public call of the driver on the root and feeds the
   calls it made on the downstreams, in order, to the monitor's transition function.

   All nondeterminism (shape, inputs, scripts, spurious driver polls) is chosen in Init, so one
   initial state = one behaviour; Emit prints it as a CASE line for replay into the real code. *)
EXTENDS PushPipe, TLC, Json

CONSTANTS
    SHAPES,     \* set of catalogue shape names to explore
    \* bounds, per number of downstreams of the shape (1, 2, 3 or more):
    MaxIn1, MaxIn2, MaxIn3,         \* inputs up to this length
    MaxPend1, MaxPend2, MaxPend3,   \* at most this many Pending answers per script
    RLen1, RLen2, RLen3,            \* length bound of the poll_ready scripts
    FLen1, FLen2, FLen3,            \* length bound of the poll_finalize scripts
    EXTRA,      \* TRUE: the driver may insert a spurious extra poll_ready cycle before each call
    BADSHAPES,  \* shapes whose model is known to break C12 (documented defects): not asserted
    EMIT

VARIABLES
    shape,      \* catalogue name
    st,         \* node id -> fields
    dph,        \* driver phase: "r" | "s" | "f" | "done" | "panic"
    need,       \* poll_ready cycles still to complete before the next send / finalize
    extra,      \* extra[i] = spurious cycles before input i (i = Len+1: before finalize)
    hist,       \* all events so far (for the CASE line; only kept when EMIT)
    calls,      \* number of driver calls made
    cfg0        \* initial scripts (for the CASE line)

ivars == <<shape, st, dph, need, extra, hist, calls, cfg0>>
pipe == cfg.pipe
vars == <<mvars, ivars>>

-----------------------------------------------------------------------------
(* catalogue of pipeline shapes *)
N(k, c, p) == [k |-> k, c |-> c, p |-> p]
L(d) == N("leaf", <<>>, <<d, 1>>)          \* scripted Push double
T(d) == N("leaf", <<>>, <<d, 0>>)          \* terminal closure / vector (no protocol)
One(k, p) == <<N(k, <<2>>, p), L(1)>>
Two(k, p) == <<N(k, <<2, 3>>, p), L(1), L(2)>>

Cat == [
  map            |-> [pipe |-> One("map", <<10>>),            alpha |-> {1, 2}],
  filter         |-> [pipe |-> One("filter", <<>>),           alpha |-> {1, 2}],
  filter_map     |-> [pipe |-> One("filter_map", <<>>),       alpha |-> {1, 2}],
  inspect        |-> [pipe |-> One("inspect", <<>>),          alpha |-> {1, 2}],
  flat_map       |-> [pipe |-> One("flat_map", <<>>),         alpha |-> {1, 2, 3}],
  flatten        |-> [pipe |-> One("flatten", <<>>),          alpha |-> {1, 2, 3}],
  fanout         |-> [pipe |-> Two("fanout", <<>>),           alpha |-> {1, 2}],
  unzip          |-> [pipe |-> Two("unzip", <<>>),            alpha |-> {102, 201}],
  demux_var      |-> [pipe |-> <<N("demux_var", <<2, 3, 4>>, <<>>), L(1), L(2), L(3)>>,
                                                              alpha |-> {5, 106, 207}],
  fold           |-> [pipe |-> One("fold", <<0>>),            alpha |-> {1, 2}],
  reduce         |-> [pipe |-> One("reduce", <<>>),           alpha |-> {1, 2}],
  sort           |-> [pipe |-> One("sort", <<>>),             alpha |-> {1, 2, 3}],
  sort_state     |-> [pipe |-> One("sort_state", <<>>),       alpha |-> {1, 2, 3}],
  fold_keyed     |-> [pipe |-> One("fold_keyed", <<0>>),      alpha |-> {101, 102, 201}],
  reduce_keyed   |-> [pipe |-> One("reduce_keyed", <<>>),     alpha |-> {101, 102, 201}],
  persist_replay |-> [pipe |-> One("persist", <<1, 7, 8>>),   alpha |-> {1, 2}],
  persist_norep  |-> [pipe |-> One("persist", <<0, 7, 8>>),   alpha |-> {1, 2}],
  persist_empty  |-> [pipe |-> One("persist", <<1>>),         alpha |-> {1, 2}],
  state_push     |-> [pipe |-> Two("state_push", <<0>>),      alpha |-> {1, 2, 3}],
  for_each       |-> [pipe |-> <<N("for_each", <<2>>, <<>>), T(1)>>, alpha |-> {1, 2}],
  vec_push       |-> [pipe |-> <<N("vec_push", <<2>>, <<>>), T(1)>>, alpha |-> {1, 2}],
  sink           |-> [pipe |-> One("sink", <<>>),             alpha |-> {1, 2}],
  sink_compat    |-> [pipe |-> One("sink_compat", <<>>),      alpha |-> {1, 2}],
  send_push      |-> [pipe |-> One("send_push", <<>>),        alpha |-> {1, 2, -1}],
  filter_map_async |-> [pipe |-> One("filter_map_async", <<>>), alpha |-> {1, 2, 201}],
  flat_map_stream  |-> [pipe |-> One("flat_map_stream", <<>>),  alpha |-> {1, 2, 102, 203}],
  flatten_stream   |-> [pipe |-> One("flatten_stream", <<>>),   alpha |-> {1, 2, 102, 203}],
  rf_ordered     |-> [pipe |-> One("resolve_futures", <<1, 0>>), alpha |-> {1, 202, 303}],
  rf_unordered   |-> [pipe |-> One("resolve_futures", <<0, 0>>), alpha |-> {1, 202, 303}],
  rf_ordered_w   |-> [pipe |-> One("resolve_futures", <<1, 1>>), alpha |-> {1, 202, 303}],
  rf_unordered_w |-> [pipe |-> One("resolve_futures", <<0, 1>>), alpha |-> {1, 202, 303}],
  \* 2-level compositions
  flat_map_fanout |-> [pipe |-> <<N("flat_map", <<2>>, <<>>), N("fanout", <<3, 4>>, <<>>), L(1), L(2)>>,
                                                              alpha |-> {1, 2, 3}],
  fanout_flat_map |-> [pipe |-> <<N("fanout", <<2, 3>>, <<>>), N("flat_map", <<4>>, <<>>), N("map", <<5>>, <<10>>), L(1), L(2)>>,
                                                              alpha |-> {1, 2, 3}],
  unzip_persist  |-> [pipe |-> <<N("unzip", <<2, 3>>, <<>>), N("persist", <<4>>, <<1, 7>>), L(2), L(1)>>,
                                                              alpha |-> {102, 201}],
  map_filter_flat_map |-> [pipe |-> <<N("map", <<2>>, <<10>>), N("filter", <<3>>, <<>>), N("flat_map", <<4>>, <<>>), L(1)>>,
                                                              alpha |-> {1, 2, 4}],
  sort_flat_map  |-> [pipe |-> <<N("sort", <<2>>, <<>>), N("flat_map", <<3>>, <<>>), L(1)>>,
                                                              alpha |-> {1, 2, 5}],
  fold_keyed_map |-> [pipe |-> <<N("fold_keyed", <<2>>, <<0>>), N("map", <<3>>, <<10>>), L(1)>>,
                                                              alpha |-> {101, 102, 201}],
  flat_map_fold  |-> [pipe |-> <<N("flat_map", <<2>>, <<>>), N("fold", <<3>>, <<0>>), L(1)>>,
                                                              alpha |-> {1, 2, 3}],
  demux_mixed    |-> [pipe |-> <<N("demux_var", <<2, 3>>, <<>>), N("flat_map", <<4>>, <<>>), N("reduce", <<5>>, <<>>), L(1), L(2)>>,
                                                              alpha |-> {2, 101, 103}]
]

-----------------------------------------------------------------------------
(* the interpreter *)
Ans(s) == IF s = <<>> THEN 1 ELSE Head(s)
Delay(x) == x \div 100

Ret(S, r) == [S |-> S, ret |-> r]
Err(S, msg) == [S |-> [S EXCEPT !.err = IF @ = "" THEN msg ELSE @], ret |-> 1]
AuxEv(S, pend) == [S EXCEPT !.evs = Append(@, <<0, "a", pend, 0>>)]

LeafCall(d, op, x, S) ==
    CASE op = "r" -> LET a == Ans(S.rs[d]) IN
                     Ret([S EXCEPT !.rs[d] = Pop(@), !.evs = Append(@, <<d, "r", a, 0>>)], a)
      [] op = "s" -> Ret([S EXCEPT !.evs = Append(@, <<d, "s", x, 0>>)], 1)
      [] op = "f" -> LET a == IF d \in S.fn THEN 1 ELSE Ans(S.fs[d]) IN
                     Ret([S EXCEPT !.fs[d] = IF d \in S.fn THEN @ ELSE Pop(@),
                                   !.fn = IF a = 1 THEN @ \cup {d} ELSE @,
                                   !.evs = Append(@, <<d, "f", a, 0>>)], a)

\* map insert / add for the keyed combinators: function key -> acc
KeyedPut(hm, k, v, init) ==
    [kk \in (DOMAIN hm) \cup {k} |->
        IF kk = k THEN (IF k \in DOMAIN hm THEN hm[k] ELSE init) + v ELSE hm[kk]]
KeyedItems(hm) == LET ks == SetToSeq(DOMAIN hm) IN [j \in 1..Len(ks) |-> ks[j] * 100 + hm[ks[j]]]

\* inner stream of flat_map_stream / flatten_stream for input x: -1 = Pending, then end
StreamScript(x) ==
    LET items == FlatF(AVal(x))  md == Delay(x)
        RECURSIVE each(_)
        each(i) == IF i > Len(items) THEN <<>>
                   ELSE (IF md = 1 THEN <<-1>> ELSE <<>>) \o <<items[i]>> \o each(i + 1)
    IN each(1) \o (IF md \in {1, 2} THEN <<-1>> ELSE <<>>)

RECURSIVE Call(_, _, _, _), AllOf(_, _, _, _, _), FlatDrain(_, _), AccDrain(_, _), SortDrain(_, _),
          KeyedDrain(_, _), Replay(_, _), StreamDrain(_, _), FmaReady(_, _), SendLoop(_, _),
          RfEmpty(_, _), RfPollQueue(_, _)

\* ready_both! over a list of children: every child is called, result = all Done
AllOf(cs, j, op, S, acc) ==
    IF j > Len(cs) THEN Ret(S, acc)
    ELSE LET R == Call(cs[j], op, 0, S) IN AllOf(cs, j + 1, op, R.S, IF R.ret = 1 THEN acc ELSE 0)

\* FlatMap / Flatten :: poll_ready
FlatDrain(n, S) ==
    LET c == pipe[n].c[1] IN
    IF S.st[n] = <<>> THEN Call(c, "r", 0, S)
    ELSE LET R == Call(c, "r", 0, S) IN
         IF R.ret = 0 THEN R
         ELSE LET R2 == Call(c, "s", Head(R.S.st[n]), [R.S EXCEPT !.st[n] = Tail(@)])
              IN FlatDrain(n, R2.S)

\* Accumulate :: poll_finalize, phase Draining
AccDrain(n, S) ==
    LET c == pipe[n].c[1]  R == Call(c, "r", 0, S) IN
    IF R.ret = 0 THEN R
    ELSE IF R.S.st[n].it = <<>> THEN Ret([R.S EXCEPT !.st[n].ph = "done"], 1)
    ELSE LET R2 == Call(c, "s", Head(R.S.st[n].it), [R.S EXCEPT !.st[n].it = Tail(@)])
         IN AccDrain(n, R2.S)

\* Sort :: poll_finalize, `while !buf.is_empty()`
SortDrain(n, S) ==
    LET c == pipe[n].c[1] IN
    IF S.st[n].buf = <<>> THEN Ret(S, 1)
    ELSE LET R == Call(c, "r", 0, S) IN
         IF R.ret = 0 THEN R
         ELSE LET R2 == Call(c, "s", Head(R.S.st[n].buf), [R.S EXCEPT !.st[n].buf = Tail(@)])
              IN SortDrain(n, R2.S)

\* FoldKeyed / ReduceKeyed :: poll_finalize, `while !flush_items.is_empty()`
KeyedDrain(n, S) ==
    LET c == pipe[n].c[1] IN
    IF S.st[n].flush = <<>> THEN Ret(S, 1)
    ELSE LET R == Call(c, "r", 0, S) IN
         IF R.ret = 0 THEN R
         ELSE LET R2 == Call(c, "s", Head(R.S.st[n].flush), [R.S EXCEPT !.st[n].flush = Tail(@)])
              IN KeyedDrain(n, R2.S)

\* Persist :: empty_replay
Replay(n, S) ==
    LET c == pipe[n].c[1]  me == S.st[n] IN
    IF me.idx >= Len(me.buf) THEN Ret(S, 1)
    ELSE LET R == Call(c, "r", 0, S) IN
         IF R.ret = 0 THEN R
         ELSE LET R2 == Call(c, "s", me.buf[me.idx + 1], [R.S EXCEPT !.st[n].idx = @ + 1])
              IN Replay(n, R2.S)

\* FlatMapStream / FlattenStream :: poll_ready
StreamDrain(n, S) ==
    LET c == pipe[n].c[1]  me == S.st[n] IN
    IF ~me.has THEN Ret(S, 1)
    ELSE LET R1 == IF me.item # <<>>
                   THEN LET R == Call(c, "r", 0, S) IN
                        IF R.ret = 0 THEN R
                        ELSE Call(c, "s", me.item[1], [R.S EXCEPT !.st[n].item = <<>>])
                   ELSE Ret(S, 1)
         IN IF R1.ret = 0 THEN R1
            ELSE LET scr == R1.S.st[n].scr IN
                 IF scr = <<>> THEN StreamDrain(n, AuxEv([R1.S EXCEPT !.st[n].has = FALSE], 0))
                 ELSE IF Head(scr) = -1 THEN Ret(AuxEv([R1.S EXCEPT !.st[n].scr = Tail(@)], 1), 0)
                 ELSE StreamDrain(n, AuxEv([R1.S EXCEPT !.st[n].scr = Tail(@), !.st[n].item = <<Head(scr)>>], 0))

\* FilterMapAsync :: poll_ready
FmaReady(n, S) ==
    LET c == pipe[n].c[1]  me == S.st[n] IN
    IF me.res # <<>>
    THEN \* `if this.resolved.is_some() { ready!(next.poll_ready); take; start_send; return Done }`
         LET R == Call(c, "r", 0, S) IN
         IF R.ret = 0 THEN R
         ELSE LET R2 == Call(c, "s", me.res[1], [R.S EXCEPT !.st[n].res = <<>>]) IN Ret(R2.S, 1)
    ELSE IF me.fut # <<>>
    THEN IF me.fut[2] > 0 THEN Ret(AuxEv(S, 1), 0)
         ELSE LET o == FilterMapF(me.fut[1])
                  S1 == AuxEv([S EXCEPT !.st[n].fut = <<>>], 0) IN
              IF o = <<>> THEN Ret(S1, 1)
              ELSE LET R == Call(c, "r", 0, [S1 EXCEPT !.st[n].res = o]) IN
                   IF R.ret = 0 THEN R
                   ELSE LET R2 == Call(c, "s", o[1], [R.S EXCEPT !.st[n].res = <<>>]) IN Ret(R2.S, 1)
    ELSE Ret(S, 1)

\* SendPush :: poll, the `loop`
SendLoop(n, S) ==
    LET c == pipe[n].c[1]  R == Call(c, "r", 0, S) IN
    IF R.ret = 0 THEN R
    ELSE LET src == R.S.st[n].src IN
         IF src = <<>> THEN Ret(AuxEv([R.S EXCEPT !.st[n].ended = TRUE], 0), 1)
         ELSE IF Head(src) < 0 THEN Ret(AuxEv([R.S EXCEPT !.st[n].src = Tail(@)], 1), 0)
         ELSE LET R2 == Call(c, "s", Head(src), AuxEv([R.S EXCEPT !.st[n].src = Tail(@)], 0))
              IN SendLoop(n, R2.S)

\* ResolveFutures: the queue q is a sequence of [v, k, parked]; k = driver calls until resolved.
\* poll of the queue: returns [S, out] with out = <<v>> | <<-1>> (Pending) | <<-2>> (None)
RfPollQueue(n, S) ==
    LET q == S.st[n].q  ordered == pipe[n].p[1] = 1 IN
    IF q = <<>> THEN [S |-> AuxEv(S, 0), out |-> <<-2>>]
    ELSE IF ordered
    THEN IF q[1].k = 0 THEN [S |-> AuxEv([S EXCEPT !.st[n].q = Tail(@)], 0), out |-> <<q[1].v>>]
         ELSE [S |-> AuxEv(S, 1), out |-> <<-1>>]
    ELSE LET rdy == {i \in DOMAIN q : q[i].k = 0} IN
         IF rdy = {} THEN [S |-> AuxEv(S, 1), out |-> <<-1>>]
         ELSE LET i == CHOOSE i \in rdy : \A j \in rdy : i <= j IN
              [S |-> AuxEv([S EXCEPT !.st[n].q = SubSeq(q, 1, i - 1) \o SubSeq(q, i + 1, Len(q))], 0),
               out |-> <<q[i].v>>]

\* ResolveFutures :: empty_ready
RfEmpty(n, S) ==
    LET c == pipe[n].c[1]  waker == pipe[n].p[2] = 1  R == Call(c, "r", 0, S) IN
    IF R.ret = 0 THEN R
    ELSE LET Q == RfPollQueue(n, R.S) IN
         IF Q.out[1] >= 0 THEN LET R2 == Call(c, "s", Q.out[1], Q.S) IN RfEmpty(n, R2.S)
         ELSE IF Q.out[1] = -2 THEN Ret(Q.S, 1)
         ELSE Ret(Q.S, IF waker THEN 1 ELSE 0)

Call(n, op, x, S) ==
    LET nd == pipe[n]  k == nd.k  c == nd.c  p == nd.p  me == S.st[n] IN
    CASE k = "leaf" -> LeafCall(p[1], op, x, S)
      [] k \in {"map", "inspect", "sink", "sink_compat"} ->
            Call(c[1], op, IF op = "s" /\ k = "map" THEN MapF(p[1], x) ELSE x, S)
      [] k = "filter" ->
            IF op = "s" /\ ~FilterP(x) THEN Ret(S, 1) ELSE Call(c[1], op, x, S)
      [] k = "filter_map" ->
            IF op # "s" THEN Call(c[1], op, x, S)
            ELSE IF FilterMapF(x) = <<>> THEN Ret(S, 1) ELSE Call(c[1], "s", FilterMapF(x)[1], S)
      [] k \in {"for_each", "vec_push"} ->
            IF op = "s" THEN Call(c[1], "s", x, S) ELSE Ret(S, 1)
      [] k \in {"flat_map", "flatten"} ->
            (CASE op = "r" -> FlatDrain(n, S)
              [] op = "s" -> IF me # <<>> THEN Err(S, "FlatMap: poll_ready must be called before start_send")
                             ELSE Ret([S EXCEPT !.st[n] = FlatF(x)], 1)
              [] op = "f" -> LET R == FlatDrain(n, S) IN IF R.ret = 0 THEN R ELSE Call(c[1], "f", 0, R.S))
      [] k \in {"fanout", "demux_var", "unzip"} ->
            IF op # "s" THEN AllOf(c, 1, op, S, 1)
            ELSE IF k = "fanout" THEN LET R == Call(c[1], "s", x, S) IN Call(c[2], "s", x, R.S)
            ELSE IF k = "unzip" THEN LET R == Call(c[1], "s", Fst(x), S) IN Call(c[2], "s", Snd(x), R.S)
            ELSE IF Fst(x) + 1 > Len(c) THEN Err(S, "PushVariadic index out of bounds")
            ELSE Call(c[Fst(x) + 1], "s", Snd(x), S)
      [] k \in {"fold", "reduce", "sort_state"} ->
            (CASE op = "r" -> Ret(S, 1)
              [] op = "s" ->
                    IF me.ph # "acc" THEN Err(S, "start_send called after finalize")
                    ELSE Ret([S EXCEPT !.st[n].acc =
                                 IF k = "sort_state" THEN Append(@, x)
                                 ELSE IF k = "reduce" /\ @ = -1 THEN x ELSE @ + x], 1)
              [] op = "f" ->
                    LET it0 == IF k = "sort_state" THEN Sorted(me.acc)
                               ELSE IF k = "reduce" /\ me.acc = -1 THEN <<>> ELSE <<me.acc>>
                        S1 == IF me.ph = "acc" THEN [S EXCEPT !.st[n].ph = "drain", !.st[n].it = it0] ELSE S
                        R == IF S1.st[n].ph = "drain" THEN AccDrain(n, S1) ELSE Ret(S1, 1)
                    IN IF R.ret = 0 THEN R ELSE Call(c[1], "f", 0, R.S))
      [] k = "sort" ->
            (CASE op = "r" -> Ret(S, 1)
              [] op = "s" -> Ret([S EXCEPT !.st[n].buf = Append(@, x), !.st[n].sorted = FALSE], 1)
              [] op = "f" ->
                    LET S1 == IF me.sorted THEN S
                              ELSE [S EXCEPT !.st[n].buf = Sorted(@), !.st[n].sorted = TRUE]
                        R == SortDrain(n, S1)
                    IN IF R.ret = 0 THEN R ELSE Call(c[1], "f", 0, R.S))
      [] k \in {"fold_keyed", "reduce_keyed"} ->
            (CASE op = "r" -> Ret(S, 1)
              [] op = "s" -> Ret([S EXCEPT !.st[n].map =
                                     KeyedPut(@, Fst(x), Snd(x), IF k = "fold_keyed" THEN p[1] ELSE 0)], 1)
              [] op = "f" ->
                    LET S1 == IF me.flush = <<>> /\ me.idx = 0
                              THEN [S EXCEPT !.st[n].flush = KeyedItems(me.map), !.st[n].idx = 1] ELSE S
                        R == KeyedDrain(n, S1)
                    IN IF R.ret = 0 THEN R
                       ELSE LET R2 == Call(c[1], "f", 0, R.S) IN
                            IF R2.ret = 1 THEN Ret([R2.S EXCEPT !.st[n].idx = 0], 1) ELSE R2)
      [] k = "persist" ->
            (CASE op = "r" -> LET R == Replay(n, S) IN IF R.ret = 0 THEN R ELSE Call(c[1], "r", 0, R.S)
              [] op = "s" -> Call(c[1], "s", x, [S EXCEPT !.st[n].buf = Append(@, x), !.st[n].idx = @ + 1])
              [] op = "f" -> LET R == Replay(n, S) IN IF R.ret = 0 THEN R ELSE Call(c[1], "f", 0, R.S))
      [] k = "state_push" ->
            (CASE op = "r" -> AllOf(c, 1, "r", S, 1)
              [] op = "s" -> IF x > me.lat THEN Call(c[1], "s", x, [S EXCEPT !.st[n].lat = x]) ELSE Ret(S, 1)
              [] op = "f" -> \* the state is sent once, after state_push reported ready; then ready_both! finalize
                    LET R0 == IF me.sent THEN Ret(S, 1)
                              ELSE LET R == Call(c[2], "r", 0, S) IN
                                   IF R.ret = 0 THEN R
                                   ELSE Call(c[2], "s", me.lat, [R.S EXCEPT !.st[n].sent = TRUE])
                    IN IF R0.ret = 0 THEN R0 ELSE AllOf(c, 1, "f", R0.S, 1))
      [] k = "filter_map_async" ->
            (CASE op = "r" -> FmaReady(n, S)
              [] op = "s" -> IF me.fut # <<>> \/ me.res # <<>>
                             THEN Err(S, "FilterMapAsync: poll_ready must be called before start_send")
                             ELSE Ret([S EXCEPT !.st[n].fut = <<AVal(x), Delay(x)>>], 1)
              [] op = "f" -> LET R == FmaReady(n, S) IN IF R.ret = 0 THEN R ELSE Call(c[1], "f", 0, R.S))
      [] k \in {"flat_map_stream", "flatten_stream"} ->
            (CASE op = "r" -> StreamDrain(n, S)
              [] op = "s" -> IF me.has THEN Err(S, "FlatMapStream: poll_ready must be called before start_send")
                             ELSE Ret([S EXCEPT !.st[n] = [has |-> TRUE, scr |-> StreamScript(x), item |-> <<>>]], 1)
              [] op = "f" -> LET R == StreamDrain(n, S) IN IF R.ret = 0 THEN R ELSE Call(c[1], "f", 0, R.S))
      [] k = "resolve_futures" ->
            (CASE op = "r" -> RfEmpty(n, S)
              [] op = "s" ->
                    LET S1 == [S EXCEPT !.st[n].q = Append(@, [v |-> AVal(x), k |-> Delay(x)])] IN
                    IF p[2] = 0 THEN Ret(S1, 1)
                    ELSE LET Q == RfPollQueue(n, S1) IN
                         IF Q.out[1] >= 0 THEN Call(c[1], "s", Q.out[1], Q.S) ELSE Ret(Q.S, 1)
              [] op = "f" -> LET R == RfEmpty(n, S) IN IF R.ret = 0 THEN R ELSE Call(c[1], "f", 0, R.S))
      [] k = "send_push" ->
            \* only op = "f" (Future::poll)
            LET R == IF me.ended THEN Ret(S, 1) ELSE SendLoop(n, S) IN
            IF R.ret = 0 THEN R ELSE Call(c[1], "f", 0, R.S)

\* initial fields of a node
InitNode(nd, ins) ==
    CASE nd.k \in {"flat_map", "flatten"} -> <<>>
      [] nd.k = "fold" -> [ph |-> "acc", acc |-> nd.p[1], it |-> <<>>]
      [] nd.k = "reduce" -> [ph |-> "acc", acc |-> -1, it |-> <<>>]
      [] nd.k = "sort_state" -> [ph |-> "acc", acc |-> <<>>, it |-> <<>>]
      [] nd.k = "sort" -> [buf |-> <<>>, sorted |-> FALSE]
      [] nd.k \in {"fold_keyed", "reduce_keyed"} -> [map |-> <<>>, flush |-> <<>>, idx |-> 0]
      [] nd.k = "persist" -> [buf |-> Tail(nd.p), idx |-> IF nd.p[1] = 1 THEN 0 ELSE Len(Tail(nd.p))]
      [] nd.k = "state_push" -> [lat |-> nd.p[1], sent |-> FALSE]
      [] nd.k = "filter_map_async" -> [fut |-> <<>>, res |-> <<>>]
      [] nd.k \in {"flat_map_stream", "flatten_stream"} -> [has |-> FALSE, scr |-> <<>>, item |-> <<>>]
      [] nd.k = "resolve_futures" -> [q |-> <<>>]
      [] nd.k = "send_push" -> [ended |-> FALSE, src |-> ins]
      [] OTHER -> 0

\* end of a driver call: every pending future gets one call closer to resolution
TickNode(nd, s) ==
    CASE nd.k = "filter_map_async" ->
            IF s.fut # <<>> /\ s.fut[2] > 0 THEN [s EXCEPT !.fut = <<@[1], @[2] - 1>>] ELSE s
      [] nd.k = "resolve_futures" ->
            [s EXCEPT !.q = [i \in DOMAIN s.q |-> [s.q[i] EXCEPT !.k = IF @ > 0 THEN @ - 1 ELSE 0]]]
      [] OTHER -> s
Tick(s) == [i \in DOMAIN s |-> TickNode(pipe[i], s[i])]

-----------------------------------------------------------------------------
(* initial states: every shape x inputs x scripts x driver variation *)
SeqsUpTo(A, mx) == UNION {[1..j -> A] : j \in 0..mx}
\* scripts: 0/1 sequences, at most mp zeros, canonical (empty or ending with a Pending)
Scripts(len, mp) == {s \in SeqsUpTo({0, 1}, len) :
                        /\ Cardinality({i \in DOMAIN s : s[i] = 0}) <= mp
                        /\ (s = <<>> \/ s[Len(s)] = 0)}
RScripts1 == Scripts(RLen1, MaxPend1)
RScripts2 == Scripts(RLen2, MaxPend2)
RScripts3 == Scripts(RLen3, MaxPend3)
FScripts1 == Scripts(FLen1, MaxPend1)
FScripts2 == Scripts(FLen2, MaxPend2)
FScripts3 == Scripts(FLen3, MaxPend3)
RScriptsOf(nl) == IF nl <= 1 THEN RScripts1 ELSE IF nl = 2 THEN RScripts2 ELSE RScripts3
FScriptsOf(nl) == IF nl <= 1 THEN FScripts1 ELSE IF nl = 2 THEN FScripts2 ELSE FScripts3
MaxInOf(nl) == IF nl <= 1 THEN MaxIn1 ELSE IF nl = 2 THEN MaxIn2 ELSE MaxIn3

\* Init only chooses the case (cheap, single-threaded in TLC); Setup builds the pipeline state
Init ==
    \E sh \in SHAPES :
      LET P == Cat[sh].pipe
          lv == LeafIds(P)
          proto == ProtoLeaves(P)
          self == P[1].k = "send_push" IN
      \E raw \in SeqsUpTo(Cat[sh].alpha, MaxInOf(Cardinality(lv))) :
      \E rscr \in [lv -> RScriptsOf(Cardinality(lv))] : \E fscr \in [lv -> FScriptsOf(Cardinality(lv))] :
      \E ex \in [1..(IF self THEN 1 ELSE Len(raw) + 1) -> (IF EXTRA THEN {0, 1} ELSE {0})] :
        \* terminal leaves have no scripts
        /\ \A d \in lv \ proto : rscr[d] = <<>> /\ fscr[d] = <<>>
        \* for send_push the raw sequence is the pull source script (negative = Pending)
        /\ (~self => \A i \in DOMAIN raw : raw[i] >= 0)
        /\ MInit(<<>>, <<>>, <<>>, <<>>)
        /\ shape = sh
        /\ st = <<>>
        /\ extra = ex
        /\ need = 0
        /\ dph = "setup"
        /\ hist = <<>>
        /\ calls = 0
        /\ cfg0 = [rs |-> rscr, fs |-> fscr, raw |-> raw]

Setup ==
    /\ dph = "setup"
    /\ LET P == Cat[shape].pipe
           self == P[1].k = "send_push"
           raw == cfg0.raw
           ins == SelectSeq(raw, LAMBDA v : v >= 0) IN
       /\ MReset(P, ins, cfg0.rs, cfg0.fs)
       /\ st' = [i \in DOMAIN P |-> InitNode(P[i], raw)]
       /\ need' = IF self THEN 0 ELSE IF ins = <<>> THEN extra[1] ELSE 1 + extra[1]
       /\ dph' = IF self THEN "f" ELSE IF ins = <<>> /\ extra[1] = 0 THEN "f" ELSE "r"
    /\ UNCHANGED <<shape, extra, hist, calls, cfg0>>

MCallNoCfg(evs) == m' = ApplyAll(cfg, m, evs)
HeldLeft == SumSeq([i \in DOMAIN st |-> IF pipe[i].k = "resolve_futures" THEN Len(st[i].q) ELSE 0])

\* one public call of the driver on the root, with everything it calls on the downstreams
DriverCall ==
    /\ dph \in {"r", "s", "f"}
    /\ LET x == IF dph = "s" THEN cfg.inputs[m.sent + 1] ELSE 0
           S0 == [st |-> st, rs |-> m.rs, fs |-> m.fs, fn |-> {d \in cfg.leaves : m.fin[d] = 2},
                  evs |-> <<>>, err |-> ""]
           R == Call(1, dph, x, S0)
           st1 == Tick(R.S.st)
           held == IF cfg.partial /\ dph = "f" /\ R.ret = 1
                   THEN SumSeq([i \in DOMAIN st1 |-> IF pipe[i].k = "resolve_futures" THEN Len(st1[i].q) ELSE 0])
                   ELSE 0
           evs == IF R.S.err # "" THEN R.S.evs \o <<<<-1, "panic", 0, 0>>>>
                  ELSE R.S.evs \o <<<<-1, dph, IF dph = "s" THEN x ELSE R.ret, held>>>>
       IN /\ MCallNoCfg(evs)
          /\ hist' = IF EMIT THEN hist \o evs ELSE hist
          /\ calls' = calls + 1
          /\ IF R.S.err # ""
             THEN /\ st' = R.S.st
                  /\ dph' = "panic"
                  /\ UNCHANGED need
             ELSE /\ st' = st1
                  /\ CASE dph = "r" ->
                           IF R.ret = 0 THEN UNCHANGED <<dph, need>>
                           ELSE IF need > 1 THEN need' = need - 1 /\ UNCHANGED dph
                           ELSE /\ need' = 0
                                /\ dph' = IF m.sent < Len(cfg.inputs) THEN "s" ELSE "f"
                       [] dph = "s" ->
                           LET nxt == m.sent + 2         \* index of the next thing to do
                               cyc == IF nxt <= Len(cfg.inputs) THEN 1 + extra[nxt] ELSE extra[nxt] IN
                           /\ need' = cyc
                           /\ dph' = IF cyc > 0 THEN "r" ELSE "f"
                       [] dph = "f" ->
                           /\ dph' = IF R.ret = 1 THEN "done" ELSE "f"
                           /\ UNCHANGED need
    /\ UNCHANGED <<cfg, shape, extra, cfg0>>

Finished == dph \in {"done", "panic"}
Done == Finished /\ UNCHANGED vars

Next == Setup \/ DriverCall \/ Done
Spec == Init /\ [][Next]_vars

-----------------------------------------------------------------------------
\* the property, asserted for every shape whose model is not a documented defect
\* (m.bad accumulates every rule / state predicate broken after any single call)
InvClean == (shape \notin BADSHAPES) => (m.bad = {} /\ C12Inv)
\* the driver of the model is always a legal client
InvDriver == DriverLegal

\* bounded progress: the number of driver calls that returned Pending is bounded by the number
\* of scripted Pendings (each Pending return consumes at least one) -- follows from the
\* monitor rule "pending-without-any-downstream-pending"; here the explicit budget the
\* harness uses as its stall limit
Budget == 3 * Len(cfg.inputs) + 12 * (Cardinality(cfg.leaves) + 1) + 8
Progress == (shape \notin BADSHAPES) => calls <= Budget

Emit == (EMIT /\ Finished) =>
          PrintT(<<"CASE", ToJson([shape |-> shape, pipe |-> pipe, inputs |-> cfg.inputs, raw |-> cfg0.raw,
                                   rs |-> cfg0.rs, fs |-> cfg0.fs,
                                   extra |-> extra, evs |-> hist, broken |-> Broken])>>)
=============================================================================
