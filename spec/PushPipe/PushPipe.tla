------------------------------ MODULE PushPipe ------------------------------
(* Abstract specification (property monitor + reference semantics) of dfir_pipes push
   pipelines (C12).

   A *pipeline* is a tree of combinator nodes whose leaves are the downstream pushes.
   It is given as a sequence of node records  [k |-> kind, c |-> <<children>>, p |-> <<params>>];
   node 1 is the root, a leaf is  [k |-> "leaf", c |-> <<>>, p |-> <<d, proto>>]  (d = index of
   the downstream, proto = 1 for a real Push double, 0 for a terminal closure/vector).

   The environment of the pipeline:
     * the driver: any legal client of the root (poll_ready until Done, start_send of the next
       input, ..., poll_finalize until Done, nothing afterwards);
     * for every downstream d two *scripts* rs[d] / fs[d]: what poll_ready / poll_finalize answer,
       one entry per call (1 = Done, 0 = Pending), Done forever once the script is exhausted
       and Done forever once poll_finalize has answered Done.

   Events (one per call observed at the implementation):
     Down(d, "r", a)   the pipeline called poll_ready on downstream d, answered a
     Down(d, "s", x)   the pipeline called start_send(x) on downstream d
     Down(d, "f", a)   the pipeline called poll_finalize on downstream d, answered a
     Aux(p)            an inner future / stream / pull source was polled (p = 1: it pended)
     Comb("r", a)      the driver's poll_ready on the root returned a
     Comb("s", x)      the driver's start_send(x) on the root returned
     Comb("f", a)      the driver's poll_finalize on the root returned a
     Comb("x", a)      neutral call (SinkCompat::poll_flush)

   Items are integers.  Pairs (a, b) are encoded a * 100 + b  (unzip, demux index, keys).
   The closures of the combinators come from the closed vocabulary at the top of this module,
   mirrored in harness/hv_push.

   The same module is (a) composed with the implementation-shaped model PushPipeImpl and model
   checked for every small input / script configuration, and (b) driven by traces recorded from
   the real dfir_pipes code (PushPipeTrace). *)
EXTENDS Naturals, Integers, Sequences, FiniteSets

-----------------------------------------------------------------------------
(* closure vocabulary *)
Fst(x) == x \div 100
Snd(x) == x % 100
MapF(a, x) == x + a
FilterP(x) == x % 2 = 1
FilterMapF(x) == IF x % 2 = 1 THEN <<x + 20>> ELSE <<>>      \* <<>> = None
\* flat_map / flatten / *_stream: x yields (x % 3) items x, x+10, ...
FlatF(x) == [j \in 1..(x % 3) |-> x + 10 * (j - 1)]
\* flat_map to pairs (sinktools flat_map above unzip): (x + 10 (j-1), j) encoded a * 100 + b
FlatPairsF(x) == [j \in 1..(x % 3) |-> (x + 10 * (j - 1)) * 100 + j]
\* async inputs carry a delay in the hundreds digit: value = x % 100
AVal(x) == x % 100

RECURSIVE SumSeq(_)
SumSeq(s) == IF s = <<>> THEN 0 ELSE Head(s) + SumSeq(Tail(s))

RECURSIVE FlatAll(_)
FlatAll(s) == IF s = <<>> THEN <<>> ELSE FlatF(Head(s)) \o FlatAll(Tail(s))

RECURSIVE FlatPairsAll(_)
FlatPairsAll(s) == IF s = <<>> THEN <<>> ELSE FlatPairsF(Head(s)) \o FlatPairsAll(Tail(s))

RECURSIVE FlatAllA(_)
FlatAllA(s) == IF s = <<>> THEN <<>> ELSE FlatF(AVal(Head(s))) \o FlatAllA(Tail(s))

RECURSIVE FilterMapAll(_, _)
FilterMapAll(s, async) ==
    IF s = <<>> THEN <<>>
    ELSE FilterMapF(IF async THEN AVal(Head(s)) ELSE Head(s)) \o FilterMapAll(Tail(s), async)

SelectSeq2(s, T(_)) == SelectSeq(s, T)
MapSeq(s, F(_)) == [i \in 1..Len(s) |-> F(s[i])]

\* insertion sort (ascending)
RECURSIVE Insert(_, _)
Insert(x, s) == IF s = <<>> THEN <<x>>
                ELSE IF x <= Head(s) THEN <<x>> \o s ELSE <<Head(s)>> \o Insert(x, Tail(s))
RECURSIVE Sorted(_)
Sorted(s) == IF s = <<>> THEN <<>> ELSE Insert(Head(s), Sorted(Tail(s)))

Range(s) == {s[i] : i \in DOMAIN s}
Count(s, v) == Cardinality({i \in DOMAIN s : s[i] = v})
SubBag(a, b) == \A v \in Range(a) : Count(a, v) <= Count(b, v)
BagEq(a, b) == SubBag(a, b) /\ SubBag(b, a)
IsPrefix(a, b) == Len(a) <= Len(b) /\ \A i \in 1..Len(a) : a[i] = b[i]

\* per-key results in ascending key order:  key * 100 + (init + sum of values of that key)
RECURSIVE SetToSeq(_)
SetToSeq(S) == IF S = {} THEN <<>> ELSE LET mn == CHOOSE x \in S : \A y \in S : x <= y
                                         IN <<mn>> \o SetToSeq(S \ {mn})
KeyedRes(s, init) ==
    LET keys == SetToSeq({Fst(s[i]) : i \in DOMAIN s})
        tot(k) == SumSeq(MapSeq(SelectSeq(s, LAMBDA x : Fst(x) = k), Snd))
    IN [j \in 1..Len(keys) |-> keys[j] * 100 + init + tot(keys[j])]

\* items that strictly raise a running maximum starting at m0 (StatePush over Max<i64>)
RECURSIVE Raising(_, _)
Raising(s, mx) == IF s = <<>> THEN <<>>
                 ELSE IF Head(s) > mx THEN <<Head(s)>> \o Raising(Tail(s), Head(s))
                 ELSE Raising(Tail(s), mx)
RECURSIVE MaxOf(_, _)
MaxOf(s, mx) == IF s = <<>> THEN mx ELSE MaxOf(Tail(s), IF Head(s) > mx THEN Head(s) ELSE mx)

-----------------------------------------------------------------------------
(* Reference (denotational) semantics: what every downstream must receive.
   Den(P, n, xs) = function  leaf index d |-> sequence, for the leaves below node n fed xs. *)
Merge2(f, g) == [d \in (DOMAIN f) \cup (DOMAIN g) |-> IF d \in DOMAIN f THEN f[d] ELSE g[d]]

RECURSIVE Den(_, _, _)
Den(P, n, xs) ==
    LET nd == P[n]  k == nd.k  c == nd.c  p == nd.p IN
    CASE k = "leaf"       -> [dd \in {p[1]} |-> xs]
      [] k = "map"        -> Den(P, c[1], [i \in 1..Len(xs) |-> MapF(p[1], xs[i])])
      [] k = "inspect"    -> Den(P, c[1], xs)
      [] k = "filter"     -> Den(P, c[1], SelectSeq(xs, FilterP))
      [] k = "filter_map" -> Den(P, c[1], FilterMapAll(xs, FALSE))
      [] k = "filter_map_async" -> Den(P, c[1], FilterMapAll(xs, TRUE))
      [] k \in {"flat_map", "flatten"} -> Den(P, c[1], FlatAll(xs))
      [] k \in {"flat_map_stream", "flatten_stream"} -> Den(P, c[1], FlatAllA(xs))
      [] k = "flat_map_pairs" -> Den(P, c[1], FlatPairsAll(xs))
      [] k = "fanout"     -> Merge2(Den(P, c[1], xs), Den(P, c[2], xs))
      [] k = "unzip"      -> Merge2(Den(P, c[1], MapSeq(xs, Fst)), Den(P, c[2], MapSeq(xs, Snd)))
      [] k \in {"demux_var", "demux_map", "demux_map_lazy"} ->
            LET part(j) == MapSeq(SelectSeq(xs, LAMBDA x : Fst(x) = j - 1), Snd)
                RECURSIVE all(_)
                all(j) == IF j > Len(c) THEN <<>> ELSE Merge2(Den(P, c[j], part(j)), all(j + 1))
            IN all(1)
      [] k = "fold"       -> Den(P, c[1], <<p[1] + SumSeq(xs)>>)          \* emitted even when empty
      [] k = "reduce"     -> Den(P, c[1], IF xs = <<>> THEN <<>> ELSE <<SumSeq(xs)>>)
      [] k \in {"sort", "sort_state"} -> Den(P, c[1], Sorted(xs))
      [] k = "fold_keyed" -> Den(P, c[1], KeyedRes(xs, p[1]))             \* order unspecified
      [] k = "reduce_keyed" -> Den(P, c[1], KeyedRes(xs, 0))              \* order unspecified
      [] k = "persist"    -> \* p = <<replay, pre...>>: earlier pass left Tail(p) in the buffer
            Den(P, c[1], (IF p[1] = 1 THEN Tail(p) ELSE <<>>) \o xs)
      [] k = "resolve_futures" -> Den(P, c[1], MapSeq(xs, AVal))          \* p = <<ordered, waker>>
      [] k = "state_push" -> Merge2(Den(P, c[1], Raising(xs, p[1])), Den(P, c[2], <<MaxOf(xs, p[1])>>))
      [] k \in {"sink", "sink_compat", "send_push"} -> Den(P, c[1], xs)
      [] OTHER -> Den(P, c[1], xs)

\* leaves whose order is not prescribed: below a keyed fold/reduce or an unordered resolve_futures
RECURSIVE UnordLeaves(_, _, _)
UnordLeaves(P, n, u) ==
    LET nd == P[n]
        u2 == u \/ nd.k \in {"fold_keyed", "reduce_keyed"} \/ (nd.k = "resolve_futures" /\ nd.p[1] = 0)
        RECURSIVE all(_)
        all(j) == IF j > Len(nd.c) THEN {} ELSE UnordLeaves(P, nd.c[j], u2) \cup all(j + 1)
    IN IF nd.k = "leaf" THEN (IF u THEN {nd.p[1]} ELSE {}) ELSE all(1)

\* a sort node restores a prescribed order below an unordered node: (approximation kept simple:
\* the catalogue never puts sort below a keyed node)

LeafIds(P) == {P[i].p[1] : i \in {j \in DOMAIN P : P[j].k = "leaf"}}
ProtoLeaves(P) == {P[i].p[1] : i \in {j \in DOMAIN P : P[j].k = "leaf" /\ P[j].p[2] = 1}}
\* pipelines that may legitimately keep undelivered items at the end of the epoch
\* (resolve_futures driven by a subgraph waker): number of such items is reported by the harness
Partial(P) == \E i \in DOMAIN P : P[i].k = "resolve_futures" /\ P[i].p[2] = 1
SelfDriven(P) == P[1].k = "send_push"

-----------------------------------------------------------------------------
VARIABLES
    cfg,    \* the case: [pipe, inputs, ref, unord]  (ref[d] = Den(pipe, 1, inputs)[d]; unord = leaves
            \* compared as bags) -- constant during a case
    m       \* the monitor state, a record:
            \*   rs, fs     remaining scripts per downstream
            \*   ready[d]   the last poll_ready of d answered Done and no start_send since
            \*   fin[d]     0 not finalized, 1 poll_finalize called (Pending so far), 2 finalized
            \*   recv[d]    items received so far
            \*   drvReady   root answered Done to the driver's poll_ready, not yet used
            \*   drvFin     root answered Done to poll_finalize
            \*   sent       number of inputs sent by the driver
            \*   sawPend    a scripted Pending was answered during the current driver call
            \*   left       items reported as still held at the end (Partial pipelines only)
            \*   bad        set of rule names broken so far

mvars == <<cfg, m>>

MkCfg(P, ins) ==
    [pipe |-> P, inputs |-> ins,
     ref |-> IF P = <<>> THEN <<>> ELSE Den(P, 1, ins),
     unord |-> IF P = <<>> THEN {} ELSE UnordLeaves(P, 1, FALSE),
     leaves |-> LeafIds(P), proto |-> ProtoLeaves(P),
     partial |-> Partial(P), selfdriven |-> (P # <<>> /\ SelfDriven(P))]

MkState(rscr, fscr) ==
    [rs |-> rscr, fs |-> fscr,
     ready |-> [d \in DOMAIN rscr |-> FALSE],
     fin |-> [d \in DOMAIN rscr |-> 0],
     recv |-> [d \in DOMAIN rscr |-> <<>>],
     drvReady |-> FALSE, drvFin |-> FALSE, sent |-> 0, sawPend |-> FALSE, left |-> 0, bad |-> {}]

MInit(P, ins, rscr, fscr) == cfg = MkCfg(P, ins) /\ m = MkState(rscr, fscr)
MReset(P, ins, rscr, fscr) == cfg' = MkCfg(P, ins) /\ m' = MkState(rscr, fscr)

Pop(s) == IF s = <<>> THEN <<>> ELSE Tail(s)
\* what the scripted doubles answer next
AnsR(mm, d) == IF mm.rs[d] = <<>> THEN 1 ELSE Head(mm.rs[d])
AnsF(mm, d) == IF mm.fin[d] = 2 \/ mm.fs[d] = <<>> THEN 1 ELSE Head(mm.fs[d])
Flags(mm, S) == [mm EXCEPT !.bad = @ \cup S]
If(c, name) == IF c THEN {name} ELSE {}

(* The monitor's transition function.  An event is a 4-tuple <<d, op, v, w>>:
     d > 0   call on downstream d:  op = "r" | "s" | "f", v = answer / item
     d = 0   inner future / stream / pull source polled, v = 1 iff it answered Pending
     d = -1  driver-level call on the root: op = "r" | "s" | "f" | "x" | "panic" | "stall",
             v = answer / item, w = items still held (Partial pipelines, op = "f")
   Enabled(c, mm, e) is FALSE only when a scripted double's logged answer differs from its
   script (a harness inconsistency, never a property verdict). *)
Enabled(c, mm, e) ==
    IF e[1] > 0
    THEN /\ e[1] \in c.leaves
         /\ e[2] = "r" => e[3] = AnsR(mm, e[1])
         /\ e[2] = "f" => e[3] = AnsF(mm, e[1])
    ELSE TRUE

Apply(c, mm, e) ==
    LET d == e[1]  op == e[2]  v == e[3] IN
    IF d > 0 THEN
        CASE op = "r" ->
                Flags([mm EXCEPT !.rs[d] = Pop(@), !.ready[d] = (v = 1), !.sawPend = (@ \/ v = 0)],
                      If(mm.drvFin, "call-after-root-finalized"))
          [] op = "s" ->
                Flags([mm EXCEPT !.recv[d] = Append(@, v), !.ready[d] = FALSE],
                      If(d \in c.proto /\ ~mm.ready[d], "start_send-without-ready")
                      \cup If(mm.fin[d] = 2 \/ mm.drvFin, "start_send-after-finalize"))
          [] op = "f" ->
                Flags([mm EXCEPT !.fs[d] = IF mm.fin[d] = 2 THEN @ ELSE Pop(@),
                                 !.fin[d] = IF v = 1 THEN 2 ELSE IF @ = 0 THEN 1 ELSE @,
                                 !.sawPend = (@ \/ v = 0)],
                      If(mm.drvFin, "call-after-root-finalized"))
    ELSE IF d = 0 THEN [mm EXCEPT !.sawPend = (@ \/ v = 1)]
    ELSE
        \* driver-level calls.  Rules named "driver-..." are about the harness, not the code.
        CASE op = "r" ->
                Flags([mm EXCEPT !.drvReady = (v = 1), !.sawPend = FALSE],
                      If(mm.drvFin, "driver-call-after-finalize")
                      \cup If(v = 0 /\ ~mm.sawPend, "pending-without-any-downstream-pending"))
          [] op = "s" ->
                Flags([mm EXCEPT !.sent = @ + 1, !.drvReady = FALSE, !.sawPend = FALSE],
                      If(~mm.drvReady \/ mm.drvFin \/ mm.sent >= Len(c.inputs)
                         \/ (mm.sent < Len(c.inputs) /\ c.inputs[mm.sent + 1] # v), "driver-illegal-send"))
          [] op = "f" ->
                Flags([mm EXCEPT !.drvFin = (v = 1), !.left = e[4], !.sawPend = FALSE],
                      If(mm.drvFin \/ (~c.selfdriven /\ mm.sent # Len(c.inputs)), "driver-illegal-finalize")
                      \cup If(v = 0 /\ ~mm.sawPend, "pending-without-any-downstream-pending"))
          [] op = "x" -> mm
          [] op = "panic" -> Flags(mm, {"panic"})
          [] op = "stall" -> Flags(mm, {"stalled-without-finalizing"})

\* one action per observed call
MEvent(e) == Enabled(cfg, m, e) /\ m' = Apply(cfg, m, e) /\ UNCHANGED cfg
MDown(d, op, v) == MEvent(<<d, op, v, 0>>)
MAux(pend) == MEvent(<<0, "a", pend, 0>>)
MComb(op, v, lft) == MEvent(<<-1, op, v, lft>>)
MStall == MEvent(<<-1, "stall", 0, 0>>)
MPanic == MEvent(<<-1, "panic", 0, 0>>)

-----------------------------------------------------------------------------
(* Properties of C12 *)

\* protocol rules evaluated inside the transition function
ProtocolRules == {"start_send-without-ready", "start_send-after-finalize", "call-after-root-finalized",
                  "pending-without-any-downstream-pending", "stalled-without-finalizing", "panic"}

\* delivery: what d received is (a prefix / a sub-bag of) what the reference prescribes
DeliveryPrefixOf(c, mm) ==
    \A d \in c.leaves : IF d \in c.unord THEN SubBag(mm.recv[d], c.ref[d])
                        ELSE IsPrefix(mm.recv[d], c.ref[d])

\* at the end: everything delivered, every real downstream finalized (after its last item:
\* a send after fin[d] = 2 is flagged by the send rule)
EndExactOf(c, mm) ==
    mm.drvFin => \A d \in c.leaves :
        /\ d \in c.proto => mm.fin[d] = 2
        /\ IF c.partial
           THEN Len(mm.recv[d]) + mm.left = Len(c.ref[d])
           ELSE IF d \in c.unord THEN BagEq(mm.recv[d], c.ref[d]) ELSE mm.recv[d] = c.ref[d]

StateBroken(c, mm) ==
    If(~DeliveryPrefixOf(c, mm), "DeliveryPrefix") \cup If(~EndExactOf(c, mm), "EndExact")

\* The calls of ONE driver call (the downstream calls it caused, in order, then the driver-level
\* event itself) applied in one step: the transition function is applied call by call and the
\* state predicates are evaluated after every single call, so nothing is skipped; a logged
\* answer of a double that contradicts its script is recorded as a harness rule.
RECURSIVE ApplyAll(_, _, _)
ApplyAll(c, mm, evs) ==
    IF evs = <<>> THEN mm
    ELSE LET e == Head(evs)
             m1 == IF Enabled(c, mm, e) THEN Apply(c, mm, e) ELSE Flags(mm, {"harness-script-mismatch"})
         IN ApplyAll(c, [m1 EXCEPT !.bad = @ \cup StateBroken(c, m1)], Tail(evs))
MCall(evs) == m' = ApplyAll(cfg, m, evs) /\ UNCHANGED cfg

NoRuleBroken == m.bad \cap ProtocolRules = {}
DriverLegal == \A b \in m.bad : b \in ProtocolRules \cup {"DeliveryPrefix", "EndExact"}
DeliveryPrefix == DeliveryPrefixOf(cfg, m)
EndExact == EndExactOf(cfg, m)

C12Inv == NoRuleBroken /\ DeliveryPrefix /\ EndExact

Broken == m.bad \cup StateBroken(cfg, m)
=============================================================================
