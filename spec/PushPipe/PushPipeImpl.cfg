SPECIFICATION Spec
CONSTANTS
  SHAPES = {"map", "filter", "filter_map", "inspect", "flat_map", "flatten", "fold", "reduce", "sort", "sort_state", "fold_keyed", "reduce_keyed", "persist_replay", "persist_norep", "persist_empty", "for_each", "vec_push", "sink", "sink_compat", "send_push", "map_filter_flat_map", "sort_flat_map", "fold_keyed_map", "flat_map_fold", "filter_map_async", "flat_map_stream", "flatten_stream", "rf_ordered", "rf_unordered", "rf_ordered_w", "rf_unordered_w", "fanout", "unzip", "state_push", "flat_map_fanout", "fanout_flat_map", "unzip_persist", "demux_mixed", "demux_var"}
  BADSHAPES = {}
  EMIT = TRUE
  MaxIn1 = 2
  MaxIn2 = 2
  MaxIn3 = 1
  MaxPend1 = 2
  MaxPend2 = 1
  MaxPend3 = 1
  RLen1 = 2
  RLen2 = 2
  RLen3 = 2
  FLen1 = 2
  FLen2 = 1
  FLen3 = 1
  EXTRA = FALSE
INVARIANTS InvClean InvDriver Progress Emit
CHECK_DEADLOCK FALSE
