--------------------------- MODULE TombstoneImpl ---------------------------
(* Implementation-shaped model of the Merge impls of SetUnionWithTombstones
   (set_union_with_tombstones.rs) and MapUnionWithTombstones (map_union_with_tombstones.rs),
   composed with the Tombstone monitor.

   Replica state st[r] = [live |-> set of <<key, value>> pairs, tomb |-> set of keys]
   (set lattice: the only value is 0; map lattice: the pairs of a key are its SetUnion value).

   Two modes:
     Spec     free exploration: any replica inserts / deletes any item or merges from any other
              replica, in any order and repetition (finite state space, explored exhaustively);
     GenSpec  scripted: Init chooses a whole script (every history of length <= MaxLen over
              2.. replicas, plus for every pair of well-formed values A, B the script
              <<load A, load B, merge>>), so one initial state = one behaviour, printed as a
              CASE line with the model's prediction after every step (EMIT = TRUE). *)
EXTENDS Tombstone, TLC, Json

CONSTANTS
    VARIANT,    \* "set" | "map"
    NRep,       \* number of replicas
    Items,      \* keys used by histories
    Vals,       \* values ({0} for the set lattice)
    PairItems,  \* keys used by the exhaustive merge-pair scripts
    LawItems,   \* keys used by the ACI triples (C01)
    MaxLen,     \* maximal history length of GenSpec
    EMIT

VARIABLES
    st,         \* st[r] = [live, tomb]
    implbad,    \* implementation-level facts broken (not C05): {"changed-flag"}
    script,     \* remaining ops (GenSpec)
    hist        \* executed ops with the model's prediction (GenSpec)

ivars == <<st, implbad, script, hist>>
vars == <<mvars, ivars>>

Empty == [live |-> {}, tomb |-> {}]

-----------------------------------------------------------------------------
(* transcription of the two `merge` functions; self/other are [live, tomb] *)

\* SetUnionWithTombstones::merge
SetMerge(self, other) ==
    LET \* self.set.extend(other.set.into_iter().filter(|x| !self.tombstones.contains(x)))
        set1 == self.live \cup {p \in other.live : p[1] \notin self.tomb}
        \* self.tombstones.extend(other.tombstones.into_iter().inspect(|x| { self.set.remove(x); }))
        set2 == {p \in set1 : p[1] \notin other.tomb}
        tomb2 == self.tomb \cup other.tomb
    IN [st |-> [live |-> set2, tomb |-> tomb2],
        \* old_set_len < self.set.len() || old_tombstones_len < self.tombstones.len()
        ch |-> Cardinality(self.live) < Cardinality(set2) \/ Cardinality(self.tomb) < Cardinality(tomb2)]

\* MapUnionWithTombstones::merge (a key's value is the SetUnion of its pairs; `bots` = keys that
\* `other` maps to the bottom value)
MapMerge(self, other, bots) ==
    LET \* .filter(|(k, v)| !v.is_bot() && !self.tombstones.contains(k))
        incoming == {p \in other.live : p[1] \notin self.tomb}
        \* key collision: changed |= val_self.merge(val_other); new key: changed = true
        ch1 == \E p \in incoming : p \notin self.live
        map1 == self.live \cup incoming
        \* self.tombstones.extend(other_tombstones.into_iter().inspect(|k| { self.map.remove(k); }))
        map2 == {p \in map1 : p[1] \notin other.tomb}
        tomb2 == self.tomb \cup other.tomb
    IN [st |-> [live |-> map2, tomb |-> tomb2],
        ch |-> ch1 \/ Cardinality(self.tomb) # Cardinality(tomb2)]

ImplMerge(self, other, bots) ==
    IF VARIANT = "set" THEN SetMerge(self, other) ELSE MapMerge(self, other, bots)

\* (the lattice join the property describes is RefJoin of module Tombstone)

(* transcription of the PartialOrd impls (values with key sets / maps of SetUnion values) *)
\* set_cmp of set_union_with_tombstones.rs: by length, then containment
PlainCmp(A, B) ==
    IF Cardinality(A) < Cardinality(B) THEN (IF A \subseteq B THEN "lt" ELSE "none")
    ELSE IF Cardinality(A) = Cardinality(B) THEN (IF A \subseteq B THEN "eq" ELSE "none")
    ELSE (IF B \subseteq A THEN "gt" ELSE "none")
\* set_cmp_filter(a, b, f1, f2)
FilterCmp(A, B, F1, F2) ==
    LET ag == \E k \in A \ F2 : k \notin B
        bg == \E k \in B \ F1 : k \notin A
    IN IF ag /\ bg THEN "none" ELSE IF ag THEN "gt" ELSE IF bg THEN "lt" ELSE "eq"
SetCmp(a, b) ==
    LET t == PlainCmp(a.tomb, b.tomb)
        f == FilterCmp(Keys(a.live), Keys(b.live), a.tomb, b.tomb)
    IN CASE t = "lt" -> (IF f \in {"lt", "eq"} THEN "lt" ELSE "none")
         [] t = "eq" -> PlainCmp(Keys(a.live), Keys(b.live))
         [] t = "gt" -> (IF f \in {"gt", "eq"} THEN "gt" ELSE "none")
         [] OTHER -> "none"
\* MapUnionWithTombstones::partial_cmp (a key's value = the set of its pairs' second components)
ValOf(v, k) == {p[2] : p \in {q \in v.live : q[1] = k}}
MapCmp(a, b) ==
    LET stg == \E k \in a.tomb : k \notin b.tomb
        otg == \E k \in b.tomb : k \notin a.tomb
        ks == {k \in Keys(a.live) \cup Keys(b.live) : k \notin a.tomb /\ k \notin b.tomb}
        both == {k \in ks : k \in Keys(a.live) /\ k \in Keys(b.live)}
        incomparable == \E k \in both : ~(ValOf(a, k) \subseteq ValOf(b, k)) /\ ~(ValOf(b, k) \subseteq ValOf(a, k))
        sg == (\E k \in ks : k \notin Keys(b.live)) \/ \E k \in both : ValOf(a, k) # ValOf(b, k) /\ ValOf(b, k) \subseteq ValOf(a, k)
        og == (\E k \in ks : k \notin Keys(a.live)) \/ \E k \in both : ValOf(a, k) # ValOf(b, k) /\ ValOf(a, k) \subseteq ValOf(b, k)
    IN IF stg /\ otg THEN "none"
       ELSE IF incomparable \/ (sg /\ og) THEN "none"
       ELSE IF (sg /\ otg) \/ (og /\ stg) THEN "none"
       ELSE IF sg \/ stg THEN "gt"
       ELSE IF og \/ otg THEN "lt"
       ELSE "eq"
ImplCmp(a, b) == IF VARIANT = "set" THEN SetCmp(a, b) ELSE MapCmp(a, b)

-----------------------------------------------------------------------------
ObsOf(res) == <<[b |-> "model", ch |-> res.ch, live |-> res.st.live, keys |-> Keys(res.st.live),
                 tomb |-> res.st.tomb, panic |-> FALSE]>>

\* r merges `other`; the monitor is told what r has now seen
DoMerge(r, other, bots, ins, del, opname) ==
    LET res == ImplMerge(st[r], other, bots) IN
    /\ Absorb(r, ins, del, ObsOf(res))
    /\ st' = [st EXCEPT ![r] = res.st]
    /\ implbad' = IF res.ch = (res.st # st[r]) THEN implbad ELSE implbad \cup {"changed-flag"}

Insert(r, k, v) == DoMerge(r, [live |-> {<<k, v>>}, tomb |-> {}], {}, {<<k, v>>}, {}, "ins")
InsertBot(r, k) == VARIANT = "map" /\ DoMerge(r, Empty, {k}, {}, {}, "insbot")
Delete(r, k) == DoMerge(r, [live |-> {}, tomb |-> {k}], {}, {}, {k}, "del")
MergeFrom(r, s) == r # s /\ DoMerge(r, st[s], {}, seenIns[s], seenDel[s], "merge")
Load(r, live, tomb) ==
    /\ MLoad(r, live, tomb, <<[b |-> "model", ch |-> FALSE, live |-> live, keys |-> Keys(live),
                               tomb |-> tomb, panic |-> FALSE]>>)
    /\ st' = [st EXCEPT ![r] = [live |-> live, tomb |-> tomb]]
    /\ UNCHANGED implbad

\* ACI / order observations of the model itself on explicit values
MObsLaw(a, b, c) ==
    LET J(x, y) == ImplMerge(x, y, {}).st IN
    <<[b |-> "model", panic |-> FALSE, ab |-> J(a, b), ba |-> J(b, a), aa |-> J(a, a),
       abc1 |-> J(J(a, b), c), abc2 |-> J(a, J(b, c)), eqc |-> 1, eqi |-> 1, eqa |-> 1]>>
MObsOrd(a, b) ==
    <<[b |-> "model", panic |-> FALSE, cmp |-> ImplCmp(a, b), eq |-> IF a = b THEN 1 ELSE 0,
       bota |-> IF a = Empty THEN 1 ELSE 0, botb |-> IF b = Empty THEN 1 ELSE 0, defbot |-> 1,
       ch |-> ImplMerge(b, a, {}).ch]>>
\* MapUnion::merge / WithBot::merge over tombstone-set values: key collision => inner merge,
\* absent key / None receiver => LatticeFrom of the other side's value (the identity)
NImplMerge(A, B) ==
    {<<k, IF k \in NKeys(A) /\ k \in NKeys(B) THEN ImplMerge(NGet(A, k), NGet(B, k), {}).st
          ELSE IF k \in NKeys(A) THEN NGet(A, k) ELSE NGet(B, k)>> : k \in NKeys(A) \cup NKeys(B)}
MObsNLaw(a, b, c) ==
    LET J(x, y) == NImplMerge(x, y) IN
    <<[b |-> "model", panic |-> FALSE, ab |-> J(a, b), ba |-> J(b, a), aa |-> J(a, a),
       abc1 |-> J(J(a, b), c), abc2 |-> J(a, J(b, c)), eqc |-> 1, eqi |-> 1, eqa |-> 1]>>
NLaw(a, b, c) == MNLaw(a, b, c, MObsNLaw(a, b, c)) /\ UNCHANGED <<st, implbad>>
From(a) == MFrom(a, <<[b |-> "model", panic |-> FALSE, out |-> a]>>) /\ UNCHANGED <<st, implbad>>
Law(a, b, c) == MLaw(a, b, c, MObsLaw(a, b, c)) /\ UNCHANGED <<st, implbad>>
Ord(a, b) == MOrd(a, b, MObsOrd(a, b)) /\ UNCHANGED <<st, implbad>>

-----------------------------------------------------------------------------
(* free mode *)
Init ==
    /\ MInit(NRep)
    /\ st = [r \in 1..NRep |-> Empty]
    /\ implbad = {}
    /\ script = <<>>
    /\ hist = <<>>

FreeInsert == \E r \in 1..NRep, k \in Items, v \in Vals : Insert(r, k, v) /\ UNCHANGED <<script, hist>>
FreeInsertBot == \E r \in 1..NRep, k \in Items : InsertBot(r, k) /\ UNCHANGED <<script, hist>>
FreeDelete == \E r \in 1..NRep, k \in Items : Delete(r, k) /\ UNCHANGED <<script, hist>>
FreeMerge == \E r \in 1..NRep, s \in 1..NRep : MergeFrom(r, s) /\ UNCHANGED <<script, hist>>

Next == FreeInsert \/ FreeInsertBot \/ FreeDelete \/ FreeMerge
Spec == Init /\ [][Next]_vars

-----------------------------------------------------------------------------
(* scripted mode *)
Ops ==
    {[op |-> "ins", r |-> r, k |-> k, v |-> v] : r \in 1..NRep, k \in Items, v \in Vals}
    \cup {[op |-> "del", r |-> r, k |-> k] : r \in 1..NRep, k \in Items}
    \cup {[op |-> "merge", r |-> rs[1], s |-> rs[2]] : rs \in {x \in (1..NRep) \X (1..NRep) : x[1] # x[2]}}
    \cup (IF VARIANT = "map" THEN {[op |-> "insbot", r |-> r, k |-> k] : r \in 1..NRep, k \in Items} ELSE {})

Histories == UNION {[1..n -> Ops] : n \in 0..MaxLen}

\* every well-formed value over PairItems x Vals
ValidStates ==
    {[live |-> l, tomb |-> t] : l \in SUBSET (PairItems \X Vals), t \in SUBSET PairItems}
WellFormed == {s \in ValidStates : Keys(s.live) \cap s.tomb = {}}
PairScripts ==
    {<<[op |-> "load", r |-> 1, live |-> a.live, tomb |-> a.tomb],
       [op |-> "load", r |-> 2, live |-> b.live, tomb |-> b.tomb],
       [op |-> "merge", r |-> 1, s |-> 2]>> : a \in WellFormed, b \in WellFormed}

\* C01 / C03 scripts: one law event per triple of values over LawItems x Vals, one order event
\* per pair of well-formed values
ValuesOver(K) ==
    {s \in {[live |-> l, tomb |-> t] : l \in SUBSET (K \X Vals), t \in SUBSET K} : Keys(s.live) \cap s.tomb = {}}
LawScripts == {<<[op |-> "law", a |-> t[1], b |-> t[2], c |-> t[3]]>> :
                  t \in ValuesOver(LawItems) \X ValuesOver(LawItems) \X ValuesOver(LawItems)}
PairLawScripts == {<<[op |-> "law", a |-> a, b |-> b, c |-> Empty]>> : a \in WellFormed, b \in WellFormed}
OrdScripts == {<<[op |-> "ord", a |-> a, b |-> b]>> : a \in WellFormed, b \in WellFormed}

\* C04: one conversion event per well-formed value; C01/C04: compound lattices (set lattice only)
FromScripts == {<<[op |-> "from", a |-> a]>> : a \in WellFormed}
NonBot(K) == ValuesOver(K) \ {Empty}
NVals1 == {{}} \cup {{<<0, v>>} : v \in NonBot({0, 1})}                      \* one key, values over 2 items
NVals2 == {{<<k, f[k]>> : k \in S} : S \in SUBSET {0, 1}, f \in [{0, 1} -> NonBot({0})]}   \* two keys, values over 1 item
NScript(ty, t) == <<[op |-> "nlaw", ty |-> ty, a |-> t[1], b |-> t[2], c |-> t[3]]>>
NestedScripts ==
    IF VARIANT # "set" THEN {}
    ELSE {NScript("mapunion", t) : t \in NVals1 \X NVals1 \X NVals1}
         \cup {NScript("mapunion", t) : t \in NVals2 \X NVals2 \X NVals2}
         \cup {NScript("withbot", t) : t \in NVals1 \X NVals1 \X NVals1}

GenInit ==
    /\ MInit(NRep)
    /\ st = [r \in 1..NRep |-> Empty]
    /\ implbad = {}
    /\ script \in (Histories \cup PairScripts \cup LawScripts \cup PairLawScripts \cup OrdScripts
                    \cup FromScripts \cup NestedScripts)
    /\ hist = <<>>

Step ==
    /\ script # <<>>
    /\ LET o == Head(script) IN
       /\ CASE o.op = "ins" -> Insert(o.r, o.k, o.v)
            [] o.op = "insbot" -> InsertBot(o.r, o.k)
            [] o.op = "del" -> Delete(o.r, o.k)
            [] o.op = "merge" -> MergeFrom(o.r, o.s)
            [] o.op = "load" -> Load(o.r, o.live, o.tomb)
            [] o.op = "law" -> Law(o.a, o.b, o.c)
            [] o.op = "ord" -> Ord(o.a, o.b)
            [] o.op = "from" -> From(o.a)
            [] o.op = "nlaw" -> NLaw(o.a, o.b, o.c)
       /\ hist' = Append(hist, IF o.op \in {"law", "ord", "from", "nlaw"} THEN [o |-> o, live |-> {}, tomb |-> {}]
                               ELSE [o |-> o, live |-> st'[o.r].live, tomb |-> st'[o.r].tomb])
    /\ script' = Tail(script)

GenDone == script = <<>> /\ UNCHANGED vars
GenSpec == GenInit /\ [][Step \/ GenDone]_vars

-----------------------------------------------------------------------------
(* invariants *)
Disjoint == \A r \in 1..NRep : Keys(st[r].live) \cap st[r].tomb = {}
Exact == \A r \in 1..NRep : st[r].live = ExpLive(r) /\ st[r].tomb = ExpTomb(r)
Convergence == \A r, s \in 1..NRep :
    (seenIns[r] = seenIns[s] /\ seenDel[r] = seenDel[s]) => st[r] = st[s]
C05Inv == NoRuleBroken /\ Disjoint /\ Exact /\ Convergence
ImplInv == implbad = {}
AlsoInv == also = {}        \* C01 / C02 / C03 on the transcribed merge / partial_cmp

\* action property: a tombstoned key never reappears, tombstones never shrink
NoResurrection == [][\A r \in 1..NRep : /\ st[r].tomb \subseteq st'[r].tomb
                                        /\ Keys(st'[r].live) \cap st[r].tomb = {}]_vars

Emit == (EMIT /\ script = <<>> /\ hist # <<>>) =>
          PrintT(<<"CASE", ToJson([variant |-> VARIANT, R |-> NRep, steps |-> hist])>>)

\* the transcribed merges are the lattice join on well-formed values, hence idempotent,
\* commutative and associative there
ASSUME \A a, b \in WellFormed : ImplCmp(a, b) = RefOrd(a, b)
ASSUME \A a, b \in WellFormed : ImplMerge(a, b, {}).st = RefJoin(a, b)
ASSUME \A a, b \in WellFormed : ImplMerge(a, b, {}).ch = (RefJoin(a, b) # a)
ASSUME \A a, b \in WellFormed : RefJoin(a, b) = RefJoin(b, a) /\ RefJoin(a, a) = a
ASSUME EMIT \/ \A a, b, c \in WellFormed : RefJoin(RefJoin(a, b), c) = RefJoin(a, RefJoin(b, c))
=============================================================================
