SPECIFICATION Spec
CONSTANTS
  VARIANT = "set"
  NRep = 3
  Items = {0, 1}
  Vals = {0}
  PairItems = {0, 1, 2}
  MaxLen = 0
  EMIT = FALSE
INVARIANTS C05Inv ImplInv
PROPERTIES NoResurrection
CHECK_DEADLOCK FALSE
