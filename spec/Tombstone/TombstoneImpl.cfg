SPECIFICATION Spec
CONSTANTS
  VARIANT = "set"
  NRep = 3
  Items = {0, 1}
  Vals = {0}
  PairItems = {0, 1, 2}
  LawItems = {0}
  MaxLen = 0
  EMIT = FALSE
INVARIANTS C05Inv ImplInv AlsoInv
PROPERTIES NoResurrection
CHECK_DEADLOCK FALSE
