----------------------------- MODULE Tombstone -----------------------------
(* Abstract specification (property monitor) of replicated set / map lattices with tombstones
   (C05): lattices::set_union_with_tombstones::SetUnionWithTombstones and
   lattices::map_union_with_tombstones::MapUnionWithTombstones, over the hash-set, roaring
   (u64) and FST (String) tombstone backends.

   Contents are modelled uniformly as sets of pairs <<key, value>>: the set lattice uses the
   single value 0, the map lattice maps a key to a SetUnion of values (the pairs of that key).
   Tombstones are sets of keys.

   The monitor keeps, per replica, what the replica has SEEN: the pairs inserted and the keys
   deleted, directly or through merges (`seenIns`, `seenDel`).  Events (one per call observed
   at the implementation, each carrying what EVERY backend revealed after the call):
     Load(r, live, tomb)    replica r constructed from explicit contents (new_from)
     Insert(r, k, v)        merge of the singleton {<<k,v>>}           into r
     InsertBot(r, k)        merge of the map {k |-> bottom}            into r  (maps only)
     Delete(r, k)           merge of the tombstone-only value {k}      into r
     MergeFrom(r, s)        merge of (a copy of) replica s             into r
   `obs` is a sequence of records [b, ch, live, keys, tomb, panic] (one per backend).
   The rules of C05 are evaluated on every observation; the names of broken rules are
   accumulated in `bad`.  The same module contributes to C01 / C02 / C03 for the tombstone
   lattices: every merge's returned flag is compared with "the abstract value strictly grew"
   (C02), and the events Law(a, b, c) / Ord(a, b) on explicit values check ACI of merge through
   the revealed values and the type's own == (C01) and partial_cmp / == / is_bot / Default
   against the merge order (C03); broken rules accumulate in `also`. *)
EXTENDS Naturals, Integers, Sequences, FiniteSets

VARIABLES
    nrep,       \* number of replicas of the current case
    seenIns,    \* seenIns[r]: set of <<k, v>> pairs whose insertion r has seen
    seenDel,    \* seenDel[r]: set of keys whose deletion r has seen
    bad,        \* set of names of C05 rules broken so far in this case
    also        \* rules of C01 / C02 / C03 broken so far in this case: set of <<property, rule>>

mvars == <<nrep, seenIns, seenDel, bad, also>>

Reps == 1..nrep

\* what the property says replica r holds
LiveOf(ins, del) == {p \in ins : p[1] \notin del}
ExpLive(r) == LiveOf(seenIns[r], seenDel[r])
ExpTomb(r) == seenDel[r]

MInit(N) ==
    /\ nrep = N
    /\ seenIns = [r \in 1..N |-> {}]
    /\ seenDel = [r \in 1..N |-> {}]
    /\ bad = {}
    /\ also = {}

MReset(N) ==
    /\ nrep' = N
    /\ seenIns' = [r \in 1..N |-> {}]
    /\ seenDel' = [r \in 1..N |-> {}]
    /\ bad' = {}
    /\ also' = {}

Keys(S) == {p[1] : p \in S}

(* rules broken by one backend's observation o of replica r, where the replica's new
   abstract contents are (ins, del) and its tombstones before the call were `tbefore` *)
RulesOf(o, ins, del, tbefore) ==
    IF o.panic THEN {"panic"}
    ELSE (IF Keys(o.live) \cap o.tomb # {} \/ o.keys \cap o.tomb # {}
          THEN {"live-and-tombstoned"} ELSE {})
         \cup (IF o.live # LiveOf(ins, del) THEN {"live-not-inserted-minus-tombstoned"} ELSE {})
         \cup (IF o.tomb # del THEN {"tombstones-not-union-of-deletions"} ELSE {})
         \cup (IF Keys(o.live) \cap tbefore # {} THEN {"resurrected"} ELSE {})

\* all backends must reveal the same contents and report the same `changed` flag
BackendsAgree(obs) ==
    \A i, j \in 1..Len(obs) :
        (~obs[i].panic /\ ~obs[j].panic) =>
            /\ obs[i].live = obs[j].live
            /\ obs[i].tomb = obs[j].tomb
            /\ obs[i].keys = obs[j].keys
            /\ obs[i].ch = obs[j].ch

\* `chk`: the call was a merge whose returned flag must say whether the value (oldlive, oldtomb)
\* of the receiver strictly grew (C02)
Observe(obs, ins, del, tbefore, chk, oldlive, oldtomb) ==
    /\ bad' = bad \cup UNION {RulesOf(obs[i], ins, del, tbefore) : i \in 1..Len(obs)}
                  \cup (IF BackendsAgree(obs) THEN {} ELSE {"backends-differ"})
    /\ also' = also \cup
         (IF chk /\ \E i \in 1..Len(obs) :
                      ~obs[i].panic /\ obs[i].ch # (LiveOf(ins, del) # oldlive \/ del # oldtomb)
          THEN {<<"C02", "changed-flag">>} ELSE {})

\* replica r absorbs the pairs `ins` and deletions `del`
Absorb(r, ins, del, obs) ==
    LET ni == seenIns[r] \cup ins
        nd == seenDel[r] \cup del
    IN /\ r \in Reps
       /\ seenIns' = [seenIns EXCEPT ![r] = ni]
       /\ seenDel' = [seenDel EXCEPT ![r] = nd]
       /\ Observe(obs, ni, nd, seenDel[r], TRUE, LiveOf(seenIns[r], seenDel[r]), seenDel[r])
       /\ UNCHANGED nrep

MLoad(r, live, tomb, obs) ==
    /\ r \in Reps
    /\ Keys(live) \cap tomb = {}                    \* only well-formed values are constructed
    /\ seenIns' = [seenIns EXCEPT ![r] = live]
    /\ seenDel' = [seenDel EXCEPT ![r] = tomb]
    /\ Observe(obs, live, tomb, {}, FALSE, {}, {})
    /\ UNCHANGED nrep

MInsert(r, k, v, obs) == Absorb(r, {<<k, v>>}, {}, obs)
MInsertBot(r, k, obs) == Absorb(r, {}, {}, obs)
MDelete(r, k, obs) == Absorb(r, {}, {k}, obs)
MMergeFrom(r, s, obs) == s \in Reps /\ r # s /\ Absorb(r, seenIns[s], seenDel[s], obs)

\* the `changed` flag a merge must return: did the abstract contents of r change?  (not part of
\* C05 -- used for drift reporting only)
\* (written with explicitly primed variables: r may be a state-dependent expression)
ChangedFlag(r) ==
    \/ LiveOf(seenIns'[r], seenDel'[r]) # LiveOf(seenIns[r], seenDel[r])
    \/ seenDel'[r] # seenDel[r]

-----------------------------------------------------------------------------
(* The lattice on abstract values v = [live |-> pairs, tomb |-> keys] (C01, C02, C03) *)
EmptyVal == [live |-> {}, tomb |-> {}]
RefJoin(a, b) == [live |-> LiveOf(a.live \cup b.live, a.tomb \cup b.tomb), tomb |-> a.tomb \cup b.tomb]
Leq(a, b) == RefJoin(b, a) = b                  \* merging a into b leaves b unchanged
RefOrd(a, b) == IF a = b THEN "eq" ELSE IF Leq(a, b) THEN "lt" ELSE IF Leq(b, a) THEN "gt" ELSE "none"
B3(x, t) == x = -1 \/ x = (IF t THEN 1 ELSE 0)   \* tri-state: -1 = the backend has no such operation

(* one observation per backend of the ACI laws on the values a, b, c:
   ab, ba, aa, abc1 = (a merge b) merge c, abc2 = a merge (b merge c): revealed values;
   eqc, eqi, eqa: the type's own == on (ab, ba), (aa, a), (abc1, abc2) *)
LawRules(o, a, b, c) ==
    IF o.panic THEN {<<"C01", "panic">>}
    ELSE (IF o.ab = o.ba /\ o.ab = RefJoin(a, b) /\ B3(o.eqc, TRUE) THEN {} ELSE {<<"C01", "commutativity">>})
         \cup (IF o.aa = a /\ B3(o.eqi, TRUE) THEN {} ELSE {<<"C01", "idempotence">>})
         \cup (IF o.abc1 = o.abc2 /\ o.abc1 = RefJoin(RefJoin(a, b), c) /\ B3(o.eqa, TRUE)
               THEN {} ELSE {<<"C01", "associativity">>})

(* one observation per backend of the order operations on a, b:
   cmp = a.partial_cmp(b) ("lt","eq","gt","none","na"), eq = (a == b), bota / botb = is_bot,
   defbot = Default::default().is_bot(), ch = flag returned by b.merge(a) *)
OrdRules(o, a, b) ==
    IF o.panic THEN {<<"C03", "panic">>}
    ELSE (IF o.cmp = "na" \/ o.cmp = RefOrd(a, b) THEN {} ELSE {<<"C03", "partial_cmp">>})
         \cup (IF B3(o.eq, a = b) THEN {} ELSE {<<"C03", "eq">>})
         \cup (IF B3(o.bota, a = EmptyVal) /\ B3(o.botb, b = EmptyVal) THEN {} ELSE {<<"C03", "is_bot">>})
         \cup (IF B3(o.defbot, TRUE) THEN {} ELSE {<<"C03", "default-not-bot">>})
         \cup (IF o.ch = (RefJoin(b, a) # b) THEN {} ELSE {<<"C02", "changed-flag">>})

(* LatticeFrom between backing representations must carry the value over unchanged (C04) *)
FromRules(o, a) ==
    IF o.panic THEN {<<"C04", "lattice_from-panic">>}
    ELSE IF o.out = a THEN {} ELSE {<<"C04", "lattice_from">>}

(* Compound lattices whose values are tombstone sets (MapUnion<key -> value>, WithBot<value> as a
   map with at most the key 0): nested values are sets of <<key, value>> with distinct keys and
   non-bottom values; the join is key-wise, an absent key adopts the other side's value
   (through LatticeFrom in the code). *)
NKeys(N) == {e[1] : e \in N}
NGet(N, k) == (CHOOSE e \in N : e[1] = k)[2]
NJoin(A, B) ==
    {<<k, IF k \in NKeys(A) /\ k \in NKeys(B) THEN RefJoin(NGet(A, k), NGet(B, k))
          ELSE IF k \in NKeys(A) THEN NGet(A, k) ELSE NGet(B, k)>> : k \in NKeys(A) \cup NKeys(B)}
NLawRules(o, a, b, c) ==
    IF o.panic THEN {<<"C01", "panic">>}
    ELSE (IF o.ab = NJoin(a, b) /\ o.ba = NJoin(b, a) /\ o.aa = NJoin(a, a)
             /\ o.abc1 = NJoin(NJoin(a, b), c) /\ o.abc2 = NJoin(a, NJoin(b, c))
          THEN {} ELSE {<<"C04", "merge-not-join">>})
         \cup (IF o.ab = o.ba /\ B3(o.eqc, TRUE) THEN {} ELSE {<<"C01", "commutativity">>})
         \cup (IF o.aa = a /\ B3(o.eqi, TRUE) THEN {} ELSE {<<"C01", "idempotence">>})
         \cup (IF o.abc1 = o.abc2 /\ B3(o.eqa, TRUE) THEN {} ELSE {<<"C01", "associativity">>})

MFrom(a, obs) ==
    /\ also' = also \cup UNION {FromRules(obs[i], a) : i \in 1..Len(obs)}
    /\ UNCHANGED <<nrep, seenIns, seenDel, bad>>
MNLaw(a, b, c, obs) ==
    /\ also' = also \cup UNION {NLawRules(obs[i], a, b, c) : i \in 1..Len(obs)}
    /\ UNCHANGED <<nrep, seenIns, seenDel, bad>>
MLaw(a, b, c, obs) ==
    /\ also' = also \cup UNION {LawRules(obs[i], a, b, c) : i \in 1..Len(obs)}
    /\ UNCHANGED <<nrep, seenIns, seenDel, bad>>
MOrd(a, b, obs) ==
    /\ also' = also \cup UNION {OrdRules(obs[i], a, b) : i \in 1..Len(obs)}
    /\ UNCHANGED <<nrep, seenIns, seenDel, bad>>

-----------------------------------------------------------------------------
(* C05 *)
NoRuleBroken == bad = {}

\* convergence: replicas that have seen the same updates hold the same contents (a theorem of
\* the abstract state; on the implementation-shaped model it is checked on the model's state)
Broken == bad
=============================================================================
