----------------------------- MODULE Tombstone -----------------------------
(* Abstract specification (property monitor) of replicated set / map lattices with tombstones
   (C05): lattices::set_union_with_tombstones::SetUnionWithTombstones and
   lattices::map_union_with_tombstones::MapUnionWithTombstones, over the hash-set, roaring
   (u64) and FST (String) tombstone backends.

   Contents are modelled uniformly as sets of pairs <<key, value>>: the set lattice uses the
   single value 0, the map lattice maps a key to a SetUnion of values (the pairs of that key).
   Tombstones are sets of keys.

   The monitor keeps, per replica, what the replica has SEEN: the pairs inserted and the keys
   deleted, directly or through merges (`seenIns`, `seenDel`).  Events (one per call observed
   at the implementation, each carrying what EVERY backend revealed after the call):
     Load(r, live, tomb)    replica r constructed from explicit contents (new_from)
     Insert(r, k, v)        merge of the singleton {<<k,v>>}           into r
     InsertBot(r, k)        merge of the map {k |-> bottom}            into r  (maps only)
     Delete(r, k)           merge of the tombstone-only value {k}      into r
     MergeFrom(r, s)        merge of (a copy of) replica s             into r
   `obs` is a sequence of records [b, ch, live, keys, tomb, panic] (one per backend).
   The rules of C05 are evaluated on every observation; the names of broken rules are
   accumulated in `bad`. *)
EXTENDS Naturals, Integers, Sequences, FiniteSets

VARIABLES
    nrep,       \* number of replicas of the current case
    seenIns,    \* seenIns[r]: set of <<k, v>> pairs whose insertion r has seen
    seenDel,    \* seenDel[r]: set of keys whose deletion r has seen
    bad         \* set of names of property-level rules broken so far in this case

mvars == <<nrep, seenIns, seenDel, bad>>

Reps == 1..nrep

\* what the property says replica r holds
LiveOf(ins, del) == {p \in ins : p[1] \notin del}
ExpLive(r) == LiveOf(seenIns[r], seenDel[r])
ExpTomb(r) == seenDel[r]

MInit(N) ==
    /\ nrep = N
    /\ seenIns = [r \in 1..N |-> {}]
    /\ seenDel = [r \in 1..N |-> {}]
    /\ bad = {}

MReset(N) ==
    /\ nrep' = N
    /\ seenIns' = [r \in 1..N |-> {}]
    /\ seenDel' = [r \in 1..N |-> {}]
    /\ bad' = {}

Keys(S) == {p[1] : p \in S}

(* rules broken by one backend's observation o of replica r, where the replica's new
   abstract contents are (ins, del) and its tombstones before the call were `tbefore` *)
RulesOf(o, ins, del, tbefore) ==
    IF o.panic THEN {"panic"}
    ELSE (IF Keys(o.live) \cap o.tomb # {} \/ o.keys \cap o.tomb # {}
          THEN {"live-and-tombstoned"} ELSE {})
         \cup (IF o.live # LiveOf(ins, del) THEN {"live-not-inserted-minus-tombstoned"} ELSE {})
         \cup (IF o.tomb # del THEN {"tombstones-not-union-of-deletions"} ELSE {})
         \cup (IF Keys(o.live) \cap tbefore # {} THEN {"resurrected"} ELSE {})

\* all backends must reveal the same contents and report the same `changed` flag
BackendsAgree(obs) ==
    \A i, j \in 1..Len(obs) :
        (~obs[i].panic /\ ~obs[j].panic) =>
            /\ obs[i].live = obs[j].live
            /\ obs[i].tomb = obs[j].tomb
            /\ obs[i].keys = obs[j].keys
            /\ obs[i].ch = obs[j].ch

Observe(obs, ins, del, tbefore) ==
    bad' = bad \cup UNION {RulesOf(obs[i], ins, del, tbefore) : i \in 1..Len(obs)}
               \cup (IF BackendsAgree(obs) THEN {} ELSE {"backends-differ"})

\* replica r absorbs the pairs `ins` and deletions `del`
Absorb(r, ins, del, obs) ==
    LET ni == seenIns[r] \cup ins
        nd == seenDel[r] \cup del
    IN /\ r \in Reps
       /\ seenIns' = [seenIns EXCEPT ![r] = ni]
       /\ seenDel' = [seenDel EXCEPT ![r] = nd]
       /\ Observe(obs, ni, nd, seenDel[r])
       /\ UNCHANGED nrep

MLoad(r, live, tomb, obs) ==
    /\ r \in Reps
    /\ Keys(live) \cap tomb = {}                    \* only well-formed values are constructed
    /\ seenIns' = [seenIns EXCEPT ![r] = live]
    /\ seenDel' = [seenDel EXCEPT ![r] = tomb]
    /\ Observe(obs, live, tomb, {})
    /\ UNCHANGED nrep

MInsert(r, k, v, obs) == Absorb(r, {<<k, v>>}, {}, obs)
MInsertBot(r, k, obs) == Absorb(r, {}, {}, obs)
MDelete(r, k, obs) == Absorb(r, {}, {k}, obs)
MMergeFrom(r, s, obs) == s \in Reps /\ r # s /\ Absorb(r, seenIns[s], seenDel[s], obs)

\* the `changed` flag a merge must return: did the abstract contents of r change?  (not part of
\* C05 -- used for drift reporting only)
\* (written with explicitly primed variables: r may be a state-dependent expression)
ChangedFlag(r) ==
    \/ LiveOf(seenIns'[r], seenDel'[r]) # LiveOf(seenIns[r], seenDel[r])
    \/ seenDel'[r] # seenDel[r]

-----------------------------------------------------------------------------
(* C05 *)
NoRuleBroken == bad = {}

\* convergence: replicas that have seen the same updates hold the same contents (a theorem of
\* the abstract state; on the implementation-shaped model it is checked on the model's state)
Broken == bad
=============================================================================
