SPECIFICATION GenSpec
CONSTANTS
  VARIANT = "map"
  NRep = 2
  Items = {0, 1}
  Vals = {0, 1}
  PairItems = {0, 1}
  LawItems = {0}
  MaxLen = 1
  EMIT = TRUE
INVARIANTS C05Inv ImplInv AlsoInv Emit
PROPERTIES NoResurrection
CHECK_DEADLOCK FALSE
