SPECIFICATION GenSpec
CONSTANTS
  VARIANT = "map"
  NRep = 2
  Items = {0, 1}
  Vals = {0, 1}
  PairItems = {0, 1}
  MaxLen = 2
  EMIT = TRUE
INVARIANTS C05Inv ImplInv Emit
PROPERTIES NoResurrection
CHECK_DEADLOCK FALSE
