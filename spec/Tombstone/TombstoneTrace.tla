--------------------------- MODULE TombstoneTrace ---------------------------
(* Trace validation of the real tombstone lattices against the Tombstone monitor (C05).
   The trace (ndjson, path in env TRACE) is a concatenation of cases:
     {"e":"reset","case":id,"variant":"set"|"map","R":n}
     {"e":"load","r":r,"live":[[k,v]..],"tomb":[k..],"obs":[..]}
     {"e":"ins","r":r,"k":k,"v":v,"obs":[..]}     {"e":"insbot","r":r,"k":k,"obs":[..]}
     {"e":"del","r":r,"k":k,"obs":[..]}           {"e":"merge","r":r,"s":s,"obs":[..]}
     {"e":"law","a":V,"b":V,"c":V,"obs":[{"b":name,"panic":bool,"ab":V,"ba":V,"aa":V,"abc1":V,"abc2":V,
                                       "eqc":t,"eqi":t,"eqa":t}..]}      V = {"live":[[k,v]..],"tomb":[k..]}
     {"e":"ord","a":V,"b":V,"obs":[{"b":name,"panic":bool,"cmp":"lt|eq|gt|none|na","eq":t,"bota":t,
                                   "botb":t,"defbot":t,"ch":bool}..]}    t = 1 true, 0 false, -1 n/a
     {"e":"from","a":V,"obs":[{"b":"src>dst","panic":bool,"out":V}..]}     LatticeFrom conversions (C04)
     {"e":"nlaw","ty":"mapunion"|"withbot","a":N,"b":N,"c":N,"obs":[as "law" with nested values]}
                                          N = [{"k":key,"v":V}..]  compound lattices (C01 / C04)
     {"e":"eof"}
   obs: one record per backend {"b":name,"ch":bool,"live":[[k,v]..],"keys":[k..],"tomb":[k..],
   "panic":bool} = what replica r reveals (as_reveal_ref) after the call returned.
   C05 rule breaks are collected per case in `viol`, C01/C02/C03 rule breaks (ACI, returned
   merge flag, order operations) in `viol2` = {<<case, property, rule>>}; both are printed at
   eof; implementation-level facts (map keys without value) go to `drift`. *)
EXTENDS Tombstone, TLC, Json, IOUtils

Rec == ndJsonDeserialize(IOEnv.TRACE)

VARIABLES l, case, viol, viol2, drift
tvars == <<mvars, l, case, viol, viol2, drift>>
Ev == Rec[l]

ToSet(t) == {t[i] : i \in 1..Len(t)}
Obs(ev) == [i \in 1..Len(ev.obs) |->
              LET o == ev.obs[i] IN
              [b |-> o.b, ch |-> o.ch, live |-> ToSet(o.live), keys |-> ToSet(o.keys),
               tomb |-> ToSet(o.tomb), panic |-> o.panic]]

Val(x) == [live |-> ToSet(x.live), tomb |-> ToSet(x.tomb)]
LawObs(ev) == [i \in 1..Len(ev.obs) |->
                 LET o == ev.obs[i] IN
                 IF o.panic THEN [b |-> o.b, panic |-> TRUE]
                 ELSE [b |-> o.b, panic |-> FALSE, ab |-> Val(o.ab), ba |-> Val(o.ba), aa |-> Val(o.aa),
                       abc1 |-> Val(o.abc1), abc2 |-> Val(o.abc2), eqc |-> o.eqc, eqi |-> o.eqi, eqa |-> o.eqa]]

NVal(x) == {<<x[i].k, Val(x[i].v)>> : i \in 1..Len(x)}
NLawObs(ev) == [i \in 1..Len(ev.obs) |->
                  LET o == ev.obs[i] IN
                  IF o.panic THEN [b |-> o.b, panic |-> TRUE]
                  ELSE [b |-> o.b, panic |-> FALSE, ab |-> NVal(o.ab), ba |-> NVal(o.ba), aa |-> NVal(o.aa),
                        abc1 |-> NVal(o.abc1), abc2 |-> NVal(o.abc2), eqc |-> o.eqc, eqi |-> o.eqi, eqa |-> o.eqa]]
FromObs(ev) == [i \in 1..Len(ev.obs) |->
                  LET o == ev.obs[i] IN
                  IF o.panic THEN [b |-> o.b, panic |-> TRUE] ELSE [b |-> o.b, panic |-> FALSE, out |-> Val(o.out)]]

\* implementation-level expectation (not a property): a map key is revealed without a value
DriftOf(ev, r) ==
    LET obs == Obs(ev) IN
    IF \E i \in 1..Len(obs) : ~obs[i].panic /\ obs[i].keys # Keys(obs[i].live)
    THEN {<<case, "map-key-without-value">>} ELSE {}

TInit == l = 1 /\ case = 0 /\ viol = {} /\ viol2 = {} /\ drift = {} /\ MInit(0)

TReset == Ev.e = "reset" /\ MReset(Ev.R) /\ case' = Ev.case /\ UNCHANGED drift
TLoad == Ev.e = "load" /\ MLoad(Ev.r, ToSet(Ev.live), ToSet(Ev.tomb), Obs(Ev)) /\ UNCHANGED case
         /\ drift' = drift \cup DriftOf(Ev, Ev.r)
TIns == Ev.e = "ins" /\ MInsert(Ev.r, Ev.k, Ev.v, Obs(Ev)) /\ UNCHANGED case
        /\ drift' = drift \cup DriftOf(Ev, Ev.r)
TInsBot == Ev.e = "insbot" /\ MInsertBot(Ev.r, Ev.k, Obs(Ev)) /\ UNCHANGED case
           /\ drift' = drift \cup DriftOf(Ev, Ev.r)
TDel == Ev.e = "del" /\ MDelete(Ev.r, Ev.k, Obs(Ev)) /\ UNCHANGED case
        /\ drift' = drift \cup DriftOf(Ev, Ev.r)
TMerge == Ev.e = "merge" /\ MMergeFrom(Ev.r, Ev.s, Obs(Ev)) /\ UNCHANGED case
          /\ drift' = drift \cup DriftOf(Ev, Ev.r)
TLaw == Ev.e = "law" /\ MLaw(Val(Ev.a), Val(Ev.b), Val(Ev.c), LawObs(Ev)) /\ UNCHANGED <<case, drift>>
TOrd == Ev.e = "ord" /\ MOrd(Val(Ev.a), Val(Ev.b), Ev.obs) /\ UNCHANGED <<case, drift>>
TFrom == Ev.e = "from" /\ MFrom(Val(Ev.a), FromObs(Ev)) /\ UNCHANGED <<case, drift>>
TNLaw == Ev.e = "nlaw" /\ MNLaw(NVal(Ev.a), NVal(Ev.b), NVal(Ev.c), NLawObs(Ev)) /\ UNCHANGED <<case, drift>>
TEof == Ev.e = "eof" /\ UNCHANGED <<mvars, case, drift>>
        /\ PrintT(<<"VIOL", ToJson(viol)>>) /\ PrintT(<<"DRIFT", ToJson(drift)>>)
        /\ PrintT(<<"ALSO", ToJson(viol2)>>)

TNext ==
    /\ l <= Len(Rec) /\ l' = l + 1
    /\ (TReset \/ TLoad \/ TIns \/ TInsBot \/ TDel \/ TMerge \/ TLaw \/ TOrd \/ TFrom \/ TNLaw \/ TEof)
    /\ viol' = viol \cup {<<case', b>> : b \in Broken'}
    /\ viol2' = viol2 \cup {<<case', x[1], x[2]>> : x \in also'}

TSpec == TInit /\ [][TNext]_tvars

TraceAccepted ==
    LET d == TLCGet("stats").diameter IN
    IF d - 1 = Len(Rec) THEN TRUE
    ELSE Print(<<"UNMATCHED-EVENT-AT-LINE", d, Rec[d]>>, FALSE)
=============================================================================
