--------------------------- MODULE TombstoneTrace ---------------------------
(* Trace validation of the real tombstone lattices against the Tombstone monitor (C05).
   The trace (ndjson, path in env TRACE) is a concatenation of cases:
     {"e":"reset","case":id,"variant":"set"|"map","R":n}
     {"e":"load","r":r,"live":[[k,v]..],"tomb":[k..],"obs":[..]}
     {"e":"ins","r":r,"k":k,"v":v,"obs":[..]}     {"e":"insbot","r":r,"k":k,"obs":[..]}
     {"e":"del","r":r,"k":k,"obs":[..]}           {"e":"merge","r":r,"s":s,"obs":[..]}
     {"e":"eof"}
   obs: one record per backend {"b":name,"ch":bool,"live":[[k,v]..],"keys":[k..],"tomb":[k..],
   "panic":bool} = what replica r reveals (as_reveal_ref) after the call returned.
   Property-level rule breaks are collected per case in `viol` and printed at eof;
   implementation-level facts (the `changed` flag, map keys without value) go to `drift`. *)
EXTENDS Tombstone, TLC, Json, IOUtils

Rec == ndJsonDeserialize(IOEnv.TRACE)

VARIABLES l, case, viol, drift
tvars == <<mvars, l, case, viol, drift>>
Ev == Rec[l]

ToSet(t) == {t[i] : i \in 1..Len(t)}
Obs(ev) == [i \in 1..Len(ev.obs) |->
              LET o == ev.obs[i] IN
              [b |-> o.b, ch |-> o.ch, live |-> ToSet(o.live), keys |-> ToSet(o.keys),
               tomb |-> ToSet(o.tomb), panic |-> o.panic]]

\* implementation-level expectations on the observation of replica r (after the monitor step)
DriftOf(ev, r) ==
    LET obs == Obs(ev) IN
    (IF \E i \in 1..Len(obs) : ~obs[i].panic /\ Ev.e # "load" /\ obs[i].ch # ChangedFlag(r)
     THEN {<<case, "changed-flag">>} ELSE {})
    \cup (IF \E i \in 1..Len(obs) : ~obs[i].panic /\ obs[i].keys # Keys(obs[i].live)
          THEN {<<case, "map-key-without-value">>} ELSE {})

TInit == l = 1 /\ case = 0 /\ viol = {} /\ drift = {} /\ MInit(0)

TReset == Ev.e = "reset" /\ MReset(Ev.R) /\ case' = Ev.case /\ UNCHANGED drift
TLoad == Ev.e = "load" /\ MLoad(Ev.r, ToSet(Ev.live), ToSet(Ev.tomb), Obs(Ev)) /\ UNCHANGED case
         /\ drift' = drift \cup DriftOf(Ev, Ev.r)
TIns == Ev.e = "ins" /\ MInsert(Ev.r, Ev.k, Ev.v, Obs(Ev)) /\ UNCHANGED case
        /\ drift' = drift \cup DriftOf(Ev, Ev.r)
TInsBot == Ev.e = "insbot" /\ MInsertBot(Ev.r, Ev.k, Obs(Ev)) /\ UNCHANGED case
           /\ drift' = drift \cup DriftOf(Ev, Ev.r)
TDel == Ev.e = "del" /\ MDelete(Ev.r, Ev.k, Obs(Ev)) /\ UNCHANGED case
        /\ drift' = drift \cup DriftOf(Ev, Ev.r)
TMerge == Ev.e = "merge" /\ MMergeFrom(Ev.r, Ev.s, Obs(Ev)) /\ UNCHANGED case
          /\ drift' = drift \cup DriftOf(Ev, Ev.r)
TEof == Ev.e = "eof" /\ UNCHANGED <<mvars, case, drift>>
        /\ PrintT(<<"VIOL", ToJson(viol)>>) /\ PrintT(<<"DRIFT", ToJson(drift)>>)

TNext ==
    /\ l <= Len(Rec) /\ l' = l + 1
    /\ (TReset \/ TLoad \/ TIns \/ TInsBot \/ TDel \/ TMerge \/ TEof)
    /\ viol' = viol \cup {<<case', b>> : b \in Broken'}

TSpec == TInit /\ [][TNext]_tvars

TraceAccepted ==
    LET d == TLCGet("stats").diameter IN
    IF d - 1 = Len(Rec) THEN TRUE
    ELSE Print(<<"UNMATCHED-EVENT-AT-LINE", d, Rec[d]>>, FALSE)
=============================================================================
