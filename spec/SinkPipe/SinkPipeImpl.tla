---------------------------- MODULE SinkPipeImpl ----------------------------
(* Implementation-shaped model of the sinktools Sink adaptors composed with the SinkPipe monitor.
   Same interpreter construction as PushPipeImpl: every adaptor node keeps the fields of its Rust
   struct (FlatMap/Flatten.iter_next, LazySink state Uninit -> Thunkulating{item} -> Done{buf},
   LazySinkSource shared state, LazyDemuxSink.sinks, SendIter/SendStream source); one Sink method
   call on a node is the operator Call, transcribed from the method bodies (`ready!` = early
   return of ret 0, `ready_both!` evaluates both sides, loops = recursive operators).
   Call threads S = [st, rs, xs, cs, cl, evs, err].

   The client is given as an explicit *plan*: a sequence of
     "r" poll_ready until Ready    "s" start_send(next input)    "x" poll_flush until Ready
     "f" poll_close until Ready    "p" poll the source half once  "P" poll the source half until end
   chosen in Init (spurious extra poll_ready cycles, flushes between sends, placement of source
   polls), so one initial state = one behaviour, printed as a CASE line for replay. *)
EXTENDS SinkPipe, TLC, Json

CONSTANTS
    SHAPES,
    \* bounds per number of downstream sinks of the shape (1, 2, 3 or more): input length, Pending
    \* answers per script, length of the poll_ready / poll_flush / poll_close scripts
    MaxIn1, MaxIn2, MaxIn3, MaxPend1, MaxPend2, MaxPend3,
    RLen1, RLen2, RLen3, XLen1, XLen2, XLen3, CLen1, CLen2, CLen3,
    EXTRA,      \* spurious extra poll_ready cycle allowed before each send / close
    FLUSH,      \* 0: no flush calls, 1: optional flush before close, 2: optional flush before every call
    MaxSrcPolls,\* lazy sink-source: at most this many source polls interleaved with the sink client
    BADSHAPES, EMIT

VARIABLES shape, st, plan, pc, hist, calls, cfg0
ivars == <<shape, st, plan, pc, hist, calls, cfg0>>
vars == <<mvars, ivars>>
pipe == cfg.pipe

-----------------------------------------------------------------------------
N(k, c, p) == [k |-> k, c |-> c, p |-> p]
L(d) == N("leaf", <<>>, <<d, 1>>)
T(d) == N("leaf", <<>>, <<d, 0>>)
One(k, p) == <<N(k, <<2>>, p), L(1)>>
Two(k, p) == <<N(k, <<2, 3>>, p), L(1), L(2)>>
Three(k, p) == <<N(k, <<2, 3, 4>>, p), L(1), L(2), L(3)>>

\* src: source-half items of a lazy sink-source (script with -1 = Pending)
Cat == [
  map            |-> [pipe |-> One("map", <<10>>),        alpha |-> {1, 2}],
  filter         |-> [pipe |-> One("filter", <<>>),       alpha |-> {1, 2}],
  filter_map     |-> [pipe |-> One("filter_map", <<>>),   alpha |-> {1, 2}],
  inspect        |-> [pipe |-> One("inspect", <<>>),      alpha |-> {1, 2}],
  flat_map       |-> [pipe |-> One("flat_map", <<>>),     alpha |-> {1, 2, 3}],
  flatten        |-> [pipe |-> One("flatten", <<>>),      alpha |-> {1, 2, 3}],
  unzip          |-> [pipe |-> Two("unzip", <<>>),        alpha |-> {102, 201}],
  for_each       |-> [pipe |-> <<N("for_each", <<2>>, <<>>), T(1)>>,     alpha |-> {1, 2}],
  try_for_each   |-> [pipe |-> <<N("try_for_each", <<2>>, <<>>), T(1)>>, alpha |-> {1, 2}],
  send_iter      |-> [pipe |-> One("send_iter", <<>>),    alpha |-> {1, 2}],
  send_stream    |-> [pipe |-> One("send_stream", <<>>),  alpha |-> {1, 2, -1}],
  demux_map      |-> [pipe |-> Two("demux_map", <<>>),    alpha |-> {5, 106}],
  demux_map_lazy |-> [pipe |-> Two("demux_map_lazy", <<>>), alpha |-> {5, 106}],
  demux_var      |-> [pipe |-> Three("demux_var", <<>>),  alpha |-> {5, 106, 207}],
  lazy0          |-> [pipe |-> One("lazy", <<0>>),        alpha |-> {1, 2}],
  lazy2          |-> [pipe |-> One("lazy", <<2>>),        alpha |-> {1, 2}],
  lss0           |-> [pipe |-> One("lazy_sink_source", <<0>>), alpha |-> {1, 2}],
  lss2           |-> [pipe |-> One("lazy_sink_source", <<2>>), alpha |-> {1, 2}],
  \* compositions
  map_flat_map   |-> [pipe |-> <<N("map", <<2>>, <<10>>), N("flat_map", <<3>>, <<>>), L(1)>>, alpha |-> {1, 2, 4}],
  flat_map_unzip |-> [pipe |-> <<N("flat_map_pairs", <<2>>, <<>>), N("unzip", <<3, 4>>, <<>>), L(1), L(2)>>, alpha |-> {1, 2, 3}],
  lazy_flat_map  |-> [pipe |-> <<N("lazy", <<2>>, <<1>>), N("flat_map", <<3>>, <<>>), L(1)>>, alpha |-> {1, 2, 3}],
  send_iter_filter |-> [pipe |-> <<N("send_iter", <<2>>, <<>>), N("filter", <<3>>, <<>>), L(1)>>, alpha |-> {1, 2}],
  demux_lazy_sinks |-> [pipe |-> <<N("demux_var", <<2, 3>>, <<>>), N("lazy", <<4>>, <<1>>), N("map", <<5>>, <<10>>), L(1), L(2)>>,
                                                          alpha |-> {5, 106}]
]
SrcItems == <<71, -1, 72>>          \* what the source half's inner stream answers (lazy sink-source)

-----------------------------------------------------------------------------
Delay(x) == x \div 100
Ret(S, r) == [S |-> S, ret |-> r]
Err(S, msg) == [S |-> [S EXCEPT !.err = IF @ = "" THEN msg ELSE @], ret |-> 1]
EvOf(S, e) == [S EXCEPT !.evs = Append(@, e)]
AuxEv(S, pend) == EvOf(S, <<0, "a", pend, 0>>)

LeafCall(d, op, x, S) ==
    CASE op = "r" -> LET a == AnsOf(S.rs[d]) IN Ret(EvOf([S EXCEPT !.rs[d] = Pop(@)], <<d, "r", a, 0>>), a)
      [] op = "s" -> Ret(EvOf(S, <<d, "s", x, 0>>), 1)
      [] op = "x" -> LET a == AnsOf(S.xs[d]) IN Ret(EvOf([S EXCEPT !.xs[d] = Pop(@)], <<d, "x", a, 0>>), a)
      [] op = "f" -> LET a == IF d \in S.cl THEN 1 ELSE AnsOf(S.cs[d]) IN
                     Ret(EvOf([S EXCEPT !.cs[d] = IF d \in S.cl THEN @ ELSE Pop(@),
                                        !.cl = IF a = 1 THEN @ \cup {d} ELSE @], <<d, "f", a, 0>>), a)

RECURSIVE Call(_, _, _, _), AllOf(_, _, _, _, _), Drain(_, _), SendIterLoop(_, _), SendStreamLoop(_, _),
          LazyOp(_, _, _), LssOp(_, _, _)

AllOf(cs, j, op, S, acc) ==
    IF j > Len(cs) THEN Ret(S, acc)
    ELSE LET R == Call(cs[j], op, 0, S) IN AllOf(cs, j + 1, op, R.S, IF R.ret = 1 THEN acc ELSE 0)

\* FlatMap / Flatten :: poll_ready_impl
Drain(n, S) ==
    LET c == pipe[n].c[1] IN
    IF S.st[n] = <<>> THEN Ret(S, 1)
    ELSE LET R == Call(c, "r", 0, S) IN
         IF R.ret = 0 THEN R
         ELSE LET R2 == Call(c, "s", Head(R.S.st[n]), [R.S EXCEPT !.st[n] = Tail(@)]) IN Drain(n, R2.S)

\* SendIter :: poll, the loop
SendIterLoop(n, S) ==
    LET c == pipe[n].c[1]  R == Call(c, "r", 0, S) IN
    IF R.ret = 0 THEN R
    ELSE IF R.S.st[n] = <<>> THEN Ret(R.S, 1)
    ELSE LET R2 == Call(c, "s", Head(R.S.st[n]), [R.S EXCEPT !.st[n] = Tail(@)]) IN SendIterLoop(n, R2.S)

\* SendStream :: poll, the loop (the stream is fused: it keeps answering None)
SendStreamLoop(n, S) ==
    LET c == pipe[n].c[1]  R == Call(c, "r", 0, S) IN
    IF R.ret = 0 THEN R
    ELSE LET src == R.S.st[n] IN
         IF src = <<>> THEN Ret(AuxEv(R.S, 0), 1)
         ELSE IF Head(src) < 0 THEN Ret(AuxEv([R.S EXCEPT !.st[n] = Tail(@)], 1), 0)
         ELSE LET R2 == Call(c, "s", Head(src), AuxEv([R.S EXCEPT !.st[n] = Tail(@)], 0)) IN SendStreamLoop(n, R2.S)

\* LazySink :: poll_sink_op
LazyOp(n, op, S) ==
    LET c == pipe[n].c[1]  me == S.st[n] IN
    IF me.ph = "uninit" THEN Ret(S, 1)
    ELSE IF me.ph = "thunk" /\ me.k > 0 THEN Ret(AuxEv(S, 1), 0)
    ELSE LET S1 == IF me.ph = "thunk"
                   THEN AuxEv([S EXCEPT !.st[n].ph = "done", !.st[n].buf = me.item, !.st[n].item = <<>>], 0)
                   ELSE S
             R1 == IF S1.st[n].buf # <<>>
                   THEN LET R == Call(c, "r", 0, S1) IN
                        IF R.ret = 0 THEN R
                        ELSE Call(c, "s", S1.st[n].buf[1], [R.S EXCEPT !.st[n].buf = <<>>])
                   ELSE Ret(S1, 1)
         IN IF R1.ret = 0 THEN R1 ELSE Call(c, op, 0, R1.S)

\* LazySinkHalf :: poll_ready / poll_flush / poll_close
LssOp(n, op, S) ==
    LET c == pipe[n].c[1]  me == S.st[n] IN
    IF me.ph = "uninit" THEN Ret(S, 1)
    ELSE IF me.ph = "thunk" /\ me.k > 0 THEN Ret(AuxEv(S, 1), 0)
    ELSE LET S1 == IF me.ph = "thunk"
                   THEN AuxEv([S EXCEPT !.st[n].ph = "done", !.st[n].buf = me.item, !.st[n].item = <<>>], 0)
                   ELSE S
             R1 == IF S1.st[n].buf # <<>>
                   THEN LET R == Call(c, "r", 0, S1) IN
                        IF R.ret = 0 THEN R
                        ELSE Call(c, "s", S1.st[n].buf[1], [R.S EXCEPT !.st[n].buf = <<>>])
                   ELSE Ret(S1, 1)
         IN IF R1.ret = 0 THEN R1 ELSE Call(c, op, 0, R1.S)

Call(n, op, x, S) ==
    LET nd == pipe[n]  k == nd.k  c == nd.c  p == nd.p  me == S.st[n] IN
    CASE k = "leaf" -> LeafCall(p[1], op, x, S)
      [] k \in {"map", "inspect"} ->
            Call(c[1], op, IF op = "s" /\ k = "map" THEN PP!MapF(p[1], x) ELSE x, S)
      [] k = "filter" ->
            IF op = "s" /\ ~PP!FilterP(x) THEN Ret(S, 1) ELSE Call(c[1], op, x, S)
      [] k = "filter_map" ->
            IF op # "s" THEN Call(c[1], op, x, S)
            ELSE IF PP!FilterMapF(x) = <<>> THEN Ret(S, 1) ELSE Call(c[1], "s", PP!FilterMapF(x)[1], S)
      [] k \in {"for_each", "try_for_each"} ->
            IF op = "s" THEN Call(c[1], "s", x, S) ELSE Ret(S, 1)
      [] k \in {"flat_map", "flatten", "flat_map_pairs"} ->
            (CASE op = "r" -> Drain(n, S)
              [] op = "s" -> IF me # <<>> THEN Err(S, "Sink not ready: `poll_ready` must be called and return `Ready` before `start_send` is called.")
                             ELSE Ret([S EXCEPT !.st[n] = IF k = "flat_map_pairs" THEN PP!FlatPairsF(x) ELSE PP!FlatF(x)], 1)
              [] op \in {"x", "f"} -> LET R == Drain(n, S) IN IF R.ret = 0 THEN R ELSE Call(c[1], op, 0, R.S))
      [] k \in {"unzip", "demux_var", "demux_map"} ->
            IF op # "s" THEN AllOf(c, 1, op, S, 1)
            ELSE IF k = "unzip" THEN LET R == Call(c[1], "s", PP!Fst(x), S) IN Call(c[2], "s", PP!Snd(x), R.S)
            ELSE IF PP!Fst(x) + 1 > Len(c) THEN Err(S, "index out of bounds / missing key")
            ELSE Call(c[PP!Fst(x) + 1], "s", PP!Snd(x), S)
      [] k = "demux_map_lazy" ->
            \* me = set of keys whose sink exists; only those are polled
            IF op # "s" THEN AllOf(SelectSeq(c, LAMBDA ch : \E j \in me : c[j + 1] = ch), 1, op, S, 1)
            ELSE LET key == PP!Fst(x)
                     S1 == IF key \in me THEN S
                           ELSE EvOf([S EXCEPT !.st[n] = @ \cup {key}], <<0, "i", c[key + 1], 0>>)
                 IN Call(c[key + 1], "s", PP!Snd(x), S1)
      [] k = "send_iter" ->
            LET R == SendIterLoop(n, S) IN IF R.ret = 0 THEN R ELSE Call(c[1], "x", 0, R.S)
      [] k = "send_stream" ->
            LET R == SendStreamLoop(n, S) IN IF R.ret = 0 THEN R ELSE Call(c[1], "x", 0, R.S)
      [] k = "lazy" ->
            IF op # "s" THEN LazyOp(n, op, S)
            ELSE IF me.ph = "uninit"
                 THEN Ret(EvOf([S EXCEPT !.st[n].ph = "thunk", !.st[n].k = p[1], !.st[n].item = <<x>>],
                               <<0, "i", n, 0>>), 1)
            ELSE IF me.ph = "done" THEN Call(c[1], "s", x, S)
            ELSE Err(S, "`LazySink` not ready.")
      [] k = "lazy_sink_source" ->
            (CASE op \in {"r", "x", "f"} -> LssOp(n, op, S)
              [] op = "s" ->
                    IF me.ph = "uninit"
                    THEN Ret(EvOf([S EXCEPT !.st[n].ph = "thunk", !.st[n].item = <<x>>], <<0, "i", n, 0>>), 1)
                    ELSE IF me.ph = "done" THEN Call(c[1], "s", x, S)
                    ELSE Err(S, "LazySinkHalf not ready.")
              [] op = "p" ->          \* LazySourceHalf::poll_next
                    LET S0 == IF me.ph = "uninit"
                              THEN EvOf([S EXCEPT !.st[n].ph = "thunk"], <<0, "i", n, 0>>)
                              ELSE S
                        m0 == S0.st[n] IN
                    IF m0.ph = "thunk" /\ m0.k > 0 THEN Ret(AuxEv(S0, 1), 0)
                    ELSE LET S1 == IF m0.ph = "thunk"
                                   THEN AuxEv([S0 EXCEPT !.st[n].ph = "done", !.st[n].buf = m0.item, !.st[n].item = <<>>], 0)
                                   ELSE S0
                             src == S1.st[n].src IN
                         IF src = <<>> THEN Ret(EvOf(S1, <<0, "y", -2, 0>>), 1)
                         ELSE IF Head(src) < 0 THEN Ret(AuxEv([S1 EXCEPT !.st[n].src = Tail(@)], 1), 0)
                         ELSE Ret(EvOf([S1 EXCEPT !.st[n].src = Tail(@)], <<0, "y", Head(src), 0>>), 1))

InitNode(nd, raw) ==
    CASE nd.k \in {"flat_map", "flatten", "flat_map_pairs"} -> <<>>
      [] nd.k = "demux_map_lazy" -> {}
      [] nd.k \in {"send_iter", "send_stream"} -> raw
      [] nd.k = "lazy" -> [ph |-> "uninit", k |-> 0, item |-> <<>>, buf |-> <<>>]
      \* the init future is handed over at construction: its delay k runs from the start of the case
      [] nd.k = "lazy_sink_source" -> [ph |-> "uninit", k |-> nd.p[1], item |-> <<>>, buf |-> <<>>, src |-> SrcItems]
      [] OTHER -> 0

TickNode(nd, s) ==
    IF (nd.k = "lazy" /\ s.ph = "thunk" /\ s.k > 0) \/ (nd.k = "lazy_sink_source" /\ s.k > 0)
    THEN [s EXCEPT !.k = @ - 1] ELSE s
Tick(s) == [i \in DOMAIN s |-> TickNode(pipe[i], s[i])]

-----------------------------------------------------------------------------
SeqsUpTo(A, mx) == UNION {[1..j -> A] : j \in 0..mx}
Scripts(len, mp) == {s \in SeqsUpTo({0, 1}, len) :
                        /\ Cardinality({i \in DOMAIN s : s[i] = 0}) <= mp
                        /\ (s = <<>> \/ s[Len(s)] = 0)}
RScripts1 == Scripts(RLen1, MaxPend1)
RScripts2 == Scripts(RLen2, MaxPend2)
RScripts3 == Scripts(RLen3, MaxPend3)
XScripts1 == Scripts(XLen1, MaxPend1)
XScripts2 == Scripts(XLen2, MaxPend2)
XScripts3 == Scripts(XLen3, MaxPend3)
CScripts1 == Scripts(CLen1, MaxPend1)
CScripts2 == Scripts(CLen2, MaxPend2)
CScripts3 == Scripts(CLen3, MaxPend3)
RScriptsOf(nl) == IF nl <= 1 THEN RScripts1 ELSE IF nl = 2 THEN RScripts2 ELSE RScripts3
XScriptsOf(nl) == IF nl <= 1 THEN XScripts1 ELSE IF nl = 2 THEN XScripts2 ELSE XScripts3
CScriptsOf(nl) == IF nl <= 1 THEN CScripts1 ELSE IF nl = 2 THEN CScripts2 ELSE CScripts3
MaxInOf(nl) == IF nl <= 1 THEN MaxIn1 ELSE IF nl = 2 THEN MaxIn2 ELSE MaxIn3

\* the client's plan for n inputs
RECURSIVE Rep(_, _)
Rep(x, k) == IF k = 0 THEN <<>> ELSE <<x>> \o Rep(x, k - 1)
RECURSIVE PlanFrom(_, _, _, _)
PlanFrom(i, n, ex, fl) ==
    IF i > n THEN (IF fl[n + 1] = 1 THEN <<"x">> ELSE <<>>) \o Rep("r", ex[n + 1]) \o <<"f">>
    ELSE (IF fl[i] = 1 THEN <<"x">> ELSE <<>>) \o Rep("r", 1 + ex[i]) \o <<"s">> \o PlanFrom(i + 1, n, ex, fl)
\* insert one source poll before the plan entries whose index is in sp
RECURSIVE Weave(_, _, _)
Weave(pl, j, sp) ==
    IF j > Len(pl) THEN <<>>
    ELSE (IF j \in sp THEN <<"p">> ELSE <<>>) \o <<pl[j]>> \o Weave(pl, j + 1, sp)

Init ==
    \E sh \in SHAPES :
      LET P == Cat[sh].pipe
          lv == PP!LeafIds(P)
          proto == PP!ProtoLeaves(P)
          self == P[1].k \in SelfDrivenKinds
          lss == P[1].k = "lazy_sink_source" IN
      \E raw \in SeqsUpTo(Cat[sh].alpha, MaxInOf(Cardinality(lv))) :
      \E rscr \in [lv -> RScriptsOf(Cardinality(lv))] : \E xscr \in [lv -> XScriptsOf(Cardinality(lv))] :
      \E cscr \in [lv -> CScriptsOf(Cardinality(lv))] :
        LET n == Len(raw) IN
        \E ex \in [1..(n + 1) -> (IF EXTRA /\ ~self THEN {0, 1} ELSE {0})] :
        \E fl \in [1..(n + 1) -> (IF FLUSH = 0 \/ self THEN {0} ELSE {0, 1})] :
          LET base == IF self THEN <<"x">> ELSE PlanFrom(1, n, ex, fl) IN
          \E sp \in (IF lss THEN {s \in SUBSET (1..Len(base)) : Cardinality(s) <= MaxSrcPolls} ELSE {{}}) :
            /\ \A d \in lv \ proto : rscr[d] = <<>> /\ xscr[d] = <<>> /\ cscr[d] = <<>>
            /\ (P[1].k # "send_stream" => \A i \in DOMAIN raw : raw[i] >= 0)
            /\ (FLUSH = 1 => \A i \in 1..n : fl[i] = 0)
            \* self-driven futures never close their sink
            /\ (self => \A d \in lv : cscr[d] = <<>>)
            /\ MInit(<<>>, <<>>, <<>>, <<>>, <<>>, <<>>)
            /\ shape = sh
            /\ st = <<>>
            /\ plan = Weave(base, 1, sp) \o (IF lss THEN <<"P">> ELSE <<>>)
            /\ pc = 0
            /\ hist = <<>>
            /\ calls = 0
            /\ cfg0 = [rs |-> rscr, xs |-> xscr, cs |-> cscr, raw |-> raw]

Setup ==
    /\ pc = 0
    /\ LET P == Cat[shape].pipe
           raw == cfg0.raw
           ins == SelectSeq(raw, LAMBDA v : v >= 0) IN
       /\ MReset(P, ins, IF P[1].k = "lazy_sink_source" THEN SelectSeq(SrcItems, LAMBDA v : v >= 0) ELSE <<>>,
                 cfg0.rs, cfg0.xs, cfg0.cs)
       /\ st' = [i \in DOMAIN P |-> InitNode(P[i], raw)]
    /\ pc' = 1
    /\ UNCHANGED <<shape, plan, hist, calls, cfg0>>

Finished == pc > Len(plan) \/ pc = -1

\* one call of the client on the root
ClientCall ==
    /\ pc >= 1 /\ pc <= Len(plan)
    /\ LET act == plan[pc]
           op == IF act = "P" THEN "p" ELSE act
           x == IF op = "s" THEN cfg.inputs[m.sent + 1] ELSE 0
           S0 == [st |-> st, rs |-> m.rs, xs |-> m.xs, cs |-> m.cs, cl |-> {d \in cfg.leaves : m.closed[d] = 2},
                  evs |-> <<>>, err |-> ""]
           R == Call(1, op, x, S0)
           evs == IF R.S.err # "" THEN R.S.evs \o <<<<-1, "panic", 0, 0>>>>
                  ELSE R.S.evs \o <<<<-1, op, IF op = "s" THEN x ELSE R.ret, 0>>>>
           ended == \E i \in DOMAIN R.S.evs : R.S.evs[i][2] = "y" /\ R.S.evs[i][3] = -2
       IN /\ MCall(evs)
          /\ hist' = IF EMIT THEN hist \o evs ELSE hist
          /\ calls' = calls + 1
          /\ IF R.S.err # ""
             THEN st' = R.S.st /\ pc' = -1
             ELSE /\ st' = Tick(R.S.st)
                  /\ pc' = IF act \in {"s", "p"} \/ (act = "P" /\ ended) \/ (act \in {"r", "x", "f"} /\ R.ret = 1)
                           THEN pc + 1 ELSE pc
    /\ UNCHANGED <<shape, plan, cfg0>>

Done == Finished /\ UNCHANGED vars
Next == Setup \/ ClientCall \/ Done
Spec == Init /\ [][Next]_vars

-----------------------------------------------------------------------------
InvClean == (shape \notin BADSHAPES) => (m.bad = {} /\ C14Inv)
InvDriver == DriverLegal
\* implementation facts (drift on traces): flush and close reach every downstream
InvFacts == (shape \notin BADSHAPES) => m.facts = {}
Budget == 4 * Len(plan) + 14 * (Cardinality(cfg.leaves) + 1) + 12
Progress == (shape \notin BADSHAPES) => calls <= Budget

Emit == (EMIT /\ Finished) =>
          PrintT(<<"CASE", ToJson([shape |-> shape, pipe |-> pipe, inputs |-> cfg.inputs, raw |-> cfg0.raw,
                                   src |-> SrcItems, rs |-> cfg0.rs, xs |-> cfg0.xs, cs |-> cfg0.cs,
                                   plan |-> plan, evs |-> hist, broken |-> Broken, facts |-> m.facts])>>)
=============================================================================
