--------------------------- MODULE SinkPipeTrace ---------------------------
(* Trace validation of the real sinktools adaptors against the SinkPipe monitor.
   The trace (ndjson, path in env TRACE) is a concatenation of cases:
     {"e":"reset","case":k,"shape":..,"pipe":[{k,c,p}..],"inputs":[..],"src":[..],
      "rs":[[..]..],"xs":[[..]..],"cs":[[..]..],"plan":[..]}
     {"e":"call","evs":[[d,op,v,w],..]}   one client call: the calls it caused on the downstream
                                          sinks / inner sources, last the client-level event
     {"e":"note",...}                      ignored
     {"e":"eof"}
   Property-level rule breaks are collected per case in `viol`, implementation facts (flush /
   close propagation) in `drift`; both are printed at eof.  A logged answer of a scripted double
   that differs from its script is reported as rule "harness-script-mismatch" (tool error). *)
EXTENDS SinkPipe, TLC, Json, IOUtils

Rec == ndJsonDeserialize(IOEnv.TRACE)

VARIABLES l, case, viol, drift
tvars == <<mvars, l, case, viol, drift>>

Ev == Rec[l]

TInit ==
    /\ l = 1
    /\ case = 0
    /\ viol = {}
    /\ drift = {}
    /\ MInit(<<>>, <<>>, <<>>, <<>>, <<>>, <<>>)

Consume == l <= Len(Rec) /\ l' = l + 1

TReset == /\ Ev.e = "reset"
          /\ MReset(Ev.pipe, Ev.inputs, Ev.src, Ev.rs, Ev.xs, Ev.cs)
          /\ case' = Ev.case
TCall == /\ Ev.e = "call" /\ MCall(Ev.evs) /\ UNCHANGED case
TNote == /\ Ev.e = "note" /\ UNCHANGED <<mvars, case>>
TEof == /\ Ev.e = "eof" /\ UNCHANGED <<mvars, case>>
        /\ PrintT(<<"VIOL", ToJson(viol)>>) /\ PrintT(<<"DRIFT", ToJson(drift)>>)

TNext ==
    /\ Consume
    /\ (TReset \/ TCall \/ TNote \/ TEof)
    /\ viol' = viol \cup {<<case', b>> : b \in Broken'}
    /\ drift' = drift \cup {<<case', b>> : b \in Drift'}

TSpec == TInit /\ [][TNext]_tvars

TraceAccepted ==
    LET d == TLCGet("stats").diameter IN
    IF d - 1 = Len(Rec) THEN TRUE
    ELSE Print(<<"UNMATCHED-EVENT-AT-LINE", d, Rec[d]>>, FALSE)
=============================================================================
