------------------------------ MODULE SinkPipe ------------------------------
(* Abstract specification (property monitor + reference semantics) of the sinktools
   futures::Sink adaptors (C14).  Same construction as PushPipe (C12): a pipeline is a tree of
   adaptor nodes  [k |-> kind, c |-> <<children>>, p |-> <<params>>]  whose leaves are the
   downstream sinks (scripted checking doubles, or terminal closures); the reference semantics
   Den, the item encoding and the closure vocabulary are those of PushPipe (instantiated below).

   Environment: the client of the root sink is any legal futures::Sink client (poll_ready until
   Ready(Ok) before every start_send; poll_flush at any point between sends, repeated until
   Ready; finally poll_close until Ready; nothing afterwards).  Every downstream sink d answers
   poll_ready / poll_flush / poll_close from scripts rs[d] / xs[d] / cs[d] (1 = Ready(Ok),
   0 = Pending), Ready once a script is exhausted, Ready forever once closed.

   An event is a 4-tuple <<d, op, v, w>>:
     d > 0   call on downstream d: "r" poll_ready, "s" start_send(v), "x" poll_flush, "f" poll_close
     d = 0   "a": an inner future / stream was polled, v = 1 iff it pended;
             "i": the initialisation closure / future of lazy node v was started
             "y": the source half of a lazy sink-source yielded v (-2 = end of stream)
     d = -1  client-level call on the root: "r" | "s" | "x" | "f" | "p" (poll of the source half)
             | "panic" | "stall"; v = answer (1 Ready(Ok), 0 Pending, -1 Err) or the item sent

   Property-level rules (C14): start_send on a downstream only with an unconsumed Ready(Ok) of
   its poll_ready and never after it was closed; what a downstream received is a prefix of the
   reference output and equals the reference output of everything sent so far whenever the
   root's poll_flush / poll_close (or a send_iter / send_stream future) completes; a lazy node
   is initialised at most once; the root pends only if something below it pended; no panic.
   Implementation facts reported as drift only: flush / close are propagated to every
   downstream after its last item. *)
EXTENDS Naturals, Integers, Sequences, FiniteSets

VARIABLES
    cfg,    \* the case: [pipe, inputs, unord, leaves, proto, selfdriven, srcitems]
    m       \* monitor state record (see MkState)

PP == INSTANCE PushPipe WITH cfg <- cfg, m <- m

mvars == <<cfg, m>>

SelfDrivenKinds == {"send_iter", "send_stream"}

MkCfg(P, ins, src) ==
    [pipe |-> P, inputs |-> ins,
     unord |-> IF P = <<>> THEN {} ELSE PP!UnordLeaves(P, 1, FALSE),
     leaves |-> PP!LeafIds(P), proto |-> PP!ProtoLeaves(P),
     selfdriven |-> (P # <<>> /\ P[1].k \in SelfDrivenKinds),
     srcitems |-> src]

MkState(rscr, xscr, cscr) ==
    [rs |-> rscr, xs |-> xscr, cs |-> cscr,
     ready |-> [d \in DOMAIN rscr |-> FALSE],
     closed |-> [d \in DOMAIN rscr |-> 0],        \* 0 open, 1 close pending, 2 closed
     dirty |-> [d \in DOMAIN rscr |-> FALSE],      \* received an item since its last completed flush
     recv |-> [d \in DOMAIN rscr |-> <<>>],
     drvReady |-> FALSE, drvDone |-> FALSE, sent |-> 0, sawPend |-> FALSE,
     inits |-> <<>>,                                \* lazy nodes initialised so far (with repeats)
     yielded |-> <<>>, srcEnded |-> FALSE,          \* source half of a lazy sink-source
     bad |-> {}, facts |-> {}]

MInit(P, ins, src, rscr, xscr, cscr) == cfg = MkCfg(P, ins, src) /\ m = MkState(rscr, xscr, cscr)
MReset(P, ins, src, rscr, xscr, cscr) == cfg' = MkCfg(P, ins, src) /\ m' = MkState(rscr, xscr, cscr)

Pop(s) == IF s = <<>> THEN <<>> ELSE Tail(s)
AnsOf(s) == IF s = <<>> THEN 1 ELSE Head(s)
AnsR(mm, d) == AnsOf(mm.rs[d])
AnsX(mm, d) == AnsOf(mm.xs[d])
AnsC(mm, d) == IF mm.closed[d] = 2 THEN 1 ELSE AnsOf(mm.cs[d])
Flags(mm, S) == [mm EXCEPT !.bad = @ \cup S]
Facts(mm, S) == [mm EXCEPT !.facts = @ \cup S]
If(c, name) == IF c THEN {name} ELSE {}

\* reference output of the first k inputs
RefOf(c, k) == PP!Den(c.pipe, 1, SubSeq(c.inputs, 1, k))

\* everything sent so far (k inputs) has reached its downstream
Delivered(c, mm, k) ==
    LET rf == RefOf(c, k) IN
    \A d \in c.leaves : IF d \in c.unord THEN PP!BagEq(mm.recv[d], rf[d]) ELSE mm.recv[d] = rf[d]

Enabled(c, mm, e) ==
    IF e[1] > 0
    THEN /\ e[1] \in c.leaves
         /\ e[2] = "r" => e[3] = AnsR(mm, e[1])
         /\ e[2] = "x" => e[3] = AnsX(mm, e[1])
         /\ e[2] = "f" => e[3] = AnsC(mm, e[1])
    ELSE TRUE

Apply(c, mm, e) ==
    LET d == e[1]  op == e[2]  v == e[3]
        k == IF c.selfdriven THEN Len(c.inputs) ELSE mm.sent IN
    IF d > 0 THEN
        CASE op = "r" ->
                Flags([mm EXCEPT !.rs[d] = Pop(@), !.ready[d] = (v = 1), !.sawPend = (@ \/ v = 0)],
                      If(mm.drvDone, "call-after-root-closed"))
          [] op = "s" ->
                Flags([mm EXCEPT !.recv[d] = Append(@, v), !.ready[d] = FALSE, !.dirty[d] = TRUE],
                      If(d \in c.proto /\ ~mm.ready[d], "start_send-without-ready")
                      \cup If(mm.closed[d] = 2 \/ mm.drvDone, "start_send-after-close"))
          [] op = "x" ->
                Flags([mm EXCEPT !.xs[d] = Pop(@), !.dirty[d] = IF v = 1 THEN FALSE ELSE @,
                                 !.sawPend = (@ \/ v = 0)],
                      If(mm.drvDone, "call-after-root-closed"))
          [] op = "f" ->
                Flags([mm EXCEPT !.cs[d] = IF mm.closed[d] = 2 THEN @ ELSE Pop(@),
                                 !.closed[d] = IF v = 1 THEN 2 ELSE IF @ = 0 THEN 1 ELSE @,
                                 !.dirty[d] = IF v = 1 THEN FALSE ELSE @,
                                 !.sawPend = (@ \/ v = 0)],
                      If(mm.drvDone, "call-after-root-closed"))
    ELSE IF d = 0 THEN
        CASE op = "a" -> [mm EXCEPT !.sawPend = (@ \/ v = 1)]
          [] op = "i" -> Flags([mm EXCEPT !.inits = Append(@, v)],
                               If(\E i \in DOMAIN mm.inits : mm.inits[i] = v, "lazy-initialised-twice"))
          [] op = "y" ->
                IF v = -2 THEN Flags([mm EXCEPT !.srcEnded = TRUE],
                                     If(mm.yielded # c.srcitems, "source-ended-before-all-items"))
                ELSE Flags([mm EXCEPT !.yielded = Append(@, v)],
                           If(~PP!IsPrefix(Append(mm.yielded, v), c.srcitems), "source-item-wrong"))
    ELSE
        CASE op = "r" ->
                Flags([mm EXCEPT !.drvReady = (v = 1), !.sawPend = FALSE],
                      If(mm.drvDone, "driver-call-after-close")
                      \cup If(v = 0 /\ ~mm.sawPend, "pending-without-any-downstream-pending")
                      \cup If(v = -1, "unexpected-error"))
          [] op = "s" ->
                Flags([mm EXCEPT !.sent = @ + 1, !.drvReady = FALSE, !.sawPend = FALSE],
                      If(~mm.drvReady \/ mm.drvDone \/ mm.sent >= Len(c.inputs)
                         \/ (mm.sent < Len(c.inputs) /\ c.inputs[mm.sent + 1] # v), "driver-illegal-send"))
          [] op = "x" ->
                \* completed flush (or completed send_iter / send_stream future)
                LET m1 == [mm EXCEPT !.sawPend = FALSE, !.drvDone = (@ \/ (c.selfdriven /\ v = 1))] IN
                Facts(Flags(m1, If(mm.drvDone, "driver-call-after-close")
                                \cup If(v = 0 /\ ~mm.sawPend, "pending-without-any-downstream-pending")
                                \cup If(v = -1, "unexpected-error")
                                \cup If(v = 1 /\ ~Delivered(c, mm, k), "flush-completed-with-items-undelivered")),
                      If(v = 1 /\ \E dd \in c.proto : mm.dirty[dd], "flush-not-propagated"))
          [] op = "f" ->
                LET m1 == [mm EXCEPT !.sawPend = FALSE, !.drvDone = (v = 1)] IN
                Facts(Flags(m1, If(mm.drvDone \/ mm.sent # Len(c.inputs), "driver-illegal-close")
                                \cup If(v = 0 /\ ~mm.sawPend, "pending-without-any-downstream-pending")
                                \cup If(v = -1, "unexpected-error")
                                \cup If(v = 1 /\ ~Delivered(c, mm, k), "close-completed-with-items-undelivered")),
                      If(v = 1 /\ \E dd \in c.leaves : dd \in c.proto /\ mm.recv[dd] # <<>> /\ mm.closed[dd] # 2,
                         "close-not-propagated"))
          [] op = "p" -> [mm EXCEPT !.sawPend = FALSE]
          [] op = "panic" -> Flags(mm, {"panic"})
          [] op = "stall" -> Flags(mm, {"stalled-without-completing"})

\* delivery during the run: a prefix / sub-bag of the full reference output
DeliveryPrefixOf(c, mm) ==
    LET rf == RefOf(c, Len(c.inputs)) IN
    \A d \in c.leaves : IF d \in c.unord THEN PP!SubBag(mm.recv[d], rf[d]) ELSE PP!IsPrefix(mm.recv[d], rf[d])

StateBroken(c, mm) == If(~DeliveryPrefixOf(c, mm), "DeliveryPrefix")

\* the calls of ONE client call applied in order; predicates evaluated after every single call
RECURSIVE ApplyAll(_, _, _)
ApplyAll(c, mm, evs) ==
    IF evs = <<>> THEN mm
    ELSE LET e == Head(evs)
             m1 == IF Enabled(c, mm, e) THEN Apply(c, mm, e) ELSE Flags(mm, {"harness-script-mismatch"})
         IN ApplyAll(c, [m1 EXCEPT !.bad = @ \cup StateBroken(c, m1)], Tail(evs))
MCall(evs) == m' = ApplyAll(cfg, m, evs) /\ UNCHANGED cfg

-----------------------------------------------------------------------------
(* Properties of C14 *)
PropertyRules == {"start_send-without-ready", "start_send-after-close", "call-after-root-closed",
                  "pending-without-any-downstream-pending", "flush-completed-with-items-undelivered",
                  "close-completed-with-items-undelivered", "lazy-initialised-twice",
                  "source-ended-before-all-items", "source-item-wrong", "unexpected-error",
                  "stalled-without-completing", "panic", "DeliveryPrefix"}
DriverLegal == \A b \in m.bad : b \in PropertyRules
NoRuleBroken == m.bad \cap PropertyRules = {}
DeliveryPrefix == DeliveryPrefixOf(cfg, m)
C14Inv == NoRuleBroken /\ DeliveryPrefix

Broken == m.bad \cup StateBroken(cfg, m)
Drift == m.facts
=============================================================================
