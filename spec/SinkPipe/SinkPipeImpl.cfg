SPECIFICATION Spec
CONSTANTS
  SHAPES = {"map", "filter", "filter_map", "inspect", "flat_map", "flatten", "unzip", "for_each", "try_for_each", "send_iter", "send_stream", "demux_map", "demux_map_lazy", "demux_var", "lazy0", "lazy2", "lss0", "lss2", "map_flat_map", "flat_map_unzip", "lazy_flat_map", "send_iter_filter", "demux_lazy_sinks"}
  BADSHAPES = {"demux_map_lazy", "lss0", "lss2"}
  EMIT = TRUE
  MaxIn1 = 2
  MaxIn2 = 2
  MaxIn3 = 1
  MaxPend1 = 2
  MaxPend2 = 1
  MaxPend3 = 1
  RLen1 = 2
  RLen2 = 2
  RLen3 = 1
  XLen1 = 1
  XLen2 = 1
  XLen3 = 1
  CLen1 = 1
  CLen2 = 0
  CLen3 = 0
  EXTRA = FALSE
  FLUSH = 1
  MaxSrcPolls = 1
INVARIANTS InvClean InvDriver InvFacts Progress Emit
CHECK_DEADLOCK FALSE
