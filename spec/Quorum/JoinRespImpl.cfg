SPECIFICATION Spec
CONSTANTS
  MaxKeys = 3
INVARIANTS Inv Persist
CHECK_DEADLOCK FALSE
