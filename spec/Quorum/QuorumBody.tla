----------------------------- MODULE QuorumBody -----------------------------
(* Implementation-shaped layer: the body of the `sliced!` block of
   hydro_std::quorum::collect_quorum / collect_quorum_with_response, transcribed operator by
   operator.  State carried from slice to slice (`use::state_null`, empty at first):
     notAll   `not_all`          the responses carried over (a sequence: Stream<_, Bounded, Order>)
     mbnm     `min_but_not_max`  keys already reported that are still collecting
   One slice execution = Body(h, notAll, mbnm, new, min, max) for the batch `new` released by
   `use::batch(responses)`. Result: [notAll, mbnm, out]; out is the set of keys (cq) or the
   sequence of released successful responses <<k, id>> in stream order (cqr). *)
EXTENDS Naturals, Sequences, FiniteSets

LOCAL BKeys(s) == {s[i][1] : i \in 1..Len(s)}
\* count_per_key = current_responses.into_keyed().fold((0,0), ok -> .0 += 1 | err -> .1 += 1)
LOCAL CntOk(s, k) == Cardinality({i \in 1..Len(s) : s[i][1] = k /\ s[i][2] = 1})
LOCAL CntErr(s, k) == Cardinality({i \in 1..Len(s) : s[i][1] = k /\ s[i][2] = 0})

\* stream.anti_join(keys): keep the elements whose key is not in `keys`, in order
AntiJoin(s, keys) == SelectSeq(s, LAMBDA r : r[1] \notin keys)

BodyCQ(notAll, mbnm, new, min, max) ==
    LET cur == notAll \o new                                      \* not_all.chain(new_inputs)
        reachedMin == {k \in BKeys(cur) : CntOk(cur, k) >= min}   \* reached_min_count
    IN IF max = min
       THEN [notAll |-> AntiJoin(cur, reachedMin),
             mbnm |-> mbnm,                                       \* never reassigned
             out |-> reachedMin]
       ELSE LET recAll == {k \in BKeys(cur) : CntOk(cur, k) + CntErr(cur, k) >= max} IN
            [notAll |-> AntiJoin(cur, recAll),
             out |-> reachedMin \ mbnm,                           \* filter_not_in(min_but_not_max)
             mbnm |-> reachedMin \ recAll]

BodyCQR(notAll, mbnm, new, min, max) ==
    LET cur == notAll \o new
        notReached == {k \in BKeys(cur) : CntOk(cur, k) < min}    \* not_reached_min_count
        reachedMin == {k \in BKeys(cur) : CntOk(cur, k) >= min}   \* reached_min_count
        okOnly(s) == LET t == SelectSeq(s, LAMBDA r : r[2] = 1)   \* filter_map(Ok(v) => (key, v))
                     IN [i \in 1..Len(t) |-> <<t[i][1], t[i][3]>>]
    IN IF max = min
       THEN [notAll |-> AntiJoin(cur, reachedMin),
             mbnm |-> mbnm,
             out |-> okOnly(AntiJoin(cur, notReached))]
       ELSE LET recAll == {k \in BKeys(cur) : CntOk(cur, k) + CntErr(cur, k) >= max} IN
            [notAll |-> AntiJoin(cur, recAll),
             out |-> okOnly(AntiJoin(AntiJoin(cur, notReached), mbnm)),
             mbnm |-> reachedMin \ recAll]

\* a set of keys as a sequence of outputs <<k, 0>> in ascending key order (the order of one
\* slice's keys is unspecified in the code: hash order)
RECURSIVE KeySeq(_)
KeySeq(S) == IF S = {} THEN <<>>
             ELSE LET k == CHOOSE x \in S : \A y \in S : x <= y
                  IN <<<<k, 0>>>> \o KeySeq(S \ {k})

\* uniform result: out as a sequence of <<k, id>>
Body(h, notAll, mbnm, new, min, max) ==
    IF h = "cq"
    THEN LET b == BodyCQ(notAll, mbnm, new, min, max)
         IN [notAll |-> b.notAll, mbnm |-> b.mbnm, out |-> KeySeq(b.out)]
    ELSE BodyCQR(notAll, mbnm, new, min, max)
=============================================================================
