---------------------------- MODULE JoinRespTrace ----------------------------
(* Trace validation of the real hydro_std::request_response::join_responses (run in the Hydro
   simulator under exhaustive schedules, one case per explored schedule) against the JoinResp
   monitor.  Events:
     {"e":"reset","case":c} {"e":"meta","k":k,"m":md} {"e":"ack","k":k,"m":md}
     {"e":"resp","k":k,"v":v} {"e":"join","k":k,"m":md,"v":v}
     {"e":"quiesce","exp":[k,..]|[-1]} {"e":"panic"} {"e":"end"} {"e":"eof"} *)
EXTENDS JoinResp, TLC, Json, IOUtils

Rec == ndJsonDeserialize(IOEnv.TRACE)

VARIABLES l, case, viol
tvars == <<jvars, l, case, viol>>
Ev == Rec[l]

TInit == l = 1 /\ case = 0 /\ viol = {} /\ JInit

Consume == l <= Len(Rec) /\ l' = l + 1

JExpOk == Ev.exp = <<-1>> \/ {Ev.exp[i] : i \in 1..Len(Ev.exp)} = {p[1] : p \in JRange(jm.joined)}

TReset == Ev.e = "reset" /\ JReset /\ case' = Ev.case
TMeta == Ev.e = "meta" /\ JMeta(<<Ev.k, Ev.m>>) /\ UNCHANGED case
TAck == Ev.e = "ack" /\ JAck(<<Ev.k, Ev.m>>) /\ UNCHANGED case
TResp == Ev.e = "resp" /\ JResp(<<Ev.k, Ev.v>>) /\ UNCHANGED case
TJoin == Ev.e = "join" /\ JJoin(<<Ev.k, Ev.m, Ev.v>>) /\ UNCHANGED case
TQuiesce == /\ Ev.e = "quiesce"
            /\ jm' = LET q == JQuiesceStep(jm)
                     IN [q EXCEPT !.bad = @ \cup JFlag(~JExpOk, "joined-keys-differ-from-TLC-prediction")]
            /\ UNCHANGED case
TPanic == Ev.e = "panic" /\ JPanic /\ UNCHANGED case
TEnd == Ev.e = "end" /\ UNCHANGED <<jm, case>>
TEof == Ev.e = "eof" /\ UNCHANGED <<jm, case>> /\ PrintT(<<"VIOL", ToJson(viol)>>)

TNext ==
    /\ Consume
    /\ (TReset \/ TMeta \/ TAck \/ TResp \/ TJoin \/ TQuiesce \/ TPanic \/ TEnd \/ TEof)
    /\ viol' = viol \cup {<<case', b>> : b \in JBroken'}

TSpec == TInit /\ [][TNext]_tvars

TraceAccepted ==
    LET d == TLCGet("stats").diameter IN
    IF d - 1 = Len(Rec) THEN TRUE
    ELSE Print(<<"UNMATCHED-EVENT-AT-LINE", d, Rec[d]>>, FALSE)
=============================================================================
