----------------------------- MODULE QuorumImpl -----------------------------
(* The slice state machine of the quorum helpers (QuorumBody) composed with the C39 monitor
   (Quorum), model checked for EVERY response sequence (<= MaxKeys keys, <= MaxLen responses,
   1 <= min <= max <= MaxMax, at most max responses per key -- the helpers' contract) and
   EVERY batching: responses arrive one by one (Send) and at any moment the slice may run on
   any non-empty prefix of what is pending, or on an empty batch (Batch(n)).  Errors are
   passed through by a top-level filter_map, outside the slice (modelled in Send).
   Keys are numbered in order of first appearance (symmetry reduction). *)
EXTENDS Quorum, QuorumBody, TLC

CONSTANTS MaxKeys, MaxLen, MaxMax, Helpers

VARIABLES
    inp,        \* the whole response sequence of this behaviour
    pos,        \* number of responses sent so far
    batched,    \* number of responses released into slices so far
    notAll,     \* slice state `not_all`
    mbnm        \* slice state `min_but_not_max`

ivars == <<inp, pos, batched, notAll, mbnm>>
vars == <<mvars, ivars>>

Keys == 1..MaxKeys

\* keys appear in order of first use: key k+1 only after key k
Canonical(ks) == \A i \in 1..Len(ks) :
                    ks[i] = 1 \/ \E j \in 1..(i - 1) : ks[j] = ks[i] - 1

Seqs(max) ==
    UNION {{s \in [1..n -> Keys \X {0, 1}] :
              /\ Canonical([i \in 1..n |-> s[i][1]])
              /\ \A k \in Keys : Cardinality({i \in 1..n : s[i][1] = k}) <= max}
           : n \in 0..MaxLen}

Init ==
    \E h \in Helpers : \E max \in 1..MaxMax : \E min \in 1..max : \E s \in Seqs(max) :
        /\ MInit(h, min, max, 1)
        /\ inp = [i \in 1..Len(s) |-> <<s[i][1], s[i][2], i>>]
        /\ pos = 0
        /\ batched = 0
        /\ notAll = <<>>
        /\ mbnm = {}

Send ==
    /\ pos < Len(inp)
    /\ LET r == inp[pos + 1]
           m1 == SendStep(m, r)
       IN m' = IF r[2] = 0 THEN ErrStep(m1, <<r[1], r[3]>>) ELSE m1
    /\ pos' = pos + 1
    /\ UNCHANGED <<inp, batched, notAll, mbnm>>

RECURSIVE OutMany(_, _)
OutMany(mm, os) == IF os = <<>> THEN mm ELSE OutMany(OutStep(mm, Head(os)), Tail(os))

Batch(n) ==
    /\ n \in 0..(pos - batched)
    /\ LET new == SubSeq(inp, batched + 1, batched + n)
           b == Body(m.h, notAll, mbnm, new, m.min, m.max)
       IN /\ notAll' = b.notAll
          /\ mbnm' = b.mbnm
          /\ m' = OutMany(m, b.out)
    /\ batched' = batched + n
    /\ UNCHANGED <<inp, pos>>

\* nothing pending: the quiescence check of the monitor applies
Quiesce ==
    /\ batched = pos
    /\ MQuiesce
    /\ UNCHANGED ivars

Next == Send \/ (\E n \in 0..MaxLen : Batch(n)) \/ Quiesce
Spec == Init /\ [][Next]_vars

-----------------------------------------------------------------------------
Inv == C39Inv(m)

(* "exactly when" / batching independence, at slice granularity: after every slice the keys
   reported so far are exactly the keys with a quorum among the responses released into
   slices so far -- a function of that prefix only, whatever the batching was. *)
ExactlyWhen == KeysOf(m.outs) = Reached(SubSeq(inp, 1, batched), m.min)

\* errors are passed at once and in order
ErrorsAtOnce == {m.errs[i][2] : i \in 1..Len(m.errs)} = ErrIds(m.sent)

(* facts about this implementation (not C39) *)
\* a key that received all `max` responses is forgotten
Forgets == \A k \in KeysOf(notAll) : Tot(notAll, k) < m.max \/ (m.max = m.min /\ Oks(notAll, k) < m.min)
\* min_but_not_max only holds reported keys that are still collecting
MbnmSound == mbnm \subseteq (KeysOf(m.outs) \cap KeysOf(notAll))
ImplInv == Forgets /\ MbnmSound
=============================================================================
