----------------------------- MODULE QuorumTrace -----------------------------
(* Trace validation of the real hydro_std quorum helpers, run in the Hydro simulator under
   exhaustive schedules, against the C39 monitor (Quorum).  One *case* per explored schedule:
     {"e":"reset","case":c,"h":"cq"|"cqr","min":a,"max":b,"ord":1,"x":0|1}
     {"e":"send","k":k,"ok":0|1,"id":i}
     {"e":"out","k":k,"id":i}            i = 0 for collect_quorum
     {"e":"err","k":k,"id":i}
     {"e":"quiesce","exp":[k,..]|[-1]}   simulator quiescent; exp = the keys TLC's reference
                                         semantics predicted (QuorumGen), [-1] = no prediction
     {"e":"panic"} {"e":"end"} ... {"e":"eof"}
   Rule breaks are collected per case in `viol` (printed at eof); nothing stops at the first.

   Besides the monitor, TLC *infers the batching*: with "x":1 the trace spec also runs the
   slice state machine of QuorumBody next to the monitor and searches (silent Slice steps)
   for a batching of the sent responses under which the model releases exactly the observed
   outputs in the observed order; a case for which one exists is printed as <<"EXPL", case>>.
   A case without an explanation is model drift, not a violation of C39.  The explaining
   branch (x.mode = 0) and the branch that only monitors (x.mode = 1) are spawned at reset and
   merge again at the end event, so the number of states stays linear in the trace. *)
EXTENDS Quorum, QuorumBody, TLC, Json, IOUtils

Rec == ndJsonDeserialize(IOEnv.TRACE)

VARIABLES l, case, viol, x
tvars == <<mvars, l, case, viol, x>>

Ev == Rec[l]

XIdle == [mode |-> 1, notAll |-> <<>>, mbnm |-> {}, pend |-> <<>>, pouts |-> <<>>]
XStart == [mode |-> 0, notAll |-> <<>>, mbnm |-> {}, pend |-> <<>>, pouts |-> <<>>]

TInit ==
    /\ l = 1
    /\ case = 0
    /\ viol = {}
    /\ x = XIdle
    /\ MInit("cq", 1, 1, 1)
    /\ TLCSet(42, FALSE)

Consume == l <= Len(Rec) /\ l' = l + 1

TReset == /\ Ev.e = "reset"
          /\ MReset(Ev.h, Ev.min, Ev.max, Ev.ord)
          /\ case' = Ev.case
          /\ x' \in (IF Ev.x = 1 THEN {XStart, XIdle} ELSE {XIdle})

TSend == /\ Ev.e = "send"
         /\ MSend(<<Ev.k, Ev.ok, Ev.id>>)
         /\ x' = IF x.mode = 0 THEN [x EXCEPT !.pend = Append(@, <<Ev.k, Ev.ok, Ev.id>>)] ELSE x
         /\ UNCHANGED case

TOut == /\ Ev.e = "out"
        /\ MOut(<<Ev.k, Ev.id>>)
        /\ IF x.mode = 0
           THEN /\ x.pouts # <<>> /\ Head(x.pouts) = <<Ev.k, Ev.id>>
                /\ x' = [x EXCEPT !.pouts = Tail(@)]
           ELSE x' = x
        /\ UNCHANGED case

TErr == /\ Ev.e = "err" /\ MErr(<<Ev.k, Ev.id>>) /\ UNCHANGED <<case, x>>

ExpOk == Ev.exp = <<-1>> \/ {Ev.exp[i] : i \in 1..Len(Ev.exp)} = KeysOf(m.outs)

TQuiesce == /\ Ev.e = "quiesce"
            /\ m' = LET q == QuiesceStep(m)
                    IN [q EXCEPT !.bad = @ \cup Flag(~ExpOk, "reported-keys-differ-from-TLC-prediction")]
            /\ (x.mode = 0 => x.pend = <<>> /\ x.pouts = <<>>)
            /\ UNCHANGED <<case, x>>

TPanic == /\ Ev.e = "panic" /\ MPanic /\ UNCHANGED <<case, x>>

TEnd == /\ Ev.e = "end"
        /\ (x.mode = 0 => x.pouts = <<>> /\ PrintT(<<"EXPL", case>>))
        /\ x' = XIdle
        /\ UNCHANGED <<m, case>>

TEof == /\ Ev.e = "eof" /\ UNCHANGED <<m, case, x>>
        /\ PrintT(<<"VIOL", ToJson(viol)>>)
        /\ TLCSet(42, TRUE)

\* silent: the slice runs on the first n pending responses (only while explaining, only when
\* everything the previous slice released has been observed, and -- the harness sends a whole
\* stage before it lets the simulator run -- only when the next event is not a send)
TSlice ==
    /\ x.mode = 0 /\ x.pouts = <<>> /\ x.pend # <<>>
    /\ l <= Len(Rec) /\ Ev.e # "send"
    /\ \E n \in 1..Len(x.pend) :
          LET b == Body(m.h, x.notAll, x.mbnm, SubSeq(x.pend, 1, n), m.min, m.max)
          IN x' = [x EXCEPT !.notAll = b.notAll, !.mbnm = b.mbnm, !.pouts = b.out,
                            !.pend = SubSeq(@, n + 1, Len(@))]
    /\ UNCHANGED <<m, l, case, viol>>

TNext ==
    \/ /\ Consume
       /\ (TReset \/ TSend \/ TOut \/ TErr \/ TQuiesce \/ TPanic \/ TEnd \/ TEof)
       /\ viol' = viol \cup {<<case', b>> : b \in Broken'}
    \/ TSlice

TSpec == TInit /\ [][TNext]_tvars

\* the eof event was reached (silent steps make the diameter useless here)
TraceAccepted == TLCGet(42) = TRUE
=============================================================================
