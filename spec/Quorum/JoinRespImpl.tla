---------------------------- MODULE JoinRespImpl ----------------------------
(* Implementation-shaped model of join_responses composed with the JoinResp monitor.
   The sliced! body, transcribed:
       remaining_and_new = remaining_to_join.chain(metadata_batch)
       joined_this_tick  = remaining_and_new.join(response_batch)
       remaining_to_join = remaining_and_new.anti_join(response_batch.map(key))
   `metadata_batch` is read with use::atomic from the tick that also acknowledges the
   metadata (end_atomic), `response_batch` with use::batch: one Slice(nm, nr) step takes the
   next nm pending metadata and the next nr pending responses, for every nm, nr.
   Model checked for every script over <= MaxKeys keys (per key: metadata then response,
   metadata only, or response only) in every interleaving that respects the contract
   (a response is sent only after its metadata was acknowledged) and every batching. *)
EXTENDS JoinResp, TLC

CONSTANTS MaxKeys

VARIABLES
    todoM,      \* keys whose metadata is still to be sent
    todoR,      \* keys whose response is still to be sent
    pendM,      \* metadata sent, not yet taken into a tick (sequence)
    pendR,      \* responses sent, not yet taken into a slice (sequence)
    remaining   \* slice state `remaining_to_join` (set of <<k, md>>)

ivars == <<todoM, todoR, pendM, pendR, remaining>>
vars == <<jvars, ivars>>

Keys == 1..MaxKeys
Md(k) == 100 + k
Val(k) == 200 + k

Init ==
    \E withM \in SUBSET Keys : \E withR \in SUBSET Keys :
        /\ JInit
        /\ todoM = withM
        /\ todoR = withR
        /\ pendM = <<>>
        /\ pendR = <<>>
        /\ remaining = {}

SendMeta(k) ==
    /\ k \in todoM
    /\ JMeta(<<k, Md(k)>>)
    /\ todoM' = todoM \ {k}
    /\ pendM' = Append(pendM, <<k, Md(k)>>)
    /\ UNCHANGED <<todoR, pendR, remaining>>

\* contract: only after the acknowledgement of its metadata (or never any metadata)
SendResp(k) ==
    /\ k \in todoR
    /\ k \notin todoM
    /\ MetaOf(jm, k) \subseteq jm.acked
    /\ JResp(<<k, Val(k)>>)
    /\ todoR' = todoR \ {k}
    /\ pendR' = Append(pendR, <<k, Val(k)>>)
    /\ UNCHANGED <<todoM, pendM, remaining>>

RECURSIVE Fold(_, _, _)
Fold(Op(_, _), acc, s) == IF s = <<>> THEN acc ELSE Fold(Op, Op(acc, Head(s)), Tail(s))

SetToSeq(S) == LET RECURSIVE f(_)
                   f(T) == IF T = {} THEN <<>> ELSE LET x == CHOOSE y \in T : TRUE IN <<x>> \o f(T \ {x})
               IN f(S)

Slice(nm, nr) ==
    /\ nm \in 0..Len(pendM) /\ nr \in 0..Len(pendR) /\ nm + nr > 0
    /\ LET mb == SubSeq(pendM, 1, nm)
           rb == SubSeq(pendR, 1, nr)
           ran == remaining \cup JRange(mb)
           js == {t \in {<<x[1], x[2], y[2]>> : x \in ran, y \in JRange(rb)} :
                    \E x \in ran, y \in JRange(rb) : x[1] = y[1] /\ t = <<x[1], x[2], y[2]>>}
           rkeys == {y[1] : y \in JRange(rb)}
           j1 == Fold(JoinStep, jm, SetToSeq(js))
           j2 == Fold(AckStep, j1, mb)                 \* end_atomic: acknowledged at the end of the tick
       IN /\ jm' = j2
          /\ remaining' = {x \in ran : x[1] \notin rkeys}
          /\ pendM' = SubSeq(pendM, nm + 1, Len(pendM))
          /\ pendR' = SubSeq(pendR, nr + 1, Len(pendR))
    /\ UNCHANGED <<todoM, todoR>>

Quiesce ==
    /\ pendM = <<>> /\ pendR = <<>>
    /\ JQuiesce
    /\ UNCHANGED ivars

Next == (\E k \in Keys : SendMeta(k) \/ SendResp(k))
        \/ (\E nm, nr \in 0..MaxKeys : Slice(nm, nr))
        \/ Quiesce
Spec == Init /\ [][Next]_vars

Inv == JoinInv(jm)
\* metadata persists exactly until its response has been joined
Persist == remaining = {x \in jm.acked : ~\E p \in JRange(jm.joined) : p[1] = x[1]}
=============================================================================
