----------------------------- MODULE JoinRespGen -----------------------------
(* spec -> code for join_responses: every placement of each key's metadata and response into
   <= Stages stages that respects the helper's contract (response strictly after its
   metadata's stage, or no metadata / no response at all), with the keys the reference
   semantics says are joined after each stage.  Ops: <<0, k>> = metadata, <<1, k>> = response;
   rev = 1 sends a stage's responses in descending key order. *)
EXTENDS JoinResp, TLC, Json

CONSTANTS MaxKeys, Stages

Keys == 1..MaxKeys
Place == {p \in (0..Stages) \X (0..Stages) : p[1] = 0 \/ p[2] = 0 \/ p[2] > p[1]}

RECURSIVE AscSeq(_)
AscSeq(S) == IF S = {} THEN <<>>
             ELSE LET k == CHOOSE x \in S : \A y \in S : x <= y IN <<k>> \o AscSeq(S \ {k})
Rev(s) == [i \in 1..Len(s) |-> s[Len(s) + 1 - i]]

StageOps(pl, st, rev) ==
    LET ms == AscSeq({k \in Keys : pl[k][1] = st})
        rs0 == AscSeq({k \in Keys : pl[k][2] = st})
        rs == IF rev = 1 THEN Rev(rs0) ELSE rs0
    IN [i \in 1..Len(ms) |-> <<0, ms[i]>>] \o [i \in 1..Len(rs) |-> <<1, rs[i]>>]

JCases ==
    {[stages |-> [st \in 1..Stages |-> StageOps(pl, st, rev)],
      exp |-> [st \in 1..Stages |-> {k \in Keys : pl[k][1] > 0 /\ pl[k][2] > 0 /\ pl[k][2] <= st}]]
       : pl \in [Keys -> Place], rev \in {0, 1}}

ASSUME \A c \in JCases : PrintT(<<"CASE", ToJson(c)>>)

Init == jm = 0
Next == UNCHANGED jm
Spec == Init /\ [][Next]_jm
=============================================================================
