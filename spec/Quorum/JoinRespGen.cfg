SPECIFICATION Spec
CONSTANTS
  MaxKeys = 2
  Stages = 2
CHECK_DEADLOCK FALSE
