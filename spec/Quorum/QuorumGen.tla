------------------------------ MODULE QuorumGen ------------------------------
(* spec -> code: every case of the bounded domain with the result the REFERENCE semantics
   (Quorum!Reached) assigns to it, printed as CASE lines without state exploration.  A case is
   a helper, (min, max), a response sequence and a split into stages (the harness sends one
   stage, lets the simulator explore every batching of it up to quiescence, observes, then
   sends the next stage); exp[j] = the keys that must have been reported after stage j. *)
EXTENDS Quorum, TLC, Json

CONSTANTS MaxKeys, MaxLen, MaxMax, Helpers

Keys == 1..MaxKeys
Canonical(ks) == \A i \in 1..Len(ks) : ks[i] = 1 \/ \E j \in 1..(i - 1) : ks[j] = ks[i] - 1
Seqs(max) ==
    UNION {{s \in [1..n -> Keys \X {0, 1}] :
              /\ Canonical([i \in 1..n |-> s[i][1]])
              /\ \A k \in Keys : Cardinality({i \in 1..n : s[i][1] = k}) <= max}
           : n \in 1..MaxLen}


\* stage splits: none, or one cut after c responses
Cuts(n) == {<<n>>} \cup {<<c, n>> : c \in 1..(n - 1)}

AllCases ==
    UNION {UNION {UNION {{[h |-> h, min |-> min, max |-> max, inp |-> s, cuts |-> cs,
                           exp |-> [j \in 1..Len(cs) |-> Reached(SubSeq(s, 1, cs[j]), min)]]
                          : cs \in Cuts(Len(s)), h \in Helpers}
                         : s \in Seqs(max)}
                  : min \in 1..max}
           : max \in 1..MaxMax}

ASSUME \A c \in AllCases : PrintT(<<"CASE", ToJson(c)>>)
ASSUME PrintT(<<"NCASES", Cardinality(AllCases)>>)

\* no behaviour to explore: the work is done by the ASSUMEs above
Init == m = 0
Next == UNCHANGED m
Spec == Init /\ [][Next]_m
=============================================================================
