SPECIFICATION Spec
CONSTANTS
  MaxKeys = 2
  MaxLen = 3
  MaxMax = 2
  Helpers = {"cq", "cqr"}
CHECK_DEADLOCK FALSE
