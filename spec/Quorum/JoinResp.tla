------------------------------ MODULE JoinResp ------------------------------
(* Abstract specification (property MONITOR) of hydro_std::request_response::join_responses
   (second half of C39): "the request/response joiner matches each response with its
   request's metadata exactly once"; metadata persists until its response arrives.

   Observable events (pure steps on the monitor record, as in Quorum):
     MetaStep(j, <<k, md>>)      metadata md for request key k handed to the helper
     AckStep(j, <<k, md>>)       the metadata was acknowledged (end of its atomic tick)
     RespStep(j, <<k, v>>)       response v for key k handed to the helper
     JoinStep(j, <<k, md, v>>)   the helper produced (k, (md, v))
     JQuiesceStep(j)             nothing is pending

   Contract of the helper (precondition, from its documentation): one metadata and one
   response per key, and the metadata is generated in the same or an earlier tick than the
   response -- the harness guarantees it by sending a response only after the acknowledgement
   of its metadata has been observed (or for a key that never gets metadata). *)
EXTENDS Naturals, Integers, Sequences, FiniteSets

JRange(s) == {s[i] : i \in 1..Len(s)}
JFlag(cond, name) == IF cond THEN {name} ELSE {}

JInitRec == [metas |-> <<>>, acked |-> {}, resps |-> <<>>, joined |-> <<>>, bad |-> {}]

MetaOf(j, k) == {x \in JRange(j.metas) : x[1] = k}

MetaStep(j, x) ==
    [j EXCEPT !.metas = Append(@, x),
              !.bad = @ \cup JFlag(MetaOf(j, x[1]) # {}, "PRE-two-metadata-for-one-key")]

AckStep(j, x) ==
    [j EXCEPT !.acked = @ \cup {x},
              !.bad = @ \cup JFlag(x \notin JRange(j.metas), "acknowledged-metadata-that-was-not-sent")
                        \cup JFlag(x \in j.acked, "metadata-acknowledged-twice")]

RespStep(j, y) ==
    [j EXCEPT !.resps = Append(@, y),
              !.bad = @ \cup JFlag(\E z \in JRange(j.resps) : z[1] = y[1], "PRE-two-responses-for-one-key")
                        \cup JFlag(MetaOf(j, y[1]) # {} /\ ~(MetaOf(j, y[1]) \subseteq j.acked),
                                   "PRE-response-sent-before-its-metadata-was-acknowledged")]

JoinStep(j, o) ==
    [j EXCEPT !.joined = Append(@, o),
              !.bad = @ \cup JFlag(<<o[1], o[3]>> \notin JRange(j.resps), "joined-a-response-that-was-not-sent")
                        \cup JFlag(<<o[1], o[2]>> \notin JRange(j.metas), "joined-with-metadata-of-no-such-request")
                        \cup JFlag(\E p \in JRange(j.joined) : p[1] = o[1] /\ p[3] = o[3],
                                   "response-joined-twice")]

\* responses that have their metadata: must have been joined once everything is processed
Joinable(j) == {y \in JRange(j.resps) : MetaOf(j, y[1]) # {}}

JQuiesceStep(j) ==
    [j EXCEPT !.bad = @ \cup JFlag(\E y \in Joinable(j) :
                                       ~\E p \in JRange(j.joined) : p[1] = y[1] /\ p[3] = y[2],
                                   "response-not-joined-although-its-metadata-was-stored")
                        \cup JFlag(JRange(j.metas) # j.acked, "metadata-not-acknowledged")]

JPanicStep(j) == [j EXCEPT !.bad = @ \cup {"panic"}]

\* state predicates
JoinedOnce(j) == \A a, b \in 1..Len(j.joined) :
                    a # b => <<j.joined[a][1], j.joined[a][3]>> # <<j.joined[b][1], j.joined[b][3]>>
JoinedRight(j) == \A a \in 1..Len(j.joined) :
                    /\ <<j.joined[a][1], j.joined[a][3]>> \in JRange(j.resps)
                    /\ <<j.joined[a][1], j.joined[a][2]>> \in JRange(j.metas)
JoinInv(j) == j.bad = {} /\ JoinedOnce(j) /\ JoinedRight(j)
JBrokenOf(j) == j.bad \cup (IF JoinedOnce(j) THEN {} ELSE {"JoinedOnce"})
                      \cup (IF JoinedRight(j) THEN {} ELSE {"JoinedRight"})

-----------------------------------------------------------------------------
VARIABLE jm
jvars == <<jm>>
JInit == jm = JInitRec
JReset == jm' = JInitRec
JMeta(x) == jm' = MetaStep(jm, x)
JAck(x) == jm' = AckStep(jm, x)
JResp(y) == jm' = RespStep(jm, y)
JJoin(o) == jm' = JoinStep(jm, o)
JQuiesce == jm' = JQuiesceStep(jm)
JPanic == jm' = JPanicStep(jm)
JBroken == JBrokenOf(jm)
=============================================================================
