------------------------------- MODULE Quorum -------------------------------
(* Abstract specification (property MONITOR) of the quorum helpers of hydro_std (C39):

     collect_quorum(responses, min, max)               -> (keys that reached quorum, errors)
     collect_quorum_with_response(responses, min, max) -> (responses of those keys, errors)

   A response is <<k, ok, id>>: key k, ok = 1 for Ok(_) / 0 for Err(_), id = its position
   (1-based) in the sequence of responses sent in the current case -- so ids are unique and
   `sent[id]` is the response itself.

   Observable events (one monitor step each; the steps are pure functions on the monitor
   record so that an implementation step that emits several outputs can fold them):
     SendStep(m, r)     the environment handed response r to the helper
     OutStep(m, o)      the quorum output produced o = <<k, id>>  (collect_quorum: id = 0)
     ErrStep(m, e)      the error output produced e = <<k, id>>
     QuiesceStep(m)     everything sent so far has been processed (no work is pending)

   Contract of the helpers (precondition): at most `max` responses per key.

   C39: for every order and batching of the responses a key is reported exactly once,
   exactly when at least `min` successful responses for it have arrived; every error is
   passed through.  For _with_response "reporting" a key = releasing its successful
   responses once, all in the slice in which the quorum is reached (at least `min` of them,
   in arrival order). *)
EXTENDS Naturals, Integers, Sequences, FiniteSets

Range(s) == {s[i] : i \in 1..Len(s)}

\* number of successful / of all responses for key k in a sequence of responses
Oks(s, k) == Cardinality({i \in 1..Len(s) : s[i][1] = k /\ s[i][2] = 1})
Tot(s, k) == Cardinality({i \in 1..Len(s) : s[i][1] = k})
KeysOf(s) == {s[i][1] : i \in 1..Len(s)}

(* REFERENCE SEMANTICS: the keys that have a quorum after the responses s -- a function of
   the multiset of responses only, hence independent of order and batching. *)
Reached(s, min) == {k \in KeysOf(s) : Oks(s, k) >= min}
ErrIds(s) == {i \in 1..Len(s) : s[i][2] = 0}

MInitRec(h, min, max, ord) ==
    [h |-> h, min |-> min, max |-> max, ord |-> ord,
     sent |-> <<>>, outs |-> <<>>, errs |-> <<>>, closed |-> {}, bad |-> {}]

Flag(cond, name) == IF cond THEN {name} ELSE {}

SendStep(m, r) ==
    LET s2 == Append(m.sent, r) IN
    [m EXCEPT !.sent = s2,
              \* not a rule of C39: the harness broke the helpers' precondition
              !.bad = @ \cup Flag(r[3] # Len(s2), "PRE-response-id-is-not-its-position")
                        \cup Flag(Tot(s2, r[1]) > m.max, "PRE-more-than-max-responses-for-a-key")]

OutIdx(m, k) == {i \in 1..Len(m.outs) : m.outs[i][1] = k}

OutStep(m, o) ==
    LET k == o[1]
        id == o[2]
        prev == OutIdx(m, k)
    IN [m EXCEPT
        !.outs = Append(@, o),
        !.bad = @ \cup
          (IF m.h = "cq"
           THEN Flag(Oks(m.sent, k) < m.min, "reported-before-quorum")
                \cup Flag(prev # {}, "reported-twice")
           ELSE Flag(~(id \in 1..Len(m.sent) /\ m.sent[id][1] = k /\ m.sent[id][2] = 1),
                     "released-a-response-that-was-not-sent-ok-for-that-key")
                \cup Flag(o \in Range(m.outs), "released-twice")
                \cup Flag(Oks(m.sent, k) < m.min, "released-before-quorum")
                \cup Flag(k \in m.closed, "released-again-after-the-quorum-slice")
                \cup Flag(m.ord = 1 /\ \E i \in prev : m.outs[i][2] > id,
                          "released-out-of-arrival-order"))]

ErrStep(m, e) ==
    LET k == e[1]
        id == e[2]
    IN [m EXCEPT
        !.errs = Append(@, e),
        !.bad = @ \cup Flag(~(id \in 1..Len(m.sent) /\ m.sent[id][1] = k /\ m.sent[id][2] = 0),
                            "error-that-was-not-sent")
                  \cup Flag(e \in Range(m.errs), "error-passed-twice")
                  \cup Flag(m.ord = 1 /\ m.errs # <<>> /\ m.errs[Len(m.errs)][2] > id,
                            "error-out-of-arrival-order")]

QuiesceStep(m) ==
    LET reported == KeysOf(m.outs) IN
    [m EXCEPT
        !.closed = reported,
        !.bad = @ \cup Flag(\E k \in Reached(m.sent, m.min) : k \notin reported,
                            "quorum-not-reported")
                  \cup Flag(m.h = "cqr" /\ \E k \in reported :
                                Cardinality(OutIdx(m, k)) < m.min,
                            "released-fewer-than-min-responses")
                  \* in arrival order the released responses of a key are its FIRST n successes
                  \cup Flag(m.h = "cqr" /\ m.ord = 1 /\ \E k \in reported :
                                LET rel == {m.outs[i][2] : i \in OutIdx(m, k)}
                                IN \E i \in 1..Len(m.sent) :
                                      /\ m.sent[i][1] = k /\ m.sent[i][2] = 1 /\ i \notin rel
                                      /\ \E j \in rel : j > i,
                            "released-responses-skip-an-earlier-success")
                  \cup Flag({m.errs[i][2] : i \in 1..Len(m.errs)} # ErrIds(m.sent),
                            "error-not-passed-through")]

PanicStep(m) == [m EXCEPT !.bad = @ \cup {"panic"}]

-----------------------------------------------------------------------------
(* The properties of C39 as state predicates on the monitor record. *)
NoRuleBroken(m) == m.bad = {}

\* at most once: no key twice (cq) / no response twice (cqr)
AtMostOnce(m) ==
    IF m.h = "cq" THEN \A i, j \in 1..Len(m.outs) : i # j => m.outs[i][1] # m.outs[j][1]
    ELSE \A i, j \in 1..Len(m.outs) : i # j => m.outs[i] # m.outs[j]

\* only keys with a quorum among what has been sent
OnlyQuorum(m) == KeysOf(m.outs) \subseteq Reached(m.sent, m.min)

\* errors: only sent errors, each at most once
ErrorsSound(m) ==
    /\ \A i \in 1..Len(m.errs) : m.errs[i][2] \in ErrIds(m.sent)
    /\ \A i, j \in 1..Len(m.errs) : i # j => m.errs[i] # m.errs[j]

C39Inv(m) == NoRuleBroken(m) /\ AtMostOnce(m) /\ OnlyQuorum(m) /\ ErrorsSound(m)

BrokenOf(m) ==
    m.bad
    \cup (IF AtMostOnce(m) THEN {} ELSE {"AtMostOnce"})
    \cup (IF OnlyQuorum(m) THEN {} ELSE {"OnlyQuorum"})
    \cup (IF ErrorsSound(m) THEN {} ELSE {"ErrorsSound"})
-----------------------------------------------------------------------------
(* The monitor as a state machine: one variable, one action per observable event. *)
VARIABLE m
mvars == <<m>>

MInit(h, min, max, ord) == m = MInitRec(h, min, max, ord)
MReset(h, min, max, ord) == m' = MInitRec(h, min, max, ord)
MSend(r) == m' = SendStep(m, r)
MOut(o) == m' = OutStep(m, o)
MErr(e) == m' = ErrStep(m, e)
MQuiesce == m' = QuiesceStep(m)
MPanic == m' = PanicStep(m)

Broken == BrokenOf(m)
=============================================================================
