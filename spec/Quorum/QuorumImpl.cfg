SPECIFICATION Spec
CONSTANTS
  MaxKeys = 2
  MaxLen = 5
  MaxMax = 3
  Helpers = {"cq", "cqr"}
INVARIANTS Inv ExactlyWhen ErrorsAtOnce ImplInv
CHECK_DEADLOCK FALSE
