#!/usr/bin/env python3
"""Mutation test of the C41 binding on a RECORDED log (BUILDING.md rule 8: for hydro_lang-sized
builds mutate the recorded trace instead of the repository).  Each mutation emulates what a
realistic defect of the Hydro code generator / DFIR partitioner would leave in the log of
`./check C41` (runs/hydroprog/log.ndjson); HydroProgTrace must flag every one of them.

    python3 spec/HydroProg/mutate_trace.py [log.ndjson]
"""
import copy
import json
import os
import sys

ROOT = os.path.dirname(os.path.dirname(os.path.dirname(os.path.abspath(__file__))))
sys.path.insert(0, os.path.join(ROOT, "lib"))
import vlib  # noqa: E402
import fam_hydroprog as fam  # noqa: E402


def graph(rows, prog, loc="loc1"):
    return next(e for e in rows if e["e"] == "prog" and e["prog"] == prog and e["loc"] == loc)


def m_missing_delay_mark(rows):
    """emitter/partitioner forgets the tick delay on the cycle's handoff"""
    g = graph(rows, "h_tick_cycle")
    n = next(n for n in g["P"]["nodes"] if n["kind"] == "hoff" and n["delay"])
    n["delay"] = ""
    return "h_tick_cycle", "C41:graph:C18:delayed-input-handoff-mark-wrong"


def m_defer_dropped(rows):
    """DeferTick lowered to `identity` instead of `defer_tick_lazy`: the flat graph has a same-tick
    cycle and the partitioner still says ok"""
    g = graph(rows, "h_tick_cycle")
    for key in ("G", "G1", "P", "P2"):
        for e in g[key]["edges"]:
            e["delay"] = ""
    return "h_tick_cycle", "C41:graph:C19:accepted-a-graph-with-a-same-tick-cycle"


def m_subgraph_order(rows):
    """subgraphs scheduled in the wrong order (consumer before producer)"""
    g = graph(rows, "h_tee_state_and_tick")
    g["P"]["topo"] = list(reversed(g["P"]["topo"]))
    return "h_tee_state_and_tick", "C41:graph:C18:order-"


def m_handoff_missing(rows):
    """an edge between two subgraphs emitted without a handoff"""
    g = graph(rows, "h_tee_state_and_tick")
    P = g["P"]
    h = next(n for n in P["nodes"] if n["kind"] == "hoff")
    ein = next(e for e in P["edges"] if e["d"] == h["id"])
    eout = next(e for e in P["edges"] if e["s"] == h["id"])
    P["edges"] = [e for e in P["edges"] if e is not ein and e is not eout]
    P["edges"].append(dict(ein, d=eout["d"], dp=eout["dp"]))
    P["nodes"] = [n for n in P["nodes"] if n is not h]
    return "h_tee_state_and_tick", "C41:graph:C18:"


def m_reference_same_subgraph(rows):
    """singleton reference: producer and reader put into one subgraph"""
    g = graph(rows, "h_singleton_ref")
    P = g["P"]
    reader = next(n for n in P["nodes"] if n["refs"])
    tgt = reader["refs"][0]["t"]
    prod = next(e["s"] for e in P["edges"] if e["d"] == tgt)
    pn = next(n for n in P["nodes"] if n["id"] == prod)
    # move the reader into the producer's subgraph
    for s in P["sgs"]:
        if reader["id"] in s["nodes"]:
            s["nodes"].remove(reader["id"])
    next(s for s in P["sgs"] if s["id"] == pn["sg"])["nodes"].append(reader["id"])
    reader["sg"] = pn["sg"]
    P["sgs"] = [s for s in P["sgs"] if s["nodes"]]
    P["topo"] = [t for t in P["topo"] if any(s["id"] == t for s in P["sgs"])]
    return "h_singleton_ref", "C41:graph:C18:"


def m_rustc_rejects(rows):
    """the emitted Rust of one program does not compile"""
    e = next(e for e in rows if e["e"] == "prod" and e["prog"] == "h_keyed_fold")
    e["compiled"] = False
    return "h_keyed_fold", "C41:emitted-rust-does-not-compile"


def m_generator_panics(rows):
    """the production generator panics on a well-typed generated term"""
    e = next(e for e in rows if e["e"] == "prod" and e["prog"].startswith("p") and e["verdict"] == "ok")
    e["verdict"], e["msg"], e["locs"] = "panic", "index out of bounds", []
    prog = e["prog"]
    rows[:] = [r for r in rows if not (r["e"] == "prog" and r["prog"] == prog)]
    return prog, "C41:production-generator-failed-on-well-typed-program"


def m_sim_fails(rows):
    """the simulator builder fails on a well-typed generated term"""
    e = next(e for e in rows if e["e"] == "sim" and e["prog"].startswith("p") and e["verdict"] == "ok")
    e["verdict"], e["msg"] = "panic", "final build failed to produce binary"
    return e["prog"], "C41:simulator-builder-failed-on-well-typed-program"


def m_location_lost(rows):
    """a location's graph is not emitted although the program uses it (network hop)"""
    g = graph(rows, "h_network_cycle", "loc2")
    g["emitted"] = False
    return "h_network_cycle", "C41:location-without-emitted-graph"


MUTATIONS = [m_missing_delay_mark, m_defer_dropped, m_subgraph_order, m_handoff_missing, m_reference_same_subgraph,
             m_rustc_rejects, m_generator_panics, m_sim_fails, m_location_lost]


def main():
    log = sys.argv[1] if len(sys.argv) > 1 else os.path.join(ROOT, "runs", "hydroprog", "log.ndjson")
    rows = [e for e in vlib.read_ndjson(log) if e["e"] != "eof"]
    d = vlib.rundir("hydroprog")
    base, _ = fam._validate(copy.deepcopy(rows), d, "mut_base", None)
    base = set(base)
    bad = 0
    for m in MUTATIONS:
        can = copy.deepcopy(rows)
        prog, want = m(can)
        v, _ = fam._validate(can, d, "mut_" + m.__name__, None)
        new = [r for r in v if r not in base and r[0] == prog]
        hit = [r for p, r in new if r.startswith(want)]
        print("%-28s %-22s %s  %s" % (m.__name__, prog, "CAUGHT" if hit else "MISSED", sorted({r for _, r in new})[:3]))
        bad += 0 if hit else 1
    return 1 if bad else 0


if __name__ == "__main__":
    sys.exit(main())
