SPECIFICATION Spec
CONSTANTS
  MaxStmts = 4
  Vocab = {"tcycle", "fwd", "map", "mkkv", "vals", "filter", "flatmap", "unique", "enum", "weaken", "assume", "sort", "fold", "count", "reduce", "max", "first", "smap", "sfilter", "into_stream", "batch", "snapshot", "all_ticks", "latest", "defer", "kfold", "kfold_snap", "kreduce", "send12", "send21", "bcast", "gather", "chain", "merge", "join", "cross_single", "filter_if_some", "unwrap_or", "zip", "map_ref", "out"}
  MaxTC = 1
  MaxFwd = 1
  PlaceE = {"i"}
  AllowUnused = 0
  PRUNE = TRUE
  EMIT = TRUE
INVARIANTS Finished StepOK Emit
CHECK_DEADLOCK FALSE
