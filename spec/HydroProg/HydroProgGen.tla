----------------------------- MODULE HydroProgGen -----------------------------
(* Generator: TLC enumerates (model checking) or samples (-simulate) the well-typed programs of
   HydroProg.tla.  The state is the program built so far; one step appends one statement that
   type-checks.  A finished program (WellTyped) is printed once as <<"CASE", ToJson(prog)>>.

   To enumerate each dataflow graph few times rather than once per topological order, statements
   are appended in breadth-first order: Key(s) = the largest argument number of s (0 for
   placeholders) never decreases, and statements with equal keys are ordered by operator and
   arguments.  Every dataflow DAG has such an order (place ready statements by smallest key first).
   Programs in which more than AllowUnused defined values are never used are skipped (Hydro
   attaches a null sink to a dropped collection; the inputs in1/in2 may always stay unused).

   CONSTANTS
     MaxStmts   number of statements after the two inputs (including `out`)
     Vocab      the operators that may be used (subset of AllOps; always add "out")
     MaxTC, MaxFwd   how many tick-cycle / forward-reference placeholders a program may create
     PlaceE     element types allowed for placeholders (to bound the enumeration)
     AllowUnused  how many defined values a finished program may leave unused (Hydro attaches a
                null sink to a dropped collection); 0 in the exhaustive jobs
     PRUNE      cut prefixes that cannot be finished within MaxStmts (FALSE only for the self-check
                that pruning loses no program)
     EMIT       print finished programs *)
EXTENDS HydroProg, Json

CONSTANTS MaxStmts, Vocab, MaxTC, MaxFwd, PlaceE, AllowUnused, PRUNE, EMIT

VARIABLES prog
vars == <<prog>>

OpOrder == <<"tcycle", "fwd",
             "map", "mkkv", "vals", "filter", "flatmap", "unique", "enum", "weaken", "assume", "sort",
             "fold", "count", "reduce", "max", "first", "smap", "sfilter", "into_stream",
             "batch", "snapshot", "all_ticks", "latest", "defer", "kfold", "kfold_snap", "kreduce",
             "send12", "send21", "bcast", "gather",
             "chain", "merge", "join", "cross_single", "filter_if_some", "unwrap_or", "zip", "map_ref",
             "tcomplete", "complete", "out">>
OpIdx(op) == CHOOSE i \in 1..Len(OpOrder) : OpOrder[i] = op

Max2(a, b) == IF a >= b THEN a ELSE b
Key(s) == IF Len(s.a) = 0 THEN 0 ELSE IF Len(s.a) = 1 THEN s.a[1] ELSE Max2(s.a[1], s.a[2])
\* total order on statements with equal keys
Rank(s) == <<OpIdx(s.op), IF Len(s.a) >= 1 THEN s.a[1] ELSE 0, IF Len(s.a) >= 2 THEN s.a[2] ELSE 0>>
Less3(x, y) == \/ x[1] < y[1]
               \/ x[1] = y[1] /\ x[2] < y[2]
               \/ x[1] = y[1] /\ x[2] = y[2] /\ x[3] < y[3]

Vals(p) == {i \in 1..Len(p) : p[i].ty.k # "none"}
Count(p, op) == Cardinality({i \in 1..Len(p) : p[i].op = op})
Open(p) == {i \in 1..Len(p) : IsPlaceholder(p, i) /\ Completions(p, i) = {}}

Candidates(p) ==
    LET vs == Vals(p) IN
    (IF "tcycle" \in Vocab /\ Count(p, "tcycle") < MaxTC
     THEN {[op |-> "tcycle", a |-> <<>>, ty |-> t] : t \in {u \in TCycleTypes : u.e \in PlaceE /\ u.l = "t1"}} ELSE {})
    \cup (IF "fwd" \in Vocab /\ Count(p, "fwd") < MaxFwd
          THEN {[op |-> "fwd", a |-> <<>>, ty |-> t] : t \in {u \in FwdTypes : u.e \in PlaceE /\ u.l \in {"p1", "t1"}}} ELSE {})
    \cup UNION {UNION {{[op |-> op, a |-> <<v>>, ty |-> t] : t \in Res1(op, Ty(p, v))} : v \in vs} : op \in Ops1 \cap Vocab}
    \cup UNION {UNION {{[op |-> op, a |-> <<v[1], v[2]>>, ty |-> t] : t \in Res2(op, Ty(p, v[1]), Ty(p, v[2]))} :
                          v \in vs \X vs} : op \in (Ops2 \ {"tcomplete", "complete"}) \cap Vocab}
    \cup {[op |-> "tcomplete", a |-> <<f, v>>, ty |-> NoVal] :
              <<f, v>> \in {w \in Open(p) \X vs : p[w[1]].op = "tcycle" /\ Ty(p, w[2]) = Ty(p, w[1])}}
    \cup {[op |-> "complete", a |-> <<f, v>>, ty |-> NoVal] :
              <<f, v>> \in {w \in Open(p) \X vs : p[w[1]].op = "fwd" /\ Ty(p, w[2]) = Ty(p, w[1]) /\ w[1] # w[2]}}

\* breadth-first canonical order
Canonical(p, s) ==
    LET n == Len(p) IN
    IF n <= 2 THEN TRUE
    ELSE IF Key(s) > Key(p[n]) THEN TRUE
    ELSE IF Key(s) = Key(p[n]) THEN Less3(Rank(p[n]), Rank(s)) ELSE FALSE

\* can the program still be finished within the bound?  every unused value and every open
\* placeholder needs a later statement
Outable(t) == t.k = "stream" /\ t.l \in Procs /\ t.o = "T"
Feasible(p) ==
    LET left == MaxStmts + 2 - Len(p)
        unused == {v \in 3..Len(p) : p[v].ty.k # "none" /\ UseCount(p, v) = 0}
        nopen == Cardinality(Open(p))
        n == Len(p)
    IN IF p[n].op = "out" THEN left >= 0
       ELSE IF ~PRUNE THEN left >= 1
       ELSE /\ left >= 1 + nopen                       \* one statement per open placeholder, then `out`
            \* `out` uses one value, any other statement at most two
            /\ Cardinality(unused) <= 2 * (left - 1) + 1 + AllowUnused
            \* only `out` is left: it must take the one unused value, and respect the order
            /\ (left = 1 /\ AllowUnused = 0 =>
                  /\ \A v \in unused : Outable(p[v].ty) /\ v >= Key(p[n])
                  /\ \E v \in Vals(p) : Outable(p[v].ty) /\ v >= Key(p[n]))

Done(p) == Len(p) >= 3 /\ p[Len(p)].op = "out"

Init == prog = <<In1, In2>>
Next ==
    /\ ~Done(prog)
    /\ \E s \in Candidates(prog) :
          /\ Canonical(prog, s)
          /\ prog' = Append(prog, s)
          /\ Feasible(prog')
          /\ (s.op = "out" => /\ Open(prog) = {}
                              /\ Cardinality({v \in 3..Len(prog) : prog[v].ty.k # "none" /\ UseCount(prog', v) = 0})
                                     <= AllowUnused
                              /\ SyncAcyclic(prog'))
Spec == Init /\ [][Next]_vars

\* every finished program is well-typed by the definition the trace spec uses (self-check of the
\* generator against the specification) and is printed once
Finished == Done(prog) => WellTyped(prog)
Emit == (EMIT /\ Done(prog)) => PrintT(<<"CASE", ToJson(prog)>>)
\* every statement appended type-checks (redundant with Next; catches generator mistakes)
StepOK == \A n \in 3..Len(prog) : StmtOK(Prefix(prog, n - 1), prog[n]) /\ TypeOK(prog[n].ty)
=============================================================================
