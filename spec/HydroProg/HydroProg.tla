------------------------------ MODULE HydroProg ------------------------------
(* C41: every well-typed Hydro flow compiles to a valid dataflow.

   This module is the specification of "well-typed" for the covered fragment of the Hydro API:
   a small typed language of Hydro programs in SSA form.  A program is a sequence of statements
       [op |-> operator, a |-> <<argument value numbers>>, ty |-> type of the value it defines]
   value number i is the value defined by statement i.  Statements 1 and 2 are the two external
   inputs (top-level unbounded totally ordered streams of i32 on process p1); the last statement
   is `out` (the program's output, a top-level unbounded totally ordered stream on p1 or p2).

   Types  [k, e, l, b, o]:
     k  collection kind   "stream" | "single" (Singleton) | "opt" (Optional) | "none" (no value)
     e  element type      "i" (i32) | "kv" ((i32, i32))
     l  location          "p1" | "p2" (processes) | "c1" (cluster) | "t1" | "t2" (the tick of p1 / p2)
     b  boundedness       "U" | "B"      (tick-located collections are bounded, top-level ones are not)
     o  ordering          "T" (TotalOrder) | "N" (NoOrder); "T" for singletons/optionals
   Retries are ExactlyOnce throughout.

   The typing rules (Res) are transcribed from the signatures in hydro_lang/src/live_collections
   (stream/mod.rs, singleton.rs, optional.rs, keyed_stream/mod.rs, keyed_singleton.rs,
   stream/networking.rs), location/tick.rs and forward_handle.rs.  The one condition Rust's types
   do not carry is the documented precondition of `Location::forward_ref`: the collection that
   completes a forward reference must not depend on it synchronously (without a `defer_tick` or a
   network hop in between) -- SyncAcyclic below.  Tick cycles (`Tick::cycle` ..
   `complete_next_tick`) are always allowed; every placeholder must be completed exactly once.

   WellTyped(p) is used three ways: HydroProgGen enumerates all programs satisfying it (TLC), the
   renderer tools/gen_hydro_progs.py turns each into Rust against the real API (rustc re-checks
   the typing rules: every `let` is annotated with the type computed here), and HydroProgTrace
   re-evaluates it on the term logged next to what the real code generators did. *)
EXTENDS Naturals, Sequences, FiniteSets, TLC

Stream(e, l, b, o) == [k |-> "stream", e |-> e, l |-> l, b |-> b, o |-> o]
Single(e, l, b) == [k |-> "single", e |-> e, l |-> l, b |-> b, o |-> "T"]
Opt(e, l, b) == [k |-> "opt", e |-> e, l |-> l, b |-> b, o |-> "T"]
NoVal == [k |-> "none", e |-> "", l |-> "", b |-> "", o |-> ""]

Procs == {"p1", "p2"}
Tops == {"p1", "p2", "c1"}
Ticks == {"t1", "t2"}
IsTick(l) == l \in Ticks
TickOf(l) == IF l = "p1" THEN "t1" ELSE "t2"
OuterOf(l) == IF l = "t1" THEN "p1" ELSE "p2"
BOf(l) == IF IsTick(l) THEN "B" ELSE "U"
MinO(a, b) == IF a = "T" /\ b = "T" THEN "T" ELSE "N"
Elems == {"i", "kv"}
Orders == {"T", "N"}

\* a well-formed type of the fragment
TypeOK(t) ==
    \/ t = NoVal
    \/ /\ t.k \in {"stream", "single", "opt"} /\ t.e \in Elems
       /\ t.l \in Tops \cup Ticks /\ t.b = BOf(t.l) /\ t.o \in Orders
       /\ (t.k # "stream" => t.o = "T")
       /\ (t.l = "c1" => t.k = "stream")

IsS(x) == x.k = "stream"
IsV(x) == x.k \in {"single", "opt"}      \* singleton-like
NotC(x) == x.l # "c1"                      \* the cluster carries only plain stream pipelines
With(x, f, v) == [x EXCEPT ![f] = v]

-----------------------------------------------------------------------------
(* Operators.  Res(op, T) = the set of result types for argument types T (a sequence); the empty
   set means "does not type-check".  Placeholder constructors have several possible types. *)

Ops0 == {"tcycle", "fwd"}
Ops1 == {"map", "mkkv", "vals", "filter", "flatmap", "unique", "enum", "weaken", "assume", "sort",
         "fold", "count", "reduce", "max", "first",
         "smap", "sfilter", "into_stream",
         "batch", "snapshot", "all_ticks", "latest", "defer",
         "kfold", "kfold_snap", "kreduce",
         "send12", "send21", "bcast", "gather", "out"}
Ops2 == {"chain", "merge", "join", "cross_single", "filter_if_some", "unwrap_or", "zip", "map_ref",
         "tcomplete", "complete"}
AllOps == Ops0 \cup Ops1 \cup Ops2
NoValueOps == {"tcomplete", "complete", "out"}
\* operators through which a dependency is NOT synchronous (next tick / over the network)
AsyncOps == {"defer", "send12", "send21", "bcast", "gather"}

\* types a tick-cycle placeholder may have: Stream / Optional located in a tick
TCycleTypes == {Stream(e, l, "B", o) : e \in Elems, l \in Ticks, o \in Orders}
               \cup {Opt(e, l, "B") : e \in Elems, l \in Ticks}
\* types a forward reference may have (any collection kind, processes and their ticks)
FwdTypes == {Stream(e, l, BOf(l), o) : e \in Elems, l \in Procs \cup Ticks, o \in Orders}
            \cup {Single(e, l, BOf(l)) : e \in Elems, l \in Procs \cup Ticks}
            \cup {Opt(e, l, BOf(l)) : e \in Elems, l \in Procs \cup Ticks}

Res1(op, x) ==
    CASE op = "map" -> IF IsS(x) /\ x.e = "i" THEN {x} ELSE {}                      \* Stream::map
      [] op = "mkkv" -> IF IsS(x) /\ x.e = "i" THEN {With(x, "e", "kv")} ELSE {}     \* Stream::map
      [] op = "vals" -> IF IsS(x) /\ x.e = "kv" THEN {With(x, "e", "i")} ELSE {}     \* Stream::map
      [] op = "filter" -> IF IsS(x) THEN {x} ELSE {}                                 \* Stream::filter
      [] op = "flatmap" -> IF IsS(x) /\ x.e = "i" /\ NotC(x) THEN {x} ELSE {}        \* flat_map_ordered
      [] op = "unique" -> IF IsS(x) /\ NotC(x) THEN {x} ELSE {}                      \* T: Eq + Hash
      [] op = "enum" -> IF IsS(x) /\ x.e = "i" /\ x.o = "T" /\ NotC(x) THEN {x} ELSE {}   \* O: IsOrdered
      [] op = "weaken" -> IF IsS(x) /\ x.o = "T" THEN {With(x, "o", "N")} ELSE {}    \* weaken_ordering
      [] op = "assume" -> IF IsS(x) /\ x.o = "N" /\ NotC(x) THEN {With(x, "o", "T")} ELSE {}  \* assume_ordering(nondet)
      [] op = "sort" -> IF IsS(x) /\ x.b = "B" THEN {With(x, "o", "T")} ELSE {}      \* B: IsBounded
      \* aggregations: commutative combinators, so any ordering is accepted
      [] op = "fold" -> IF IsS(x) /\ x.e = "i" /\ NotC(x) THEN {Single("i", x.l, x.b)} ELSE {}
      [] op = "count" -> IF IsS(x) /\ NotC(x) THEN {Single("i", x.l, x.b)} ELSE {}
      [] op = "reduce" -> IF IsS(x) /\ x.e = "i" /\ NotC(x) THEN {Opt("i", x.l, x.b)} ELSE {}
      [] op = "max" -> IF IsS(x) /\ NotC(x) THEN {Opt(x.e, x.l, x.b)} ELSE {}
      [] op = "first" -> IF IsS(x) /\ x.o = "T" /\ NotC(x) THEN {Opt(x.e, x.l, x.b)} ELSE {}
      \* singleton / optional
      [] op = "smap" -> IF IsV(x) /\ x.e = "i" THEN {x} ELSE {}                      \* Singleton::map / Optional::map
      [] op = "sfilter" -> IF IsV(x) THEN {Opt(x.e, x.l, x.b)} ELSE {}               \* ::filter
      [] op = "into_stream" -> IF IsV(x) /\ x.b = "B" THEN {Stream(x.e, x.l, "B", "T")} ELSE {}
      \* tick boundary
      [] op = "batch" -> IF IsS(x) /\ x.l \in Procs THEN {Stream(x.e, TickOf(x.l), "B", x.o)} ELSE {}
      [] op = "snapshot" -> IF IsV(x) /\ x.l \in Procs
                            THEN {[x EXCEPT !.l = TickOf(x.l), !.b = "B"]} ELSE {}
      [] op = "all_ticks" -> IF IsTick(x.l) /\ x.k # "none"
                             THEN {Stream(x.e, OuterOf(x.l), "U", IF IsS(x) THEN x.o ELSE "T")} ELSE {}
      [] op = "latest" -> IF IsV(x) /\ IsTick(x.l)
                          THEN {[x EXCEPT !.l = OuterOf(x.l), !.b = "U"]} ELSE {}
      [] op = "defer" -> IF x.k \in {"stream", "opt"} /\ IsTick(x.l) THEN {x} ELSE {}    \* DeferTick
      \* keyed aggregation (into_keyed .. fold/reduce .. entries)
      [] op = "kfold" -> IF IsS(x) /\ x.e = "kv" /\ IsTick(x.l) THEN {With(x, "o", "N")} ELSE {}
      [] op = "kreduce" -> IF IsS(x) /\ x.e = "kv" /\ IsTick(x.l) THEN {With(x, "o", "N")} ELSE {}
      [] op = "kfold_snap" -> IF IsS(x) /\ x.e = "kv" /\ x.l \in Procs
                              THEN {Stream("kv", TickOf(x.l), "B", "N")} ELSE {}
      \* network (TCP fail_stop keeps the ordering)
      [] op = "send12" -> IF IsS(x) /\ x.l = "p1" THEN {With(x, "l", "p2")} ELSE {}
      [] op = "send21" -> IF IsS(x) /\ x.l = "p2" THEN {With(x, "l", "p1")} ELSE {}
      [] op = "bcast" -> IF IsS(x) /\ x.l = "p1" THEN {With(x, "l", "c1")} ELSE {}
      [] op = "gather" -> IF IsS(x) /\ x.l = "c1" THEN {[x EXCEPT !.l = "p1", !.o = "N"]} ELSE {}
      [] op = "out" -> IF IsS(x) /\ x.l \in Procs /\ x.o = "T" THEN {NoVal} ELSE {}
      [] OTHER -> {}

Res2(op, x, y) ==
    CASE op = "chain" ->       \* first must be bounded: ticks only
            IF IsS(x) /\ IsS(y) /\ x.e = y.e /\ x.l = y.l /\ x.b = "B"
            THEN {Stream(x.e, x.l, y.b, MinO(x.o, y.o))} ELSE {}
      [] op = "merge" ->       \* merge_unordered: both unbounded
            IF IsS(x) /\ IsS(y) /\ x.e = y.e /\ x.l = y.l /\ x.b = "U" /\ NotC(x)
            THEN {With(x, "o", "N")} ELSE {}
      [] op = "join" ->        \* B2::PreserveOrderIfBounded<O>
            IF IsS(x) /\ IsS(y) /\ x.e = "kv" /\ y.e = "kv" /\ x.l = y.l /\ NotC(x)
            THEN {With(x, "o", IF y.b = "B" THEN x.o ELSE "N")} ELSE {}
      [] op = "cross_single" ->    \* other: Into<Optional<_, L, Bounded>>
            IF IsS(x) /\ x.e = "i" /\ IsV(y) /\ y.e = "i" /\ x.l = y.l /\ y.b = "B"
            THEN {With(x, "e", "kv")} ELSE {}
      [] op = "filter_if_some" ->  \* signal: Optional<_, L, Bounded>
            IF IsS(x) /\ y.k = "opt" /\ x.l = y.l /\ y.b = "B" THEN {x} ELSE {}
      [] op = "unwrap_or" ->
            IF x.k = "opt" /\ y.k = "single" /\ x.e = y.e /\ x.l = y.l THEN {y} ELSE {}
      [] op = "zip" ->             \* Singleton::zip needs B: IsBounded
            IF x.k = "single" /\ y.k = "single" /\ x.e = "i" /\ y.e = "i" /\ x.l = y.l /\ x.b = "B"
            THEN {With(x, "e", "kv")} ELSE {}
      [] op = "map_ref" ->         \* Singleton::by_ref needs B: IsBounded and the same location/boundedness
            IF IsS(x) /\ x.e = "i" /\ y.k = "single" /\ y.e = "i" /\ x.l = y.l /\ x.b = "B"
            THEN {x} ELSE {}
      [] OTHER -> {}

-----------------------------------------------------------------------------
(* Programs *)
In1 == [op |-> "in1", a |-> <<>>, ty |-> Stream("i", "p1", "U", "T")]
In2 == [op |-> "in2", a |-> <<>>, ty |-> Stream("i", "p1", "U", "T")]

Ty(p, i) == p[i].ty
IsPlaceholder(p, i) == p[i].op \in Ops0

\* statement s is well-typed as statement number n of program p (p = the statements before it)
StmtOK(p, s) ==
    LET n == Len(p) + 1 IN
    /\ s.op \in AllOps
    /\ \A j \in 1..Len(s.a) : s.a[j] \in 1..(n - 1) /\ Ty(p, s.a[j]).k # "none"
    /\ CASE s.op = "tcycle" -> s.a = <<>> /\ s.ty \in TCycleTypes
         [] s.op = "fwd" -> s.a = <<>> /\ s.ty \in FwdTypes
         [] s.op = "tcomplete" ->
                /\ Len(s.a) = 2 /\ p[s.a[1]].op = "tcycle" /\ Ty(p, s.a[2]) = Ty(p, s.a[1])
                /\ s.ty = NoVal
         [] s.op = "complete" ->
                /\ Len(s.a) = 2 /\ p[s.a[1]].op = "fwd" /\ Ty(p, s.a[2]) = Ty(p, s.a[1])
                /\ s.a[1] # s.a[2]
                /\ s.ty = NoVal
         [] s.op \in Ops1 -> Len(s.a) = 1 /\ s.ty \in Res1(s.op, Ty(p, s.a[1]))
         [] s.op \in Ops2 -> Len(s.a) = 2 /\ s.ty \in Res2(s.op, Ty(p, s.a[1]), Ty(p, s.a[2]))
         [] OTHER -> FALSE

Completions(p, i) == {j \in 1..Len(p) : p[j].op \in {"tcomplete", "complete"} /\ p[j].a[1] = i}

\* synchronous dependency edges <<from value, to value>>: data arguments of synchronous operators,
\* and the alias from the completing value to a forward reference
SyncEdges(p) ==
    UNION {{<<p[j].a[m], j>> : m \in 1..Len(p[j].a)} :
               j \in {q \in 1..Len(p) : p[q].op \notin AsyncOps \cup NoValueOps}}
    \cup {<<p[j].a[2], p[j].a[1]>> : j \in {q \in 1..Len(p) : p[q].op = "complete"}}

RECURSIVE HPeel(_, _)
HPeel(V, E) ==
    LET tgt == {e[2] : e \in E}
        src == V \ tgt
    IN IF src = {} \/ V = {} THEN V ELSE HPeel(V \ src, {e \in E : e[1] \notin src})
\* no forward reference depends on itself within a tick
SyncAcyclic(p) == HPeel(1..Len(p), SyncEdges(p)) = {}

\* a by_ref reader must not be able to run after the value was moved: the renderer borrows the
\* variable itself, which is always live (earlier uses are clones) -- no condition needed.

Prefix(p, n) == SubSeq(p, 1, n)

WellTyped(p) ==
    /\ Len(p) >= 3
    /\ p[1] = In1 /\ p[2] = In2
    /\ \A n \in 3..Len(p) : TypeOK(p[n].ty) /\ StmtOK(Prefix(p, n - 1), p[n])
    /\ p[Len(p)].op = "out"
    /\ \A n \in 1..(Len(p) - 1) : p[n].op # "out"
    \* every placeholder is completed exactly once
    /\ \A i \in 1..Len(p) : IsPlaceholder(p, i) => Cardinality(Completions(p, i)) = 1
    /\ SyncAcyclic(p)

\* which part of WellTyped fails (for the trace spec's reports)
IllReason(p) ==
    IF Len(p) < 3 \/ p[1] # In1 \/ p[2] # In2 THEN "shape"
    ELSE IF \E n \in 3..Len(p) : ~(TypeOK(p[n].ty) /\ StmtOK(Prefix(p, n - 1), p[n])) THEN "type"
    ELSE IF p[Len(p)].op # "out" \/ \E n \in 1..(Len(p) - 1) : p[n].op = "out" THEN "shape"
    ELSE IF \E i \in 1..Len(p) : IsPlaceholder(p, i) /\ Cardinality(Completions(p, i)) # 1 THEN "uncompleted"
    ELSE IF ~SyncAcyclic(p) THEN "sync-cycle"
    ELSE "ok"

-----------------------------------------------------------------------------
(* Features of a program (used to stratify the sample and to report coverage) *)
OpsOf(p) == {p[i].op : i \in 3..Len(p)}
UseCount(p, v) == Cardinality({<<j, m>> \in (1..Len(p)) \X (1..2) : m <= Len(p[j].a) /\ p[j].a[m] = v})
HasTee(p) == \E v \in 1..Len(p) : UseCount(p, v) >= 2
Unused(p) == {v \in 3..Len(p) : p[v].ty.k # "none" /\ UseCount(p, v) = 0}
=============================================================================
