---------------------------- MODULE HydroProgTrace ----------------------------
(* C41 trace validation: what the REAL Hydro code generators did with each program, checked
   against HydroProg.tla (which programs are well-typed) and Partition.tla (which emitted DFIR
   graphs are valid dataflows).  The trace (ndjson, env TRACE):

     {"e":"term","id":P,"hand":bool,"expect":"ok"|"reject"|"","term":[stmts],"builders":["prod","sim"]}
          the program as a HydroProg term; the expectation is computed HERE: WellTyped(term).
          Hand-written programs also state what their author expects ("ok" | "reject"): the typing
          rules must agree with it.
     {"e":"prod","prog":P,"verdict":"ok"|"panic"|"panic-in-flow","build_verdict":..,"compiled":bool,
      "code":h,"build_code":h,"locs":[..],..}
          production builder: generate_embedded in the build script and again in the harness bin,
          whether rustc compiled the emitted code (it is part of the harness binary)
     {"e":"prog","id":"P/loc","prog":P,"loc":..,"G":..,"G1":..,"P":..,"P2":..,"emitted":bool,"shadow":..,...}
          one emitted DFIR graph (record format of Partition.tla): G/G1 flat graph, P the partitioned
          graph baked into the emitted code, P2 the harness's own partition of G1
     {"e":"sim","prog":P,"verdict":"ok"|"panic"|"env","msg":..}   simulator builder (flow.sim().compiled());
          "env" = cargo's shared build directory was disturbed (tool error, not a verdict)
     {"e":"run","prog":P,"verdict":"ok"|"panic"|"absent","outs":..}
          single-location programs: the emitted function instantiated with channel inputs and run
          for 4 ticks by the harness ("absent": nothing was emitted/compiled for it)
     {"e":"eof"}

   Rules are collected (not fatal) as <<program, rule>> in `viol` and printed at eof.  Rule name
   prefixes: "C41:" property-level; "TOOL:" harness inconsistency (the driver turns these into a
   tool error); "NOTE:" facts outside C41 (reported as drift). *)
EXTENDS HydroProg, Partition, Json, IOUtils

Rec == ndJsonDeserialize(IOEnv.TRACE)

VARIABLES l,        \* next line
          exp,      \* program -> "ok" | "reject" (what the specification expects of the generators)
          need,     \* program -> set of builders that must report
          seen,     \* set of <<program, builder>> reported so far
          cur,      \* program the current line is about
          viol, stats
tvars == <<mvars, l, exp, need, seen, cur, viol, stats>>
Ev == Rec[l]

Known(p) == p \in DOMAIN exp
Put(f, k, v) == [x \in DOMAIN f \cup {k} |-> IF x = k THEN v ELSE f[x]]
SeqToSet(s) == {s[i] : i \in 1..Len(s)}

TInit == /\ l = 1 /\ exp = <<>> /\ need = <<>> /\ seen = {} /\ cur = "" /\ viol = {}
         /\ stats = [terms |-> 0, welltyped |-> 0, graphs |-> 0, accepted |-> 0]
         /\ MInit
Consume == l <= Len(Rec) /\ l' = l + 1

\* --- the program and what is expected of it
TTerm ==
    /\ Ev.e = "term"
    /\ LET wt == WellTyped(Ev.term)
           why == IllReason(Ev.term)
       IN /\ exp' = Put(exp, Ev.id, IF wt THEN "ok" ELSE "reject")
          /\ need' = Put(need, Ev.id, SeqToSet(Ev.builders))
          \* the generator of the terms must only produce well-typed ones; a hand-written program's
          \* term must agree with what its author says about it (calibration of the typing rules)
          /\ bad' = IF ~Ev.hand /\ ~wt THEN {"TOOL:generated-term-is-not-well-typed:" \o why}
                    ELSE IF Ev.hand /\ (wt # (Ev.expect = "ok"))
                    THEN {"TOOL:typing-rules-disagree-with-hand-written-program:" \o why}
                    ELSE {}
          /\ stats' = [stats EXCEPT !.terms = @ + 1, !.welltyped = @ + (IF wt THEN 1 ELSE 0)]
    /\ cur' = Ev.id /\ facts' = {} /\ UNCHANGED seen

\* --- production builder
ProdRules(ev) ==
    IF exp[ev.prog] = "ok"
    THEN Rule(ev.verdict # "ok", "C41:production-generator-failed-on-well-typed-program")
         \cup Rule(ev.build_verdict # "ok", "C41:production-generator-failed-on-well-typed-program")
         \cup Rule(ev.verdict = "ok" /\ ev.build_verdict = "ok" /\ ~ev.compiled,
                   "C41:emitted-rust-does-not-compile")
         \cup Rule(ev.verdict = "ok" /\ Len(ev.locs) = 0, "C41:no-dataflow-graph-emitted")
         \cup Rule(ev.verdict = "ok" /\ ev.build_verdict = "ok" /\ ev.code # ev.build_code,
                   "NOTE:emitted-code-differs-between-build-script-and-harness-process")
         \cup Rule(ev.shadow_err # "", "TOOL:shadow-compilation-panicked")
    ELSE Rule(ev.verdict = "ok" /\ ev.build_verdict = "ok", "NOTE:ill-formed-program-accepted-by-production-generator")
TProd ==
    /\ Ev.e = "prod" /\ Known(Ev.prog)
    /\ bad' = ProdRules(Ev) /\ facts' = {}
    /\ seen' = seen \cup {<<Ev.prog, "prod">>}
    /\ cur' = Ev.prog /\ UNCHANGED <<exp, need, stats>>

\* --- one emitted graph (all structure rules of Partition.tla)
Shadowy(rule) == \* P2 # P: the harness's re-partition differs from the emitted graph
    rule \in {"C20:json-round-trip-changed-operators-or-handoffs", "C20:json-round-trip-changed-the-port-wiring",
              "C20:json-round-trip-changed-subgraphs", "C20:json-round-trip-changed-execution-order",
              "C20:json-round-trip-changed-loops"}
GraphRules(r) ==
    IF exp[r.prog] = "ok"
    THEN Rule(~r.emitted, "C41:location-without-emitted-graph")
         \cup Rule(r.shadow # "ok" /\ r.emitted, "TOOL:shadow-compilation-disagrees-with-generator")
         \cup {IF Shadowy(x) THEN "TOOL:shadow-partition-differs-from-emitted-graph" ELSE "C41:graph:" \o x :
                   x \in (IF r.shadow = "ok" /\ r.emitted THEN ProgRules(r) ELSE {})}
         \cup Rule(r.shadow \notin {"ok", "missing"} /\ ~r.emitted, "C41:graph:" \o r.shadow \o "-on-well-typed-program")
    ELSE \* an ill-formed program: the rejection must be a correct one (a real same-tick cycle)
         {"NOTE:" \o x : x \in (IF r.stage = "partition-error" THEN C19Rules(r) ELSE {})}
TGraph ==
    /\ Ev.e = "prog" /\ Known(Ev.prog)
    /\ bad' = GraphRules(Ev)
    /\ facts' = (IF Ev.stage = "done" THEN ProgFacts(Ev) ELSE {})
    /\ stats' = [stats EXCEPT !.graphs = @ + 1,
                              !.accepted = @ + (IF Ev.shadow = "ok" /\ Accept(View(Ev.G1)) THEN 1 ELSE 0)]
    /\ cur' = Ev.prog /\ UNCHANGED <<exp, need, seen>>

\* --- simulator builder
TSim ==
    /\ Ev.e = "sim" /\ Known(Ev.prog)
    /\ bad' = (IF Ev.verdict = "env" THEN {"TOOL:simulator-build-environment-failure"}    \* cargo, not the program
               ELSE IF exp[Ev.prog] = "ok"
               THEN Rule(Ev.verdict # "ok", "C41:simulator-builder-failed-on-well-typed-program")
               ELSE Rule(Ev.verdict = "ok", "NOTE:ill-formed-program-accepted-by-simulator-builder"))
    /\ facts' = {}
    /\ seen' = seen \cup {<<Ev.prog, "sim">>}
    /\ cur' = Ev.prog /\ UNCHANGED <<exp, need, stats>>

\* --- the emitted dataflow of a single-location program, instantiated and run for a few ticks
TRun ==
    /\ Ev.e = "run" /\ Known(Ev.prog)
    /\ bad' = (IF exp[Ev.prog] = "ok"
               THEN Rule(Ev.verdict = "panic", "C41:emitted-dataflow-panics-when-run")
               ELSE {})
    /\ facts' = {}
    /\ seen' = seen \cup {<<Ev.prog, "run">>}
    /\ cur' = Ev.prog /\ UNCHANGED <<exp, need, stats>>

Missing == {<<p, b>> \in UNION {{<<q, c>> : c \in need[q]} : q \in DOMAIN need} : <<p, b>> \notin seen}
TEof ==
    /\ Ev.e = "eof"
    /\ bad' = {} /\ facts' = {} /\ cur' = ""
    /\ UNCHANGED <<exp, need, seen, stats>>
    /\ PrintT(<<"VIOL", ToJson(viol \cup {<<m[1], "TOOL:no-" \o m[2] \o "-event-for-program">> : m \in Missing})>>)
    /\ PrintT(<<"STATS", ToJson(stats)>>)

TNext ==
    /\ Consume
    /\ (TTerm \/ TProd \/ TGraph \/ TSim \/ TRun \/ TEof)
    /\ viol' = viol \cup {<<cur', b>> : b \in bad'} \cup {<<cur', "NOTE:" \o f>> : f \in facts'}

TSpec == TInit /\ [][TNext]_tvars

TraceAccepted ==
    LET d == TLCGet("stats").diameter IN
    IF d - 1 = Len(Rec) THEN TRUE
    ELSE Print(<<"UNMATCHED-EVENT-AT-LINE", d>>, FALSE)
=============================================================================
