SPECIFICATION Spec
CONSTANTS
  NTICKS = 1
  LI = 2
  LP = 1
  NK = 2
  NV = 2
  MODES = {"incr", "newtick"}
  FLAVS = {"ss", "mm"}
  PERS = {"tt"}
  EMIT = FALSE
INVARIANTS C13Inv ImplInv Emit
CHECK_DEADLOCK TRUE
