------------------------------- MODULE SymJoin -------------------------------
(* Abstract specification (property monitor) of the symmetric hash join of dfir_pipes (C13).

   A case fixes the flavour of the two half states (lk, rk: "set" deduplicates (key, value)
   entries, "multi" keeps multiplicity), the path (mode "incr": the incremental
   SymmetricHashJoin pull; "newtick": symmetric_hash_join(.., is_new_tick = true), which drains
   both inputs into the states and then enumerates the join) and, per side, whether the half
   state persists across ticks (pers[i] = TRUE, 'static) or is cleared at tick end ('tick).
   A tick supplies one script per side: entries <<k, v>>, or PEND = <<-1>>; ENDV = <<-2>>
   forever after the script (the inputs are fused).

   Reference: the relational join of everything that arrived.  With lold/rold the contents
   of the states at tick start and lall/rall after adding this tick's arrivals,
     newtick:  Join(lall, rall)                       (every pair, replayed each tick)
     incr:     Join(lall, rall) minus Join(lold, rold)   (exactly the pairs with a new member)
   as bags of <<k, v1, v2>>.

   One event per call: MCall(polls, st, items): st = "P" | "D" (the async drain finished;
   newtick and, trivially, incr) | "R" | "E". *)
EXTENDS Naturals, Integers, Sequences, FiniteSets

PEND == <<-1>>
ENDV == <<-2>>
IsItem(a) == a[1] >= 0

RECURSIVE Payloads(_)
Payloads(s) == IF s = <<>> THEN <<>>
               ELSE IF Head(s)[1] < 0 THEN Payloads(Tail(s))
               ELSE <<Head(s)>> \o Payloads(Tail(s))
RECURSIVE FlatS(_)
FlatS(ss) == IF ss = <<>> THEN <<>> ELSE Head(ss) \o FlatS(Tail(ss))
Count(s, x) == Cardinality({i \in 1..Len(s) : s[i] = x})
SubBag(a, b) == \A i \in 1..Len(a) : Count(a, a[i]) <= Count(b, a[i])
SameBag(a, b) == Len(a) = Len(b) /\ SubBag(a, b)
Has(s, x) == \E i \in 1..Len(s) : s[i] = x

\* contents of a half state after the entries `new` arrived (in order)
RECURSIVE AddAll(_, _, _)
AddAll(kind, old, new) ==
    IF new = <<>> THEN old
    ELSE AddAll(kind, IF kind = "set" /\ Has(old, Head(new)) THEN old ELSE Append(old, Head(new)), Tail(new))

\* pairs (i, j) of matching entries with i > nl or j > nr, as <<k, v1, v2>>
JoinNew(la, ra, nl, nr) ==
    FlatS([i \in 1..Len(la) |->
        FlatS([j \in 1..Len(ra) |->
            IF la[i][1] = ra[j][1] /\ (i > nl \/ j > nr) THEN << <<la[i][1], la[i][2], ra[j][2]>> >> ELSE <<>>])])

VARIABLES
    cfg,        \* [lk, rk, mode, pers]
    lold, rold, \* abstract contents of the half states at tick start
    lall, rall, \* ... after this tick's arrivals
    tick,       \* number of ticks started
    rem,        \* <<remaining lhs script, remaining rhs script>>
    ref,        \* what this tick must emit (a bag, kept as a sequence)
    emitted,    \* what this tick emitted so far
    phase,      \* "idle" | "drain" | "pull" | "ended"
    spur,       \* Pending answered although no input answered Pending during the call
    bad

mvars == <<cfg, lold, rold, lall, rall, tick, rem, ref, emitted, phase, spur, bad>>

NoCfg == [lk |-> "set", rk |-> "set", mode |-> "incr", pers |-> <<FALSE, FALSE>>]

MInit ==
    /\ cfg = NoCfg
    /\ lold = <<>> /\ rold = <<>> /\ lall = <<>> /\ rall = <<>>
    /\ tick = 0
    /\ rem = << <<>>, <<>> >>
    /\ ref = <<>>
    /\ emitted = <<>>
    /\ phase = "idle"
    /\ spur = 0
    /\ bad = {}

MReset(c) ==
    /\ cfg' = c
    /\ lold' = <<>> /\ rold' = <<>> /\ lall' = <<>> /\ rall' = <<>>
    /\ tick' = 0
    /\ rem' = << <<>>, <<>> >>
    /\ ref' = <<>>
    /\ emitted' = <<>>
    /\ phase' = "idle"
    /\ spur' = 0
    /\ bad' = {}

\* a tick starts: fresh (fused) inputs over the scripts l and r, the same half states
MTick(l, r) ==
    /\ phase \in {"idle"}
    /\ LET la == AddAll(cfg.lk, lold, Payloads(l))
           ra == AddAll(cfg.rk, rold, Payloads(r))
       IN /\ lall' = la
          /\ rall' = ra
          /\ ref' = IF cfg.mode = "incr" THEN JoinNew(la, ra, Len(lold), Len(rold)) ELSE JoinNew(la, ra, 0, 0)
    /\ rem' = <<l, r>>
    /\ emitted' = <<>>
    /\ tick' = tick + 1
    /\ phase' = "drain"
    /\ UNCHANGED <<cfg, lold, rold, spur, bad>>

RECURSIVE Walk(_, _)
Walk(ps, acc) ==
    IF ps = <<>> THEN acc
    ELSE LET s == Head(ps)[1]
             a == Head(ps)[2]
             want == IF acc.rem[s] = <<>> THEN ENDV ELSE Head(acc.rem[s])
         IN IF s \notin {1, 2} THEN [acc EXCEPT !.ok = FALSE]
            ELSE Walk(Tail(ps), [rem |-> [acc.rem EXCEPT ![s] = IF @ = <<>> THEN @ ELSE Tail(@)],
                                 ok |-> acc.ok /\ a = want,
                                 np |-> acc.np + (IF a = PEND THEN 1 ELSE 0)])

Rule(cond, name) == IF cond THEN {name} ELSE {}

MCall(polls, st, items) ==
    LET w == Walk(polls, [rem |-> rem, ok |-> TRUE, np |-> 0])
        em == emitted \o items
    IN /\ phase \in {"drain", "pull"}
       /\ w.ok
       /\ st \in {"P", "D", "R", "E"}
       /\ st = "D" => (phase = "drain" /\ items = <<>>)
       /\ st \in {"R", "E"} => phase = "pull"
       /\ st = "R" => Len(items) = 1
       /\ rem' = w.rem
       /\ emitted' = em
       /\ phase' = IF st = "D" THEN "pull" ELSE IF st = "E" THEN "ended" ELSE phase
       /\ spur' = spur + (IF st = "P" /\ w.np = 0 THEN 1 ELSE 0)
       /\ bad' = bad
            \* every emitted pair is a pair of the join, never more often than the join has it
            \cup Rule(~SubBag(em, ref), "pair-not-in-join-or-repeated")
            \* at the end nothing is missing
            \cup Rule(st = "E" /\ SubBag(em, ref) /\ Len(em) # Len(ref), "ended-with-missing-pairs")
            \* the new-tick path drains the inputs completely before it enumerates
            \cup Rule(st = "D" /\ cfg.mode = "newtick" /\ (w.rem[1] # <<>> \/ w.rem[2] # <<>>),
                      "drain-finished-before-inputs-ended")
       /\ UNCHANGED <<cfg, lold, rold, lall, rall, tick, ref>>

\* tick end: 'tick sides are cleared, 'static sides keep everything that arrived
MTickEnd ==
    /\ phase = "ended"
    /\ lold' = IF cfg.pers[1] THEN lall ELSE <<>>
    /\ rold' = IF cfg.pers[2] THEN rall ELSE <<>>
    /\ phase' = "idle"
    /\ UNCHANGED <<cfg, lall, rall, tick, rem, ref, emitted, spur, bad>>

MStall ==
    /\ bad' = bad \cup {"stalled-without-end"}
    /\ UNCHANGED <<cfg, lold, rold, lall, rall, tick, rem, ref, emitted, phase, spur>>
MPanic ==
    /\ bad' = bad \cup {"panic"}
    /\ UNCHANGED <<cfg, lold, rold, lall, rall, tick, rem, ref, emitted, phase, spur>>

-----------------------------------------------------------------------------
NoRuleBroken == bad = {}
EmittedInJoin == SubBag(emitted, ref)
EndExact == phase = "ended" => SameBag(emitted, ref)
C13Inv == NoRuleBroken /\ EmittedInJoin /\ EndExact
Broken == bad \cup (IF EmittedInJoin THEN {} ELSE {"pair-not-in-join-or-repeated"})
=============================================================================
