----------------------------- MODULE SymJoinImpl -----------------------------
(* Implementation-shaped model of dfir_pipes::pull::symmetric_hash_join.rs and
   half_join_state/{set,multiset}.rs, composed with the SymJoin monitor.
     ltab, rtab   HalfJoinState.table: entries <<k, v>> in insertion order (the per-key SmallVec
                  order is the insertion order restricted to the key)
     lm, rm       HalfJoinState.current_matches of the lhs / rhs state, as output triples
   One TLA+ step = one call by the driver (poll of the async fn, or pull of the returned pull).
   All nondeterminism is chosen in Init; finished behaviours are printed as CASE lines. *)
EXTENDS SymJoin, TLC, Json

CONSTANTS
    NTICKS,     \* number of ticks of every case
    LI, LP,     \* per tick and side: at most LI entries and LP Pendings
    NK, NV,     \* entries <<k, v>> with k \in 0..NK-1, v \in 0..NV-1
    MODES,      \* subset of {"incr", "newtick"}
    FLAVS,      \* subset of {"ss", "mm", "sm", "ms"}: flavour of the lhs / rhs state (s = set, m = multi)
    PERS,       \* subset of {"tt", "ts", "st", "ss"}: lhs / rhs state is 'tick or 'static
    EMIT

VARIABLES ltab, rtab, lm, rm, pc, dph, iter, tcur, hist, cur, lens, case0
ivars == <<ltab, rtab, lm, rm, pc, dph, iter, tcur, hist, cur, lens, case0>>
vars == <<mvars, ivars>>

PAIRS == {<<k, v>> : k \in 0..(NK - 1), v \in 0..(NV - 1)}
Entries == PAIRS \cup {PEND}
Flav(c) == IF c = "s" THEN "set" ELSE "multi"
FlavOf(fl) == CASE fl = "ss" -> <<"set", "set">> [] fl = "mm" -> <<"multi", "multi">>
                [] fl = "sm" -> <<"set", "multi">> [] fl = "ms" -> <<"multi", "set">>
PersOf(ps) == CASE ps = "tt" -> <<FALSE, FALSE>> [] ps = "ts" -> <<FALSE, TRUE>>
                [] ps = "st" -> <<TRUE, FALSE>> [] ps = "ss" -> <<TRUE, TRUE>>
CountP(s, Test(_)) == Cardinality({i \in 1..Len(s) : Test(s[i])})
ScriptsJ ==
    {s \in UNION {[1..m -> Entries] : m \in 0..(LI + LP)} :
        CountP(s, LAMBDA e : e = PEND) <= LP /\ CountP(s, LAMBDA e : e # PEND) <= LI}

Init ==
    \E fl \in FLAVS : \E mode \in MODES : \E pers \in PERS :
    \E tks \in [1..NTICKS -> [l : ScriptsJ, r : ScriptsJ]] :
        /\ MInit
        /\ ltab = <<>> /\ rtab = <<>> /\ lm = <<>> /\ rm = <<>>
        /\ pc = "reset"
        /\ dph = 1
        /\ iter = <<>>
        /\ tcur = 0
        /\ hist = <<>>
        /\ cur = <<>>
        /\ lens = <<>>
        /\ case0 = [lk |-> FlavOf(fl)[1], rk |-> FlavOf(fl)[2], mode |-> mode, pers |-> PersOf(pers), ticks |-> tks]

Reset ==
    /\ pc = "reset"
    /\ MReset([lk |-> case0.lk, rk |-> case0.rk, mode |-> case0.mode, pers |-> case0.pers])
    /\ pc' = "tickstart"
    /\ UNCHANGED <<ltab, rtab, lm, rm, dph, iter, tcur, hist, cur, lens, case0>>

TickStart ==
    /\ pc = "tickstart"
    /\ MTick(case0.ticks[tcur + 1].l, case0.ticks[tcur + 1].r)
    /\ tcur' = tcur + 1
    /\ pc' = "drain"
    /\ dph' = 1
    /\ cur' = <<>>
    /\ UNCHANGED <<ltab, rtab, lm, rm, iter, hist, lens, case0>>

-----------------------------------------------------------------------------
(* half_join_state: build / probe *)
\* set.rs: `if !vec.contains(v)`; multiset.rs: always pushes
Inserted(kind, tab, e) == kind = "multi" \/ ~Has(tab, e)
\* probe of the rhs table with an lhs entry <<k, v1>>: one triple per stored value of k
ProbeR(tab, e) == FlatS([j \in 1..Len(tab) |-> IF tab[j][1] = e[1] THEN << <<e[1], e[2], tab[j][2]>> >> ELSE <<>>])
\* probe of the lhs table with an rhs entry <<k, v2>>
ProbeL(tab, e) == FlatS([i \in 1..Len(tab) |-> IF tab[i][1] = e[1] THEN << <<e[1], tab[i][2], e[2]>> >> ELSE <<>>])

NextAns(r, s) == IF r[s] = <<>> THEN ENDV ELSE Head(r[s])
Adv(r, s) == [r EXCEPT ![s] = IF @ = <<>> THEN @ ELSE Tail(@)]

(* SymmetricHashJoin::pull.  js = [lt, rt, lm, rm, rem, polls]; returns [a, js]. *)
RECURSIVE JPull(_)
JPull(js) ==
    IF js.lm # <<>> THEN [a |-> Head(js.lm), js |-> [js EXCEPT !.lm = Tail(@)]]
    ELSE IF js.rm # <<>> THEN [a |-> Head(js.rm), js |-> [js EXCEPT !.rm = Tail(@)]]
    ELSE LET a == NextAns(js.rem, 1)
             j1 == [js EXCEPT !.rem = Adv(@, 1), !.polls = Append(@, <<1, a>>)]
         IN IF IsItem(a)
            THEN LET new == Inserted(cfg.lk, js.lt, a)
                     j2 == IF new THEN [j1 EXCEPT !.lt = Append(@, a)] ELSE j1
                     ms == IF new THEN ProbeR(js.rt, a) ELSE <<>>
                 IN IF ms # <<>>      \* first match returned, the rest kept in rhs_state.current_matches
                    THEN [a |-> Head(ms), js |-> [j2 EXCEPT !.rm = @ \o Tail(ms)]]
                    ELSE JPull(j2)
            ELSE LET b == NextAns(j1.rem, 2)
                     k1 == [j1 EXCEPT !.rem = Adv(@, 2), !.polls = Append(@, <<2, b>>)]
                 IN IF IsItem(b)
                    THEN LET new == Inserted(cfg.rk, js.rt, b)
                             k2 == IF new THEN [k1 EXCEPT !.rt = Append(@, b)] ELSE k1
                             ms == IF new THEN ProbeL(js.lt, b) ELSE <<>>
                         IN IF ms # <<>>
                            THEN [a |-> Head(ms), js |-> [k2 EXCEPT !.lm = @ \o Tail(ms)]]
                            ELSE JPull(k2)
                    ELSE IF a = PEND \/ b = PEND THEN [a |-> PEND, js |-> k1]
                    ELSE [a |-> ENDV, js |-> k1]

(* drain_pull_into_state for side s; returns [a (PEND or ENDV), js] *)
RECURSIVE DrainSide(_, _)
DrainSide(js, s) ==
    LET a == NextAns(js.rem, s)
        j1 == [js EXCEPT !.rem = Adv(@, s), !.polls = Append(@, <<s, a>>)]
    IN IF IsItem(a)
       THEN DrainSide(IF s = 1 THEN (IF Inserted(cfg.lk, js.lt, a) THEN [j1 EXCEPT !.lt = Append(@, a)] ELSE j1)
                      ELSE (IF Inserted(cfg.rk, js.rt, a) THEN [j1 EXCEPT !.rt = Append(@, a)] ELSE j1), s)
       ELSE [a |-> a, js |-> j1]

(* NewTickJoinIter: outer loop over the smaller state (keys in ascending order here; the real
   order is the hash map's and is not compared), inner over full_probe of the other *)
KeysOf(tab) == {tab[i][1] : i \in 1..Len(tab)}
RECURSIVE SortedKeys(_)
SortedKeys(S) == IF S = {} THEN <<>> ELSE LET m == CHOOSE x \in S : \A y \in S : x <= y IN <<m>> \o SortedKeys(S \ {m})
ValsOf(tab, k) == FlatS([i \in 1..Len(tab) |-> IF tab[i][1] = k THEN <<tab[i][2]>> ELSE <<>>])
NewTickOut(lt, rt) ==
    IF Len(lt) < Len(rt)
    THEN LET ks == SortedKeys(KeysOf(lt)) IN
         FlatS([x \in 1..Len(ks) |-> LET k == ks[x] v1s == ValsOf(lt, k) v2s == ValsOf(rt, k) IN
             FlatS([i \in 1..Len(v1s) |-> [j \in 1..Len(v2s) |-> <<k, v1s[i], v2s[j]>>]])])
    ELSE LET ks == SortedKeys(KeysOf(rt)) IN
         FlatS([x \in 1..Len(ks) |-> LET k == ks[x] v1s == ValsOf(lt, k) v2s == ValsOf(rt, k) IN
             FlatS([j \in 1..Len(v2s) |-> [i \in 1..Len(v1s) |-> <<k, v1s[i], v2s[j]>>]])])

Js0 == [lt |-> ltab, rt |-> rtab, lm |-> lm, rm |-> rm, rem |-> rem, polls |-> <<>>]
Record(polls, st, items) == cur' = Append(cur, [p |-> polls, s |-> st, i |-> items])

\* poll of the future returned by symmetric_hash_join(lhs, rhs, &mut ls, &mut rs, is_new_tick)
DrainCall ==
    /\ pc = "drain"
    /\ IF cfg.mode = "incr"
       THEN /\ MCall(<<>>, "D", <<>>) /\ Record(<<>>, "D", <<>>)
            /\ pc' = "pull"
            /\ UNCHANGED <<ltab, rtab, dph, iter>>
       ELSE LET d1 == IF dph = 1 THEN DrainSide(Js0, 1) ELSE [a |-> ENDV, js |-> Js0]
                d2 == IF d1.a = ENDV THEN DrainSide(d1.js, 2) ELSE d1
                done == d1.a = ENDV /\ d2.a = ENDV
                st == IF done THEN "D" ELSE "P"
            IN /\ MCall(d2.js.polls, st, <<>>) /\ Record(d2.js.polls, st, <<>>)
               /\ ltab' = d2.js.lt
               /\ rtab' = d2.js.rt
               /\ dph' = IF d1.a = ENDV THEN 2 ELSE 1
               /\ iter' = IF done THEN NewTickOut(d2.js.lt, d2.js.rt) ELSE iter
               /\ pc' = IF done THEN "pull" ELSE "drain"
    /\ UNCHANGED <<lm, rm, tcur, hist, lens, case0>>

PullCall ==
    /\ pc = "pull"
    /\ IF cfg.mode = "incr"
       THEN LET r == JPull(Js0)
                st == IF IsItem(r.a) THEN "R" ELSE IF r.a = PEND THEN "P" ELSE "E"
                items == IF IsItem(r.a) THEN <<r.a>> ELSE <<>>
            IN /\ MCall(r.js.polls, st, items) /\ Record(r.js.polls, st, items)
               /\ ltab' = r.js.lt /\ rtab' = r.js.rt /\ lm' = r.js.lm /\ rm' = r.js.rm
               /\ pc' = IF st = "E" THEN "tickend" ELSE "pull"
               /\ UNCHANGED iter
       ELSE IF iter # <<>>
            THEN /\ MCall(<<>>, "R", <<Head(iter)>>) /\ Record(<<>>, "R", <<Head(iter)>>)
                 /\ iter' = Tail(iter)
                 /\ pc' = "pull"
                 /\ UNCHANGED <<ltab, rtab, lm, rm>>
            ELSE /\ MCall(<<>>, "E", <<>>) /\ Record(<<>>, "E", <<>>)
                 /\ pc' = "tickend"
                 /\ UNCHANGED <<ltab, rtab, lm, rm, iter>>
    /\ UNCHANGED <<dph, tcur, hist, lens, case0>>

\* the harness records HalfJoinState::len() of both states, then clears the 'tick sides
TickEnd ==
    /\ pc = "tickend"
    /\ MTickEnd
    /\ lens' = Append(lens, <<Len(ltab), Len(rtab)>>)
    /\ ltab' = IF cfg.pers[1] THEN ltab ELSE <<>>
    /\ rtab' = IF cfg.pers[2] THEN rtab ELSE <<>>
    /\ lm' = IF cfg.pers[1] THEN lm ELSE <<>>
    /\ rm' = IF cfg.pers[2] THEN rm ELSE <<>>
    /\ hist' = Append(hist, cur)
    /\ pc' = IF tcur = NTICKS THEN "done" ELSE "tickstart"
    /\ UNCHANGED <<dph, iter, tcur, cur, case0>>

Done == pc = "done" /\ UNCHANGED vars

Next == Reset \/ TickStart \/ DrainCall \/ PullCall \/ TickEnd \/ Done
Spec == Init /\ [][Next]_vars

-----------------------------------------------------------------------------
\* implementation facts
TablesMatchAbstract ==      \* the tables hold exactly what the monitor says arrived
    pc = "tickend" => (SameBag(ltab, lall) /\ SameBag(rtab, rall))
NoLeftoverMatches == pc \in {"tickend", "tickstart", "done"} => (lm = <<>> /\ rm = <<>>)
NoSpuriousPending == spur = 0
ImplInv == TablesMatchAbstract /\ NoLeftoverMatches /\ NoSpuriousPending

Emit == (EMIT /\ pc = "done") =>
          PrintT(<<"CASE", ToJson([lk |-> case0.lk, rk |-> case0.rk, mode |-> case0.mode, pers |-> case0.pers,
                                   ticks |-> case0.ticks, calls |-> hist, lens |-> lens])>>)
=============================================================================
