----------------------------- MODULE SymJoinTrace -----------------------------
(* Trace validation of the real dfir_pipes symmetric hash join against the SymJoin monitor.
     {"e":"reset","case":k,"lk":..,"rk":..,"mode":..,"pers":[b,b]}
     {"e":"tick","l":[[k,v]|[-1],..],"r":[..]}
     {"e":"call","p":[[s,[a..]],..],"s":"P|D|R|E","i":[[k,v1,v2]..]}
     {"e":"tickend","llen":n,"rlen":m}      HalfJoinState::len() of both states, before 'tick sides are cleared
     {"e":"stall"} | {"e":"panic","msg":..} | {"e":"eof"}
   Rule breaks are collected per case in `viol` and printed at eof. *)
EXTENDS SymJoin, TLC, Json, IOUtils

Rec == ndJsonDeserialize(IOEnv.TRACE)

VARIABLES l, case, viol, drift
tvars == <<mvars, l, case, viol, drift>>

Ev == Rec[l]

TInit == l = 1 /\ case = 0 /\ viol = {} /\ drift = {} /\ MInit

Consume == l <= Len(Rec) /\ l' = l + 1

TReset == /\ Ev.e = "reset"
          /\ MReset([lk |-> Ev.lk, rk |-> Ev.rk, mode |-> Ev.mode, pers |-> Ev.pers])
          /\ case' = Ev.case /\ UNCHANGED drift
TTick == /\ Ev.e = "tick" /\ MTick(Ev.l, Ev.r) /\ UNCHANGED <<case, drift>>
TCall == /\ Ev.e = "call" /\ MCall(Ev.p, Ev.s, Ev.i) /\ UNCHANGED case
         /\ drift' = IF spur' > spur THEN drift \cup {<<case, "pending-without-upstream-pending">>} ELSE drift
TTickEnd == /\ Ev.e = "tickend" /\ MTickEnd /\ UNCHANGED case
            \* implementation fact: len() counts the stored (deduplicated for set) entries
            /\ drift' = IF Ev.llen # Len(lall) \/ Ev.rlen # Len(rall)
                        THEN drift \cup {<<case, "state-len-differs-from-arrivals">>} ELSE drift
TStall == /\ Ev.e = "stall" /\ MStall /\ UNCHANGED <<case, drift>>
TPanic == /\ Ev.e = "panic" /\ MPanic /\ UNCHANGED <<case, drift>>
TEof == /\ Ev.e = "eof" /\ UNCHANGED <<mvars, case, drift>>
        /\ PrintT(<<"VIOL", ToJson(viol)>>) /\ PrintT(<<"DRIFT", ToJson(drift)>>)

TNext ==
    /\ Consume
    /\ (TReset \/ TTick \/ TCall \/ TTickEnd \/ TStall \/ TPanic \/ TEof)
    /\ viol' = viol \cup {<<case', b>> : b \in Broken'}

TSpec == TInit /\ [][TNext]_tvars

TraceAccepted ==
    LET d == TLCGet("stats").diameter IN
    IF d - 1 = Len(Rec) THEN TRUE
    ELSE Print(<<"UNMATCHED-EVENT-AT-LINE", d, Rec[d]>>, FALSE)
=============================================================================
