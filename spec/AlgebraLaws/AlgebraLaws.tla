---------------------------- MODULE AlgebraLaws ----------------------------
(* Reference definitions (the oracle) of the algebraic laws decided by the checkers of
   lattices/src/algebra.rs (C09), over finite carriers Car(n) = 0..n-1.

   Operation tables are 1-based sequences of sequences (the JSON form): a binary table f of
   carrier size n is f[a+1][b+1] for a, b in 0..n-1, a unary table u is u[a+1].

   Every law is the universally quantified equation of the doc comment of its checker /
   the textbook definition; composites are conjunctions of the laws their doc comment
   names.  The non-triviality side condition 0 # 1 of integral domains / fields is NOT
   part of the reference (it is not a law "on every tuple drawn from the carrier"); see the
   family's assumptions.

   The second half defines the shipped semiring applications
   (lattices/src/semiring_application.rs) over integer codes. *)
EXTENDS Naturals, Integers, Sequences, FiniteSets

Car(n) == 0..(n - 1)

Ap2(f, a, b) == f[a + 1][b + 1]
Ap1(u, a) == u[a + 1]

\* the k-th binary / unary table over Car(n) with values in Car(m) (digits of k in base m)
\* (built as explicit tuples, so that TLC does not re-evaluate a lambda on every lookup)
RECURSIVE DigitsFrom(_, _, _, _)
DigitsFrom(m, k, c, len) ==     \* the base-m digits c .. c+len-1 of k
    IF len = 0 THEN <<>> ELSE <<(k \div (m ^ c)) % m>> \o DigitsFrom(m, k, c + 1, len - 1)
RECURSIVE RowsFrom(_, _, _, _)
RowsFrom(n, m, k, i) ==
    IF i > n THEN <<>> ELSE <<DigitsFrom(m, k, (i - 1) * n, n)>> \o RowsFrom(n, m, k, i + 1)
Tab2(n, m, k) == RowsFrom(n, m, k, 1)       \* Tab2(n,m,k)[i][j] = digit (i-1)*n + (j-1)
Tab1(n, m, k) == DigitsFrom(m, k, 0, n)
NTab2(n, m) == m ^ (n * n)
NTab1(n, m) == m ^ n

-----------------------------------------------------------------------------
(* single-operation laws *)
Assoc(n, f) == \A a, b, c \in Car(n) : Ap2(f, a, Ap2(f, b, c)) = Ap2(f, Ap2(f, a, b), c)
Comm(n, f) == \A a, b \in Car(n) : Ap2(f, a, b) = Ap2(f, b, a)
Idem(n, f) == \A a \in Car(n) : Ap2(f, a, a) = a
Identity(n, f, e) == \A a \in Car(n) : Ap2(f, e, a) = a /\ Ap2(f, a, e) = a
Absorbing(n, f, z) == \A a \in Car(n) : Ap2(f, a, z) = z /\ Ap2(f, z, a) = z
Inverse(n, f, e, u) == \A a \in Car(n) : Ap2(f, a, Ap1(u, a)) = e /\ Ap2(f, Ap1(u, a), a) = e
NonzeroInverse(n, f, e, zero, u) ==
    \A a \in Car(n) \ {zero} : Ap2(f, a, Ap1(u, a)) = e /\ Ap2(f, Ap1(u, a), a) = e
NoZeroDivisors(n, f, zero) ==
    \A a, b \in Car(n) \ {zero} : Ap2(f, a, b) # zero

(* two-operation laws: g ("multiplication") distributes over f ("addition") *)
LeftDistr(n, f, g) ==
    \A a, b, c \in Car(n) : Ap2(g, a, Ap2(f, b, c)) = Ap2(f, Ap2(g, a, b), Ap2(g, a, c))
RightDistr(n, f, g) ==
    \A a, b, c \in Car(n) : Ap2(g, Ap2(f, b, c), a) = Ap2(f, Ap2(g, b, a), Ap2(g, c, a))
Distr(n, f, g) == LeftDistr(n, f, g) /\ RightDistr(n, f, g)

(* q : (Car(n), f) -> (Car(m), g) is a homomorphism: q(f(a,b)) = g(q(a), q(b)) *)
Linear(n, f, g, q) ==
    \A a, b \in Car(n) : Ap1(q, Ap2(f, a, b)) = Ap2(g, Ap1(q, a), Ap1(q, b))

(* q : S x T -> R additive in each argument (S, T, R all of carrier size n) *)
Bilinear(n, f, h, g, q) ==
    \A a, b, c, d \in Car(n) :
        /\ Ap2(q, Ap2(f, a, b), c) = Ap2(g, Ap2(q, a, c), Ap2(q, b, c))
        /\ Ap2(q, a, Ap2(h, c, d)) = Ap2(g, Ap2(q, a, c), Ap2(q, a, d))

(* composites *)
Semigroup(n, f) == Assoc(n, f)
\* (conjuncts ordered cheapest first; TLC stops at the first false one)
Monoid(n, f, e) == Identity(n, f, e) /\ Assoc(n, f)
CommMonoid(n, f, e) == Comm(n, f) /\ Monoid(n, f, e)
Group(n, f, e, u) == Inverse(n, f, e, u) /\ Monoid(n, f, e)
AbelianGroup(n, f, e, u) == Comm(n, f) /\ Group(n, f, e, u)
Semiring(n, f, g, zero, one) ==
    /\ Absorbing(n, g, zero)
    /\ CommMonoid(n, f, zero)
    /\ Monoid(n, g, one)
    /\ Distr(n, f, g)
Ring(n, f, g, zero, one, u) == Inverse(n, f, zero, u) /\ Semiring(n, f, g, zero, one)
CommRing(n, f, g, zero, one, u) == Comm(n, g) /\ Ring(n, f, g, zero, one, u)
IntegralDomain(n, f, g, zero, one, u) ==
    NoZeroDivisors(n, g, zero) /\ CommRing(n, f, g, zero, one, u)
Field(n, f, g, zero, one, u, w) ==
    NonzeroInverse(n, g, one, zero, w) /\ CommRing(n, f, g, zero, one, u)

\* get_single_function_properties: the names of the single-function laws that hold, in the
\* order the function tests them
SingleProps(n, f, e, u, z) ==
    (IF Assoc(n, f) THEN <<"associativity">> ELSE <<>>)
    \o (IF Comm(n, f) THEN <<"commutativity">> ELSE <<>>)
    \o (IF Idem(n, f) THEN <<"idempotency">> ELSE <<>>)
    \o (IF Identity(n, f, e) THEN <<"identity">> ELSE <<>>)
    \o (IF Inverse(n, f, e, u) THEN <<"inverse">> ELSE <<>>)
    \o (IF Absorbing(n, f, z) THEN <<"absorbing_element">> ELSE <<>>)

-----------------------------------------------------------------------------
(* Shipped semiring applications over integer codes.
     BinaryTrust      code 0 = false, 1 = true;            (OR, AND, false, true)
     Multiplicity     code k = k;                          (+, *, 0, 1)
     Cost             code -1 = Infinity, k = Finite(k);   (min, +, Infinity, Finite(0))
     ConfidenceScore  code -1 = 0.0, k = 2^-k (exact in f64); (max, *, 0.0, 1.0)
     FuzzyLogic       code k = k/4 for k in 0..4;          (max, min, 0.0, 1.0) *)
Apps == {"BinaryTrust", "Multiplicity", "Cost", "ConfidenceScore", "FuzzyLogic"}

Min2(a, b) == IF a <= b THEN a ELSE b
Max2(a, b) == IF a >= b THEN a ELSE b

AppAdd(app, a, b) ==
    CASE app = "BinaryTrust" -> IF a = 1 \/ b = 1 THEN 1 ELSE 0
      [] app = "Multiplicity" -> a + b
      [] app = "Cost" -> IF a = -1 THEN b ELSE IF b = -1 THEN a ELSE Min2(a, b)
      \* max(2^-a, 2^-b) = 2^-min(a,b);  max(0, x) = x
      [] app = "ConfidenceScore" -> IF a = -1 THEN b ELSE IF b = -1 THEN a ELSE Min2(a, b)
      [] app = "FuzzyLogic" -> Max2(a, b)

AppMul(app, a, b) ==
    CASE app = "BinaryTrust" -> IF a = 1 /\ b = 1 THEN 1 ELSE 0
      [] app = "Multiplicity" -> a * b
      [] app = "Cost" -> IF a = -1 \/ b = -1 THEN -1 ELSE a + b
      \* 2^-a * 2^-b = 2^-(a+b);  0 * x = 0
      [] app = "ConfidenceScore" -> IF a = -1 \/ b = -1 THEN -1 ELSE a + b
      [] app = "FuzzyLogic" -> Min2(a, b)

AppZero(app) ==
    CASE app = "BinaryTrust" -> 0 [] app = "Multiplicity" -> 0 [] app = "Cost" -> -1
      [] app = "ConfidenceScore" -> -1 [] app = "FuzzyLogic" -> 0
AppOne(app) ==
    CASE app = "BinaryTrust" -> 1 [] app = "Multiplicity" -> 1 [] app = "Cost" -> 0
      [] app = "ConfidenceScore" -> 0 [] app = "FuzzyLogic" -> 4

\* the sample of the carrier used for the conformance run (K >= 1)
AppItems(app, K) ==
    CASE app = "BinaryTrust" -> {0, 1}
      [] app = "Multiplicity" -> 0..K
      [] app = "Cost" -> (-1)..K
      [] app = "ConfidenceScore" -> (-1)..K
      [] app = "FuzzyLogic" -> 0..4

\* the semiring laws of an application, every tuple drawn from the item set S (operation
\* results may leave S, exactly as in the Rust checker)
AppSemiringOn(app, S) ==
    LET F(a, b) == AppAdd(app, a, b)
        G(a, b) == AppMul(app, a, b)
        z == AppZero(app)
        o == AppOne(app)
    IN /\ \A a, b, c \in S : F(a, F(b, c)) = F(F(a, b), c)
       /\ \A a \in S : F(z, a) = a /\ F(a, z) = a
       /\ \A a, b \in S : F(a, b) = F(b, a)
       /\ \A a, b, c \in S : G(a, G(b, c)) = G(G(a, b), c)
       /\ \A a \in S : G(o, a) = a /\ G(a, o) = a
       /\ \A a \in S : G(a, z) = z /\ G(z, a) = z
       /\ \A a, b, c \in S : G(a, F(b, c)) = F(G(a, b), G(a, c))
       /\ \A a, b, c \in S : G(F(b, c), a) = F(G(b, a), G(c, a))
=============================================================================
