SPECIFICATION Spec
CONSTANTS
  EMIT = FALSE
  THOROUGH = FALSE
  MaxOne = 3
  MaxBil = 1
  AppK = 4
INVARIANTS Agree LinearityFact Meta Emit
CHECK_DEADLOCK FALSE
