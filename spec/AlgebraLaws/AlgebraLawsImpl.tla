-------------------------- MODULE AlgebraLawsImpl --------------------------
(* Implementation-shaped model of the checkers of lattices/src/algebra.rs, composed with the
   reference laws of AlgebraLaws, and generator of the conformance vectors.

   Every checker is transcribed as the function "error message it returns" ("" = Ok):
   which sub-checkers a composite calls, on which operation and element, and in which order
   (the `?` chain returns the first failure).  One initial state = one case (carrier size +
   operation tables); the single step `Eval` computes the reference verdicts and the
   transcribed messages.  Invariants:
     Agree   each transcribed checker answers Ok exactly when the reference law holds;
     Meta    sanity theorems of the reference definitions themselves (uniqueness of
             identity / absorbing element, cancellation in groups, left = right
             distributivity for commutative g, transport of associativity along bijective
             homomorphisms, the shipped applications are semirings);
     Emit    prints one CASE line per case (EMIT = TRUE): tables + expected verdicts.
   Counting ASSUMEs pin the reference laws to known numbers (8 / 113 associative tables on
   2 / 3 elements, 3 group tables on 3 labelled elements, ...). *)
EXTENDS AlgebraLaws, TLC, Json, IOUtils

CONSTANTS
    EMIT,       \* print CASE lines
    THOROUGH,   \* larger strata on 3 elements
    MaxOne,     \* kind "one": all tables for n <= MaxOne
    MaxBil,     \* kind "bilin": all 4-tuples of tables for n <= MaxBil (2 => 65536 cases)
    AppK        \* carrier sample bound of the numeric semiring applications

\* sampled cases chosen by the driver (seeded): records [kind, n, m, f, g, h, p, q, u, w] with
\* explicit tables (<<>> where the kind has none); kind "lin": f on Car(n), g on Car(m), q : n -> m
Picks == ndJsonDeserialize(IOEnv.PICKS)

-----------------------------------------------------------------------------
(* transcription of algebra.rs *)
\* `a?; b` : the second check runs only when the first succeeded (arguments are lazy in TLC)
Then(a, b) == IF a # "" THEN a ELSE b

MsgAssoc(n, f) == IF Assoc(n, f) THEN "" ELSE "Associativity check failed."
MsgComm(n, f) == IF Comm(n, f) THEN "" ELSE "Commutativity check failed."
MsgIdem(n, f) == IF Idem(n, f) THEN "" ELSE "Idempotency check failed."
\* for a in items { if f(e,a) != a {Left}; if f(a,e) != a {Right} }
MsgIdentity(n, f, e) ==
    LET bad == {a \in Car(n) : Ap2(f, e, a) # a \/ Ap2(f, a, e) # a}
    IN IF bad = {} THEN ""
       ELSE LET a == CHOOSE x \in bad : \A y \in bad : x <= y
            IN IF Ap2(f, e, a) # a THEN "Left Identity check failed."
               ELSE "Right Identity check failed."
MsgAbsorbing(n, f, z) == IF Absorbing(n, f, z) THEN "" ELSE "Absorbing element property check failed."
MsgInverse(n, f, e, u) == IF Inverse(n, f, e, u) THEN "" ELSE "Inverse check failed."
MsgNzInverse(n, f, e, zero, u) ==
    IF NonzeroInverse(n, f, e, zero, u) THEN "" ELSE "Nonzero inverse check failed."
\* if *a != zero && *b != zero { f(a,b) == zero -> Err; f(b,a) == zero -> Err }
MsgNzd(n, f, zero) ==
    IF \A a, b \in Car(n) : (a # zero /\ b # zero) => (Ap2(f, a, b) # zero /\ Ap2(f, b, a) # zero)
    THEN "" ELSE "No nonzero zero divisors check failed."
MsgLDistr(n, f, g) == IF LeftDistr(n, f, g) THEN "" ELSE "Left distributive property check failed."
MsgRDistr(n, f, g) == IF RightDistr(n, f, g) THEN "" ELSE "Right distributive property check failed."
MsgDistr(n, f, g) == Then(MsgLDistr(n, f, g), MsgRDistr(n, f, g))
\* if q(f(a,b)) != g(q(a), q(b))
ImplLinear(n, f, g, q) ==
    \A a, b \in Car(n) : Ap1(q, Ap2(f, a, b)) = Ap2(g, Ap1(q, a), Ap1(q, b))
MsgLinear(n, f, g, q) == IF ImplLinear(n, f, g, q) THEN "" ELSE "Linearity check failed."
MsgBilinear(n, f, h, g, q) == IF Bilinear(n, f, h, g, q) THEN "" ELSE "Bilinearity check failed."

MsgSemigroup(n, f) == MsgAssoc(n, f)
MsgMonoid(n, f, e) == Then(MsgSemigroup(n, f), MsgIdentity(n, f, e))
MsgCMonoid(n, f, e) == Then(MsgMonoid(n, f, e), MsgComm(n, f))
MsgGroup(n, f, e, u) == Then(MsgMonoid(n, f, e), MsgInverse(n, f, e, u))
MsgAbelian(n, f, e, u) == Then(MsgGroup(n, f, e, u), MsgComm(n, f))
MsgSemiring(n, f, g, zero, one) ==
    Then(MsgCMonoid(n, f, zero), Then(MsgMonoid(n, g, one), Then(MsgAbsorbing(n, g, zero), MsgDistr(n, f, g))))
MsgRing(n, f, g, zero, one, u) ==
    Then(MsgSemiring(n, f, g, zero, one), MsgInverse(n, f, zero, u))
MsgCRing(n, f, g, zero, one, u) ==
    Then(MsgSemiring(n, f, g, zero, one), Then(MsgInverse(n, f, zero, u), MsgComm(n, g)))
MsgIntDom(n, f, g, zero, one, u) ==
    Then(MsgCRing(n, f, g, zero, one, u), MsgNzd(n, g, zero))
MsgField(n, f, g, zero, one, u, w) ==
    Then(MsgCRing(n, f, g, zero, one, u), MsgNzInverse(n, g, one, zero, w))

ImplProps(n, f, e, u, z) ==
    (IF MsgAssoc(n, f) = "" THEN <<"associativity">> ELSE <<>>)
    \o (IF MsgComm(n, f) = "" THEN <<"commutativity">> ELSE <<>>)
    \o (IF MsgIdem(n, f) = "" THEN <<"idempotency">> ELSE <<>>)
    \o (IF MsgIdentity(n, f, e) = "" THEN <<"identity">> ELSE <<>>)
    \o (IF MsgInverse(n, f, e, u) = "" THEN <<"inverse">> ELSE <<>>)
    \o (IF MsgAbsorbing(n, f, z) = "" THEN <<"absorbing_element">> ELSE <<>>)

-----------------------------------------------------------------------------
(* cases: small records of table indices, expanded to tables by `Tables` *)
CI(kind, n, m, fi, gi, hi, pi, qi, ui, wi) ==
    [kind |-> kind, n |-> n, m |-> m, fi |-> fi, gi |-> gi, hi |-> hi, pi |-> pi, qi |-> qi,
     ui |-> ui, wi |-> wi]

T2(n, k) == Tab2(n, n, k)
T1(n, k) == Tab1(n, n, k)
All2(n) == 0..(NTab2(n, n) - 1)
All1(n) == 0..(NTab1(n, n) - 1)
Transpose(n, f) == [i \in 1..n |-> [j \in 1..n |-> f[j][i]]]
\* index of a table (inverse of T2)
IdxOf(n, t) ==
    LET RECURSIVE sum(_)
        sum(c) == IF c = n * n THEN 0 ELSE t[(c \div n) + 1][(c % n) + 1] * (n ^ c) + sum(c + 1)
    IN sum(0)
TrIdx(n, k) == IdxOf(n, Transpose(n, T2(n, k)))

AssocIdx(n) == {k \in All2(n) : Assoc(n, T2(n, k))}
Assoc2 == AssocIdx(2)
Assoc3 == AssocIdx(3)
\* group tables on 3 labelled elements with their identity and inverse table
Mon3 == {k \in Assoc3 : \E e \in Car(3) : Identity(3, T2(3, k), e)}       \* monoid tables
Group3 == {t \in Mon3 \X Car(3) \X All1(3) : Group(3, T2(3, t[1]), t[2], T1(3, t[3]))}
CMon3 == {k \in Mon3 : Comm(3, T2(3, k))}

OneCases == UNION {{CI("one", n, n, k, 0, 0, 0, 0, 0, 0) : k \in All2(n)} : n \in 1..MaxOne}

UnaryCases ==
    UNION {{CI("unary", n, n, k, 0, 0, 0, 0, ui, 0) : k \in All2(n), ui \in All1(n)} : n \in 1..2}
    \cup {CI("unary", 3, 3, k, 0, 0, 0, 0, ui, 0) : k \in (IF THOROUGH THEN Assoc3 ELSE Mon3), ui \in All1(3)}

TwoCases ==
    UNION {{CI("two", n, n, k, j, 0, 0, 0, 0, 0) : k \in All2(n), j \in All2(n)} : n \in 1..2}
    \cup {CI("two", 3, 3, k, j, 0, 0, 0, 0, 0) : k \in (IF THOROUGH THEN Assoc3 ELSE CMon3), j \in (IF THOROUGH THEN Assoc3 ELSE Mon3)}

RingCases ==
    UNION {{CI("ring", n, n, k, j, 0, 0, 0, ui, wi) :
                k \in All2(n), j \in All2(n), ui \in All1(n),
                wi \in (IF THOROUGH THEN All1(n) ELSE {0, NTab1(n, n) - 1})} : n \in 1..2}
    \cup {CI("ring", 3, 3, t[1], j, 0, 0, 0, t[3], wi) : t \in Group3, j \in (IF THOROUGH THEN Assoc3 ELSE Mon3),
            wi \in (IF THOROUGH THEN All1(3) ELSE {w \in All1(3) : w % 3 = 0})}

LinCases ==
    UNION {{CI("lin", n, n, k, j, 0, 0, qi, 0, 0) :
                k \in All2(n), j \in All2(n), qi \in All1(n)} : n \in 1..2}
    \* endomorphism / anti-endomorphism candidates of every semigroup on 3 elements
    \cup {CI("lin", 3, 3, k, k, 0, 0, qi, 0, 0) : k \in (IF THOROUGH THEN Assoc3 ELSE Mon3), qi \in All1(3)}
    \cup {CI("lin", 3, 3, k, TrIdx(3, k), 0, 0, qi, 0, 0) : k \in (IF THOROUGH THEN Assoc3 ELSE Mon3), qi \in All1(3)}

BilCases ==
    {CI("bilin", 1, 1, 0, 0, 0, 0, 0, 0, 0)}
    \cup (IF MaxBil >= 2
          THEN {CI("bilin", 2, 2, k, j, i, pi, 0, 0, 0) :
                    k \in All2(2), j \in All2(2), i \in All2(2), pi \in All2(2)}
          ELSE {CI("bilin", 2, 2, k, j, k, pi, 0, 0, 0) :
                    k \in Assoc2, j \in Assoc2, pi \in All2(2)})

\* sampled cases chosen by the driver (explicit tables, any carrier size)
PickCases == {[kind |-> "pick", i |-> i] : i \in 1..Len(Picks)}

AppCases == {[kind |-> "app", app |-> a] : a \in Apps}

Cases == OneCases \cup UnaryCases \cup TwoCases \cup RingCases \cup LinCases \cup BilCases
         \cup PickCases

SetToSeq(S) ==
    LET RECURSIVE go(_)
        go(T) == IF T = {} THEN <<>>
                 ELSE LET x == CHOOSE y \in T : \A z \in T : y <= z IN <<x>> \o go(T \ {x})
    IN go(S)

\* the case with its tables written out (binary tables f, g, h, p; unary tables q, u, w;
\* <<>> where the kind has no such table)
NoT == <<>>
Tables(ci) ==
    LET k == ci.kind n == ci.n m == ci.m
        B(on, nn, idx) == IF on THEN T2(nn, idx) ELSE NoT
        U(on, idx) == IF on THEN T1(n, idx) ELSE NoT
    IN IF k = "app" THEN [kind |-> "app", app |-> ci.app, items |-> SetToSeq(AppItems(ci.app, AppK))]
       ELSE IF k = "pick"
       THEN LET pk == Picks[ci.i] IN
            [kind |-> pk.kind, n |-> pk.n, m |-> pk.m, f |-> pk.f, g |-> pk.g, h |-> pk.h, p |-> pk.p,
             q |-> pk.q, u |-> pk.u, w |-> pk.w]
       ELSE [kind |-> k, n |-> n, m |-> m,
             f |-> T2(n, ci.fi),
             g |-> B(k \in {"two", "ring", "lin", "bilin"}, m, ci.gi),
             h |-> B(k = "bilin", n, ci.hi),
             p |-> B(k = "bilin", n, ci.pi),
             q |-> IF k = "lin" THEN Tab1(n, m, ci.qi) ELSE NoT,
             u |-> U(k \in {"unary", "ring"}, ci.ui),
             w |-> U(k = "ring", ci.wi)]

-----------------------------------------------------------------------------
(* verdict records: `Exp` from the reference (booleans), `Impl` from the transcription
   (messages), same field names as the harness log *)
ByE(n, Op(_)) == [i \in 1..n |-> Op(i - 1)]
ByEZ(n, Op(_, _)) == [i \in 1..n |-> [j \in 1..n |-> Op(i - 1, j - 1)]]

Exp(c) ==
    LET n == c.n f == c.f g == c.g h == c.h p == c.p q == c.q u == c.u w == c.w IN
    CASE c.kind = "one" ->
           LET ide(e) == Identity(n, f, e)  ab(e) == Absorbing(n, f, e)  mo(e) == Monoid(n, f, e)
               cm(e) == CommMonoid(n, f, e)  nz(e) == NoZeroDivisors(n, f, e) IN
           [assoc |-> Assoc(n, f), comm |-> Comm(n, f), idem |-> Idem(n, f), semigroup |-> Semigroup(n, f),
            identity |-> ByE(n, ide), absorbing |-> ByE(n, ab), monoid |-> ByE(n, mo),
            cmonoid |-> ByE(n, cm), nzd |-> ByE(n, nz)]
      [] c.kind = "unary" ->
           LET inv(e) == Inverse(n, f, e, u)  gr(e) == Group(n, f, e, u)  ag(e) == AbelianGroup(n, f, e, u)
               nzi(e, z) == NonzeroInverse(n, f, e, z, u)  pr(e, z) == SingleProps(n, f, e, u, z) IN
           [inverse |-> ByE(n, inv), group |-> ByE(n, gr), abelian |-> ByE(n, ag),
            nzinverse |-> ByEZ(n, nzi), props |-> ByEZ(n, pr)]
      [] c.kind = "two" ->
           LET sr(z, o) == Semiring(n, f, g, z, o) IN
           [ldistr |-> LeftDistr(n, f, g), rdistr |-> RightDistr(n, f, g), distr |-> Distr(n, f, g),
            semiring |-> ByEZ(n, sr)]
      [] c.kind = "ring" ->
           LET ri(z, o) == Ring(n, f, g, z, o, u)  cr(z, o) == CommRing(n, f, g, z, o, u)
               idm(z, o) == IntegralDomain(n, f, g, z, o, u)  fi(z, o) == Field(n, f, g, z, o, u, w) IN
           [ring |-> ByEZ(n, ri), cring |-> ByEZ(n, cr), intdom |-> ByEZ(n, idm), field |-> ByEZ(n, fi)]
      [] c.kind = "lin" -> [linearity |-> Linear(n, f, g, q)]
      [] c.kind = "bilin" -> [bilinearity |-> Bilinear(n, f, h, g, p)]
      [] c.kind = "app" -> [semiring |-> AppSemiringOn(c.app, {c.items[i] : i \in 1..Len(c.items)})]

Impl(c) ==
    LET n == c.n f == c.f g == c.g h == c.h p == c.p q == c.q u == c.u w == c.w IN
    CASE c.kind = "one" ->
           LET ide(e) == MsgIdentity(n, f, e)  ab(e) == MsgAbsorbing(n, f, e)  mo(e) == MsgMonoid(n, f, e)
               cm(e) == MsgCMonoid(n, f, e)  nz(e) == MsgNzd(n, f, e) IN
           [assoc |-> MsgAssoc(n, f), comm |-> MsgComm(n, f), idem |-> MsgIdem(n, f), semigroup |-> MsgSemigroup(n, f),
            identity |-> ByE(n, ide), absorbing |-> ByE(n, ab), monoid |-> ByE(n, mo),
            cmonoid |-> ByE(n, cm), nzd |-> ByE(n, nz)]
      [] c.kind = "unary" ->
           LET inv(e) == MsgInverse(n, f, e, u)  gr(e) == MsgGroup(n, f, e, u)  ag(e) == MsgAbelian(n, f, e, u)
               nzi(e, z) == MsgNzInverse(n, f, e, z, u)  pr(e, z) == ImplProps(n, f, e, u, z) IN
           [inverse |-> ByE(n, inv), group |-> ByE(n, gr), abelian |-> ByE(n, ag),
            nzinverse |-> ByEZ(n, nzi), props |-> ByEZ(n, pr)]
      [] c.kind = "two" ->
           LET sr(z, o) == MsgSemiring(n, f, g, z, o) IN
           [ldistr |-> MsgLDistr(n, f, g), rdistr |-> MsgRDistr(n, f, g), distr |-> MsgDistr(n, f, g),
            semiring |-> ByEZ(n, sr)]
      [] c.kind = "ring" ->
           LET ri(z, o) == MsgRing(n, f, g, z, o, u)  cr(z, o) == MsgCRing(n, f, g, z, o, u)
               idm(z, o) == MsgIntDom(n, f, g, z, o, u)  fi(z, o) == MsgField(n, f, g, z, o, u, w) IN
           [ring |-> ByEZ(n, ri), cring |-> ByEZ(n, cr), intdom |-> ByEZ(n, idm), field |-> ByEZ(n, fi)]
      [] c.kind = "lin" -> [linearity |-> MsgLinear(n, f, g, q)]
      [] c.kind = "bilin" -> [bilinearity |-> MsgBilinear(n, f, h, g, p)]
      [] c.kind = "app" -> [semiring |-> ""]

-----------------------------------------------------------------------------
VARIABLES ci, case, phase, exp, impl
vars == <<ci, case, phase, exp, impl>>

Init == ci \in (Cases \cup AppCases) /\ case = <<>> /\ phase = "new" /\ exp = <<>> /\ impl = <<>>

Eval ==
    /\ phase = "new"
    /\ phase' = "done"
    /\ case' = Tables(ci)
    /\ exp' = Exp(case')
    /\ impl' = Impl(case')
    /\ UNCHANGED ci

Done == phase = "done" /\ UNCHANGED vars
Next == Eval \/ Done
Spec == Init /\ [][Next]_vars

-----------------------------------------------------------------------------
OkV(x) == x = ""
Same1(n, ms, bs) == \A i \in 1..n : OkV(ms[i]) = bs[i]
Same2(n, ms, bs) == \A i \in 1..n : \A j \in 1..n : OkV(ms[i][j]) = bs[i][j]

Agree == phase = "done" =>
    LET n == case.n IN
    CASE case.kind = "one" ->
           /\ OkV(impl.assoc) = exp.assoc /\ OkV(impl.comm) = exp.comm /\ OkV(impl.idem) = exp.idem
           /\ OkV(impl.semigroup) = exp.semigroup
           /\ Same1(n, impl.identity, exp.identity) /\ Same1(n, impl.absorbing, exp.absorbing)
           /\ Same1(n, impl.monoid, exp.monoid) /\ Same1(n, impl.cmonoid, exp.cmonoid)
           /\ Same1(n, impl.nzd, exp.nzd)
      [] case.kind = "unary" ->
           /\ Same1(n, impl.inverse, exp.inverse) /\ Same1(n, impl.group, exp.group)
           /\ Same1(n, impl.abelian, exp.abelian) /\ Same2(n, impl.nzinverse, exp.nzinverse)
           /\ impl.props = exp.props
      [] case.kind = "two" ->
           /\ OkV(impl.ldistr) = exp.ldistr /\ OkV(impl.rdistr) = exp.rdistr /\ OkV(impl.distr) = exp.distr
           /\ Same2(n, impl.semiring, exp.semiring)
      [] case.kind = "ring" ->
           /\ Same2(n, impl.ring, exp.ring) /\ Same2(n, impl.cring, exp.cring)
           /\ Same2(n, impl.intdom, exp.intdom) /\ Same2(n, impl.field, exp.field)
      [] case.kind = "lin" -> OkV(impl.linearity) = exp.linearity
      [] case.kind = "bilin" -> OkV(impl.bilinearity) = exp.bilinearity
      [] case.kind = "app" -> OkV(impl.semiring) = exp.semiring

\* a homomorphism into (Car(m), g) is an anti-homomorphism into the mirrored operation: the
\* strata with transposed g separate the law from its mirror image
LinearityFact == (phase = "done" /\ case.kind = "lin") =>
    (Comm(case.m, case.g) =>
        (exp.linearity = Linear(case.n, case.f, Transpose(case.m, case.g), case.q)))

Bij(n, q) == {q[i] : i \in 1..n} = Car(n)

Meta == phase = "done" =>
    LET n == case.n f == case.f g == case.g u == case.u IN
    CASE case.kind = "one" ->
           /\ Cardinality({e \in Car(n) : Identity(n, f, e)}) <= 1
           /\ Cardinality({z \in Car(n) : Absorbing(n, f, z)}) <= 1
           /\ \A e, z \in Car(n) : (n > 1 /\ Identity(n, f, e) /\ Absorbing(n, f, z)) => e # z
           /\ (\E e \in Car(n) : Identity(n, f, e)) \/ \A e \in Car(n) : ~Monoid(n, f, e)
      [] case.kind = "unary" ->
           \A e \in Car(n) : Group(n, f, e, u) =>
               \A a, b, c \in Car(n) : (Ap2(f, a, b) = Ap2(f, a, c) => b = c) /\ (Ap2(f, b, a) = Ap2(f, c, a) => b = c)
      [] case.kind = "two" -> Comm(n, g) => (LeftDistr(n, f, g) = RightDistr(n, f, g))
      [] case.kind = "ring" ->
           \A z, o \in Car(n) : Ring(n, f, g, z, o, u) => (AbelianGroup(n, f, z, u) /\ Absorbing(n, g, z))
      [] case.kind = "lin" ->
           (case.n = case.m /\ Linear(n, f, g, case.q) /\ Bij(n, case.q) /\ Assoc(n, f)) => Assoc(n, g)
      [] case.kind = "bilin" -> TRUE
      [] case.kind = "app" -> exp.semiring      \* the shipped applications are semirings

Emit == (EMIT /\ phase = "done") => PrintT(<<"CASE", ToJson([c |-> case, exp |-> exp, impl |-> impl])>>)

\* known numbers of labelled structures (OEIS A023814: 1, 8, 113 semigroup tables)
ASSUME Cardinality(AssocIdx(1)) = 1
ASSUME Cardinality(Assoc2) = 8
ASSUME Cardinality(Assoc3) = 113
ASSUME Cardinality({k \in All2(2) : Comm(2, T2(2, k))}) = 8
ASSUME Cardinality({k \in All2(2) : Idem(2, T2(2, k))}) = 4
ASSUME Cardinality({t[1] : t \in Group3}) = 3
ASSUME Cardinality({k \in All2(2) : \E e \in Car(2) : Monoid(2, T2(2, k), e)}) = 4
\* the numeric applications are semirings on a larger carrier sample than the one replayed
ASSUME \A a \in Apps : AppSemiringOn(a, AppItems(a, AppK + 2))
=============================================================================
