------------------------- MODULE AlgebraLawsTrace -------------------------
(* Validation of what the real checkers of lattices::algebra returned (C09).
   The log (ndjson, path in env TRACE) has one event per case:
     {"e":"case","id":k,"kind":K,"n":n,"m":m,"f":..,"g":..,"h":..,"p":..,"q":..,"u":..,"w":..,
      "v":{<checker>: message | [message per e] | [[message per zero][per one]] ...}}
         message "" = the checker returned Ok, "PANIC" = it panicked, else its Err text;
         tables are the ones the harness really passed (closures over these arrays)
     {"e":"app","id":k,"app":A,"items":[codes],"add":[[codes]],"mul":[[codes]],
      "zero":code,"one":code,"v":{"semiring":message}}
         operation tables of the real semiring application over the item codes
     {"e":"eof"}
   For every event the reference law of AlgebraLaws is evaluated on the logged tables and
   compared with the logged verdict; disagreements are collected in
   viol = {<<id, checker, class>>} (class: false-ok, false-err, panic, wrong-list, ...) and
   printed at eof.  `nver` counts the verdicts compared. *)
EXTENDS AlgebraLaws, TLC, Json, IOUtils

Rec == ndJsonDeserialize(IOEnv.TRACE)

VARIABLES l, viol, nver
tvars == <<l, viol, nver>>
Ev == Rec[l]

\* one verdict: message r against the reference truth x
Mis(id, name, r, x) ==
    IF r = "PANIC" THEN {<<id, name, "panic">>}
    ELSE IF (r = "") = x THEN {}
    ELSE {<<id, name, IF x THEN "false-err" ELSE "false-ok">>}

Mis1(id, name, n, rs, X(_)) == UNION {Mis(id, name, rs[e + 1], X(e)) : e \in Car(n)}
Mis2(id, name, n, rs, X(_, _)) ==
    UNION {Mis(id, name, rs[z + 1][o + 1], X(z, o)) : z \in Car(n), o \in Car(n)}

CaseViol(ev) ==
    LET id == ev.id n == ev.n f == ev.f g == ev.g h == ev.h p == ev.p q == ev.q u == ev.u w == ev.w
        v == ev.v IN
    CASE ev.kind = "one" ->
           LET ide(e) == Identity(n, f, e)  ab(e) == Absorbing(n, f, e)  mo(e) == Monoid(n, f, e)
               cm(e) == CommMonoid(n, f, e)  nz(e) == NoZeroDivisors(n, f, e) IN
           Mis(id, "associativity", v.assoc, Assoc(n, f))
           \cup Mis(id, "commutativity", v.comm, Comm(n, f))
           \cup Mis(id, "idempotency", v.idem, Idem(n, f))
           \cup Mis(id, "semigroup", v.semigroup, Semigroup(n, f))
           \cup Mis1(id, "identity", n, v.identity, ide)
           \cup Mis1(id, "absorbing_element", n, v.absorbing, ab)
           \cup Mis1(id, "monoid", n, v.monoid, mo)
           \cup Mis1(id, "commutative_monoid", n, v.cmonoid, cm)
           \cup Mis1(id, "no_nonzero_zero_divisors", n, v.nzd, nz)
      [] ev.kind = "unary" ->
           LET inv(e) == Inverse(n, f, e, u)  gr(e) == Group(n, f, e, u)  ag(e) == AbelianGroup(n, f, e, u)
               nzi(e, z) == NonzeroInverse(n, f, e, z, u) IN
           Mis1(id, "inverse", n, v.inverse, inv)
           \cup Mis1(id, "group", n, v.group, gr)
           \cup Mis1(id, "abelian_group", n, v.abelian, ag)
           \cup Mis2(id, "nonzero_inverse", n, v.nzinverse, nzi)
           \cup UNION {IF v.props[e + 1][z + 1] = SingleProps(n, f, e, u, z) THEN {}
                       ELSE {<<id, "get_single_function_properties",
                               IF v.props[e + 1][z + 1] = <<"PANIC">> THEN "panic" ELSE "wrong-list">>} :
                       e \in Car(n), z \in Car(n)}
      [] ev.kind = "two" ->
           LET sr(z, o) == Semiring(n, f, g, z, o) IN
           Mis(id, "left_distributes", v.ldistr, LeftDistr(n, f, g))
           \cup Mis(id, "right_distributes", v.rdistr, RightDistr(n, f, g))
           \cup Mis(id, "distributive", v.distr, Distr(n, f, g))
           \cup Mis2(id, "semiring", n, v.semiring, sr)
      [] ev.kind = "ring" ->
           LET ri(z, o) == Ring(n, f, g, z, o, u)  cr(z, o) == CommRing(n, f, g, z, o, u)
               idm(z, o) == IntegralDomain(n, f, g, z, o, u)  fi(z, o) == Field(n, f, g, z, o, u, w) IN
           Mis2(id, "ring", n, v.ring, ri)
           \cup Mis2(id, "commutative_ring", n, v.cring, cr)
           \cup Mis2(id, "integral_domain", n, v.intdom, idm)
           \cup Mis2(id, "field", n, v.field, fi)
      [] ev.kind = "lin" ->
           \* class of a linearity disagreement: the input class that separates the law from
           \* its mirror image (g not commutative) is named
           {<<t[1], t[2], IF t[3] # "panic" /\ ~Comm(ev.m, g) THEN "noncommutative-g" ELSE t[3]>> :
               t \in Mis(id, "linearity", v.linearity, Linear(n, f, g, q))}
      [] ev.kind = "bilin" -> Mis(id, "bilinearity", v.bilinearity, Bilinear(n, f, h, g, p))

CaseCount(ev) ==
    LET n == ev.n IN
    CASE ev.kind = "one" -> 4 + 5 * n
      [] ev.kind = "unary" -> 3 * n + 2 * n * n
      [] ev.kind = "two" -> 3 + n * n
      [] ev.kind = "ring" -> 4 * n * n
      [] ev.kind = "lin" -> 1
      [] ev.kind = "bilin" -> 1

\* a semiring application: the real operation tables must be the transcribed operations, the
\* real zero()/one() the transcribed constants, and the real semiring(..) call must answer Ok
\* exactly when the semiring laws hold of the transcribed operations on the items
AppViol(ev) ==
    LET id == ev.id a == ev.app k == Len(ev.items)
        S == {ev.items[i] : i \in 1..k} IN
    (IF \A i, j \in 1..k : ev.add[i][j] = AppAdd(a, ev.items[i], ev.items[j]) THEN {}
     ELSE {<<id, a, "add-table">>})
    \cup (IF \A i, j \in 1..k : ev.mul[i][j] = AppMul(a, ev.items[i], ev.items[j]) THEN {}
          ELSE {<<id, a, "mul-table">>})
    \cup (IF ev.zero = AppZero(a) /\ ev.one = AppOne(a) THEN {} ELSE {<<id, a, "zero-one">>})
    \cup {<<t[1], a, "semiring-verdict">> : t \in Mis(id, "semiring", ev.v.semiring, AppSemiringOn(a, S))}
    \cup (IF AppSemiringOn(a, S) THEN {} ELSE {<<id, a, "not-a-semiring">>})

TInit == l = 1 /\ viol = {} /\ nver = 0

TCase == /\ Ev.e = "case"
         /\ viol' = viol \cup CaseViol(Ev)
         /\ nver' = nver + CaseCount(Ev)
TApp == /\ Ev.e = "app"
        /\ viol' = viol \cup AppViol(Ev)
        /\ nver' = nver + 4
TEof == /\ Ev.e = "eof"
        /\ UNCHANGED <<viol, nver>>
        /\ PrintT(<<"VIOL", ToJson(viol)>>)
        /\ PrintT(<<"NVER", ToJson(<<nver>>)>>)

TNext == l <= Len(Rec) /\ l' = l + 1 /\ (TCase \/ TApp \/ TEof)
TSpec == TInit /\ [][TNext]_tvars

TraceAccepted ==
    LET d == TLCGet("stats").diameter IN
    IF d - 1 = Len(Rec) THEN TRUE
    ELSE Print(<<"UNMATCHED-EVENT-AT-LINE", d, Rec[d]>>, FALSE)
=============================================================================
