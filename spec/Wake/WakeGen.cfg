\* generator: one CASE line per reachable state (schedule = breadth-first tree path, VIEW NoHist)
SPECIFICATION Spec
CONSTANTS
  NW = 2
  Sends = 1
  SPURIOUS = TRUE
  MaxSpur = 1
  EMIT = TRUE
  EMITALL = TRUE
INVARIANTS C27Inv ImplInv Emit
VIEW NoHist
CHECK_DEADLOCK FALSE
