----------------------------- MODULE WakeTrace -----------------------------
(* Trace validation of the real Dfir::run() / WakeState::wake_by_ref under the controlled
   scheduler against the Wake monitor.  The trace (ndjson, path in env TRACE) is a
   concatenation of cases, events in the controller's order:
     {"e":"reset","case":k,"nw":N,"sends":S}
     {"e":"arrive","w":w,"item":i,"fired":bool,...}
     {"e":"wseg","w":w,"to":"wake_stored"|"wake_done"|"done","tw":bool}
     {"e":"tick","items":[..],"to":"tick_done","tw":bool}
     {"e":"run","to":"<yield point>","tw":bool}
     {"e":"stall"} | {"e":"panic","msg":..} | {"e":"eof"}
   Property-level rule breaks are collected per case in `viol`, implementation facts that do
   not hold in `drift`; both are printed at eof. *)
EXTENDS Wake, TLC, Json, IOUtils

Rec == ndJsonDeserialize(IOEnv.TRACE)

VARIABLES l, case, viol, drift
tvars == <<mvars, l, case, viol, drift>>

Ev == Rec[l]

TInit ==
    /\ l = 1 /\ case = 0 /\ viol = {} /\ drift = {}
    /\ MInit(0)

Consume == l <= Len(Rec) /\ l' = l + 1

TReset == Ev.e = "reset" /\ MReset(Ev.nw) /\ case' = Ev.case
TArrive == Ev.e = "arrive" /\ MArrive(Ev.w, Ev.item, Ev.fired) /\ UNCHANGED case
TWseg == Ev.e = "wseg" /\ MWakerSeg(Ev.w, Ev.to, Ev.tw) /\ UNCHANGED case
TTick == Ev.e = "tick" /\ MTick(Ev.items, Ev.to, Ev.tw) /\ UNCHANGED case
TRun == Ev.e = "run" /\ MRunner(Ev.to, Ev.tw) /\ UNCHANGED case
TStall == Ev.e = "stall" /\ MStall /\ UNCHANGED case
TPanic == Ev.e = "panic" /\ MPanic /\ UNCHANGED case
TEof == /\ Ev.e = "eof" /\ UNCHANGED <<mvars, case>>
        /\ PrintT(<<"VIOL", ToJson(viol)>>) /\ PrintT(<<"DRIFT", ToJson(drift)>>)

TNext ==
    /\ Consume
    /\ (TReset \/ TArrive \/ TWseg \/ TTick \/ TRun \/ TStall \/ TPanic \/ TEof)
    /\ viol' = viol \cup {<<case', b>> : b \in Broken'}
    /\ drift' = drift \cup {<<case', o>> : o \in Odd'}

TSpec == TInit /\ [][TNext]_tvars

TraceAccepted ==
    LET d == TLCGet("stats").diameter IN
    IF d - 1 = Len(Rec) THEN TRUE
    ELSE Print(<<"UNMATCHED-EVENT-AT-LINE", d, Rec[d]>>, FALSE)
=============================================================================
