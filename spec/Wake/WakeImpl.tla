----------------------------- MODULE WakeImpl -----------------------------
(* Implementation-shaped model of the wake/run protocol of dfir_rs/src/scheduled/context.rs,
   composed with the Wake monitor.  One TLA+ step = the code between two consecutive yield
   points of hook H2 (`verif_hooks::at`), executed by one thread while all others stand still;
   these are exactly the atomic steps the controlled scheduler of the harness can interleave.

   Shared state (as in the code):
     flag     WakeState.can_start_tick           (AtomicBool; all accesses Relaxed)
     reg      WakeState.task_waker holds a Waker (futures AtomicWaker: register / wake = take+wake)
     srcReg   the dataflow's source holds the dataflow's Waker (registered when the tick body
              polls the source to Pending; taken by the push that fires it)
     tw       (monitor) the runner task's own wake flag: set by its Waker, cleared by the
              executor just before it polls the task

   Runner (thread 0), position = last yield point reached (monitor variable rpos):
     rt_idle           in the executor (initially; after yield_now; after the idle poll_fn
                       returned Pending) -- `resume` says where the next poll continues
     avail_begin       run_available entered            next: can_start_tick.store(false)
     avail_cleared                                      next: run_tick: swap(false)
     tick_swapped                                       next: the tick closure (tick body)
     tick_done                                          next: load (result unused) + swap(false)
     avail_again       swap returned true               next: yield_now (wakes itself, Pending)
     avail_break       swap returned false              next: leave run_available, enter poll_fn
     idle_poll                                          next: task_waker.register(cx.waker())
     idle_registered                                    next: can_start_tick.load()
     idle_ready        load returned true               next: Ready -> loop -> run_available
     idle_pending      load returned false              next: Pending (parked)
   Waker w (threads 1..NW), each performing `Sends` pushes:
     w_idle            next: push the item; if the source holds the waker: take it, enter
                             wake_by_ref (-> wake_begin); else the push returns
     wake_begin        next: can_start_tick.store(true)
     wake_stored       next: task_waker.wake()
     wake_done         next: return
   ASSUMPTION: sequential consistency of the two atomics (the code uses Relaxed on the flag and
   relies on AtomicWaker's internal acquire/release ordering; weak memory is not modelled), and
   AtomicWaker::register / ::wake are atomic. *)
EXTENDS Wake, TLC, Json

CONSTANTS NW, Sends, SPURIOUS, MaxSpur, EMIT, EMITALL

VARIABLES flag, reg, srcReg, resume, wpc, sent, spur, hist
ivars == <<flag, reg, srcReg, resume, wpc, sent, spur, hist>>
vars == <<mvars, ivars>>
NoHist == <<mvars, flag, reg, srcReg, resume, wpc, sent, spur>>

Init ==
    /\ MInit(NW)
    /\ flag = FALSE /\ reg = FALSE /\ srcReg = FALSE
    /\ resume = "start"
    /\ wpc = [w \in 1..NW |-> "w_idle"]
    /\ sent = [w \in 1..NW |-> 0]
    /\ spur = 0
    /\ hist = <<>>

RunnerDue == rpos # "rt_idle" \/ tw
RunnerSpur == SPURIOUS /\ spur < MaxSpur /\ rpos = "rt_idle" /\ ~tw

Rec(thr, kind, to, t, items, item, fired) ==
    hist' = IF EMIT THEN Append(hist, [thr |-> thr, e |-> kind, to |-> to, tw |-> t, items |-> items,
                                        item |-> item, fired |-> fired,
                                        sp |-> (thr = 0 /\ ~RunnerDue)])   \* sp: spurious poll of the parked runner
            ELSE hist

RECURSIVE SortedSeq(_)
SortedSeq(S) == IF S = {} THEN <<>>
                ELSE LET m == CHOOSE x \in S : \A y \in S : x <= y IN <<m>> \o SortedSeq(S \ {m})

Run(to, t) == MRunner(to, t) /\ Rec(0, "run", to, t, <<>>, 0, FALSE)

Runner ==
    /\ RunnerDue \/ RunnerSpur
    /\ spur' = IF RunnerDue THEN spur ELSE spur + 1
    /\ UNCHANGED <<wpc, sent>>
    /\ CASE rpos = "rt_idle" /\ resume = "start" ->
              Run("avail_begin", FALSE) /\ UNCHANGED <<flag, reg, srcReg, resume>>
         [] rpos = "rt_idle" /\ resume = "yield" ->         \* run_tick: swap(false)
              flag' = FALSE /\ Run("tick_swapped", FALSE) /\ UNCHANGED <<reg, srcReg, resume>>
         [] rpos = "rt_idle" /\ resume = "idle" ->          \* poll_fn polled again
              Run("idle_poll", FALSE) /\ UNCHANGED <<flag, reg, srcReg, resume>>
         [] rpos = "avail_begin" ->                          \* can_start_tick.store(false)
              flag' = FALSE /\ Run("avail_cleared", tw) /\ UNCHANGED <<reg, srcReg, resume>>
         [] rpos = "avail_cleared" ->                        \* run_tick: swap(false)
              flag' = FALSE /\ Run("tick_swapped", tw) /\ UNCHANGED <<reg, srcReg, resume>>
         [] rpos = "tick_swapped" ->                         \* tick body: drain source, register
              /\ srcReg' = TRUE
              /\ MTick(SortedSeq(queued), "tick_done", tw)
              /\ Rec(0, "tick", "tick_done", tw, SortedSeq(queued), 0, FALSE)
              /\ UNCHANGED <<flag, reg, resume>>
         [] rpos = "tick_done" ->                            \* load (unused); swap(false)
              /\ flag' = FALSE
              /\ Run(IF flag THEN "avail_again" ELSE "avail_break", tw)
              /\ UNCHANGED <<reg, srcReg, resume>>
         [] rpos = "avail_again" ->                          \* yield_now: wake self, Pending
              resume' = "yield" /\ Run("rt_idle", TRUE) /\ UNCHANGED <<flag, reg, srcReg>>
         [] rpos = "avail_break" ->
              Run("idle_poll", tw) /\ UNCHANGED <<flag, reg, srcReg, resume>>
         [] rpos = "idle_poll" ->                            \* task_waker.register
              reg' = TRUE /\ Run("idle_registered", tw) /\ UNCHANGED <<flag, srcReg, resume>>
         [] rpos = "idle_registered" ->                      \* can_start_tick.load
              Run(IF flag THEN "idle_ready" ELSE "idle_pending", tw)
              /\ UNCHANGED <<flag, reg, srcReg, resume>>
         [] rpos = "idle_ready" ->
              Run("avail_begin", tw) /\ UNCHANGED <<flag, reg, srcReg, resume>>
         [] rpos = "idle_pending" ->
              resume' = "idle" /\ Run("rt_idle", tw) /\ UNCHANGED <<flag, reg, srcReg>>

Finish(w) == /\ sent' = [sent EXCEPT ![w] = @ + 1]
             /\ wpc' = [wpc EXCEPT ![w] = IF sent[w] + 1 = Sends THEN "exit" ELSE "w_idle"]

Waker(w) ==
    /\ wpc[w] # "exit"
    /\ UNCHANGED <<resume, spur>>
    /\ CASE wpc[w] = "w_idle" ->
              LET item == w * 10 + sent[w] + 1 IN
              IF srcReg
              THEN /\ srcReg' = FALSE
                   /\ wpc' = [wpc EXCEPT ![w] = "wake_begin"]
                   /\ MArrive(w, item, TRUE)
                   /\ Rec(w, "arrive", "wake_begin", tw, <<>>, item, TRUE)
                   /\ UNCHANGED <<flag, reg, sent>>
              ELSE /\ Finish(w)
                   /\ MArrive(w, item, FALSE)
                   /\ Rec(w, "arrive", IF sent[w] + 1 = Sends THEN "exit" ELSE "w_idle", tw, <<>>, item, FALSE)
                   /\ UNCHANGED <<flag, reg, srcReg>>
         [] wpc[w] = "wake_begin" ->                         \* can_start_tick.store(true)
              /\ flag' = TRUE
              /\ wpc' = [wpc EXCEPT ![w] = "wake_stored"]
              /\ MWakerSeg(w, "wake_stored", tw)
              /\ Rec(w, "wseg", "wake_stored", tw, <<>>, 0, FALSE)
              /\ UNCHANGED <<reg, srcReg, sent>>
         [] wpc[w] = "wake_stored" ->                        \* task_waker.wake(): take + wake
              /\ reg' = FALSE
              /\ wpc' = [wpc EXCEPT ![w] = "wake_done"]
              /\ MWakerSeg(w, "wake_done", tw \/ reg)
              /\ Rec(w, "wseg", "wake_done", tw \/ reg, <<>>, 0, FALSE)
              /\ UNCHANGED <<flag, srcReg, sent>>
         [] wpc[w] = "wake_done" ->
              /\ Finish(w)
              /\ MWakerSeg(w, "done", tw)
              /\ Rec(w, "wseg", "done", tw, <<>>, 0, FALSE)
              /\ UNCHANGED <<flag, reg, srcReg>>

RunnerDueStep == RunnerDue /\ Runner
Terminal == ~RunnerDue /\ ~RunnerSpur /\ \A w \in 1..NW : wpc[w] = "exit"
Done == ~EMIT /\ Terminal /\ UNCHANGED vars

Next == Runner \/ (\E w \in 1..NW : Waker(w)) \/ Done
Spec == Init /\ [][Next]_vars
FairSpec == Spec /\ WF_vars(RunnerDueStep) /\ \A w \in 1..NW : WF_vars(Waker(w))

-----------------------------------------------------------------------------
Points == {"rt_idle", "avail_begin", "avail_cleared", "tick_swapped", "tick_done", "avail_again",
           "avail_break", "idle_poll", "idle_registered", "idle_ready", "idle_pending"}
ImplInv ==
    /\ rpos \in Points
    /\ odd = {}
    /\ JustifiedTicks
    /\ inflight = {w \in 1..NW : wpc[w] \in {"wake_begin", "wake_stored", "wake_done"}}

\* liveness (weak fairness of every thread): every pushed item is eventually served by a tick
Items == {w * 10 + k : w \in 1..NW, k \in 1..Sends}
EveryArrivalServed == \A i \in Items : (i \in queued) ~> (i \in servedAll)
\* ... and the runner comes to rest (no busy loop)
ComesToRest == <>[](rpos = "rt_idle" /\ ~tw)

Emit == (EMIT /\ (EMITALL \/ Terminal \/ Broken # {})) =>
          PrintT(<<"CASE", ToJson([nw |-> NW, sends |-> Sends, steps |-> hist, nticks |-> nticks,
                                   broken |-> Broken, terminal |-> Terminal])>>)
=============================================================================
