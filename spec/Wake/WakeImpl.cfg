\* default exhaustive configuration (the check writes tier-dependent ones into runs/cfg)
SPECIFICATION FairSpec
CONSTANTS
  NW = 2
  Sends = 1
  SPURIOUS = FALSE
  MaxSpur = 0
  EMIT = FALSE
  EMITALL = FALSE
INVARIANTS C27Inv ImplInv
PROPERTIES EveryArrivalServed ComesToRest
CHECK_DEADLOCK FALSE
