------------------------------- MODULE Wake -------------------------------
(* Abstract specification (property monitor) for C27: a running dataflow never misses an
   external wake-up (dfir_rs/src/scheduled/context.rs: WakeState::wake_by_ref, Dfir::run /
   run_available / run_tick).

   Threads: 0 = the runner (the task executing Dfir::run()), 1..nw = wakers (external
   producers: each pushes one item into the dataflow's source, which fires the dataflow's
   Waker -- WakeState::wake_by_ref -- if the source holds one).  A controlled scheduler runs
   one thread at a time from one named yield point to the next; one event = one such segment,
   in the controller's order (no clocks):

     MArrive(w, item, fired)  waker w pushed `item` into the source; fired = the push entered
                              wake_by_ref (the source had the dataflow's waker registered)
     MWakerSeg(w, to, tw)     waker w advanced inside wake_by_ref to yield point `to`
                              ("done" = returned); tw = runner task's wake flag afterwards
     MTick(items, tw)         the runner executed one tick body, which served `items`
     MRunner(to, tw)          the runner advanced to yield point `to` (not through a tick body);
                              "rt_idle" = its poll returned Pending (back in the executor)

   C27, safety form: whenever the system is QUIESCENT -- the runner's poll returned Pending, its
   task has not been woken since, and no waker is inside wake_by_ref -- every item pushed so
   far has been served and every wake-up has been followed by a tick body.  (Liveness form, on
   the model: every arrival is followed by a tick body.) *)
EXTENDS Naturals, Integers, Sequences, FiniteSets

VARIABLES
    nw,        \* number of waker threads
    rpos,      \* last yield point reached by the runner
    tw,        \* runner task wake flag (set by its Waker, cleared by the executor before a poll)
    inflight,  \* wakers currently inside wake_by_ref
    queued,    \* items pushed and not yet served by a tick body
    servedAll, \* items served so far
    pendingW,  \* wake-ups (ids = items) begun and not yet followed by a tick body
    nticks,    \* tick bodies executed
    nwakes,    \* wake_by_ref calls begun
    narr,      \* items pushed
    bad,       \* property-level rules broken by an event
    odd        \* implementation facts that do not hold (drift only)

mvars == <<nw, rpos, tw, inflight, queued, servedAll, pendingW, nticks, nwakes, narr, bad, odd>>

MInit(N) ==
    /\ nw = N /\ rpos = "rt_idle" /\ tw = TRUE
    /\ inflight = {} /\ queued = {} /\ servedAll = {} /\ pendingW = {}
    /\ nticks = 0 /\ nwakes = 0 /\ narr = 0 /\ bad = {} /\ odd = {}

MReset(N) ==
    /\ nw' = N /\ rpos' = "rt_idle" /\ tw' = TRUE
    /\ inflight' = {} /\ queued' = {} /\ servedAll' = {} /\ pendingW' = {}
    /\ nticks' = 0 /\ nwakes' = 0 /\ narr' = 0 /\ bad' = {} /\ odd' = {}

MArrive(w, item, fired) ==
    /\ w \in 1..nw /\ w \notin inflight
    /\ queued' = queued \cup {item}
    /\ narr' = narr + 1
    /\ inflight' = IF fired THEN inflight \cup {w} ELSE inflight
    /\ pendingW' = IF fired THEN pendingW \cup {item} ELSE pendingW
    /\ nwakes' = IF fired THEN nwakes + 1 ELSE nwakes
    /\ bad' = IF item \in queued \cup servedAll THEN bad \cup {"harness-item-reused"} ELSE bad
    /\ UNCHANGED <<nw, rpos, tw, servedAll, nticks, odd>>

MWakerSeg(w, to, t) ==
    /\ w \in inflight
    /\ inflight' = IF to = "done" THEN inflight \ {w} ELSE inflight
    /\ tw' = t
    /\ UNCHANGED <<nw, rpos, queued, servedAll, pendingW, nticks, nwakes, narr, bad, odd>>

SetOf(s) == {s[i] : i \in 1..Len(s)}

MTick(items, to, t) ==
    /\ LET got == SetOf(items) IN
       /\ bad' = bad \cup (IF got \subseteq queued /\ Cardinality(got) = Len(items) THEN {}
                           ELSE {"tick-served-item-not-queued-or-twice"})
       /\ odd' = odd \cup (IF got = queued THEN {} ELSE {"tick-left-queued-items-unserved"})
       /\ queued' = queued \ got
       /\ servedAll' = servedAll \cup got
    /\ pendingW' = {}
    /\ nticks' = nticks + 1
    /\ rpos' = to /\ tw' = t
    /\ UNCHANGED <<nw, inflight, nwakes, narr>>

MRunner(to, t) ==
    /\ rpos' = to /\ tw' = t
    /\ UNCHANGED <<nw, inflight, queued, servedAll, pendingW, nticks, nwakes, narr, bad, odd>>

MPanic ==
    /\ bad' = bad \cup {"panic"}
    /\ UNCHANGED <<nw, rpos, tw, inflight, queued, servedAll, pendingW, nticks, nwakes, narr, odd>>

\* the controller gave up: the runner never came to rest within the step budget
MStall ==
    /\ odd' = odd \cup {"no-quiescence-within-budget"}
    /\ UNCHANGED <<nw, rpos, tw, inflight, queued, servedAll, pendingW, nticks, nwakes, narr, bad>>

-----------------------------------------------------------------------------
Parked == rpos = "rt_idle" /\ ~tw
Quiescent == Parked /\ inflight = {}

\* C27: the runner is never asleep on unserved data / an unanswered wake-up
NoUnservedData == Quiescent => queued = {}
TickAfterEveryWake == Quiescent => pendingW = {}
NoRuleBroken == bad = {}
C27Inv == NoUnservedData /\ TickAfterEveryWake /\ NoRuleBroken

\* implementation fact (no busy loop): one unconditional first tick, at most one more per wake-up
\* and per arrival
JustifiedTicks == nticks <= 1 + nwakes

Broken ==
    bad
    \cup (IF NoUnservedData THEN {} ELSE {"NoUnservedData"})
    \cup (IF TickAfterEveryWake THEN {} ELSE {"TickAfterEveryWake"})
Odd == odd \cup (IF JustifiedTicks THEN {} ELSE {"JustifiedTicks"})
=============================================================================
