--------------------------- MODULE TupleStoreImpl ---------------------------
(* Implementation-shaped model of the generalized hash trie algorithms (lattices/src/ght) and of
   the variadic collections, composed with the TupleStore monitor; generator of the replay
   scripts.

   A trie of height `keys` over rows is represented by its bag of rows: inserts never create
   empty nodes, so the node structure is a function of the rows (children of a node at depth d
   = rows grouped by column d+1).  The ALGORITHMS are transcribed on this representation:
   GhtInner/GhtLeaf partial_cmp (outcome sets because HashMap iteration order is free), GhtInner eq, the changed flags of merge / merge_node, the
   equality of VariadicHashSet / VariadicCountedHashSet.  Query results are the relational
   ones (RefRet).

   One initial state = one case: a store type and two sets of rows A, B from the row domain;
   the case's script is a fixed battery of operations (Battery) exercising every operation
   the type offers, before and after a merge and a drain.  Invariants: the monitor never
   flags a rule (C08/C10 on the model), CmpFact (the transcribed partial_cmp always returns the
   order of the row sets, whatever the iteration order),
   Emit prints the script as a CASE line. *)
EXTENDS TupleStore, TLC, Json

CONSTANTS
    TYPES,      \* names of the store types to generate cases for
    NROWS,      \* rows of the domain used (3 or 4)
    EMIT

TypeTable ==
    [vhs  |-> [sem |-> "set", width |-> 2, keys |-> 0, fam |-> "coll"],
     vchs |-> [sem |-> "bag", width |-> 2, keys |-> 0, fam |-> "coll"],
     vcm  |-> [sem |-> "bag", width |-> 2, keys |-> 0, fam |-> "coll"],
     g0   |-> [sem |-> "set", width |-> 2, keys |-> 0, fam |-> "ght"],
     g1   |-> [sem |-> "set", width |-> 2, keys |-> 1, fam |-> "ght"],
     g2   |-> [sem |-> "set", width |-> 2, keys |-> 2, fam |-> "ght"],
     g3   |-> [sem |-> "set", width |-> 3, keys |-> 1, fam |-> "ght"],
     g4   |-> [sem |-> "set", width |-> 3, keys |-> 2, fam |-> "ght"],
     g1c  |-> [sem |-> "bag", width |-> 2, keys |-> 1, fam |-> "ght"],
     g1m  |-> [sem |-> "bag", width |-> 2, keys |-> 1, fam |-> "ght"]]

\* row domains (as sequences, which fixes the canonical insertion order)
Dom(w) == IF w = 2 THEN SubSeq(<<<<0, 0>>, <<0, 1>>, <<1, 0>>, <<1, 1>>>>, 1, NROWS)
          ELSE SubSeq(<<<<0, 0, 0>>, <<0, 0, 1>>, <<0, 1, 0>>, <<1, 0, 0>>>>, 1, NROWS)

VARIABLES ty, script, done
ivars == <<ty, script, done>>
vars == <<mvars, ivars>>

-----------------------------------------------------------------------------
(* transcriptions *)

\* rows of the child with head h of a node at depth d (0-based: the node splits on column d+1)
ChildRows(S, d, h) == {r \in S : r[d + 1] = h}
HeadsAt(S, d) == {r[d + 1] : r \in S}

\* GhtLeaf::partial_cmp : by length, then containment
LeafCmp(A, B) ==
    IF Cardinality(A) > Cardinality(B) THEN (IF B \subseteq A THEN "gt" ELSE "none")
    ELSE IF Cardinality(A) = Cardinality(B) THEN (IF A \subseteq B THEN "eq" ELSE "none")
    ELSE (IF A \subseteq B THEN "lt" ELSE "none")

\* GhtInner::partial_cmp : the set of results it can produce (iteration order of the HashMap
\* keys is free; a `None` or a panic of a common child ends the loop at once)
RECURSIVE CmpOutcomes(_, _, _, _)
CmpOutcomes(A, B, d, k) ==
    IF d = k THEN {LeafCmp(A, B)}
    ELSE IF A = {} /\ B = {} THEN {"eq"}
    ELSE LET ha == HeadsAt(A, d)
             hb == HeadsAt(B, d)
             sub(h) == CmpOutcomes(ChildRows(A, d, h), ChildRows(B, d, h), d + 1, k)
             early == UNION {sub(h) \cap {"none", "panic"} : h \in ha \cap hb}
             selfGreater == ha \ hb # {} \/ \E h \in ha \cap hb : "gt" \in sub(h)
             otherGreater == hb \ ha # {} \/ \E h \in ha \cap hb : "lt" \in sub(h)
         IN IF early # {} THEN early
            ELSE IF selfGreater /\ otherGreater THEN {"none"}        \* (true, true) => None
            ELSE IF selfGreater THEN {"gt"}
            ELSE IF otherGreater THEN {"lt"}
            ELSE {"eq"}

\* GhtInner::eq : same number of children, every head of self present in other with an equal child
RECURSIVE TrieEq(_, _, _, _)
TrieEq(A, B, d, k) ==
    IF d = k THEN A = B      \* VariadicHashSet::eq: same len and all of self contained in other
    ELSE /\ Cardinality(HeadsAt(A, d)) = Cardinality(HeadsAt(B, d))
         /\ \A h \in HeadsAt(A, d) :
              h \in HeadsAt(B, d) /\ TrieEq(ChildRows(A, d, h), ChildRows(B, d, h), d + 1, k)

\* VariadicCountedHashSet::eq : same len and every (row, count) of self matched in other
CountedEq(a, b) == Size(a) = Size(b) /\ \A r \in Supp(a) : Count(b, r) = a[r]

\* merge / merge_node flags: a child's flag is "its leaf's len grew"; a new child => true
MergeFlag(a, b, sm) == Size(Add(a, b, sm)) > Size(a)

-----------------------------------------------------------------------------
(* reference results (relational algebra), in the shape the harness logs them *)
RECURSIVE SeqOfSet(_)
SeqOfSet(S) == IF S = {} THEN <<>> ELSE LET x == CHOOSE y \in S : TRUE IN <<x>> \o SeqOfSet(S \ {x})
RECURSIVE Rep(_, _)
Rep(x, n) == IF n = 0 THEN <<>> ELSE <<x>> \o Rep(x, n - 1)
RECURSIVE SeqOfBagOver(_, _)
SeqOfBagOver(b, S) ==
    IF S = {} THEN <<>> ELSE LET x == CHOOSE y \in S : TRUE IN Rep(x, b[x]) \o SeqOfBagOver(b, S \ {x})
SeqOfBag(b) == SeqOfBagOver(b, Supp(b))

RefRet(op, s, row, head, prefix) ==
    LET me == rows[s]  A == Supp(rows[1])  B == Supp(rows[2])  t == TypeTable[ty] IN
    CASE op = "contains" -> row \in Supp(me)
      [] op = "get" -> <<IF row \in Supp(me) THEN row ELSE <<>>, Count(me, row)>>
      [] op \in {"iter", "intoiter"} -> SeqOfBag(me)
      [] op = "len" -> <<Size(me), Size(me) = 0>>
      [] op = "drain" -> IF t.fam = "coll" THEN SeqOfBag(me)
                         ELSE <<t.keys = 0, IF t.keys = 0 THEN SeqOfBag(me) ELSE <<>> >>
      [] op = "heads" -> SeqOfSet({r[1] : r \in Supp(me)})
      [] op = "child" -> LET P(r) == r[1] = head IN
                         <<\E r \in Supp(me) : P(r), SeqOfBag(Restrict(me, P))>>
      [] op = "prefix" -> LET P(r) == HasPrefix(r, prefix) IN SeqOfBag(Restrict(me, P))
      [] op = "leaf" -> LET P(r) == SameKey(r, row, t.keys) IN
                        <<row \in Supp(me), IF row \in Supp(me) THEN SeqOfBag(Restrict(me, P)) ELSE <<>> >>
      [] op = "height" -> t.keys
      [] op = "cart" -> SeqOfSet({a \o b : a \in A, b \in B})
      [] op = "join" -> SeqOfSet({ab[1] \o SubSeq(ab[2], t.keys + 1, t.width) :
                                     ab \in {x \in A \X B : SameKey(x[1], x[2], t.keys)}})
      \* transcribed results
      [] op = "eq" -> IF t.fam = "ght" THEN TrieEq(A, B, 0, t.keys)
                      ELSE IF t.sem = "set" THEN rows[1] = rows[2] ELSE CountedEq(rows[1], rows[2])
      [] op = "merge" -> MergeFlag(me, rows[Other(s)], t.sem)
      [] op = "mergenode" -> MergeFlag(me, rows[Other(s)], t.sem)
      [] OTHER -> TRUE

-----------------------------------------------------------------------------
(* the battery of one case *)
O(op, s, row, rws, head, prefix) ==
    [op |-> op, s |-> s, row |-> row, rows |-> rws, head |-> head, prefix |-> prefix]
Q(op, s) == O(op, s, <<>>, <<>>, 0, <<>>)
ForAll(sq, F(_)) == [i \in 1..Len(sq) |-> F(sq[i])]
RECURSIVE Flat(_)
Flat(ss) == IF ss = <<>> THEN <<>> ELSE Head(ss) \o Flat(Tail(ss))
Sel(sq, S) == SelectSeq(sq, LAMBDA x : x \in S)

Prefixes(w) ==      \* every prefix length 0..w over the values {0, 1}
    <<<<>>>> \o <<<<0>>, <<1>>>> \o <<<<0, 0>>, <<0, 1>>, <<1, 0>>, <<1, 1>>>>
    \o (IF w = 3 THEN <<<<0, 0, 0>>, <<0, 0, 1>>, <<0, 1, 0>>, <<1, 0, 0>>, <<1, 1, 1>>>> ELSE <<>>)

Battery(tyname, A, B) ==
    LET t == TypeTable[tyname]
        D == Dom(t.width)
        sa == Sel(D, A)
        sb == Sel(D, B)
        ght == t.fam = "ght"
        setght == ght /\ t.sem = "set"
        inner == ght /\ t.keys > 0
        ins(r) == O("insert", 1, r, <<>>, 0, <<>>)
        con(r) == O("contains", 1, r, <<>>, 0, <<>>)
        get(r) == O("get", 1, r, <<>>, 0, <<>>)
        leaf(r) == O("leaf", 1, r, <<>>, 0, <<>>)
        pre(p) == O("prefix", 1, <<>>, <<>>, 0, p)
        child(h) == O("child", 1, <<>>, <<>>, h, <<>>)
        Queries ==
            <<Q("iter", 1), Q("len", 1)>> \o ForAll(D, con)
            \o (IF t.fam = "coll" /\ tyname # "vcm" THEN ForAll(D, get) ELSE <<>>)
            \o (IF ght THEN <<Q("height", 1)>> \o ForAll(D, leaf) \o ForAll(Prefixes(t.width), pre) ELSE <<>>)
            \o (IF inner THEN <<Q("heads", 1), child(0), child(1), child(2)>> ELSE <<>>)
        Binary ==
            (IF (tyname # "vcm" /\ t.sem = "set") \/ tyname = "vchs" THEN <<Q("eq", 1)>> ELSE <<>>)
            \o (IF setght THEN <<Q("cmp", 1)>> ELSE <<>>)
            \o (IF tyname = "g1" THEN <<Q("cart", 1)>> ELSE <<>>)
            \o (IF tyname \in {"g1", "g4"} THEN <<Q("join", 1)>> ELSE <<>>)
    IN ForAll(sa, ins)
       \o <<O("extend", 2, <<>>, sb, 0, <<>>)>>
       \o Queries \o Binary
       \* a duplicate insert
       \o (IF sa # <<>> THEN <<ins(sa[1]), Q("iter", 1), Q("len", 1)>> ELSE <<>>)
       \* combine with store 2
       \o (IF setght THEN <<Q("merge", 1)>> ELSE IF ght THEN <<Q("mergenode", 1)>>
           ELSE <<O("extend", 1, <<>>, sb, 0, <<>>)>>)
       \o Queries \o Binary
       \* second combination (idempotent for sets, doubling for bags), through a clone
       \o (IF ght THEN <<Q("copy", 2), Q("mergenode", 1), Q("iter", 1), Q("len", 1)>> \o Binary ELSE <<>>)
       \* drain, then reuse
       \o <<Q("drain", 1), Q("iter", 1), Q("len", 1)>>
       \o (IF t.fam = "coll" THEN <<ins(D[1]), ins(D[2]), ins(D[1]), Q("iter", 1), Q("len", 1), Q("intoiter", 1),
                                     Q("len", 1), ins(D[2]), Q("iter", 1)>> ELSE <<>>)

(* C07 scripts: for a trie type, a bimorphism, a side and a row set A, the distributivity event
   for every (DA, B) *)
BimsOf(tn) == CASE tn = "g0" -> {"valprod"} [] tn = "g1" -> {"cart", "join", "wrap"} [] tn = "g4" -> {"join"}
                [] OTHER -> {}
DistBattery(tn, bim, side, A) ==
    LET D == Dom(TypeTable[tn].width)
        subs == SeqOfSet(SUBSET Range(D))
        one(DA, B) == [op |-> "dist", bim |-> bim, side |-> side, a |-> Sel(D, A), da |-> Sel(D, DA), b |-> Sel(D, B)]
    IN Flat([i \in 1..Len(subs) |-> [j \in 1..Len(subs) |-> one(subs[i], subs[j])]])

-----------------------------------------------------------------------------
Init ==
    \E tn \in TYPES : \E A \in SUBSET Range(Dom(TypeTable[tn].width)) :
    \E B \in SUBSET Range(Dom(TypeTable[tn].width)) :
        /\ ty = tn
        /\ script = Battery(tn, A, B)
        /\ done = <<>>
        /\ sem = TypeTable[tn].sem /\ width = TypeTable[tn].width /\ keys = TypeTable[tn].keys
        /\ fam = TypeTable[tn].fam
        /\ rows = <<NoRows, NoRows>>
        /\ bad = {} /\ odd = {} /\ bad7 = {}

DistInit ==
    \E tn \in TYPES : \E bim \in BimsOf(tn) : \E side \in {"l", "r"} :
    \E A \in SUBSET Range(Dom(TypeTable[tn].width)) :
        /\ ty = tn
        /\ script = DistBattery(tn, bim, side, A)
        /\ done = <<>>
        /\ sem = TypeTable[tn].sem /\ width = TypeTable[tn].width /\ keys = TypeTable[tn].keys
        /\ fam = TypeTable[tn].fam
        /\ rows = <<NoRows, NoRows>>
        /\ bad = {} /\ odd = {} /\ bad7 = {}

\* the model's bimorphism is the relational one; its two sides are computed separately, so the
\* step checks that relational product / join distribute over union
DistStep(o) ==
    LET X == Range(o.a)  DX == Range(o.da)  Y == Range(o.b)
        lhs == IF o.side = "l" THEN BimRows(o.bim, X \cup DX, Y) ELSE BimRows(o.bim, Y, X \cup DX)
        rhs == IF o.side = "l" THEN BimRows(o.bim, X, Y) \cup BimRows(o.bim, DX, Y)
               ELSE BimRows(o.bim, Y, X) \cup BimRows(o.bim, Y, DX)
    IN MDist(o.bim, o.side, o.a, o.da, o.b, <<SeqOfSet(lhs), SeqOfSet(rhs), lhs = rhs>>, FALSE)

Step ==
    /\ script # <<>>
    /\ LET o == Head(script)
           outcomes == CmpOutcomes(Supp(rows[1]), Supp(rows[2]), 0, keys)
           ret == IF o.op = "cmp"
                  THEN CHOOSE x \in outcomes : TRUE
                  ELSE RefRet(o.op, o.s, o.row, o.head, o.prefix)
       IN IF o.op = "dist" THEN DistStep(o)
          ELSE MOp(o.op, o.s, o.row, o.rows, o.head, o.prefix, ret, FALSE)
    /\ script' = Tail(script)
    /\ done' = Append(done, Head(script))
    /\ UNCHANGED ty

Finished == script = <<>> /\ UNCHANGED vars
Next == Step \/ Finished
Spec == (Init \/ DistInit) /\ [][Next]_vars

-----------------------------------------------------------------------------
\* the transcribed partial_cmp has exactly one possible result whatever the iteration order,
\* and it is the order of the row sets
CmpFact ==
    LET A == Supp(rows[1])  B == Supp(rows[2]) IN
    (fam = "ght" /\ sem = "set") => CmpOutcomes(A, B, 0, keys) = {RefCmp(A, B)}

ModelInv == NoRuleBroken /\ odd = {} /\ bad7 = {}

Emit == (EMIT /\ script = <<>>) => PrintT(<<"CASE", ToJson([ty |-> ty, ops |-> done])>>)
=============================================================================
