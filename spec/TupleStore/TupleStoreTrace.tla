-------------------------- MODULE TupleStoreTrace --------------------------
(* Trace validation of the real generalized hash tries and variadic collections against the
   TupleStore monitor (C08, C10).  The trace (ndjson, path in env TRACE):
     {"e":"reset","case":id,"ty":T,"sem":"set"|"bag","width":w,"keys":k,"fam":"ght"|"coll"}
     {"e":"op","op":O,"s":1|2,"row":[..],"rows":[[..]..],"head":h,"prefix":[..],"ret":R,"panic":b}
     {"e":"dist","bim":B,"side":"l"|"r","a":[[..]..],"da":[[..]..],"b":[[..]..],
      "ret":[lhs rows, rhs rows, lhs == rhs],"panic":b}        distributivity of a bimorphism (C07)
     {"e":"eof"}
   Broken rules are collected in `viol` as <<case, rule, index of the first offending op>>,
   implementation-level oddities per case in `drift`;
   both are printed at eof. *)
EXTENDS TupleStore, TLC, Json, IOUtils

Rec == ndJsonDeserialize(IOEnv.TRACE)

VARIABLES l, case, k, viol, viol7, drift     \* k: index of the current op within its case
tvars == <<mvars, l, case, k, viol, viol7, drift>>
Ev == Rec[l]

TInit == l = 1 /\ case = 0 /\ k = 0 /\ viol = {} /\ viol7 = {} /\ drift = {} /\ MInit

TReset == Ev.e = "reset" /\ MReset(Ev.sem, Ev.width, Ev.keys, Ev.fam) /\ case' = Ev.case /\ k' = 0
TOp == Ev.e = "op" /\ MOp(Ev.op, Ev.s, Ev.row, Ev.rows, Ev.head, Ev.prefix, Ev.ret, Ev.panic)
       /\ UNCHANGED case /\ k' = k + 1
TDist == Ev.e = "dist" /\ MDist(Ev.bim, Ev.side, Ev.a, Ev.da, Ev.b, Ev.ret, Ev.panic)
         /\ UNCHANGED case /\ k' = k + 1
TEof == Ev.e = "eof" /\ UNCHANGED <<mvars, case, k>>
        /\ PrintT(<<"VIOL", ToJson(viol)>>) /\ PrintT(<<"DRIFT", ToJson(drift)>>)
        /\ PrintT(<<"C07", ToJson(viol7)>>)

TNext ==
    /\ l <= Len(Rec) /\ l' = l + 1
    /\ (TReset \/ TOp \/ TDist \/ TEof)
    /\ viol7' = viol7 \cup {<<case', b, k'>> : b \in bad7' \ (IF Ev.e = "reset" THEN {} ELSE bad7)}
    /\ viol' = viol \cup {<<case', b, k'>> : b \in bad' \ (IF Ev.e = "reset" THEN {} ELSE bad)}
    /\ drift' = drift \cup {<<case', b>> : b \in odd'}

TSpec == TInit /\ [][TNext]_tvars

TraceAccepted ==
    LET d == TLCGet("stats").diameter IN
    IF d - 1 = Len(Rec) THEN TRUE
    ELSE Print(<<"UNMATCHED-EVENT-AT-LINE", d, Rec[d]>>, FALSE)
=============================================================================
