----------------------------- MODULE TupleStore -----------------------------
(* Abstract specification (property monitor) of tuple stores (C08, C10): generalized hash tries
   (lattices::ght) of any key/value split and the variadic collections
   (variadics::variadic_collections) are sets / bags of fixed-width rows.

   A case works on two stores (1 and 2) of one concrete type, described by
     sem    "set" (each distinct row once) | "bag" (every inserted row with its multiplicity)
     width  number of columns;  keys  number of key columns (trie height);  fam "ght" | "coll"
   The monitor state is rows[s] = the bag of rows of store s (a function row -> count > 0).
   One action per observed call: MOp(op, s, row, rws, head, prefix, ret, panic); the reference
   semantics is relational algebra on rows.  Names of broken rules accumulate in `bad`;
   implementation-level expectations (changed flags, insert's return value) in `odd`. *)
EXTENDS Naturals, Integers, Sequences, FiniteSets

VARIABLES sem, width, keys, fam, rows, bad, odd, bad7     \* bad7: C07 (bimorphism) rules broken
mvars == <<sem, width, keys, fam, rows, bad, odd, bad7>>

-----------------------------------------------------------------------------
(* bags of rows *)
NoRows == [r \in {} |-> 0]
Range(sq) == {sq[i] : i \in 1..Len(sq)}
BagOfSeq(sq) == [r \in Range(sq) |-> Cardinality({i \in 1..Len(sq) : sq[i] = r})]
SetBag(S) == [r \in S |-> 1]
Supp(b) == DOMAIN b
Count(b, r) == IF r \in DOMAIN b THEN b[r] ELSE 0
\* the bag as this kind of store keeps it
Norm(b, sm) == IF sm = "set" THEN SetBag(Supp(b)) ELSE b
BagSum(a, b) == [r \in Supp(a) \cup Supp(b) |-> Count(a, r) + Count(b, r)]
Add(a, b, sm) == Norm(BagSum(a, b), sm)                 \* insert / extend / merge of b into a
RECURSIVE SizeOver(_, _)
SizeOver(b, S) == IF S = {} THEN 0 ELSE LET r == CHOOSE x \in S : TRUE IN b[r] + SizeOver(b, S \ {r})
Size(b) == SizeOver(b, Supp(b))
Restrict(b, P(_)) == [r \in {x \in Supp(b) : P(x)} |-> b[r]]

HasPrefix(r, p) == Len(p) <= Len(r) /\ \A i \in 1..Len(p) : r[i] = p[i]
SameKey(r, q, k) == \A i \in 1..k : r[i] = q[i]
RefCmp(A, B) == IF A = B THEN "eq" ELSE IF A \subseteq B THEN "lt" ELSE IF B \subseteq A THEN "gt" ELSE "none"
Other(s) == 3 - s

MInit ==
    /\ sem = "set" /\ width = 0 /\ keys = 0 /\ fam = "coll"
    /\ rows = <<NoRows, NoRows>>
    /\ bad = {} /\ odd = {} /\ bad7 = {}

MReset(sm, w, k, f) ==
    /\ sem' = sm /\ width' = w /\ keys' = k /\ fam' = f
    /\ rows' = <<NoRows, NoRows>>
    /\ bad' = {} /\ odd' = {} /\ bad7' = {}

-----------------------------------------------------------------------------
(* the new contents of store s after `op`, from the old contents *)
Post(op, s, row, rws) ==
    LET me == rows[s]  ot == rows[Other(s)] IN
    CASE op = "insert" -> Add(me, BagOfSeq(<<row>>), sem)
      [] op = "extend" -> Add(me, BagOfSeq(rws), sem)
      [] op \in {"merge", "mergenode"} -> Add(me, ot, sem)
      [] op = "copy" -> ot
      [] op = "intoiter" -> NoRows
      [] op = "drain" -> IF fam = "ght" /\ keys > 0 THEN me ELSE NoRows   \* inner nodes: None
      [] OTHER -> me

\* a returned list of rows must be exactly this bag (sets: every row once)
IsBag(ret, b) == BagOfSeq(ret) = b
IsSet(ret, S) == Range(ret) = S /\ Len(ret) = Cardinality(S)

(* property-level rule names broken by the observation `ret` of `op` *)
Check(op, s, row, rws, head, prefix, ret) ==
    LET me == rows[s]
        A == Supp(rows[1])
        B == Supp(rows[2])
        W(cond, name) == IF cond THEN {} ELSE {name}
    IN
    CASE op = "contains" -> W(ret = (row \in Supp(me)), "contains")
      [] op = "get" -> W(ret[2] = Count(me, row) /\ (ret[2] > 0 => ret[1] = row), "get")
      [] op = "iter" -> W(IsBag(ret, me), "iter")
      [] op = "len" -> W(ret[1] = Size(me) /\ ret[2] = (Size(me) = 0), "len")
      [] op = "intoiter" -> W(IsBag(ret, me), "into_iter")
      [] op = "drain" ->
           IF fam = "coll" THEN W(IsBag(ret, me), "drain")
           ELSE W(ret[1] = (keys = 0) /\ (keys = 0 => IsBag(ret[2], me)), "drain")
      [] op = "eq" -> W(ret = (rows[1] = rows[2]), "eq")
      [] op = "cmp" -> W(ret = RefCmp(A, B), "partial_cmp")
      [] op = "heads" -> W(IsSet(ret, {r[1] : r \in Supp(me)}), "heads")
      [] op = "child" ->
           LET P(r) == r[1] = head IN
           W(ret[1] = (\E r \in Supp(me) : P(r)) /\ IsBag(ret[2], Restrict(me, P)), "get-child")
      [] op = "prefix" ->
           LET P(r) == HasPrefix(r, prefix) IN W(IsBag(ret, Restrict(me, P)), "prefix_iter")
      [] op = "leaf" ->
           LET P(r) == SameKey(r, row, keys) IN
           W(ret[1] = (row \in Supp(me)) /\ (ret[1] => IsBag(ret[2], Restrict(me, P))),
             "find_containing_leaf")
      [] op = "height" -> W(ret = keys, "height")
      [] op = "cart" -> W(IsSet(ret, {a \o b : a \in A, b \in B}), "cartesian-product")
      [] op = "join" ->
           W(IsSet(ret, {ab[1] \o SubSeq(ab[2], keys + 1, width) :
                            ab \in {x \in A \X B : SameKey(x[1], x[2], keys)}}), "deep-join")
      [] OTHER -> {}

(* implementation-level expectations: return values that are not part of C08 / C10 *)
Odd(op, s, ret) ==
    LET me == rows[s] post == rows'[s] IN
    CASE op \in {"merge"} -> IF ret = (post # me) THEN {} ELSE {"merge-changed-flag"}
      [] op \in {"mergenode"} -> IF ret = (Size(post) > Size(me)) THEN {} ELSE {"merge_node-flag"}
      [] OTHER -> {}

MOp(op, s, row, rws, head, prefix, ret, panic) ==
    /\ s \in {1, 2}
    /\ rows' = [rows EXCEPT ![s] = Post(op, s, row, rws)]
    /\ bad' = bad \cup (IF panic
                        THEN {IF op = "cmp"
                              THEN (IF RefCmp(Supp(rows[1]), Supp(rows[2])) = "none"
                                    THEN "partial_cmp-panic-incomparable" ELSE "partial_cmp-panic")
                              ELSE "panic"}
                        ELSE Check(op, s, row, rws, head, prefix, ret))
    /\ odd' = odd \cup (IF panic THEN {} ELSE Odd(op, s, ret))
    /\ UNCHANGED <<sem, width, keys, fam, bad7>>

-----------------------------------------------------------------------------
(* C07: the trie bimorphisms distribute over merge in each argument.
   The relational meaning of the bimorphisms on row sets X (first argument), Y (second):
     "cart"                 all columns of X x all columns of Y          (product at the root)
     "join" "wrap" "valprod" x \o (value columns of y) for x, y agreeing on the `keys` key columns
                            (keyed / deep join; `wrap` = the by-value GhtBimorphism wrapper;
                             `valprod` = the leaf product, keys = 0) *)
BimRows(bim, X, Y) ==
    IF bim = "cart" THEN {x \o y : x \in X, y \in Y}
    ELSE {xy[1] \o SubSeq(xy[2], keys + 1, width) : xy \in {z \in X \X Y : SameKey(z[1], z[2], keys)}}

\* side "l": lhs = f(a |_| da, b), rhs = f(a, b) |_| f(da, b); side "r": the second argument grows.
\* ret = <<rows of lhs, rows of rhs, lhs == rhs by the type's own eq>>
MDist(bim, side, a, da, b, ret, panic) ==
    LET grown == Range(a) \cup Range(da)
        want == IF side = "l" THEN BimRows(bim, grown, Range(b)) ELSE BimRows(bim, Range(b), grown)
        name == IF side = "l" THEN "distributivity-left" ELSE "distributivity-right"
    IN /\ bad7' = bad7 \cup
            (IF panic THEN {name}
             ELSE IF IsSet(ret[1], want) /\ IsSet(ret[2], want) /\ ret[3] = TRUE THEN {} ELSE {name})
       /\ UNCHANGED <<sem, width, keys, fam, rows, bad, odd>>

NoRuleBroken == bad = {}
Broken == bad
=============================================================================
