SPECIFICATION Spec
CONSTANTS
  TYPES = {"vhs", "vchs", "vcm", "g0", "g1", "g2", "g3", "g4", "g1c", "g1m"}
  NROWS = 3
  EMIT = FALSE
INVARIANTS ModelInv CmpFact Emit
CHECK_DEADLOCK FALSE
