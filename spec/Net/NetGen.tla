------------------------------- MODULE NetGen -------------------------------
(* spec -> code: every routing script of <= MaxMsgs messages over all routes of the harness'
   topology (NA senders, NB receivers); the harness attaches a seeded random nested payload to
   each message and plays the round through the real network paths. *)
EXTENDS Naturals, Integers, Sequences, TLC, Json

CONSTANTS NA, NB, MaxMsgs

As == 0..(NA - 1)
Bs == 0..(NB - 1)
\* <<pat, src, dst>>; src / dst that the pattern does not use are 0
RouteSet == {<<0, 0, b>> : b \in Bs} \cup {<<1, a, 0>> : a \in As}
            \cup {<<2, a, b>> : a \in As, b \in Bs} \cup {<<3, 0, 0>>}
            \cup {<<4, 0, b>> : b \in Bs} \cup {<<5, a, 0>> : a \in As}
Scripts == UNION {[1..k -> RouteSet] : k \in 1..MaxMsgs}

ASSUME \A s \in Scripts : PrintT(<<"CASE", ToJson([msgs |-> s])>>)

VARIABLE x
Init == x = 0
Next == UNCHANGED x
Spec == Init /\ [][Next]_x
=============================================================================
