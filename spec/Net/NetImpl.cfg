SPECIFICATION Spec
CONSTANTS
  NA = 2
  NB = 2
  MaxMsgs = 3
  Payloads = {1, 2}
INVARIANTS Inv ChanFlight
CHECK_DEADLOCK FALSE
