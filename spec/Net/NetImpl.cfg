SPECIFICATION Spec
CONSTANTS
  Topos <- ToposQuick
  Payloads = {1, 2}
INVARIANTS Inv ChanFlight
CHECK_DEADLOCK FALSE
