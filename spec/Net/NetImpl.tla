------------------------------ MODULE NetImpl ------------------------------
(* Implementation-shaped model of the cluster network paths, composed with the Net monitor.
   As in the generated code: the sender keys each message by the destination's untyped
   member id and pushes the serialized payload into the channel registered under that key
   (a channel table per network edge: `__channel_recv_*` in sim/builder.rs, sinktools::demux_map
   in production); the receiver drains its channels and tags what it decodes with the key of
   the channel it came from (many-to-one / many-to-many).  Serialization is the identity on
   abstract payloads -- TLC is not asked to model bincode.  Model checked for every topology
   <<NA, NB, MaxMsgs>> in Topos (EQUAL and UNEQUAL cluster sizes), every sequence of <= MaxMsgs
   sends over all routes of NA senders and NB receivers, every delivery order. *)
EXTENDS Net, Sequences, TLC

CONSTANTS Topos, Payloads

\* topologies <<|source cluster|, |destination cluster|, messages>> (cfg: Topos <- ToposQuick)
ToposQuick == {<<2, 2, 3>>, <<2, 3, 2>>, <<3, 2, 2>>}
ToposThorough == {<<2, 2, 3>>, <<2, 3, 3>>, <<3, 2, 2>>, <<1, 3, 3>>, <<3, 1, 3>>, <<2, 4, 2>>}

VARIABLES
    topo,       \* <<NA, NB, MaxMsgs>> of this behaviour
    chan,       \* chan[<<pat, src, dst>>]: FIFO of <<mid, payload>>
    nsent       \* messages sent so far

ivars == <<topo, chan, nsent>>
NA == topo[1]
NB == topo[2]
MaxMsgs == topo[3]
vars == <<nvars, ivars>>

As == 0..(NA - 1)
Bs == 0..(NB - 1)
Routes == {<<0, -1, b>> : b \in Bs} \cup {<<1, a, -1>> : a \in As}
          \cup {<<2, a, b>> : a \in As, b \in Bs} \cup {<<3, -1, b>> : b \in Bs}
          \cup {<<4, -1, b>> : b \in Bs} \cup {<<5, a, b>> : a \in As, b \in Bs}
RoutesOf(t) == LET as == 0..(t[1] - 1)  bs == 0..(t[2] - 1)
               IN {<<0, -1, b>> : b \in bs} \cup {<<1, a, -1>> : a \in as}
                  \cup {<<2, a, b>> : a \in as, b \in bs} \cup {<<3, -1, b>> : b \in bs}
                  \cup {<<4, -1, b>> : b \in bs} \cup {<<5, a, b>> : a \in as, b \in bs}

Init == \E t \in Topos :
          NInit /\ topo = t /\ chan = [r \in RoutesOf(t) |-> <<>>] /\ nsent = 0

Msg(r, mid, p) == [pat |-> r[1], src |-> r[2], dst |-> r[3], mid |-> mid, p |-> <<mid, p>>]

\* point-to-point patterns
Send1(r, p) ==
    /\ r \in Routes /\ r[1] \notin {3, 5} /\ nsent < MaxMsgs
    /\ NSend(Msg(r, nsent + 1, p))
    /\ chan' = [chan EXCEPT ![r] = Append(@, <<nsent + 1, p>>)]
    /\ nsent' = nsent + 1
    /\ UNCHANGED topo

\* broadcast_closed: one copy per member
\* src = -1: from the process (pat 3); src = a: from cluster member a (pat 5).  The sender
\* iterates over the DESTINATION cluster's member list.
Bcast(pat, src, p) ==
    /\ (src = -1 \/ src \in As) /\ nsent < MaxMsgs
    /\ NBcast([pat |-> pat, src |-> src, mid |-> nsent + 1, p |-> <<nsent + 1, p>>], Bs)
    /\ chan' = [r \in Routes |-> IF r[1] = pat /\ r[2] = src THEN Append(chan[r], <<nsent + 1, p>>) ELSE chan[r]]
    /\ nsent' = nsent + 1
    /\ UNCHANGED topo

\* the receiver of route r takes the head of its channel; the tag is the channel's key
Deliver(r) ==
    /\ r \in Routes /\ chan[r] # <<>>
    /\ LET h == Head(chan[r])
       IN NDeliver([pat |-> r[1], at |-> r[3], from |-> r[2], mid |-> h[1], p |-> <<h[1], h[2]>>])
    /\ chan' = [chan EXCEPT ![r] = Tail(@)]
    /\ UNCHANGED <<nsent, topo>>

Quiesce ==
    /\ \A r \in Routes : chan[r] = <<>>
    /\ NQuiesce
    /\ UNCHANGED ivars

\* constant-level supersets (so that TLC keeps Send1 / Deliver / Bcast as named actions)
AllRoutes == UNION {RoutesOf(t) : t \in Topos}
AllAs == UNION {0..(t[1] - 1) : t \in Topos}

Next == (\E r \in AllRoutes, p \in Payloads : Send1(r, p))
        \/ (\E p \in Payloads : Bcast(3, -1, p))
        \/ (\E a \in AllAs, p \in Payloads : Bcast(5, a, p))
        \/ (\E r \in AllRoutes : Deliver(r)) \/ Quiesce
Spec == Init /\ [][Next]_vars

Inv == C35Inv(net)
\* everything in a channel is in flight, and vice versa
ChanFlight == Cardinality(net.flight) =
              LET RECURSIVE sum(_) sum(R) == IF R = {} THEN 0 ELSE LET r == CHOOSE x \in R : TRUE IN Len(chan[r]) + sum(R \ {r})
              IN sum(Routes)
=============================================================================
