------------------------------ MODULE NetImpl ------------------------------
(* Implementation-shaped model of the cluster network paths, composed with the Net monitor.
   As in the generated code: the sender keys each message by the destination's untyped
   member id and pushes the serialized payload into the channel registered under that key
   (a channel table per network edge: `__channel_recv_*` in sim/builder.rs, sinktools::demux_map
   in production); the receiver drains its channels and tags what it decodes with the key of
   the channel it came from (many-to-one / many-to-many).  Serialization is the identity on
   abstract payloads -- TLC is not asked to model bincode.  Model checked for every sequence of
   <= MaxMsgs sends over all routes of NA senders and NB receivers, every delivery order. *)
EXTENDS Net, Sequences, TLC

CONSTANTS NA, NB, MaxMsgs, Payloads

VARIABLES
    chan,       \* chan[<<pat, src, dst>>]: FIFO of <<mid, payload>>
    nsent       \* messages sent so far

ivars == <<chan, nsent>>
vars == <<nvars, ivars>>

As == 0..(NA - 1)
Bs == 0..(NB - 1)
Routes == {<<0, -1, b>> : b \in Bs} \cup {<<1, a, -1>> : a \in As}
          \cup {<<2, a, b>> : a \in As, b \in Bs} \cup {<<3, -1, b>> : b \in Bs}
          \cup {<<4, -1, b>> : b \in Bs}

Init == NInit /\ chan = [r \in Routes |-> <<>>] /\ nsent = 0

Msg(r, mid, p) == [pat |-> r[1], src |-> r[2], dst |-> r[3], mid |-> mid, p |-> <<mid, p>>]

\* point-to-point patterns
Send1(r, p) ==
    /\ r[1] # 3 /\ nsent < MaxMsgs
    /\ NSend(Msg(r, nsent + 1, p))
    /\ chan' = [chan EXCEPT ![r] = Append(@, <<nsent + 1, p>>)]
    /\ nsent' = nsent + 1

\* broadcast_closed: one copy per member
RECURSIVE SendAll(_, _)
SendAll(n, ss) == IF ss = {} THEN n ELSE LET s == CHOOSE x \in ss : TRUE IN SendAll(SendStep(n, s), ss \ {s})

Bcast(p) ==
    /\ nsent < MaxMsgs
    /\ net' = SendAll(net, {Msg(<<3, -1, b>>, nsent + 1, p) : b \in Bs})
    /\ chan' = [r \in Routes |-> IF r[1] = 3 THEN Append(chan[r], <<nsent + 1, p>>) ELSE chan[r]]
    /\ nsent' = nsent + 1

\* the receiver of route r takes the head of its channel; the tag is the channel's key
Deliver(r) ==
    /\ chan[r] # <<>>
    /\ LET h == Head(chan[r])
       IN NDeliver([pat |-> r[1], at |-> r[3], from |-> r[2], mid |-> h[1], p |-> <<h[1], h[2]>>])
    /\ chan' = [chan EXCEPT ![r] = Tail(@)]
    /\ UNCHANGED nsent

Quiesce ==
    /\ \A r \in Routes : chan[r] = <<>>
    /\ NQuiesce
    /\ UNCHANGED ivars

Next == (\E r \in Routes, p \in Payloads : Send1(r, p)) \/ (\E p \in Payloads : Bcast(p))
        \/ (\E r \in Routes : Deliver(r)) \/ Quiesce
Spec == Init /\ [][Next]_vars

Inv == C35Inv(net)
\* everything in a channel is in flight, and vice versa
ChanFlight == Cardinality(net.flight) =
              LET RECURSIVE sum(_) sum(R) == IF R = {} THEN 0 ELSE LET r == CHOOSE x \in R : TRUE IN Len(chan[r]) + sum(R \ {r})
              IN sum(Routes)
=============================================================================
