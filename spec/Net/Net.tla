-------------------------------- MODULE Net --------------------------------
(* Abstract specification (property MONITOR) of cluster networking (C35).

   Events (pure steps on the monitor record n):
     SendStep(n, s)       s = [pat, src, dst, mid, p]: a payload p handed to the network at
                          sender src, addressed to member dst
     BcastStep(n, s, M)   s = [pat, src, mid, p]: a payload handed to a BROADCAST at sender
                          src; a broadcast addresses EVERY member of the destination cluster
                          (M = its members): each of them must receive it exactly once
     DeliverStep(n, d)    d = [pat, at, from, mid, p]: the receiver `at` produced payload p,
                          tagged with sender `from`
     QuiesceStep(n)       nothing is pending (TCP, no failures: nothing may be lost)
     RtStep(n, r)         a MemberId went through into_tagless / from_tagless / serde
   pat: 0 = one-to-many demux, 1 = many-to-one send, 2 = many-to-many demux,
        3 = broadcast from the process, 4 = sinktools::demux_map, 5 = broadcast from a
        cluster member (cluster-to-cluster); src / dst / at / from: member index,
        -1 = the process (or: the path carries no sender tag).
   `p` is the payload as TLC sees it (NetTrace passes the JSON text of the value): the monitor
   never looks inside, EQUALITY of the sent and the delivered payload is what decides
   serialization fidelity.  `mid` (also a field inside the payload) is unique per message and
   only used to name what went wrong.

   C35: every delivery matches exactly one in-flight send to that member, with the sender's
   id and an equal payload; member ids round-trip through their untyped form unchanged. *)
EXTENDS Naturals, Integers, FiniteSets

NInitRec == [flight |-> {}, done |-> {}, bad |-> {}]
NFlag(cond, name) == IF cond THEN {name} ELSE {}

SendStep(n, s) ==
    [n EXCEPT !.flight = @ \cup {s},
              !.bad = @ \cup NFlag(\E t \in n.flight \cup n.done : t.mid = s.mid /\ t.dst = s.dst,
                                   "PRE-message-id-reused")]

\* one in-flight obligation per member of the destination cluster
RECURSIVE SendEach(_, _, _)
SendEach(n, s, M) ==
    IF M = {} THEN n
    ELSE LET b == CHOOSE x \in M : TRUE
         IN SendEach(SendStep(n, [pat |-> s.pat, src |-> s.src, dst |-> b, mid |-> s.mid, p |-> s.p]),
                     s, M \ {b})
BcastStep(n, s, M) == SendEach(n, s, M)
IsBcast(s) == s.pat \in {3, 5}

Matches(s, d) == s.pat = d.pat /\ s.dst = d.at /\ s.src = d.from /\ s.p = d.p

DeliverStep(n, d) ==
    LET cands == {s \in n.flight : Matches(s, d)}
        same == {s \in n.flight \cup n.done : s.pat = d.pat /\ s.mid = d.mid}
    IN IF cands # {}
       THEN LET c == CHOOSE s \in cands : TRUE
            IN [n EXCEPT !.flight = @ \ {c}, !.done = @ \cup {c},
                         !.bad = @ \cup NFlag(Cardinality(cands) > 1, "PRE-two-identical-sends-in-flight")]
       ELSE [n EXCEPT !.bad = @ \cup
               (IF \E s \in n.done : Matches(s, d) THEN {"delivered-twice"}
                ELSE IF same = {} THEN {"delivered-a-message-that-was-never-sent"}
                ELSE NFlag(\A s \in same : s.p # d.p, "payload-changed-in-transit")
                     \cup NFlag(\A s \in same : s.dst # d.at, "delivered-to-a-member-that-was-not-addressed")
                     \cup NFlag(\A s \in same : s.src # d.from, "delivered-with-a-wrong-sender-id")
                     \cup NFlag(\E s \in same : s.p = d.p /\ s.dst = d.at /\ s.src = d.from,
                                "delivery-matches-no-in-flight-send"))]

\* nothing may stay in flight; for a broadcast that means: a member of the destination cluster
\* never got the payload -- the sender did not address it
QuiesceStep(n) ==
    [n EXCEPT !.bad = @ \cup NFlag(\E s \in n.flight : ~IsBcast(s), "message-lost")
                        \cup NFlag(\E s \in n.flight : IsBcast(s), "member-never-addressed")]

\* r = [raw, tagless, back, retag, wire, wire_tagless, eq]; the harness writes field names
\* with a "$" prefix and numbers as "#<decimal>" strings
RtStep(n, r) ==
    [n EXCEPT !.bad = @ \cup NFlag(r.back # r.raw \/ r.retag # r.raw, "member-id-changed-by-into_tagless-from_tagless")
                        \cup NFlag(r.wire # r.raw \/ r.wire_tagless # r.raw, "member-id-changed-by-serialization")
                        \cup NFlag(r.tagless # [x \in {"$Legacy"} |-> [y \in {"$raw_id"} |-> r.raw]], "untyped-form-does-not-carry-the-raw-id")
                        \cup NFlag(r.eq # TRUE, "round-tripped-member-id-not-equal-to-the-original")]

PanicStep(n) == [n EXCEPT !.bad = @ \cup {"panic"}]

\* state predicates: a delivered send is never in flight again; nothing is delivered twice
NoDup(n) == n.flight \cap n.done = {}
C35Inv(n) == n.bad = {} /\ NoDup(n)
BrokenOf(n) == n.bad \cup (IF NoDup(n) THEN {} ELSE {"NoDup"})

-----------------------------------------------------------------------------
VARIABLE net
nvars == <<net>>
NInit == net = NInitRec
NReset == net' = NInitRec
NSend(s) == net' = SendStep(net, s)
NBcast(s, M) == net' = BcastStep(net, s, M)
NDeliver(d) == net' = DeliverStep(net, d)
NQuiesce == net' = QuiesceStep(net)
NRt(r) == net' = RtStep(net, r)
NPanic == net' = PanicStep(net)
Broken == BrokenOf(net)
=============================================================================
