SPECIFICATION Spec
CONSTANTS
  NA = 3
  NB = 3
  MaxMsgs = 1
CHECK_DEADLOCK FALSE
