------------------------------ MODULE NetTrace ------------------------------
(* Trace validation of the real network paths against the Net monitor.  Events (ndjson):
     {"e":"reset","case":c}
     {"e":"send","pat":p,"src":s,"dst":d,"mid":i,"p":<payload as JSON>}
     {"e":"bcast","pat":3|5,"src":s,"nb":n,"mid":i,"p":<payload>}   broadcast to members 0..n-1
     {"e":"deliver","pat":p,"at":d,"from":s,"mid":i,"p":<decoded payload as JSON>}
     {"e":"quiesce"}
     {"e":"rt","raw":..,"tagless":..,"back":..,"retag":..,"wire":..,"wire_tagless":..,"eq":b}
     {"e":"panic"} {"e":"end"} {"e":"eof"}
   Payloads are compared as the JSON text TLC produces for the parsed value (ToJson): total,
   defined for every shape, and equal exactly when the two values are equal. *)
EXTENDS Net, Sequences, TLC, Json, IOUtils

Rec == ndJsonDeserialize(IOEnv.TRACE)

VARIABLES l, case, viol
tvars == <<nvars, l, case, viol>>
Ev == Rec[l]

TInit == l = 1 /\ case = 0 /\ viol = {} /\ NInit
Consume == l <= Len(Rec) /\ l' = l + 1

TReset == Ev.e = "reset" /\ NReset /\ case' = Ev.case
TSend == /\ Ev.e = "send"
         /\ NSend([pat |-> Ev.pat, src |-> Ev.src, dst |-> Ev.dst, mid |-> Ev.mid, p |-> ToJson(Ev.p)])
         /\ UNCHANGED case
TBcast == /\ Ev.e = "bcast"
          /\ NBcast([pat |-> Ev.pat, src |-> Ev.src, mid |-> Ev.mid, p |-> ToJson(Ev.p)], 0..(Ev.nb - 1))
          /\ UNCHANGED case
TDeliver == /\ Ev.e = "deliver"
            /\ NDeliver([pat |-> Ev.pat, at |-> Ev.at, from |-> Ev.from, mid |-> Ev.mid, p |-> ToJson(Ev.p)])
            /\ UNCHANGED case
TQuiesce == Ev.e = "quiesce" /\ NQuiesce /\ UNCHANGED case
TRt == /\ Ev.e = "rt"
       /\ NRt([raw |-> Ev.raw, tagless |-> Ev.tagless, back |-> Ev.back, retag |-> Ev.retag,
               wire |-> Ev.wire, wire_tagless |-> Ev.wire_tagless, eq |-> Ev.eq])
       /\ UNCHANGED case
TPanic == Ev.e = "panic" /\ NPanic /\ UNCHANGED case
TEnd == Ev.e = "end" /\ UNCHANGED <<net, case>>
TEof == Ev.e = "eof" /\ UNCHANGED <<net, case>> /\ PrintT(<<"VIOL", ToJson(viol)>>)

TNext ==
    /\ Consume
    /\ (TReset \/ TSend \/ TBcast \/ TDeliver \/ TQuiesce \/ TRt \/ TPanic \/ TEnd \/ TEof)
    /\ viol' = viol \cup {<<case', b>> : b \in Broken'}

TSpec == TInit /\ [][TNext]_tvars

TraceAccepted ==
    LET d == TLCGet("stats").diameter IN
    IF d - 1 = Len(Rec) THEN TRUE
    ELSE Print(<<"UNMATCHED-EVENT-AT-LINE", d, Rec[d]>>, FALSE)
=============================================================================
