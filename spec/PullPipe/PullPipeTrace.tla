---------------------------- MODULE PullPipeTrace ----------------------------
(* Trace validation of the real dfir_pipes pull combinators against the PullPipe monitor.
   The trace (ndjson, path in env TRACE) is a concatenation of cases:
     {"e":"reset","case":k,"tree":{k,f,n,c},"scripts":[[[x]|[-1]|[-2],..],..],"hm":m,"fused":b}
     {"e":"hint0","h":[lo,hi]}                                size_hint() before the first call
     {"e":"call","p":[[s,[a]],..],"s":"R|P|E","i":[[..]..],"h":[lo,hi]}   one call of the root
     {"e":"stall"} | {"e":"panic","msg":..}
     {"e":"eof"}
   Property-level rule breaks are collected per case in `viol` and printed at eof.  Events
   that no monitor action can consume (e.g. a poll answer that is not the script's next
   entry: a harness inconsistency) leave the trace unaccepted (POSTCONDITION). *)
EXTENDS PullPipe, TLC, Json, IOUtils

Rec == ndJsonDeserialize(IOEnv.TRACE)

VARIABLES l, case, viol, drift
tvars == <<mvars, l, case, viol, drift>>

Ev == Rec[l]

NoTree == [k |-> "src", f |-> "src", n |-> 1, c |-> <<>>]

TInit ==
    /\ l = 1
    /\ case = 0
    /\ viol = {}
    /\ drift = {}
    /\ MInit(NoTree, <<>>)

Consume == l <= Len(Rec) /\ l' = l + 1

TReset == /\ Ev.e = "reset"
          /\ ValidN(Ev.tree, Ev.scripts)
          /\ MReset(Ev.tree, Ev.scripts)
          /\ case' = Ev.case
          \* the harness derives `fused` from the FusedPull impls of the real types
          /\ drift' = IF Ev.fused # FusedN(Ev.tree, Ev.scripts) THEN drift \cup {<<Ev.case, "fused-flag">>} ELSE drift
THint0 == /\ Ev.e = "hint0" /\ MHint0(Ev.h) /\ UNCHANGED <<case, drift>>
TCall == /\ Ev.e = "call" /\ MCall(Ev.p, Ev.s, Ev.i, Ev.h) /\ UNCHANGED case
         \* implementation fact (not C11): Pending is answered only if an upstream answered Pending
         /\ drift' = IF spur' > spur THEN drift \cup {<<case, "pending-without-upstream-pending">>} ELSE drift
TStall == /\ Ev.e = "stall" /\ MStall /\ UNCHANGED <<case, drift>>
TPanic == /\ Ev.e = "panic" /\ MPanic /\ UNCHANGED <<case, drift>>
TEof == /\ Ev.e = "eof" /\ UNCHANGED <<mvars, case, drift>>
        /\ PrintT(<<"VIOL", ToJson(viol)>>) /\ PrintT(<<"DRIFT", ToJson(drift)>>)

TNext ==
    /\ Consume
    /\ (TReset \/ THint0 \/ TCall \/ TStall \/ TPanic \/ TEof)
    /\ viol' = viol \cup {<<case', b>> : b \in Broken'}

TSpec == TInit /\ [][TNext]_tvars

TraceAccepted ==
    LET d == TLCGet("stats").diameter IN
    IF d - 1 = Len(Rec) THEN TRUE
    ELSE Print(<<"UNMATCHED-EVENT-AT-LINE", d, Rec[d]>>, FALSE)
=============================================================================
