SPECIFICATION Spec
CONSTANTS
  GROUP = "unary"
  L = 3
  P = 2
  VALS = {0, 1, 2}
  HMS = {0}
  KNOWN = {"size-hint-upper-below-remaining-while-future-in-flight"}
  EMIT = FALSE
INVARIANTS C11Model ImplInv Emit
CHECK_DEADLOCK TRUE
