SPECIFICATION Spec
CONSTANTS
  GROUP = "unary"
  L = 3
  P = 2
  VALS = {0, 1, 2}
  HMS = {0}
  KNOWN = {}
  EMIT = FALSE
INVARIANTS C11Model ImplInv Emit
CHECK_DEADLOCK TRUE
