---------------------------- MODULE PullPipeImpl ----------------------------
(* Implementation-shaped model of the pull combinators of dfir_pipes (src/pull/*.rs), composed
   with the PullPipe monitor.  Every combinator's `pull` is transcribed as one case of the
   recursive operator PullN (its held fields are the node state `v`), `size_hint` as HintN.
   One TLA+ step = one call of the root by the driver.  All nondeterminism (tree, scripts, hint
   mode) is chosen in Init, so one initial state = one behaviour; finished behaviours are
   printed as CASE lines and replayed into the real combinators. *)
EXTENDS PullPipe, TLC, Json

CONSTANTS
    GROUP,      \* which family of trees Init enumerates
    L, P,       \* scripts: at most L items and P Pendings per upstream
    VALS,       \* item values
    HMS,        \* hint modes of the scripted upstreams: 0 exact, 1 loose (c-1, c+1), 2 (0, None)
    KNOWN,      \* rules the transcribed code is known to break (listed in known_findings.d; none at present)
    EMIT

VARIABLES
    ist,        \* state tree of the combinators: [v |-> held fields, cs |-> child states]
    hm,         \* hint mode of this case
    pc,         \* "run" | "done"
    post,       \* calls made after the first "E"
    nfut,       \* futures made by closures so far (they are numbered for the poll log)
    hist,       \* the calls so far: [p |-> polls, s |-> status, i |-> items, h |-> hint]
    cfg0        \* the case: [tree, scripts, hm, h0]

ivars == <<ist, hm, pc, post, nfut, hist, cfg0>>
vars == <<mvars, ivars>>

-----------------------------------------------------------------------------
(* Trees *)
Leaf(s, fl) == [k |-> "src", f |-> fl, n |-> s, c |-> <<>>]
U(k, f, n, ch) == [k |-> k, f |-> f, n |-> n, c |-> <<ch>>]
B(k, a, b) == [k |-> k, f |-> "", n |-> 0, c |-> <<a, b>>]

UnaryOver(ch) ==
    {U("map", "inc", 0, ch), U("inspect", "", 0, ch), U("enumerate", "", 0, ch),
     U("fuse", "", 0, ch), U("compat", "", 0, ch), U("filter_map", "fm", 0, ch)}
    \cup {U("filter", f, 0, ch) : f \in {"even", "nz"}}
    \cup {U("skip_while", f, 0, ch) : f \in {"even", "lt2"}}
    \cup {U("take_while", f, 0, ch) : f \in {"even", "lt2"}}
    \cup {U("skip", "", n, ch) : n \in 0..2}
    \cup {U("take", "", n, ch) : n \in 0..2}
    \cup {U(k, f, 0, ch) : k \in {"flat_map", "flatten"}, f \in {"dup", "rep"}}
    \cup {U(k, "sdup", 0, ch) : k \in {"flat_map_stream", "flatten_stream"}}
    \cup {U("filter_map_async", f, 0, ch) : f \in {"afm", "afn"}}

\* one representative per combinator (used where the full list would be too large)
UnaryCore(ch) ==
    {U("map", "inc", 0, ch), U("enumerate", "", 0, ch), U("fuse", "", 0, ch),
     U("filter", "even", 0, ch), U("filter_map", "fm", 0, ch), U("skip_while", "lt2", 0, ch),
     U("take_while", "lt2", 0, ch), U("skip", "", 1, ch), U("take", "", 1, ch), U("take", "", 2, ch),
     U("flat_map", "dup", 0, ch), U("flatten", "rep", 0, ch), U("flat_map_stream", "sdup", 0, ch),
     U("filter_map_async", "afm", 0, ch), U("compat", "", 0, ch)}

BinaryOver(a, b) == {B(k, a, b) : k \in {"chain", "zip", "zip_longest", "cross_singleton"}}
FutureOver(ch) == {U(k, "", 0, ch) : k \in {"collect", "for_each", "send_push", "send_sink", "next"} \cup ACCS}

(* Scripts: all sequences with at most l items (over VALS) and at most p Pendings *)
Entries == {<<x>> : x \in VALS} \cup {PEND}
Count(s, Test(_)) == Cardinality({i \in 1..Len(s) : Test(s[i])})
ScriptsLP(l, p) ==
    {s \in UNION {[1..m -> Entries] : m \in 0..(l + p)} :
        Count(s, LAMBDA e : e = PEND) <= p /\ Count(s, LAMBDA e : e # PEND) <= l}
\* non-fused upstreams: an ENDV entry that is followed by at least one more entry
InsertAt(s, i, e) == SubSeq(s, 1, i - 1) \o <<e>> \o SubSeq(s, i, Len(s))
NonFusedScripts(l, p) == UNION {{InsertAt(s, i, ENDV) : i \in 1..Len(s)} : s \in ScriptsLP(l, p)}

L1 == Leaf(1, "src")
L2 == Leaf(2, "src")

Cases ==
    CASE GROUP = "unary" ->
           {[tree |-> t, scripts |-> <<s>>] : t \in UnaryOver(L1), s \in ScriptsLP(L, P)}
      [] GROUP = "binary" ->
           {[tree |-> t, scripts |-> <<s1, s2>>] :
               t \in BinaryOver(L1, L2), s1 \in ScriptsLP(L, P), s2 \in ScriptsLP(L, P)}
      [] GROUP = "future" ->
           {[tree |-> t, scripts |-> <<s>>] :
               t \in FutureOver(L1) \cup FutureOver(U("filter", "even", 0, L1))
                     \cup FutureOver(U("flat_map", "dup", 0, L1)),
               s \in ScriptsLP(L, P)}
      [] GROUP = "flavour" ->
           {[tree |-> t, scripts |-> <<s>>] :
               t \in UNION {UnaryCore(Leaf(1, fl)) \cup {Leaf(1, fl)} : fl \in {"stream", "poll_fn", "iter", "from_fn"}},
               s \in ScriptsLP(L, P)}
           \* pull::once / pull::empty as (unobservable) upstreams
           \cup {[tree |-> t, scripts |-> <<s>>] :
                   t \in UnaryCore(Leaf(1, "once")) \cup {Leaf(1, "once")}, s \in {<< <<x>> >> : x \in VALS}}
           \cup {[tree |-> t, scripts |-> << <<>> >>] : t \in UnaryCore(Leaf(1, "empty")) \cup {Leaf(1, "empty")}}
           \cup {[tree |-> t, scripts |-> <<s1, s2>>] :
                   t \in BinaryOver(Leaf(1, "once"), L2) \cup BinaryOver(L2, Leaf(1, "once")),
                   s1 \in {<< <<x>> >> : x \in VALS}, s2 \in ScriptsLP(L, P)}
           \cup {[tree |-> t, scripts |-> << <<>>, s2 >>] :
                   t \in BinaryOver(Leaf(1, "empty"), L2) \cup BinaryOver(L2, Leaf(1, "empty")), s2 \in ScriptsLP(L, P)}
      [] GROUP = "nonfused" ->
           {[tree |-> t, scripts |-> <<s>>] : t \in UnaryCore(L1) \cup {L1}, s \in NonFusedScripts(L, P)}
           \cup {[tree |-> t, scripts |-> <<s1, s2>>] :
                   t \in {B("zip", L1, L2), B("cross_singleton", L1, L2), B("chain", U("fuse", "", 0, L1), L2),
                          B("zip_longest", U("fuse", "", 0, L1), U("take", "", 2, L2))},
                   s1 \in NonFusedScripts(L, 0), s2 \in NonFusedScripts(L, 0) \cup ScriptsLP(1, 1)}
      [] GROUP = "comp_uu" ->
           {[tree |-> t, scripts |-> <<s>>] :
               t \in UNION {UnaryCore(m) : m \in UnaryCore(L1)}, s \in ScriptsLP(L, P)}
      [] GROUP = "comp_ub" ->
           {[tree |-> t, scripts |-> <<s1, s2>>] :
               t \in UNION {UnaryCore(m) : m \in BinaryOver(L1, L2)},
               s1 \in ScriptsLP(L, P), s2 \in ScriptsLP(L, P)}
      [] GROUP = "comp_bu" ->
           {[tree |-> t, scripts |-> <<s1, s2>>] :
               t \in UNION {BinaryOver(m, L2) \cup BinaryOver(L1, [m EXCEPT !.c = <<L2>>]) : m \in UnaryCore(L1)},
               s1 \in ScriptsLP(L, P), s2 \in ScriptsLP(L, P)}

-----------------------------------------------------------------------------
(* Initial state of a node: the fields set by `new` *)
RECURSIVE InitSt(_)
InitSt(nd) ==
    [v |-> CASE nd.k \in {"take", "skip"} -> <<nd.n>>
             [] nd.k = "skip_while" -> <<1>>              \* skipping = true
             [] nd.k \in {"enumerate", "fuse"} -> <<0>>   \* index / done
             [] nd.k = "src" /\ nd.f = "once" -> <<0>>    \* item taken
             [] nd.k = "collect" \/ nd.k \in ACCS -> << <<>> >>    \* the collection / what went into the map
             [] OTHER -> <<>>,                            \* buffer / current / singleton_state = None
     cs |-> IF nd.c = <<>> THEN <<>> ELSE [i \in 1..Len(nd.c) |-> InitSt(nd.c[i])]]

Ret(a, st, env) == [a |-> a, st |-> st, env |-> env]
Logged(env, s, a) == [env EXCEPT !.polls = Append(@, <<s, a>>)]
NONE == <<-3>>      \* a future resolved to Option::None (poll log only)

(* One call of `pull` on node nd in state st.  env = [rem, eos, polls]. *)
RECURSIVE PullN(_, _, _)
PullN(nd, st, env) ==
    LET k == nd.k
        r == PullN(nd.c[1], st.cs[1], env)          \* pull of the (first) upstream
        st1 == [st EXCEPT !.cs[1] = r.st]
    IN
    CASE k = "src" /\ nd.f = "once" ->       \* once.rs: item.take(); no observable poll
           IF st.v[1] = 0 THEN Ret(env.rem[nd.n][1], [st EXCEPT !.v = <<1>>], env) ELSE Ret(ENDV, st, env)
      [] k = "src" /\ nd.f = "empty" -> Ret(ENDV, st, env)
      [] k = "src" /\ nd.f \notin {"once", "empty"} ->
           LET s == nd.n
               a == IF env.rem[s] = <<>> THEN ENDV ELSE Head(env.rem[s])
           IN Ret(a, st, [env EXCEPT !.rem = [env.rem EXCEPT ![s] = IF @ = <<>> THEN @ ELSE Tail(@)],
                                     !.eos = IF a = ENDV THEN env.eos \cup {s} ELSE env.eos,
                                     !.polls = Append(env.polls, <<s, a>>)])
      \* map.rs / inspect.rs / stream.rs over stream_compat.rs: the answer passes through
      [] k = "map" -> Ret(IF IsItem(r.a) THEN Fn(nd.f, r.a) ELSE r.a, st1, r.env)
      [] k \in {"inspect", "compat"} -> Ret(r.a, st1, r.env)
      \* enumerate.rs
      [] k = "enumerate" ->
           IF IsItem(r.a) THEN Ret(<<st.v[1]>> \o r.a, [st1 EXCEPT !.v = <<st.v[1] + 1>>], r.env)
           ELSE Ret(r.a, st1, r.env)
      \* filter.rs / filter_map.rs: loop while the closure rejects
      [] k = "filter" ->
           IF IsItem(r.a) /\ ~Pred(nd.f, r.a) THEN PullN(nd, st1, r.env) ELSE Ret(r.a, st1, r.env)
      [] k = "filter_map" ->
           IF IsItem(r.a)
           THEN IF Opt(nd.f, r.a) = <<>> THEN PullN(nd, st1, r.env) ELSE Ret(Opt(nd.f, r.a)[1], st1, r.env)
           ELSE Ret(r.a, st1, r.env)
      \* skip.rs
      [] k = "skip" ->
           IF IsItem(r.a) /\ st.v[1] > 0 THEN PullN(nd, [st1 EXCEPT !.v = <<st.v[1] - 1>>], r.env)
           ELSE Ret(r.a, st1, r.env)
      \* skip_while.rs
      [] k = "skip_while" ->
           IF IsItem(r.a)
           THEN IF st.v[1] = 1 /\ Pred(nd.f, r.a) THEN PullN(nd, st1, r.env)
                ELSE Ret(r.a, [st1 EXCEPT !.v = <<0>>], r.env)
           ELSE Ret(r.a, st1, r.env)
      \* take.rs: `if 0 == remaining { return Ended }` before touching the upstream
      [] k = "take" ->
           IF st.v[1] = 0 THEN Ret(ENDV, st, env)
           ELSE IF IsItem(r.a) THEN Ret(r.a, [st1 EXCEPT !.v = <<st.v[1] - 1>>], r.env)
           ELSE IF r.a = ENDV THEN Ret(ENDV, [st1 EXCEPT !.v = <<0>>], r.env)
           ELSE Ret(PEND, st1, r.env)
      \* take_while.rs (no flag: not fused)
      [] k = "take_while" ->
           IF IsItem(r.a) /\ ~Pred(nd.f, r.a) THEN Ret(ENDV, st1, r.env) ELSE Ret(r.a, st1, r.env)
      \* fuse.rs: prev = None after the first Ended
      [] k = "fuse" ->
           IF st.v[1] = 1 THEN Ret(ENDV, st, env)
           ELSE IF r.a = ENDV THEN Ret(ENDV, [st1 EXCEPT !.v = <<1>>], r.env)
           ELSE Ret(r.a, st1, r.env)
      \* flat_map.rs / flatten.rs: current = Some(inner iterator)
      [] k \in {"flat_map", "flatten"} ->
           IF st.v # <<>>
           THEN LET inner == st.v[1]
                IN IF inner # <<>> THEN Ret(Head(inner), [st EXCEPT !.v = <<Tail(inner)>>], env)
                   ELSE PullN(nd, [st EXCEPT !.v = <<>>], env)
           ELSE IF IsItem(r.a) THEN PullN(nd, [st1 EXCEPT !.v = <<IterOf(nd.f, r.a)>>], r.env)
           ELSE Ret(r.a, st1, r.env)
      \* flat_map_stream.rs / flatten_stream.rs: current = Some(inner stream)
      [] k \in {"flat_map_stream", "flatten_stream"} ->
           IF st.v # <<>>
           THEN LET sc == st.v[1]
                    a == IF sc = <<>> THEN ENDV ELSE Head(sc)
                    e1 == Logged(env, 0, a)
                    stn == [st EXCEPT !.v = <<IF sc = <<>> THEN sc ELSE Tail(sc)>>]
                IN IF a = ENDV THEN PullN(nd, [st EXCEPT !.v = <<>>], e1)
                   ELSE Ret(a, stn, e1)
           ELSE IF IsItem(r.a) THEN PullN(nd, [st1 EXCEPT !.v = <<StreamOf(nd.f, r.a)>>], r.env)
           ELSE Ret(r.a, st1, r.env)
      \* filter_map_async.rs: current = Some(future)
      [] k = "filter_map_async" ->
           IF st.v # <<>>
           THEN LET fu == st.v[1]
                IN IF fu.p > 0 THEN Ret(PEND, [st EXCEPT !.v = <<[fu EXCEPT !.p = @ - 1]>>], Logged(env, -fu.id, PEND))
                   ELSE IF fu.o # <<>> THEN Ret(fu.o[1], [st EXCEPT !.v = <<>>], Logged(env, -fu.id, fu.o[1]))
                   ELSE PullN(nd, [st EXCEPT !.v = <<>>], Logged(env, -fu.id, NONE))
           ELSE IF IsItem(r.a)
           THEN PullN(nd, [st1 EXCEPT !.v = <<[p |-> FutOf(nd.f, r.a).p, o |-> FutOf(nd.f, r.a).o, id |-> r.env.nf + 1]>>],
                      [r.env EXCEPT !.nf = @ + 1])
           ELSE Ret(r.a, st1, r.env)
      \* chain.rs: the (fused) first is polled on every call
      [] k = "chain" ->
           IF r.a # ENDV THEN Ret(r.a, st1, r.env)
           ELSE LET r2 == PullN(nd.c[2], st.cs[2], r.env)
                IN Ret(r2.a, [st1 EXCEPT !.cs[2] = r2.st], r2.env)
      \* zip.rs / zip_longest.rs: buffer = None | Left(item) | Right(item)
      [] k \in {"zip", "zip_longest"} ->
           LET buf == st.v
               hasL == buf # <<>> /\ buf[1] = 1
               hasR == buf # <<>> /\ buf[1] = 2
               q1 == IF hasL THEN Ret(buf[2], st.cs[1], env) ELSE r
               q2 == IF hasR THEN Ret(buf[2], st.cs[2], q1.env) ELSE PullN(nd.c[2], st.cs[2], q1.env)
               cs2 == <<q1.st, q2.st>>
               a1 == q1.a
               a2 == q2.a
               Out(a, b) == Ret(a, [v |-> b, cs |-> cs2], q2.env)
           IN IF IsItem(a1) /\ IsItem(a2) THEN Out(IF k = "zip" THEN a1 \o a2 ELSE <<2>> \o a1 \o a2, <<>>)
              ELSE IF k = "zip" /\ (a1 = ENDV \/ a2 = ENDV) THEN Out(ENDV, <<>>)
              ELSE IF k = "zip_longest" /\ IsItem(a1) /\ a2 = ENDV THEN Out(<<0>> \o a1, <<>>)
              ELSE IF k = "zip_longest" /\ a1 = ENDV /\ IsItem(a2) THEN Out(<<1>> \o a2, <<>>)
              ELSE IF k = "zip_longest" /\ a1 = ENDV /\ a2 = ENDV THEN Out(ENDV, <<>>)
              ELSE IF IsItem(a1) THEN Out(PEND, <<1, a1>>)
              ELSE IF IsItem(a2) THEN Out(PEND, <<2, a2>>)
              ELSE Out(PEND, <<>>)
      \* cross_singleton.rs: c[1] = item_pull, c[2] = singleton_pull, v = singleton_state
      [] k = "cross_singleton" ->
           IF st.v = <<>>
           THEN LET r2 == PullN(nd.c[2], st.cs[2], env)
                IN IF IsItem(r2.a)
                   THEN LET r1 == PullN(nd.c[1], st.cs[1], r2.env)
                        IN Ret(IF IsItem(r1.a) THEN r1.a \o r2.a ELSE r1.a,
                               [v |-> <<r2.a>>, cs |-> <<r1.st, r2.st>>], r1.env)
                   ELSE Ret(r2.a, [st EXCEPT !.cs[2] = r2.st], r2.env)
           ELSE Ret(IF IsItem(r.a) THEN r.a \o st.v[1] ELSE r.a, st1, r.env)

(* The loop shared by collect / for_each / send_push / send_sink / accumulate_all:
   pull until the upstream does not answer Ready. *)
RECURSIVE Drain(_, _, _, _)
Drain(nd, st, env, got) ==
    LET r == PullN(nd, st, env)
    IN IF IsItem(r.a) THEN Drain(nd, r.st, r.env, Append(got, r.a))
       ELSE [a |-> r.a, st |-> r.st, env |-> r.env, got |-> got]

(* One call by the driver: Pull::pull of the root, or Future::poll of a consuming future.
   Returns [s |-> status, i |-> items handed over, st, env]. *)
RootCall(nd, st, env) ==
    IF ~IsFuture(nd)
    THEN LET r == PullN(nd, st, env)
         IN [s |-> IF IsItem(r.a) THEN "R" ELSE IF r.a = PEND THEN "P" ELSE "E",
             i |-> IF IsItem(r.a) THEN <<r.a>> ELSE <<>>, st |-> r.st, env |-> r.env]
    ELSE IF nd.k = "next"
    THEN LET r == PullN(nd.c[1], st.cs[1], env)
         IN [s |-> IF r.a = PEND THEN "P" ELSE "E",
             i |-> IF IsItem(r.a) THEN <<r.a>> ELSE <<>>, st |-> [st EXCEPT !.cs[1] = r.st], env |-> r.env]
    ELSE LET d == Drain(nd.c[1], st.cs[1], env, <<>>)
             done == d.a = ENDV
         IN IF nd.k = "collect" \/ nd.k \in ACCS     \* the collection / map is handed over at completion
            THEN [s |-> IF done THEN "E" ELSE "P",
                  i |-> IF ~done THEN <<>> ELSE IF nd.k = "collect" THEN st.v[1] \o d.got ELSE AccOut(nd.k, st.v[1] \o d.got),
                  st |-> [v |-> <<st.v[1] \o d.got>>, cs |-> <<d.st>>], env |-> d.env]
            ELSE [s |-> IF done THEN "E" ELSE "P", i |-> d.got,
                  st |-> [st EXCEPT !.cs[1] = d.st], env |-> d.env]

-----------------------------------------------------------------------------
(* size_hint; upper = -1 encodes None *)
SatSub(a, b) == IF a > b THEN a - b ELSE 0
HiMap(h, F(_)) == IF h = -1 THEN -1 ELSE F(h)
HiAdd(a, b) == IF a = -1 \/ b = -1 THEN -1 ELSE a + b

RECURSIVE HintN(_, _, _)
HintN(nd, st, env) ==
    LET k == nd.k
        h == HintN(nd.c[1], st.cs[1], env)
        h2 == HintN(nd.c[2], st.cs[2], env)
    IN
    CASE k = "src" ->
           LET c == Len(Payloads(env.rem[nd.n]))
           IN IF nd.f \in {"poll_fn", "from_fn"} THEN <<0, -1>>
              ELSE IF nd.f = "once" THEN (IF st.v[1] = 0 THEN <<1, 1>> ELSE <<0, 0>>)
              ELSE IF nd.f = "empty" THEN <<0, 0>>
              ELSE IF nd.n \in env.eos THEN <<0, 0>>
              ELSE CASE hm = 0 -> <<c, c>>
                     [] hm = 1 -> <<SatSub(c, 1), c + 1>>
                     [] OTHER -> <<0, -1>>
      [] k \in {"map", "inspect", "enumerate", "compat"} -> h
      [] k \in {"filter", "filter_map", "take_while"} -> <<0, h[2]>>
      \* filter_map_async.rs: the item held by the in-flight future is no longer counted by prev
      [] k = "filter_map_async" -> <<0, HiMap(h[2], LAMBDA u : u + (IF st.v = <<>> THEN 0 ELSE 1))>>
      [] k = "skip" -> <<SatSub(h[1], st.v[1]), HiMap(h[2], LAMBDA u : SatSub(u, st.v[1]))>>
      [] k = "skip_while" -> IF st.v[1] = 1 THEN <<0, h[2]>> ELSE h
      [] k = "take" -> <<Min(h[1], st.v[1]), IF h[2] = -1 THEN st.v[1] ELSE Min(h[2], st.v[1])>>
      [] k = "fuse" -> IF st.v[1] = 1 THEN <<0, 0>> ELSE h
      [] k \in {"flat_map", "flatten"} -> <<IF st.v = <<>> THEN 0 ELSE Len(st.v[1]), -1>>
      [] k \in {"flat_map_stream", "flatten_stream"} ->
           <<IF st.v = <<>> THEN 0 ELSE Len(Payloads(st.v[1])), -1>>
      [] k = "chain" -> <<h[1] + h2[1], HiAdd(h[2], h2[2])>>
      [] k \in {"zip", "zip_longest"} ->
           LET bL == IF st.v # <<>> /\ st.v[1] = 1 THEN 1 ELSE 0
               bR == IF st.v # <<>> /\ st.v[1] = 2 THEN 1 ELSE 0
               min1 == h[1] + bL
               max1 == HiMap(h[2], LAMBDA u : u + bL)
               min2 == h2[1] + bR
               max2 == HiMap(h2[2], LAMBDA u : u + bR)
           IN IF k = "zip"
              THEN <<Min(min1, min2),
                     IF max1 # -1 /\ max2 # -1 THEN Min(max1, max2) ELSE IF max1 # -1 THEN max1 ELSE max2>>
              ELSE <<Max(min1, min2), IF max1 # -1 /\ max2 # -1 THEN Max(max1, max2) ELSE -1>>
      [] k = "cross_singleton" -> <<IF st.v = <<>> THEN 0 ELSE h[1], h[2]>>
      [] OTHER -> <<0, -1>>       \* futures have no size_hint

-----------------------------------------------------------------------------
Env0 == [rem |-> rem, eos |-> eos, polls |-> <<>>, nf |-> nfut]

Init ==
    \E c \in Cases : \E m \in HMS :
        /\ ValidN(c.tree, c.scripts)
        /\ MInit(c.tree, c.scripts)
        /\ ist = InitSt(c.tree)
        /\ hm = m
        /\ pc = "hint0"
        /\ post = 0
        /\ nfut = 0
        /\ hist = <<>>
        /\ cfg0 = [tree |-> c.tree, scripts |-> c.scripts, hm |-> m]

\* the driver asks for the size hint before the first call
Hint0 ==
    /\ pc = "hint0"
    /\ LET h == HintN(tree, ist, Env0)
       IN /\ MHint0(h)
          /\ cfg0' = [tree |-> cfg0.tree, scripts |-> cfg0.scripts, hm |-> cfg0.hm, h0 |-> h]
    /\ pc' = "run"
    /\ UNCHANGED <<ist, hm, post, nfut, hist>>

\* the driver stops at the first "E"; a FusedPull is polled twice more
Extra == IF fusedT /\ ~IsFuture(tree) THEN 2 ELSE 0

Call ==
    /\ pc = "run"
    /\ LET r == RootCall(tree, ist, Env0)
           h == HintN(tree, r.st, r.env)
           p2 == IF fin > 0 THEN post + 1 ELSE post
       IN /\ MCall(r.env.polls, r.s, r.i, h)
          /\ ist' = r.st
          /\ nfut' = r.env.nf
          /\ hist' = Append(hist, [p |-> r.env.polls, s |-> r.s, i |-> r.i, h |-> h])
          /\ post' = p2
          /\ pc' = IF (r.s = "E" \/ fin > 0) /\ p2 >= Extra THEN "done" ELSE "run"
    /\ UNCHANGED <<hm, cfg0>>

Done == pc = "done" /\ UNCHANGED vars

Next == Hint0 \/ Call \/ Done
Spec == Init /\ [][Next]_vars

-----------------------------------------------------------------------------
\* the properties, up to the rules the code is known to break
C11Model == bad \subseteq KNOWN /\ EmittedPrefix /\ EndExact

\* implementation facts: no Pending without an upstream Pending; bounded progress
RECURSIVE SumLen(_)
SumLen(ss) == IF ss = <<>> THEN 0 ELSE Len(Head(ss)) + SumLen(Tail(ss))
NoSpuriousPending == spur = 0
Progress == calls <= 8 * SumLen(cfg0.scripts) + 6
ImplInv == NoSpuriousPending /\ Progress

Emit == (EMIT /\ pc = "done") =>
          PrintT(<<"CASE", ToJson([tree |-> cfg0.tree, scripts |-> cfg0.scripts, hm |-> cfg0.hm,
                                   h0 |-> cfg0.h0, fused |-> fusedT, ref |-> ref,
                                   bad |-> bad, calls |-> hist])>>)
=============================================================================
