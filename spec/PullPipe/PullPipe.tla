------------------------------ MODULE PullPipe ------------------------------
(* Abstract specification (property monitor) of the pull-side combinators of dfir_pipes (C11).

   A *case* is a tree of combinators over scripted upstreams.  Upstream s answers the entries
   of its script one per poll -- an item, PEND or ENDV -- and ENDV forever once the script is
   exhausted.  A script that contains an ENDV entry describes a NON-FUSED upstream (it may
   resume after reporting the end); only the entries before the first ENDV are its payload.

   Values are flat, non-empty sequences of integers whose first element is >= 0:
     item x               <<x>>
     pair (a, b)          a \o b                   (zip, cross_singleton)
     enumerate (i, a)     <<i>> \o a
     zip_longest          <<0>> \o a (Left) | <<1>> \o b (Right) | <<2>> \o a \o b (Both)
   The shape of a value is fixed by the (statically typed) tree, so the flattening loses
   nothing.  PEND = <<-1>>, ENDV = <<-2>>.  Closures come from a small fixed vocabulary that is
   defined here and, identically, in the harness (harness/hv_pull/src/lib.rs).

   One event = one call of the root (Pull::pull, or Future::poll for the consuming futures):
     MCall(polls, st, items, hint)
       polls  the upstream polls made during the call, in order: <<s, answer>>;
              s >= 1 scripted upstream, s = 0 inner stream made by a closure, s = -j the j-th
              future made by a closure in this case
       st     "R" (Ready) | "P" (Pending) | "E" (Ended / future completed)
       items  the items handed to the caller by this call (exactly one for "R")
       hint   <<lower, upper>> of size_hint() after the call (upper = -1: None)

   The reference layer is RefN: the corresponding iterator adapter on the payloads. *)
EXTENDS Naturals, Integers, Sequences, FiniteSets

PEND == <<-1>>
ENDV == <<-2>>
IsItem(a) == a[1] >= 0

Min(a, b) == IF a <= b THEN a ELSE b
Max(a, b) == IF a >= b THEN a ELSE b

-----------------------------------------------------------------------------
(* Closure vocabulary *)
Add10(v) == [v EXCEPT ![1] = @ + 10]
Fn(f, v) == CASE f = "inc" -> [v EXCEPT ![1] = @ + 1]
Pred(f, v) == CASE f = "even" -> v[1] % 2 = 0
                [] f = "lt2" -> v[1] < 2
                [] f = "nz" -> v[1] # 0
\* Option as a sequence of length 0 or 1
Opt(f, v) == CASE f = "fm" -> IF v[1] % 3 = 1 THEN <<>> ELSE <<Add10(v)>>
Copies(v, k) == [i \in 1..k |-> v]
IterOf(f, v) == CASE f = "dup" -> <<v, Add10(v)>>
                  [] f = "rep" -> IF v[1] % 3 = 0 THEN <<>> ELSE Copies(v, v[1] % 3)
\* script of the stream made from v (ENDV forever afterwards)
StreamOf(f, v) == CASE f = "sdup" -> CASE v[1] % 3 = 0 -> <<PEND, v, Add10(v)>>
                                       [] v[1] % 3 = 1 -> <<v, PEND, Add10(v)>>
                                       [] OTHER -> <<>>
\* future made from v: p Pending answers, then the Option o
FutOf(f, v) == CASE f = "afm" -> CASE v[1] % 3 = 0 -> [p |-> 1, o |-> <<Add10(v)>>]
                                   [] v[1] % 3 = 1 -> [p |-> 0, o |-> <<>>]
                                   [] OTHER -> [p |-> 2, o |-> <<Add10(v)>>]
              [] f = "afn" -> CASE v[1] % 3 = 0 -> [p |-> 0, o |-> <<v>>]
                                [] v[1] % 3 = 1 -> [p |-> 1, o |-> <<>>]
                                [] OTHER -> [p |-> 1, o |-> <<v>>]

-----------------------------------------------------------------------------
(* Sequence helpers *)
MapS(Op(_), s) == IF s = <<>> THEN <<>> ELSE [i \in 1..Len(s) |-> Op(s[i])]
RECURSIVE FlatS(_)
FlatS(ss) == IF ss = <<>> THEN <<>> ELSE Head(ss) \o FlatS(Tail(ss))
RECURSIVE TakeWhileS(_, _)
TakeWhileS(f, s) == IF s = <<>> \/ ~Pred(f, Head(s)) THEN <<>> ELSE <<Head(s)>> \o TakeWhileS(f, Tail(s))
RECURSIVE SkipWhileS(_, _)
SkipWhileS(f, s) == IF s = <<>> THEN <<>> ELSE IF Pred(f, Head(s)) THEN SkipWhileS(f, Tail(s)) ELSE s
IsPrefix(a, b) == Len(a) <= Len(b) /\ \A i \in 1..Len(a) : a[i] = b[i]

\* items an upstream hands out before it first reports the end
RECURSIVE Payloads(_)
Payloads(s) == IF s = <<>> THEN <<>>
               ELSE IF Head(s) = ENDV THEN <<>>
               ELSE IF Head(s) = PEND THEN Payloads(Tail(s))
               ELSE <<Head(s)>> \o Payloads(Tail(s))
HasEnd(s) == \E i \in 1..Len(s) : s[i] = ENDV

(* accumulate_all with Fold / FoldFrom / Reduce: items are keyed by v[1] % 2, the accumulated
   value is order-sensitive; the result map is reported as <<key, acc>> in key order *)
AccStep(a, x) == (a * 3 + x) % 10007
RECURSIVE AccFold(_, _)
AccFold(a, xs) == IF xs = <<>> THEN a ELSE AccFold(AccStep(a, Head(xs)[1]), Tail(xs))
AccOf(kind, xs) == CASE kind = "fold" -> AccFold(7, xs)
                     [] kind = "fold_from" -> AccFold(Head(xs)[1] + 1000, Tail(xs))
                     [] kind = "reduce" -> AccFold(Head(xs)[1], Tail(xs))
AccOut(kind, items) ==
    LET g0 == SelectSeq(items, LAMBDA v : v[1] % 2 = 0)
        g1 == SelectSeq(items, LAMBDA v : v[1] % 2 = 1)
    IN (IF g0 = <<>> THEN <<>> ELSE << <<0, AccOf(kind, g0)>> >>)
       \o (IF g1 = <<>> THEN <<>> ELSE << <<1, AccOf(kind, g1)>> >>)
ACCS == {"fold", "fold_from", "reduce"}

-----------------------------------------------------------------------------
(* Reference layer: the iterator adapter on the payloads.
   A node is [k |-> kind, f |-> closure name or leaf flavour, n |-> integer argument or
   source index, c |-> children]. *)
RECURSIVE RefN(_, _)
RefN(nd, scr) ==
    LET k == nd.k
        r1 == RefN(nd.c[1], scr)
        r2 == RefN(nd.c[2], scr)
    IN CASE k = "src" -> Payloads(scr[nd.n])
         [] k = "map" -> MapS(LAMBDA v : Fn(nd.f, v), r1)
         [] k = "filter" -> SelectSeq(r1, LAMBDA v : Pred(nd.f, v))
         [] k = "filter_map" -> FlatS(MapS(LAMBDA v : Opt(nd.f, v), r1))
         [] k = "filter_map_async" -> FlatS(MapS(LAMBDA v : FutOf(nd.f, v).o, r1))
         [] k \in {"inspect", "fuse", "compat"} -> r1
         [] k = "enumerate" -> IF r1 = <<>> THEN <<>> ELSE [i \in 1..Len(r1) |-> <<i - 1>> \o r1[i]]
         [] k = "skip" -> SubSeq(r1, nd.n + 1, Len(r1))
         [] k = "skip_while" -> SkipWhileS(nd.f, r1)
         [] k = "take" -> SubSeq(r1, 1, Min(nd.n, Len(r1)))
         [] k = "take_while" -> TakeWhileS(nd.f, r1)
         [] k \in {"flat_map", "flatten"} -> FlatS(MapS(LAMBDA v : IterOf(nd.f, v), r1))
         [] k \in {"flat_map_stream", "flatten_stream"} ->
                FlatS(MapS(LAMBDA v : Payloads(StreamOf(nd.f, v)), r1))
         [] k = "chain" -> r1 \o r2
         [] k = "zip" -> LET m == Min(Len(r1), Len(r2))
                         IN IF m = 0 THEN <<>> ELSE [i \in 1..m |-> r1[i] \o r2[i]]
         [] k = "zip_longest" ->
                LET m == Max(Len(r1), Len(r2))
                IN IF m = 0 THEN <<>>
                   ELSE [i \in 1..m |-> IF i <= Len(r1) /\ i <= Len(r2) THEN <<2>> \o r1[i] \o r2[i]
                                        ELSE IF i <= Len(r1) THEN <<0>> \o r1[i]
                                        ELSE <<1>> \o r2[i]]
         [] k = "cross_singleton" -> IF r2 = <<>> THEN <<>> ELSE MapS(LAMBDA v : v \o r2[1], r1)
         \* consuming futures (root only)
         [] k \in {"collect", "for_each", "send_push", "send_sink"} -> r1
         [] k = "next" -> SubSeq(r1, 1, Min(1, Len(r1)))
         [] k \in ACCS -> AccOut(k, r1)

\* FusedPull is implemented for the node's type (given these upstreams)
RECURSIVE FusedN(_, _)
FusedN(nd, scr) ==
    LET k == nd.k IN
    CASE k = "src" -> nd.f \notin {"poll_fn", "from_fn"} /\ ~HasEnd(scr[nd.n])
      [] k \in {"map", "filter", "filter_map", "filter_map_async", "inspect", "enumerate", "skip",
                "skip_while", "flat_map", "flatten", "flat_map_stream", "flatten_stream"} ->
             FusedN(nd.c[1], scr)
      [] k \in {"take", "fuse", "zip_longest"} -> TRUE
      [] k = "chain" -> FusedN(nd.c[2], scr)
      [] k = "cross_singleton" -> FusedN(nd.c[1], scr) /\ FusedN(nd.c[2], scr)
      [] OTHER -> FALSE          \* take_while, zip, compat, futures

\* the tree type-checks: chain needs a fused first input, zip_longest two fused inputs;
\* non-fused scripts only for the plain "src" flavour; flavours iter / from_fn / once cannot pend
RECURSIVE ValidN(_, _)
ValidN(nd, scr) ==
    LET k == nd.k IN
    CASE k = "src" -> /\ (HasEnd(scr[nd.n]) => nd.f = "src")
                      /\ (nd.f \in {"iter", "from_fn", "once"} => \A i \in 1..Len(scr[nd.n]) : scr[nd.n][i] # PEND)
                      /\ (nd.f = "once" => Len(scr[nd.n]) = 1)      \* pull::once(x): script <<x>>, not observable
                      /\ (nd.f = "empty" => scr[nd.n] = <<>>)       \* pull::empty()
      [] k = "chain" -> FusedN(nd.c[1], scr) /\ ValidN(nd.c[1], scr) /\ ValidN(nd.c[2], scr)
      [] k = "zip_longest" -> /\ FusedN(nd.c[1], scr) /\ FusedN(nd.c[2], scr)
                              /\ ValidN(nd.c[1], scr) /\ ValidN(nd.c[2], scr)
      [] k \in {"zip", "cross_singleton"} -> ValidN(nd.c[1], scr) /\ ValidN(nd.c[2], scr)
      [] OTHER -> ValidN(nd.c[1], scr)

IsFuture(nd) == nd.k \in {"collect", "for_each", "send_push", "send_sink", "next"} \cup ACCS

RECURSIVE HasKind(_, _)
HasKind(nd, k) == nd.k = k \/ \E i \in 1..Len(nd.c) : HasKind(nd.c[i], k)

-----------------------------------------------------------------------------
VARIABLES
    tree,       \* the combinator tree of the current case
    rem,        \* rem[s]: remaining script of upstream s
    eos,        \* upstreams that have answered ENDV at least once
    ref,        \* RefN(tree, scripts): what the iterator adapter yields
    fusedT,     \* FusedN(tree, scripts)
    emitted,    \* items handed to the caller so far
    fin,        \* number of "E" answers so far
    calls,      \* number of calls so far
    spur,       \* calls that answered "P" although no upstream answered PEND during the call
    infl,       \* closure-made futures in flight: ids whose last poll answered PEND
    bad         \* set of property-level rules broken so far in this case

mvars == <<tree, rem, eos, ref, fusedT, emitted, fin, calls, spur, infl, bad>>

MInit(t, scripts) ==
    /\ tree = t
    /\ rem = scripts
    /\ eos = {}
    /\ ref = IF scripts = <<>> THEN <<>> ELSE RefN(t, scripts)
    /\ fusedT = IF scripts = <<>> THEN FALSE ELSE FusedN(t, scripts)
    /\ emitted = <<>>
    /\ fin = 0
    /\ calls = 0
    /\ spur = 0
    /\ infl = {}
    /\ bad = {}

MReset(t, scripts) ==
    /\ tree' = t
    /\ rem' = scripts
    /\ eos' = {}
    /\ ref' = RefN(t, scripts)
    /\ fusedT' = FusedN(t, scripts)
    /\ emitted' = <<>>
    /\ fin' = 0
    /\ calls' = 0
    /\ spur' = 0
    /\ infl' = {}
    /\ bad' = {}

(* Replays the polls of one call against the scripts. *)
RECURSIVE Walk(_, _)
Walk(ps, acc) ==
    IF ps = <<>> THEN acc
    ELSE LET s == Head(ps)[1]
             a == Head(ps)[2]
         IN IF s <= 0
            THEN Walk(Tail(ps), [acc EXCEPT !.np = @ + (IF a = PEND THEN 1 ELSE 0),
                                            !.infl = IF s = 0 THEN @ ELSE IF a = PEND THEN @ \cup {s} ELSE @ \ {s}])
            ELSE IF s \notin DOMAIN acc.rem THEN [acc EXCEPT !.ok = FALSE]
            ELSE LET want == IF acc.rem[s] = <<>> THEN ENDV ELSE Head(acc.rem[s])
                 IN Walk(Tail(ps),
                         [rem |-> [acc.rem EXCEPT ![s] = IF @ = <<>> THEN @ ELSE Tail(@)],
                          ok |-> acc.ok /\ a = want,     \* the scripted doubles are deterministic
                          np |-> acc.np + (IF a = PEND THEN 1 ELSE 0),
                          infl |-> acc.infl,
                          \* a non-fused upstream (script goes on after its ENDV) polled again
                          repoll |-> acc.repoll \/ (s \in acc.eos /\ acc.rem[s] # <<>>),
                          eos |-> IF a = ENDV THEN acc.eos \cup {s} ELSE acc.eos])

Rule(cond, name) == IF cond THEN {name} ELSE {}

MCall(polls, st, items, hint) ==
    LET w == Walk(polls, [rem |-> rem, ok |-> TRUE, np |-> 0, infl |-> infl, repoll |-> FALSE, eos |-> eos])
        em == emitted \o items
        remaining == Len(ref) - Len(em)
        late == fin > 0
        hiBad == hint[2] # -1 /\ remaining > hint[2]
        loBad == hint[1] > remaining
    IN /\ w.ok
       /\ st \in {"R", "P", "E"}
       /\ (st = "R" /\ ~IsFuture(tree)) => Len(items) = 1
       /\ rem' = w.rem
       /\ eos' = w.eos
       /\ infl' = w.infl
       /\ emitted' = em
       /\ calls' = calls + 1
       /\ fin' = IF st = "E" THEN fin + 1 ELSE fin
       /\ spur' = spur + (IF st = "P" /\ w.np = 0 THEN 1 ELSE 0)
       /\ bad' = bad
            \* P1: what is yielded is a prefix of what the iterator adapter yields
            \cup Rule(~IsPrefix(em, ref), "item-not-next-of-reference")
            \* P2: the end is reported only when everything was yielded
            \cup Rule(st = "E" /\ IsPrefix(em, ref) /\ em # ref, "ended-before-all-reference-items")
            \* P3: a fused pull that ended keeps reporting the end
            \cup Rule(late /\ fusedT /\ (st # "E" \/ items # <<>>), "fused-pull-resumed-after-end")
            \* protocol: only a FusedPull bound allows polling an upstream beyond its end
            \cup Rule(w.repoll, "nonfused-upstream-polled-after-its-end")
            \* P4: size hints bracket what is still to come (while the pull is live, or fused)
            \cup Rule((~late \/ fusedT) /\ IsPrefix(em, ref) /\ hiBad /\ w.infl # {},
                      "size-hint-upper-below-remaining-while-future-in-flight")
            \cup Rule((~late \/ fusedT) /\ IsPrefix(em, ref) /\ hiBad /\ w.infl = {},
                      "size-hint-upper-below-remaining")
            \cup Rule((~late \/ fusedT) /\ IsPrefix(em, ref) /\ loBad,
                      "size-hint-lower-above-remaining")
       /\ UNCHANGED <<tree, ref, fusedT>>

\* size_hint() before the first call
MHint0(hint) ==
    /\ calls = 0
    /\ bad' = bad
         \cup Rule(hint[2] # -1 /\ Len(ref) > hint[2], "size-hint-upper-below-remaining")
         \cup Rule(hint[1] > Len(ref), "size-hint-lower-above-remaining")
    /\ UNCHANGED <<tree, rem, eos, ref, fusedT, emitted, fin, calls, spur, infl>>

\* P5: the driver's (generous) call budget ran out before the end was reported
MStall ==
    /\ bad' = bad \cup {"stalled-without-end"}
    /\ UNCHANGED <<tree, rem, eos, ref, fusedT, emitted, fin, calls, spur, infl>>

MPanic ==
    /\ bad' = bad \cup {"panic"}
    /\ UNCHANGED <<tree, rem, eos, ref, fusedT, emitted, fin, calls, spur, infl>>

-----------------------------------------------------------------------------
(* Properties of C11 as state predicates *)
NoRuleBroken == bad = {}
EmittedPrefix == IsPrefix(emitted, ref)
EndExact == fin > 0 => emitted = ref
C11Inv == NoRuleBroken /\ EmittedPrefix /\ EndExact

Broken == bad
           \cup (IF EmittedPrefix THEN {} ELSE {"item-not-next-of-reference"})
=============================================================================
