-------------------------- MODULE MergeSourceTrace --------------------------
(* Trace validation of the real MergeSource against the MergeSource monitor.
   The trace (ndjson, path in env TRACE) is a concatenation of cases:
     {"e":"reset","case":k,"n":N,"scripts":[[..],..]}
     {"e":"src","s":s,"a":a}                 a: item >= 0, -1 pending, -2 end
     {"e":"ret","r":[tag,v],"cursor":c,"live":m}
     {"e":"stall"} | {"e":"panic","msg":..}
     {"e":"eof"}
   Property-level rule breaks do not stop the validation: they are collected per case in
   `viol` and printed at eof, so one bad case cannot mask another. Events that no monitor
   action can consume (a harness inconsistency) leave the trace unaccepted (POSTCONDITION). *)
EXTENDS MergeSource, TLC, Json, IOUtils

Rec == ndJsonDeserialize(IOEnv.TRACE)

VARIABLES l, case, viol, drift
tvars == <<mvars, l, case, viol, drift>>

Ev == Rec[l]

TInit ==
    /\ l = 1
    /\ case = 0
    /\ viol = {}
    /\ drift = {}
    /\ MInit(0, <<>>)

Consume == l <= Len(Rec) /\ l' = l + 1

TReset == /\ Ev.e = "reset" /\ MReset(Ev.n, Ev.scripts) /\ case' = Ev.case /\ UNCHANGED drift
TSrc == /\ Ev.e = "src" /\ MSrcPoll(Ev.s, Ev.a) /\ UNCHANGED <<case, drift>>
TRet == /\ Ev.e = "ret" /\ MRet(Ev.r) /\ UNCHANGED case
        \* implementation fact (not C15): nothing is held across calls, cursor in range
        /\ drift' = IF buffer' # <<>> \/ ~(Ev.cursor = 0 \/ Ev.cursor < Ev.live)
                    THEN drift \cup {case} ELSE drift
TStall == /\ Ev.e = "stall" /\ MStall /\ UNCHANGED <<case, drift>>
TPanic == /\ Ev.e = "panic" /\ MPanic /\ UNCHANGED <<case, drift>>
TEof == /\ Ev.e = "eof" /\ UNCHANGED <<mvars, case, drift>>
        /\ PrintT(<<"VIOL", ToJson(viol)>>) /\ PrintT(<<"DRIFT", ToJson(drift)>>)

TNext ==
    /\ Consume
    /\ (TReset \/ TSrc \/ TRet \/ TStall \/ TPanic \/ TEof)
    /\ viol' = viol \cup {<<case', b>> : b \in Broken'}

TSpec == TInit /\ [][TNext]_tvars

TraceAccepted ==
    LET d == TLCGet("stats").diameter IN
    IF d - 1 = Len(Rec) THEN TRUE
    ELSE Print(<<"UNMATCHED-EVENT-AT-LINE", d, Rec[d]>>, FALSE)
=============================================================================
