---------------------------- MODULE MergeSource ----------------------------
(* Abstract specification (property monitor) of a merged, tagged network source (C15).

   The environment is a set of sources 1..N, each with a *script*: a finite sequence whose
   entries are an item (a natural number, unique across the whole configuration) or
   PENDING (-1).  A source answers the entries of its script one per poll and, after the
   script is exhausted, END (-2) forever.

   Events (one per call observed at the implementation):
     SrcPoll(s, a)  the merge polled source s and s answered a
     Ret(r)         the merged stream's poll_next returned r
                    (r = <<tag, item>>, or <<0, PENDING>>, or <<0, END>>)

   The monitor state records what has been taken from the sources and what has been
   returned; the properties of C15 are the invariants at the bottom.  The same module is
   (a) composed with the implementation-shaped model MergeSourceImpl and model checked for
   every script configuration, and (b) driven by traces recorded from the real
   hydro_deploy_integration::MergeSource (MergeSourceTrace). *)
EXTENDS Naturals, Integers, Sequences, FiniteSets

PENDING == -1
END     == -2

VARIABLES
    n,          \* number of sources in the current case
    rem,        \* rem[s]: remaining script of source s
    ended,      \* set of sources that have answered END at least once
    buffer,     \* items taken from sources but not yet returned: seq of <<s, item>>
    outs,       \* outs[s]: items of source s returned so far, in order
    given,      \* given[s]: items source s has handed out so far, in order
    fin,        \* the merged stream returned END
    inPoll,     \* sources polled during the current poll_next call (since the last Ret)
    since,      \* since[t][s]: items of s returned since t was last polled (fairness)
    bad         \* "" or the name of the first property-level rule broken (kept for reporting)

mvars == <<n, rem, ended, buffer, outs, given, fin, inPoll, since, bad>>

Srcs == 1..n

MInit(N, scripts) ==
    /\ n = N
    /\ rem = scripts
    /\ ended = {}
    /\ buffer = <<>>
    /\ outs = [s \in 1..N |-> <<>>]
    /\ given = [s \in 1..N |-> <<>>]
    /\ fin = FALSE
    /\ inPoll = {}
    /\ since = [t \in 1..N |-> [s \in 1..N |-> 0]]
    /\ bad = ""

MReset(N, scripts) ==
    /\ n' = N
    /\ rem' = scripts
    /\ ended' = {}
    /\ buffer' = <<>>
    /\ outs' = [s \in 1..N |-> <<>>]
    /\ given' = [s \in 1..N |-> <<>>]
    /\ fin' = FALSE
    /\ inPoll' = {}
    /\ since' = [t \in 1..N |-> [s \in 1..N |-> 0]]
    /\ bad' = ""

Flag(cond, name) == IF bad = "" /\ cond THEN name ELSE bad

(* What source s answers next. *)
NextAnswer(s) == IF rem[s] = <<>> THEN END ELSE Head(rem[s])

MSrcPoll(s, a) ==
    /\ s \in Srcs
    /\ a = NextAnswer(s)                 \* the scripted double is deterministic
    /\ rem' = [rem EXCEPT ![s] = IF rem[s] = <<>> THEN <<>> ELSE Tail(rem[s])]
    /\ ended' = IF a = END THEN ended \cup {s} ELSE ended
    /\ buffer' = IF a >= 0 THEN Append(buffer, <<s, a>>) ELSE buffer
    /\ given' = IF a >= 0 THEN [given EXCEPT ![s] = Append(@, a)] ELSE given
    /\ inPoll' = inPoll \cup {s}
    /\ since' = [since EXCEPT ![s] = [u \in Srcs |-> 0]]
    /\ bad' = Flag(fin, "poll-after-end-of-merged-stream")
    /\ UNCHANGED <<n, outs, fin>>

\* merged results are always pairs <<tag, v>>: v >= 0 item of sender tag, <<0, PENDING>>, <<0, END>>
RPENDING == <<0, PENDING>>
REND == <<0, END>>
IsItem(r) == r[2] >= 0

(* first buffered item of sender s, or <<>> *)
FirstOf(s) ==
    LET idx == {i \in 1..Len(buffer) : buffer[i][1] = s}
    IN IF idx = {} THEN <<>> ELSE buffer[CHOOSE i \in idx : \A j \in idx : i <= j]

RemoveFirst(s) ==
    LET idx == {i \in 1..Len(buffer) : buffer[i][1] = s}
        k == CHOOSE i \in idx : \A j \in idx : i <= j
    IN [i \in 1..(Len(buffer) - 1) |-> IF i < k THEN buffer[i] ELSE buffer[i + 1]]

AllEnded == ended = Srcs

MRet(r) ==
    /\ \/ /\ IsItem(r)
          /\ LET s == r[1]  v == r[2] IN
             /\ s \in Srcs
             /\ bad' = Flag(FirstOf(s) = <<>> \/ FirstOf(s) # <<s, v>>,
                            "returned-item-not-next-of-its-sender")
             /\ buffer' = IF FirstOf(s) = <<s, v>> THEN RemoveFirst(s) ELSE buffer
             /\ outs' = [outs EXCEPT ![s] = Append(@, v)]
             /\ since' = [t \in Srcs |-> [since[t] EXCEPT ![s] = @ + 1]]
             /\ fin' = fin
       \/ /\ r = RPENDING
          /\ bad' = Flag(AllEnded /\ buffer = <<>>, "pending-although-all-sources-ended")
          /\ UNCHANGED <<buffer, outs, since, fin>>
       \/ /\ r = REND
          /\ bad' = Flag(~AllEnded \/ buffer # <<>>, "ended-before-all-sources-ended-or-item-lost")
          /\ fin' = TRUE
          /\ UNCHANGED <<buffer, outs, since>>
    /\ inPoll' = {}
    /\ UNCHANGED <<n, rem, ended, given>>

\* the driver polled total-script-length + n + 6 times without seeing END
MStall ==
    /\ bad' = Flag(TRUE, "stalled-without-end")
    /\ UNCHANGED <<n, rem, ended, buffer, outs, given, fin, inPoll, since>>

\* the implementation panicked
MPanic ==
    /\ bad' = Flag(TRUE, "panic")
    /\ UNCHANGED <<n, rem, ended, buffer, outs, given, fin, inPoll, since>>

-----------------------------------------------------------------------------
(* Properties of C15 *)

IsPrefix(a, b) == Len(a) <= Len(b) /\ \A i \in 1..Len(a) : a[i] = b[i]

\* every rule evaluated by the monitor actions
NoRuleBroken == bad = ""

\* per-sender order, no loss, no duplication: what was returned for s is a prefix of what s gave
PerSenderPrefix == \A s \in Srcs : IsPrefix(outs[s], given[s])

\* the merged stream ends exactly when every source ended and nothing is held back
EndExact == fin => (AllEnded /\ buffer = <<>> /\ \A s \in Srcs : outs[s] = given[s])

\* one-round fairness: while t waits to be polled, every other source is served at most once
Fair == \A t \in Srcs : t \notin ended => \A s \in Srcs \ {t} : since[t][s] <= 1

\* an item taken from a source during a poll is returned by that same poll (nothing is held
\* across calls, so nothing can be lost by dropping the stream) -- checked at Ret time
NothingHeld == inPoll = {} => buffer = <<>>

(* NothingHeld is a fact about this implementation, not part of C15: checked on the
   implementation-shaped model only, reported as drift on traces. *)
C15Inv == NoRuleBroken /\ PerSenderPrefix /\ EndExact /\ Fair

\* names of the property-level rules broken in the current state (used by the trace spec to
\* report per case instead of stopping at the first)
Broken ==
    (IF bad # "" THEN {bad} ELSE {})
    \cup (IF PerSenderPrefix THEN {} ELSE {"PerSenderPrefix"})
    \cup (IF EndExact THEN {} ELSE {"EndExact"})
    \cup (IF Fair THEN {} ELSE {"Fair"})
=============================================================================
