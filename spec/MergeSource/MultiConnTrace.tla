--------------------------- MODULE MultiConnTrace ---------------------------
(* Trace validation of the real TcpMultiConnectionSource (loopback TCP) against MultiConn. *)
EXTENDS MultiConn, TLC, Json, IOUtils

Rec == ndJsonDeserialize(IOEnv.TRACE)

VARIABLES l, case, viol
tvars == <<cvars, l, case, viol>>
Ev == Rec[l]

TInit == l = 1 /\ case = 0 /\ viol = {} /\ CInit

TNext ==
    /\ l <= Len(Rec) /\ l' = l + 1
    /\ \/ Ev.e = "reset" /\ CReset(Ev.n) /\ case' = Ev.case
       \/ Ev.e = "connect" /\ CConnect(Ev.c) /\ UNCHANGED case
       \/ Ev.e = "send" /\ CSend(Ev.c, Ev.q) /\ UNCHANGED case
       \/ Ev.e = "close" /\ CClose(Ev.c) /\ UNCHANGED case
       \/ Ev.e = "ret" /\ CRet(Ev.id, Ev.c, Ev.q) /\ UNCHANGED case
       \/ Ev.e = "member" /\ UNCHANGED <<cvars, case>>
       \/ Ev.e = "pollbegin" /\ CPollBegin /\ UNCHANGED case
       \/ Ev.e = "pollend" /\ CPollEnd /\ UNCHANGED case
       \/ Ev.e = "drained" /\ CDrained(Ev.sent, Ev.got, Ev.live) /\ UNCHANGED case
       \/ Ev.e \in {"err", "ended"} /\ CErr /\ UNCHANGED case
       \/ Ev.e = "panic" /\ CPanic /\ UNCHANGED case
       \/ Ev.e = "eof" /\ UNCHANGED <<cvars, case>> /\ PrintT(<<"VIOL", ToJson(viol)>>)
    /\ viol' = viol \cup {<<case', b>> : b \in CBroken'}

TSpec == TInit /\ [][TNext]_tvars

TraceAccepted ==
    LET d == TLCGet("stats").diameter IN
    IF d - 1 = Len(Rec) THEN TRUE ELSE Print(<<"UNMATCHED-EVENT-AT-LINE", d, Rec[d]>>, FALSE)
=============================================================================
