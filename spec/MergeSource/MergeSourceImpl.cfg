SPECIFICATION Spec
CONSTANTS
  MaxSrc = 3
  MaxLen = 3
  EMIT = FALSE
INVARIANTS C15Inv ImplInv Progress Emit
CHECK_DEADLOCK FALSE
