-------------------------- MODULE MergeSourceImpl --------------------------
(* Implementation-shaped model of hydro_deploy_integration::MergeSource::poll_next
   (lib.rs), one TLA+ step per loop iteration, composed with the MergeSource monitor.
   Model checked for every configuration of up to MaxSrc sources with scripts of length
   <= MaxLen (items and PENDINGs in every arrangement). *)
EXTENDS MergeSource, TLC, Json

CONSTANTS MaxSrc, MaxLen, EMIT   \* EMIT: print one CASE line per finished behaviour

VARIABLES
    srcs,       \* Vec<Option<source>>: sequence of source ids, 0 = None (removed mark)
    cursor,     \* poll_cursor
    pc,         \* "idle" | "loop" | "cleanup" | "done"
    start,      \* start_cursor of the current call
    removed,    \* any_removed
    res,        \* `out` of the current call
    hist,       \* returned values so far (for replay output)
    cfg0        \* the initial scripts (kept for the CASE line)

ivars == <<srcs, cursor, pc, start, removed, res, hist, cfg0>>
vars == <<mvars, ivars>>

\* shapes: sequences over {item, pending}; items are numbered s*100+i when instantiated
Shapes == UNION {[1..k -> {0, 1}] : k \in 0..MaxLen}     \* 1 = item, 0 = pending
Instantiate(s, shape) ==
    LET cnt(i) == Cardinality({j \in 1..i : shape[j] = 1})
    IN [i \in 1..Len(shape) |-> IF shape[i] = 1 THEN s * 100 + cnt(i) ELSE PENDING]

Init ==
    \E N \in 1..MaxSrc : \E sh \in [1..N -> Shapes] :
        LET scripts == [s \in 1..N |-> Instantiate(s, sh[s])] IN
        /\ MInit(N, scripts)
        /\ srcs = [i \in 1..N |-> i]
        /\ cursor = 0
        /\ pc = "idle"
        /\ start = 0
        /\ removed = FALSE
        /\ res = RPENDING
        /\ hist = <<>>
        /\ cfg0 = scripts

\* poll_next entry: `if !me.sources.is_empty()`
Enter ==
    /\ pc = "idle"
    /\ res' = RPENDING
    /\ removed' = FALSE
    /\ start' = cursor
    /\ pc' = IF Len(srcs) = 0 THEN "cleanup" ELSE "loop"
    /\ UNCHANGED <<mvars, srcs, cursor, hist, cfg0>>

\* one iteration of the `loop`
LoopStep ==
    /\ pc = "loop"
    /\ LET len == Len(srcs)
           idx == cursor + 1                 \* 1-based index of sources[poll_cursor]
           s == srcs[idx]
           a == NextAnswer(s)
           nc == (cursor + 1) % len
       IN /\ s # 0                            \* `.unwrap()` on a removed source would panic
          /\ MSrcPoll(s, a)
          /\ cursor' = nc
          /\ IF a >= 0
             THEN /\ res' = <<s, a>> /\ pc' = "cleanup" /\ UNCHANGED <<srcs, removed>>
             ELSE /\ res' = res
                  /\ srcs' = IF a = END THEN [srcs EXCEPT ![idx] = 0] ELSE srcs
                  /\ removed' = (removed \/ a = END)
                  /\ pc' = IF nc = start THEN "cleanup" ELSE "loop"
    /\ UNCHANGED <<start, hist, cfg0>>

\* retain + cursor fix-up + final answer
Compact(sq) == LET keep == {i \in 1..Len(sq) : sq[i] # 0}
                   RECURSIVE build(_)
                   build(i) == IF i > Len(sq) THEN <<>>
                               ELSE IF sq[i] # 0 THEN <<sq[i]>> \o build(i + 1) ELSE build(i + 1)
               IN build(1)

Cleanup ==
    /\ pc = "cleanup"
    /\ LET dec == Cardinality({i \in 1..Len(srcs) : srcs[i] = 0 /\ (i - 1) < cursor})
           ns == IF removed THEN Compact(srcs) ELSE srcs
           c1 == IF removed THEN cursor - dec ELSE cursor
           c2 == IF c1 = Len(ns) THEN 0 ELSE c1
           r == IF Len(ns) = 0 THEN REND ELSE res
       IN /\ srcs' = ns
          /\ cursor' = c2
          /\ MRet(r)
          /\ hist' = Append(hist, r)
          /\ pc' = IF r = REND THEN "done" ELSE "idle"
    /\ UNCHANGED <<start, removed, res, cfg0>>

Done == pc = "done" /\ UNCHANGED vars

Next == Enter \/ LoopStep \/ Cleanup \/ Done
Spec == Init /\ [][Next]_vars

-----------------------------------------------------------------------------
\* implementation facts
CursorInRange == cursor = 0 \/ cursor < Len(srcs)
NoNoneAtStart == pc = "idle" => \A i \in 1..Len(srcs) : srcs[i] # 0
NeverPollNone == pc = "loop" => srcs[cursor + 1] # 0
ImplInv == CursorInRange /\ NoNoneAtStart /\ NeverPollNone /\ NothingHeld

\* bounded progress: the number of calls is at most total script length + number of sources + 1
TotalLen == LET RECURSIVE sum(_) sum(s) == IF s = 0 THEN 0 ELSE Len(cfg0[s]) + sum(s - 1) IN sum(n)
Progress == Len(hist) <= TotalLen + n + 1

\* replay output: one line per finished behaviour
Emit == (EMIT /\ pc = "done") =>
          PrintT(<<"CASE", ToJson([scripts |-> cfg0, rets |-> hist])>>)
=============================================================================
