SPECIFICATION Spec
CONSTANTS
  MaxSrc = 3
  MaxLen = 2
  EMIT = TRUE
INVARIANTS C15Inv ImplInv Progress Emit
CHECK_DEADLOCK FALSE
