----------------------------- MODULE MultiConn -----------------------------
(* Black-box monitor for the TCP multi-connection source of hydro_deploy_integration
   (multi_connection.rs: TcpMultiConnectionSource), the third copy of the round-robin merge that
   C15 is anchored in.  Clients 0..n-1 connect over loopback, send length-delimited frames that
   carry (client, sequence number), and close; the source's poll_next results are logged.

   Events:  Connect(c)  Send(c, q)  Close(c)
            Ret(id, c, q)      the source returned frame (c, q) tagged with connection id `id`
            Member(id, join)   membership event
            PollBegin / PollEnd  one "poll until Pending" round of the driver, preceded by a
                               settle period after which everything sent so far is deliverable
            Drained(sent, got, live)   end of case after a generous drain period

   Properties (C15 on this source): each frame is returned at most once, under the connection
   id of its client, in the order the client sent it; a connection id belongs to exactly one
   client; nothing is lost (checked at Drained); a connection with deliverable frames is served
   within one round of the others (checked inside a poll round only, for connections whose
   frames were all written before the round began). *)
EXTENDS Naturals, Sequences, FiniteSets

VARIABLES n, sentq, gotq, idOf, cliOf, open, closedc, since, waiting, inRound, mbad

cvars == <<n, sentq, gotq, idOf, cliOf, open, closedc, since, waiting, inRound, mbad>>

Clients == 0..(n - 1)
NoId == 1000000

CFlag(cond, name) == IF mbad = "" /\ cond THEN name ELSE mbad

CReset(N) ==
    /\ n' = N
    /\ sentq' = [c \in 0..(N - 1) |-> 0]
    /\ gotq' = [c \in 0..(N - 1) |-> 0]
    /\ idOf' = [c \in 0..(N - 1) |-> NoId]
    /\ cliOf' = <<>>                      \* sequence of <<id, client>> pairs seen
    /\ open' = {}
    /\ closedc' = {}
    /\ since' = [t \in 0..(N - 1) |-> [s \in 0..(N - 1) |-> 0]]
    /\ waiting' = {}
    /\ inRound' = FALSE
    /\ mbad' = ""

CInit == /\ n = 0 /\ sentq = <<>> /\ gotq = <<>> /\ idOf = <<>> /\ cliOf = <<>> /\ open = {}
         /\ closedc = {} /\ since = <<>> /\ waiting = {} /\ inRound = FALSE /\ mbad = ""

CConnect(c) == /\ c \in Clients /\ open' = open \cup {c}
               /\ UNCHANGED <<n, sentq, gotq, idOf, cliOf, closedc, since, waiting, inRound, mbad>>
CSend(c, q) == /\ c \in open /\ q = sentq[c] + 1 /\ sentq' = [sentq EXCEPT ![c] = q]
               /\ UNCHANGED <<n, gotq, idOf, cliOf, open, closedc, since, waiting, inRound, mbad>>
CClose(c) == /\ c \in Clients /\ closedc' = closedc \cup {c}
             /\ UNCHANGED <<n, sentq, gotq, idOf, cliOf, open, since, waiting, inRound, mbad>>

IdClients(id) == {p[2] : p \in {cliOf[i] : i \in 1..Len(cliOf)} \cap ({id} \X Clients)}

CRet(id, c, q) ==
    /\ c \in Clients
    /\ mbad' = IF mbad # "" THEN mbad
               ELSE IF q # gotq[c] + 1 THEN "frame-out-of-order-repeated-or-skipped"
               ELSE IF q > sentq[c] THEN "frame-never-sent"
               ELSE ""
    /\ gotq' = [gotq EXCEPT ![c] = IF q = gotq[c] + 1 THEN q ELSE gotq[c]]
    /\ idOf' = [idOf EXCEPT ![c] = IF idOf[c] = NoId THEN id ELSE idOf[c]]
    /\ cliOf' = Append(cliOf, <<id, c>>)
    /\ since' = [t \in Clients |-> IF t = c THEN [s \in Clients |-> 0]
                                   ELSE [since[t] EXCEPT ![c] = @ + 1]]
    /\ waiting' = IF gotq'[c] >= sentq[c] THEN waiting \ {c} ELSE waiting
    /\ UNCHANGED <<n, sentq, open, closedc, inRound>>

\* a poll round starts after a settle period: everything sent so far is deliverable
CPollBegin ==
    /\ inRound' = TRUE
    /\ waiting' = {c \in Clients : gotq[c] < sentq[c]}
    /\ since' = [t \in Clients |-> [s \in Clients |-> 0]]
    /\ UNCHANGED <<n, sentq, gotq, idOf, cliOf, open, closedc, mbad>>
CPollEnd ==
    /\ inRound' = FALSE /\ waiting' = {}
    /\ UNCHANGED <<n, sentq, gotq, idOf, cliOf, open, closedc, since, mbad>>

CDrained(sent, got, live) ==
    /\ mbad' = CFlag(\E c \in Clients : gotq[c] # sentq[c], "frame-lost")
    /\ UNCHANGED <<n, sentq, gotq, idOf, cliOf, open, closedc, since, waiting, inRound>>

CErr == /\ mbad' = CFlag(TRUE, "source-returned-error-or-ended") 
        /\ UNCHANGED <<n, sentq, gotq, idOf, cliOf, open, closedc, since, waiting, inRound>>

CPanic == /\ mbad' = CFlag(TRUE, "panic")
          /\ UNCHANGED <<n, sentq, gotq, idOf, cliOf, open, closedc, since, waiting, inRound>>

\* state predicates
OneClientPerId == \A i, j \in 1..Len(cliOf) : cliOf[i][1] = cliOf[j][1] => cliOf[i][2] = cliOf[j][2]
OneIdPerClient == \A i, j \in 1..Len(cliOf) : cliOf[i][2] = cliOf[j][2] => cliOf[i][1] = cliOf[j][1]
GotWithinSent == \A c \in Clients : gotq[c] <= sentq[c]
\* inside a poll round, while t still has deliverable frames, every other connection is served at most once
\* before t is
FairRound == inRound => \A t \in waiting : \A s \in Clients \ {t} : since[t][s] <= 1

CBroken ==
    (IF mbad # "" THEN {mbad} ELSE {})
    \cup (IF OneClientPerId THEN {} ELSE {"connection-id-shared-by-two-clients"})
    \cup (IF OneIdPerClient THEN {} ELSE {"client-seen-under-two-connection-ids"})
    \cup (IF GotWithinSent THEN {} ELSE {"frame-never-sent"})
    \cup (IF FairRound THEN {} ELSE {"not-served-within-one-round"})
=============================================================================
