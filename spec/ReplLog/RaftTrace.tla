------------------------------ MODULE RaftTrace ------------------------------
(* Trace validation of the REAL raft_step (hydro_test/src/cluster/raft.rs) against Raft.tla and
   the ReplLog monitor.  The trace (ndjson, env TRACE) is a concatenation of cases:
     {"e":"reset","case":k,"n":N,"src":..}
     {"e":"step","m":m,"el":0/1,"hb":0/1,"reqs":[v..],"msgs":[msg..],"out":[msg..],
      "com":[[idx,term,v]..],"post":{member record}}       one real call, logged after it returned
     {"e":"panic","m":m,...,"msg":text}                    the real call panicked (an assert fired)
     {"e":"eof"}
   For every step TLC
     (a) evaluates StepFn on the member's previous RECORDED state and the recorded inputs and
         compares state / outbound bag / emitted entries with what the real code did  -> `drift`
         (the model no longer describes the code; not a verdict on C40) -- EXCEPT the step's commit
         decision: a commit index or emitted entries different from StepFn's is the C40 rule
         "commit-differs-from-model" (a member committed what the specified Raft step would not), and
     (b) adopts the RECORDED post state and evaluates the C40 monitor (Agreement, AppendOnly,
         ElectionSafety) and the protocol safety predicates of Raft.tla on the recorded global
         state -> `viol` (a fork, or the first state from which a fork becomes possible).
   Rule breaks never stop the validation; they are collected per case and printed at eof.  *)
EXTENDS Raft, ReplLog, Json, IOUtils

Rec == ndJsonDeserialize(IOEnv.TRACE)

VARIABLES l, case, n, st, viol, drift
tvars == <<mvars, l, case, n, st, viol, drift>>

Ev == Rec[l]

NormMsg(r) == Msg(r.k, r.src, r.dst, r.term, r.x, r.y, r.z, r.ents)
NormSeq(t) == [i \in 1..Len(t) |-> NormMsg(t[i])]
TupSet(t) == {t[i] : i \in 1..Len(t)}
BagOf(s) == [x \in TupSet(s) |-> Cardinality({i \in 1..Len(s) : s[i] = x})]

PostRec(k, p) ==
    [term |-> p.term, vf |-> p.vf, role |-> p.role, votes |-> TupSet(p.votes), hb |-> p.hb = 1,
     log |-> p.log, ci |-> p.ci, ei |-> p.ei,
     next |-> [o \in Mem(k) |-> IF p.role = 2 THEN p.next[o + 1] ELSE 0],
     match |-> [o \in Mem(k) |-> IF p.role = 2 THEN p.match[o + 1] ELSE 0]]

TInit ==
    /\ l = 1
    /\ case = 0
    /\ n = 3
    /\ st = [m \in Mem(3) |-> InitMember(3)]
    /\ viol = {}
    /\ drift = {}
    /\ MInit(3)

Consume == l <= Len(Rec) /\ l' = l + 1

TReset ==
    /\ Ev.e = "reset"
    /\ case' = Ev.case
    /\ n' = Ev.n
    /\ st' = [m \in Mem(Ev.n) |-> InitMember(Ev.n)]
    /\ MReset(Ev.n)
    /\ UNCHANGED drift

RECURSIVE CommitAll(_, _, _, _)
CommitAll(ch, h, fl, com) ==
    IF com = <<>> THEN <<ch, h, fl>>
    ELSE LET c == Head(com) IN
         CommitAll(ch \cup {<<c[1], <<c[2], c[3]>>>>},
                   IF c[1] > h THEN c[1] ELSE h,
                   IF c[1] # h + 1 THEN fl \cup {"AppendOnly"} ELSE fl,
                   Tail(com))

TStep ==
    /\ Ev.e = "step"
    /\ LET m == Ev.m
           inp == [el |-> Ev.el = 1, hbt |-> Ev.hb = 1, reqs |-> Ev.reqs,
                   msgs |-> Canon(NormSeq(Ev.msgs))]
           pred == StepFn(n, st[m], m, inp)
           post == PostRec(n, Ev.post)
           mon == CommitAll(chosen, hi[m], flags, Ev.com)
           \* the emitted entries are the member's own log entries at those positions
           emitOk == \A i \in 1..Len(Ev.com) :
                        LET c == Ev.com[i] IN
                        c[1] >= 1 /\ c[1] <= Len(post.log) /\ post.log[c[1]] = <<c[2], c[3]>>
           \* the COMMIT decision of the step (commit index, emitted entries) must be the one of the
           \* specified step function: committing anything else is a C40 violation, not drift
           commitSame == pred.panic # "" \/ (pred.s.ci = post.ci /\ pred.com = Ev.com)
           same == /\ pred.panic = ""
                   /\ pred.s = post
                   /\ BagOf(pred.out) = BagOf(NormSeq(Ev.out))
                   /\ pred.com = Ev.com
                   /\ Ev.post.idxok = 1
                   /\ \A i \in 1..Len(Ev.out) : Ev.out[i].k = 2 => Ev.out[i].bad = 0
       IN /\ st' = [st EXCEPT ![m] = post]
          /\ chosen' = mon[1]
          /\ hi' = [hi EXCEPT ![m] = mon[2]]
          /\ flags' = mon[3]
                      \cup (IF emitOk THEN {} ELSE {"EmitNotFromLog"})
                      \cup (IF commitSame THEN {} ELSE {"commit-differs-from-model"})
                      \cup (IF CommitOnlyCurrentTerm(st[m], post) THEN {} ELSE {"CommitOnlyCurrentTerm"})
          /\ claims' = IF post.role = 2 /\ (st[m].role # 2 \/ st[m].term # post.term)
                       THEN claims \cup {<<post.term, m>>} ELSE claims
          /\ drift' = IF same THEN drift ELSE drift \cup {<<case, l>>}
    /\ UNCHANGED <<case, n>>

TPanic ==
    /\ Ev.e = "panic"
    /\ MFlag("Panic")
    /\ UNCHANGED <<case, n, st, drift>>

TEof ==
    /\ Ev.e = "eof"
    /\ UNCHANGED <<mvars, case, n, st, drift>>
    /\ PrintT(<<"VIOL", ToJson(viol)>>)
    /\ PrintT(<<"DRIFT", ToJson(drift)>>)

TNext ==
    /\ Consume
    /\ (TReset \/ TStep \/ TPanic \/ TEof)
    /\ viol' = viol \cup {<<case', b>> : b \in (Broken' \cup StateBroken(n', st'))}

TSpec == TInit /\ [][TNext]_tvars

TraceAccepted ==
    LET d == TLCGet("stats").diameter IN
    IF d - 1 = Len(Rec) THEN TRUE
    ELSE Print(<<"UNMATCHED-EVENT-AT-LINE", d, Rec[d]>>, FALSE)
=============================================================================
