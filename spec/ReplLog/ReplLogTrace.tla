----------------------------- MODULE ReplLogTrace -----------------------------
(* Trace validation of what the members of a replicated-log example EMIT (simulator level):
   the real `raft_server` dataflow (and the Paxos components) run under the Hydro simulator;
   the harness records, per run, every member's committed entries in emission order and every
   leader-view transition.  The trace (ndjson, env TRACE) is a concatenation of cases:
     {"e":"reset","case":k,"n":N,"src":..,"script":..}
     {"e":"commit","m":m,"idx":i,"term":t,"v":payload}
     {"e":"view","m":m,"term":t,"leader":l}        l = -1: leader unknown; l = m: m claims term t
     {"e":"apply","m":m,"idx":i,"v":payload}       kv_replica applied log position i (holes skipped)
     {"e":"end"}                                   end of a kv_replica case; reset carries "expect"
     {"e":"redirect",..} {"e":"phase"} {"e":"checkpoint",..}     ignored by the monitor
     {"e":"panic","msg":..}                        the run panicked (an assert of the example fired)
     {"e":"eof"}
   Rules (ReplLog.tla): Agreement, AppendOnly, ElectionSafety; plus ViewTermMonotone (a member's
   view never goes back to an older term) and Panic.  Rule breaks are collected per case in
   `viol` and printed at eof. *)
EXTENDS ReplLog, TLC, Json, IOUtils

Rec == ndJsonDeserialize(IOEnv.TRACE)

VARIABLES l, case, vterm, viol, applied, expect, drift
tvars == <<mvars, l, case, vterm, viol, applied, expect, drift>>

Ev == Rec[l]

TInit ==
    /\ l = 1
    /\ case = 0
    /\ vterm = [m \in 0..2 |-> 0]
    /\ viol = {}
    /\ applied = [m \in 0..2 |-> <<>>]
    /\ expect = <<>>
    /\ drift = {}
    /\ MInit(3)

Consume == l <= Len(Rec) /\ l' = l + 1

TReset ==
    /\ Ev.e = "reset"
    /\ case' = Ev.case
    /\ vterm' = [m \in 0..(Ev.n - 1) |-> 0]
    /\ applied' = [m \in 0..(Ev.n - 1) |-> <<>>]
    /\ expect' = IF "expect" \in DOMAIN Ev THEN Ev.expect ELSE <<>>
    /\ MReset(Ev.n)
    /\ UNCHANGED drift

TCommit ==
    /\ Ev.e = "commit"
    /\ MCommit(Ev.m, Ev.idx, <<Ev.term, Ev.v>>)
    /\ UNCHANGED <<case, vterm, applied, expect, drift>>

TApply ==
    /\ Ev.e = "apply"
    /\ MApply(Ev.m, Ev.idx, <<0, Ev.v>>)
    /\ applied' = [applied EXCEPT ![Ev.m] = Append(@, Ev.idx)]
    /\ UNCHANGED <<case, vterm, expect, drift>>

\* implementation fact (not C40): a replica applies exactly the delivered gap-free prefix
TEnd ==
    /\ Ev.e = "end"
    /\ drift' = IF expect # <<>> /\ \E m \in DOMAIN applied : applied[m] # expect[m + 1]
                THEN drift \cup {case} ELSE drift
    /\ UNCHANGED <<mvars, case, vterm, applied, expect>>

TView ==
    /\ Ev.e = "view"
    /\ vterm' = [vterm EXCEPT ![Ev.m] = IF Ev.term > @ THEN Ev.term ELSE @]
    /\ IF Ev.term < vterm[Ev.m] THEN MFlag("ViewTermMonotone")
       ELSE IF Ev.leader = Ev.m THEN MClaim(Ev.m, Ev.term)
       ELSE UNCHANGED mvars
    /\ UNCHANGED <<case, applied, expect, drift>>

TOther ==
    /\ Ev.e \in {"redirect", "phase", "checkpoint"}
    /\ UNCHANGED <<mvars, case, vterm, applied, expect, drift>>

TPanic ==
    /\ Ev.e = "panic"
    /\ MFlag("Panic")
    /\ UNCHANGED <<case, vterm, applied, expect, drift>>

TEof ==
    /\ Ev.e = "eof"
    /\ UNCHANGED <<mvars, case, vterm, applied, expect, drift>>
    /\ PrintT(<<"VIOL", ToJson(viol)>>)
    /\ PrintT(<<"DRIFT", ToJson(drift)>>)

TNext ==
    /\ Consume
    /\ (TReset \/ TCommit \/ TApply \/ TEnd \/ TView \/ TOther \/ TPanic \/ TEof)
    /\ viol' = viol \cup {<<case', b>> : b \in Broken'}

TSpec == TInit /\ [][TNext]_tvars

TraceAccepted ==
    LET d == TLCGet("stats").diameter IN
    IF d - 1 = Len(Rec) THEN TRUE
    ELSE Print(<<"UNMATCHED-EVENT-AT-LINE", d, Rec[d]>>, FALSE)
=============================================================================
