------------------------------ MODULE ReplLog ------------------------------
(* C40 -- abstract property of a replicated log (monitor).

   Every member emits "commit" events <<idx, entry>>.  The property of C40 is Agreement:
   no two commit events -- of the same or of different members, at any time -- carry the same
   log position with different entries.  AppendOnly: every member commits positions
   1, 2, 3, ... in order, each exactly once (the contract of the `committed` output of the
   examples).  ElectionSafety: a term (Raft) / ballot (Paxos) is claimed by at most one leader;
   it is the first step after which a later fork becomes possible, so it is reported too.

   The monitor never blocks: rule breaks are remembered in the state (`Broken`). *)
EXTENDS Naturals, Integers, Sequences, FiniteSets

VARIABLES chosen,   \* set of <<idx, entry>> committed by anybody so far
          hi,       \* hi[m] = number of positions member m committed so far
          claims,   \* set of <<term, member>>: member announced itself leader of term
          flags     \* sticky rule names (AppendOnly is a per-event rule)
mvars == <<chosen, hi, claims, flags>>

MInit(n) ==
    /\ chosen = {}
    /\ hi = [m \in 0..(n - 1) |-> 0]
    /\ claims = {}
    /\ flags = {}

MReset(n) ==
    /\ chosen' = {}
    /\ hi' = [m \in 0..(n - 1) |-> 0]
    /\ claims' = {}
    /\ flags' = {}

(* ---- the properties, as predicates over the monitor state ---- *)
Agreement(ch) == \A x, y \in ch : x[1] = y[1] => x[2] = y[2]
ElectionSafety(cl) == \A x, y \in cl : x[1] = y[1] => x[2] = y[2]

MCommit(m, idx, ent) ==
    /\ chosen' = chosen \cup {<<idx, ent>>}
    /\ hi' = [hi EXCEPT ![m] = IF idx > @ THEN idx ELSE @]
    /\ flags' = IF idx # hi[m] + 1 THEN flags \cup {"AppendOnly"} ELSE flags
    /\ UNCHANGED claims

(* replica application (Paxos side): holes are skipped, so positions only have to increase *)
MApply(m, idx, ent) ==
    /\ chosen' = chosen \cup {<<idx, ent>>}
    /\ hi' = [hi EXCEPT ![m] = IF idx > @ THEN idx ELSE @]
    /\ flags' = IF idx <= hi[m] THEN flags \cup {"InOrder"} ELSE flags
    /\ UNCHANGED claims

MClaim(m, term) ==
    /\ claims' = claims \cup {<<term, m>>}
    /\ UNCHANGED <<chosen, hi, flags>>

MFlag(name) ==
    /\ flags' = flags \cup {name}
    /\ UNCHANGED <<chosen, hi, claims>>

Broken ==
    flags
    \cup (IF Agreement(chosen) THEN {} ELSE {"Agreement"})
    \cup (IF ElectionSafety(claims) THEN {} ELSE {"ElectionSafety"})
=============================================================================
