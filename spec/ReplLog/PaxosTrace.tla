------------------------------ MODULE PaxosTrace ------------------------------
(* Trace validation of the REAL `recommit_after_leader_election` (paxos.rs), run under the Hydro
   simulator, against the value-selection rule of Paxos.tla.  Trace (ndjson, env TRACE):
     {"e":"recommit","case":k,"f":f,"bal":b,"logs":[{"cp":c,"ents":[[slot,bal,v]..]}..],
      "out":[[slot,bal,v]..],"maxslot":s}        v = -1: hole;  cp / maxslot = -1: none
     {"e":"rpanic","case":k,..}                  the run panicked
     {"e":"eof"}
   Property-level rules (collected in `viol`): RecommitValueKept, RecommitNoLostSlot,
   RecommitOnePerSlot, RecommitOwnBallot, Panic.  Differences from the exact set Recommit(..)
   or from MaxSlot are implementation facts (`drift`).  Inputs that are not consistent Paxos
   histories are a harness error (the event is not consumed).                               *)
EXTENDS Paxos, TLC, Json, IOUtils

Rec == ndJsonDeserialize(IOEnv.TRACE)

VARIABLES l, viol, drift
tvars == <<l, viol, drift>>
Ev == Rec[l]

HeldOf(logs) == UNION {{<<i, logs[i].ents[j]>> : j \in 1..Len(logs[i].ents)} : i \in 1..Len(logs)}
CpsOf(logs) == {logs[i].cp : i \in 1..Len(logs)}
TupSet(t) == {t[i] : i \in 1..Len(t)}

TInit == l = 1 /\ viol = {} /\ drift = {}
Consume == l <= Len(Rec) /\ l' = l + 1

TRecommit ==
    /\ Ev.e = "recommit"
    /\ LET H == HeldOf(Ev.logs)
           cps == CpsOf(Ev.logs)
           outs == TupSet(Ev.out)
           out == {<<o[1], o[3]>> : o \in outs}
           broken == RecommitBroken(H, cps, Ev.f, out)
                     \cup (IF \A o \in outs : o[2] = Ev.bal THEN {} ELSE {"RecommitOwnBallot"})
                     \cup (IF Cardinality(outs) = Len(Ev.out) THEN {} ELSE {"RecommitOnePerSlot"})
       IN /\ Consistent(H)
          /\ viol' = viol \cup {<<Ev.case, b>> : b \in broken}
          /\ drift' = IF out = Recommit(H, cps, Ev.f) /\ Ev.maxslot = MaxSlot(H)
                      THEN drift ELSE drift \cup {Ev.case}

TPanic ==
    /\ Ev.e = "rpanic"
    /\ viol' = viol \cup {<<Ev.case, "Panic">>}
    /\ UNCHANGED drift

TEof ==
    /\ Ev.e = "eof"
    /\ UNCHANGED <<viol, drift>>
    /\ PrintT(<<"VIOL", ToJson(viol)>>)
    /\ PrintT(<<"DRIFT", ToJson(drift)>>)

TNext == Consume /\ (TRecommit \/ TPanic \/ TEof)
TSpec == TInit /\ [][TNext]_tvars

TraceAccepted ==
    LET d == TLCGet("stats").diameter IN
    IF d - 1 = Len(Rec) THEN TRUE
    ELSE Print(<<"UNMATCHED-EVENT-AT-LINE", d, Rec[d]>>, FALSE)
=============================================================================
