------------------------------ MODULE RaftImpl ------------------------------
(* Exhaustive model of a small cluster running the step function of Raft.tla (= raft_step of
   raft.rs) over a fail-stop network: messages are never lost or duplicated by the network, but
   are delayed, reordered and batched arbitrarily; a member that stops taking steps is a crashed
   member (every prefix of every behaviour is explored, so crashes need no extra action).

   One transition = one real tick of one member: it consumes ANY subset (<= MaxBatch) of the
   messages addressed to it, optionally a client request and optionally either timer.
   The ReplLog monitor observes the emitted commits and the leadership claims.

   Bounds (CONSTANTS): N members; only the members in Timed have an election timer that fires
   (the others are voters / followers only); the INPUTS are bounded -- <= MaxEl election-timer interrupts,
   <= MaxHb heartbeat-timer interrupts, <= MaxReq client requests in total (the same shape as a
   simulator test: finite inputs, every schedule) -- plus terms <= MaxTerm, <= MaxNet messages in
   flight and <= MaxDup identical copies of a message in flight (state constraint).         *)
EXTENDS Raft, ReplLog, SequencesExt, Json

CONSTANTS N, Timed, ReqAt, MaxTerm, MaxEl, MaxHb, MaxReq, MaxNet, MaxDup, MaxBatch, EMIT, Depth

VARIABLES st,      \* [Mem(N) -> member record]
          net,     \* bag of messages in flight: function msg -> count
          nreq,    \* number of client requests issued so far (the next value is nreq + 1)
          nel,     \* number of election-timer interrupts delivered so far
          nhb,     \* number of heartbeat-timer interrupts delivered so far
          panic,   \* "" or the text of the assert that fired in the step function
          hist     \* EMIT only: the inputs of the steps taken so far (one behaviour = one case)
vars == <<st, net, nreq, nel, nhb, panic, hist, mvars>>

BagAdd(b, m) == IF m \in DOMAIN b THEN [b EXCEPT ![m] = @ + 1] ELSE b @@ (m :> 1)
BagDel(b, m) == IF b[m] = 1 THEN [x \in DOMAIN b \ {m} |-> b[x]] ELSE [b EXCEPT ![m] = @ - 1]
RECURSIVE BagAddSeq(_, _)
BagAddSeq(b, s) == IF s = <<>> THEN b ELSE BagAddSeq(BagAdd(b, Head(s)), Tail(s))
RECURSIVE BagDelSeq(_, _)
BagDelSeq(b, s) == IF s = <<>> THEN b ELSE BagDelSeq(BagDel(b, Head(s)), Tail(s))
RECURSIVE SumOver(_, _)
SumOver(b, D) == IF D = {} THEN 0 ELSE LET x == CHOOSE x \in D : TRUE IN b[x] + SumOver(b, D \ {x})
BagSize(b) == SumOver(b, DOMAIN b)

Init ==
    /\ st = [m \in Mem(N) |-> InitMember(N)]
    /\ net = <<>>
    /\ nreq = 0
    /\ nel = 0
    /\ nhb = 0
    /\ panic = ""
    /\ hist = <<>>
    /\ MInit(N)
    /\ \A reg \in 11..22 : TLCSet(reg, 0)

Inbox(m) == {x \in DOMAIN net : x.dst = m}

(* monitor bookkeeping for a finished step of member m with result r *)
RECURSIVE CommitAll(_, _, _, _, _)
CommitAll(ch, h, fl, m, com) ==
    \* folds MCommit over the emitted entries (same definition as ReplLog!MCommit)
    IF com = <<>> THEN <<ch, h, fl>>
    ELSE LET c == Head(com) IN
         CommitAll(ch \cup {<<c[1], <<c[2], c[3]>>>>},
                   IF c[1] > h THEN c[1] ELSE h,
                   IF c[1] # h + 1 THEN fl \cup {"AppendOnly"} ELSE fl,
                   m, Tail(com))

Step(m, B, el, hbt, nr) ==
    LET batch == SortSet(B)
        inp == [el |-> el, hbt |-> hbt, msgs |-> batch,
                reqs |-> IF nr = 1 THEN <<nreq + 1>> ELSE <<>>]
        r == StepFn(N, st[m], m, inp)
        mon == CommitAll(chosen, hi[m], flags, m, r.com)
    IN /\ st' = [st EXCEPT ![m] = r.s]
       /\ net' = BagAddSeq(BagDelSeq(net, batch), r.out)
       /\ nreq' = nreq + nr
       /\ nel' = IF el THEN nel + 1 ELSE nel
       /\ nhb' = IF hbt THEN nhb + 1 ELSE nhb
       /\ panic' = r.panic
       /\ chosen' = mon[1]
       /\ hi' = [hi EXCEPT ![m] = mon[2]]
       /\ flags' = IF CommitOnlyCurrentTerm(st[m], r.s) THEN mon[3]
                   ELSE mon[3] \cup {"CommitOnlyCurrentTerm"}
       /\ claims' = IF r.s.role = 2 /\ (st[m].role # 2 \/ st[m].term # r.s.term)
                    THEN claims \cup {<<r.s.term, m>>} ELSE claims
       /\ hist' = IF EMIT THEN Append(hist, [m |-> m, el |-> IF el THEN 1 ELSE 0,
                                              hb |-> IF hbt THEN 1 ELSE 0,
                                              reqs |-> inp.reqs, msgs |-> batch])
                  ELSE hist

(* one real tick of member m; timers / requests that cannot have an effect (no-ops) are skipped *)
Tick(el, hbt, nr) ==
    \E m \in Mem(N) : \E B \in SUBSET Inbox(m) :
        /\ Cardinality(B) <= MaxBatch
        /\ ~(B = {} /\ ~el /\ ~hbt /\ nr = 0)
        /\ el => m \in Timed /\ nel < MaxEl /\ (st[m].role # 2 \/ B # {}) /\ (st[m].term < MaxTerm \/ st[m].hb)
        /\ hbt => nhb < MaxHb /\ (st[m].role = 2 \/ (st[m].role = 1 /\ \E x \in B : x.k = 1))
        /\ nr = 1 => (m \in ReqAt /\ nreq < MaxReq /\ (st[m].role = 2 \/ (st[m].role = 1 /\ \E x \in B : x.k = 1)))
        /\ Step(m, B, el, hbt, nr)

Live == panic = "" /\ (EMIT => Len(hist) < Depth)
TickDeliver == Live /\ Tick(FALSE, FALSE, 0)                       \* messages only
TickElection == Live /\ \E hbt \in BOOLEAN, nr \in 0..1 : Tick(TRUE, hbt, nr)
TickHeartbeat == Live /\ \E nr \in 0..1 : Tick(FALSE, TRUE, nr)
TickRequest == Live /\ Tick(FALSE, FALSE, 1)
Next == TickDeliver \/ TickElection \/ TickHeartbeat \/ TickRequest

Spec == Init /\ [][Next]_vars

Constraint ==
    /\ BagSize(net) <= MaxNet
    /\ \A x \in DOMAIN net : net[x] <= MaxDup
    /\ \A m \in Mem(N) : st[m].term <= MaxTerm

(* ---------------- invariants ---------------- *)
C40Inv == Broken = {}                         \* Agreement, AppendOnly, ElectionSafety (monitor)
ProtocolInv == StateBroken(N, st) = {}        \* the Raft safety argument on the member states
NoPanic == panic = ""                         \* the truncation / two-leader asserts never fire
\* the emitted history is exactly the committed prefix of the member's log
EmitMatchesLog ==
    \A m \in Mem(N) : hi[m] = st[m].ei /\
        \A i \in 1..st[m].ei : <<i, st[m].log[i]>> \in chosen

(* anti-vacuity witnesses, printed once per worker (register 11..13 set in Init):
   two members emitted position 1; a second term got a leader after something was committed;
   a follower's log was overwritten (conflict truncation)                                   *)
Once(reg, cond, name) ==
    (cond /\ TLCGet(reg) = 0) => (TLCSet(reg, 1) /\ PrintT(<<"WITNESS", name>>))
Witness ==
    /\ Once(11, \E a, b \in Mem(N) : a # b /\ hi[a] >= 1 /\ hi[b] >= 1, "two-members-committed")
    /\ Once(12, chosen # {} /\ \E x, y \in claims : x[1] # y[1], "leader-change-with-commit")
    /\ Once(13, \E a, b \in Mem(N) : \E i \in 1..MinOf(Len(st[a].log), Len(st[b].log)) :
                    st[a].log[i][1] # st[b].log[i][1], "conflicting-logs")
    \* every kind of input / message was processed with an effect
    /\ Once(14, nel > 0 /\ \E m \in Mem(N) : st[m].role = 1, "election-timer-started-candidacy")
    /\ Once(15, \E m \in Mem(N) : st[m].vf \notin {-1, m}, "vote-granted")
    /\ Once(16, claims # {}, "leader-elected")
    /\ Once(17, \E m \in Mem(N) : st[m].role = 2 /\ Len(st[m].log) > 0, "request-appended")
    /\ Once(18, nhb > 0 /\ \E x \in DOMAIN net : x.k = 2, "heartbeat-broadcast")
    /\ Once(19, \E m \in Mem(N) : st[m].role # 2 /\ Len(st[m].log) > 0, "follower-appended")
    /\ Once(20, \E m \in Mem(N) : st[m].role = 2 /\ \E o \in Mem(N) : st[m].match[o] > 0, "ack-counted")
    /\ Once(22, \E m \in Mem(N) : Fig8Situation(N, st[m], m),
            "older-term-entry-on-majority-with-unacked-current-term-entry")
    /\ Once(21, \E m \in Mem(N) : st[m].role # 2 /\ st[m].ci > 0, "follower-learned-commit")

(* directed generation (cfg: VIEW NoHist, EMIT = TRUE, invariant EmitFig8): breadth-first search
   identifies states by everything but `hist`, so `hist` is ONE shortest behaviour leading to the
   state; every state in which some leader is in the figure-8 situation prints its behaviour.   *)
NoHist == <<st, net, nreq, nel, nhb, panic, mvars>>
EmitFig8 ==
    (EMIT /\ \E m \in Mem(N) : Fig8Situation(N, st[m], m)) =>
        PrintT(<<"CASE", ToJson([n |-> N, steps |-> hist])>>)

(* one line per behaviour of the simulation run (spec -> code replay input) *)
Emit ==
    (EMIT /\ (Len(hist) = Depth \/ panic # "" \/ ~ENABLED Next)) =>
        PrintT(<<"CASE", ToJson([n |-> N, steps |-> hist])>>)
=============================================================================
