------------------------------ MODULE PaxosImpl ------------------------------
(* Design-level model of the multi-slot Paxos of paxos.rs around the Recommit rule of Paxos.tla,
   with the acceptor rules as written in `acceptor_p1` / `acceptor_p2`:
     * the acceptor's max ballot moves only on p1a; a p1a is answered Ok(log) iff it IS the max;
     * a p2a is stored iff its ballot >= the max ballot (highest ballot per slot wins) and
       acknowledged Ok iff its ballot = the max ballot;
   a proposer that collected f+1 Ok p1bs for its ballot re-proposes Recommit(...) and then assigns
   new payloads to slots above the highest slot it learned; a (slot, ballot) is chosen when f+1
   acceptors acknowledged it.  Invariant: Agreement (ReplLog) on the chosen entries.           *)
EXTENDS Paxos, TLC

CONSTANTS NAcc, F, MaxBal, NSlots, Values

Acc == 0..(NAcc - 1)
Bals == 1..MaxBal

VARIABLES maxBal,   \* [Acc -> 0..MaxBal]
          alog,     \* [Acc -> set of <<slot, bal, v>>, one per slot]
          p1b,      \* set of <<bal, acc, log snapshot>>
          sent2a,   \* set of <<slot, bal, v>>
          ok2b,     \* set of <<acc, slot, bal>>
          led,      \* [Bals -> BOOLEAN]
          nextSlot  \* [Bals -> Nat]
vars == <<maxBal, alog, p1b, sent2a, ok2b, led, nextSlot>>

Init ==
    /\ maxBal = [a \in Acc |-> 0]
    /\ alog = [a \in Acc |-> {}]
    /\ p1b = {}
    /\ sent2a = {}
    /\ ok2b = {}
    /\ led = [b \in Bals |-> FALSE]
    /\ nextSlot = [b \in Bals |-> 0]
    /\ TLCSet(31, 0) /\ TLCSet(32, 0)

P1(a, b) ==
    /\ b > maxBal[a]
    /\ maxBal' = [maxBal EXCEPT ![a] = b]
    /\ p1b' = p1b \cup {<<b, a, alog[a]>>}
    /\ UNCHANGED <<alog, sent2a, ok2b, led, nextSlot>>

Lead(b, Q) ==
    /\ ~led[b]
    /\ Cardinality(Q) = F + 1
    /\ \A a \in Q : \E x \in p1b : x[1] = b /\ x[2] = a
    /\ LET H == {<<x[2], e>> : x \in {y \in p1b : y[1] = b /\ y[2] \in Q}, e \in UNION {z[3] : z \in p1b}} 
           HH == {h \in H : \E x \in p1b : x[1] = b /\ x[2] = h[1] /\ h[2] \in x[3]}
       IN /\ sent2a' = sent2a \cup {<<o[1], b, o[2]>> : o \in Recommit(HH, {-1}, F)}
          /\ nextSlot' = [nextSlot EXCEPT ![b] = MaxSlot(HH) + 1]
    /\ led' = [led EXCEPT ![b] = TRUE]
    /\ UNCHANGED <<maxBal, alog, p1b, ok2b>>

Propose(b, v) ==
    /\ led[b]
    /\ nextSlot[b] < NSlots
    /\ sent2a' = sent2a \cup {<<nextSlot[b], b, v>>}
    /\ nextSlot' = [nextSlot EXCEPT ![b] = @ + 1]
    /\ UNCHANGED <<maxBal, alog, p1b, ok2b, led>>

P2(a, m) ==
    /\ m \in sent2a
    /\ m[2] >= maxBal[a]
    /\ LET old == {e \in alog[a] : e[1] = m[1]}
           keep == \E e \in old : e[2] >= m[2]
       IN alog' = [alog EXCEPT ![a] = IF keep THEN @ ELSE (@ \ old) \cup {m}]
    /\ ok2b' = IF m[2] = maxBal[a] THEN ok2b \cup {<<a, m[1], m[2]>>} ELSE ok2b
    /\ (alog' # alog \/ ok2b' # ok2b)
    /\ UNCHANGED <<maxBal, p1b, sent2a, led, nextSlot>>

Next ==
    \/ \E a \in Acc, b \in Bals : P1(a, b)
    \/ \E b \in Bals, Q \in SUBSET Acc : Lead(b, Q)
    \/ \E b \in Bals, v \in Values : Propose(b, v)
    \/ \E a \in Acc, m \in sent2a : P2(a, m)

Spec == Init /\ [][Next]_vars

Chosen == {<<m[1], m[3]>> : m \in {x \in sent2a :
              Cardinality({a \in Acc : <<a, x[1], x[2]>> \in ok2b}) >= F + 1}}

Agreement == \A x, y \in Chosen : x[1] = y[1] => x[2] = y[2]
\* the accepted entries are consistent inputs for Recommit
InputsConsistent == \A x, y \in sent2a : (x[1] = y[1] /\ x[2] = y[2]) => x[3] = y[3]

Once(reg, cond, name) ==
    (cond /\ TLCGet(reg) = 0) => (TLCSet(reg, 1) /\ PrintT(<<"WITNESS", name>>))
Witness ==
    /\ Once(31, Chosen # {} /\ \E b \in Bals : led[b] /\
                  \E c \in Chosen : \E m \in sent2a : m[1] = c[1] /\ m[2] < b /\
                      Cardinality({a \in Acc : <<a, m[1], m[2]>> \in ok2b}) >= F + 1,
            "leader-elected-after-a-choice")
    /\ Once(32, \E x, y \in sent2a : x[1] = y[1] /\ x[3] # y[3], "two-values-proposed-for-a-slot")
=============================================================================
