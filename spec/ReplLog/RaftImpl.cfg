SPECIFICATION Spec
CONSTANTS
  N = 3
  MaxTerm = 2
  MaxReq = 1
  MaxNet = 4
  MaxDup = 1
  MaxBatch = 2
  EMIT = FALSE
  Depth = 0
CONSTRAINT Constraint
INVARIANTS C40Inv ProtocolInv NoPanic EmitMatchesLog Witness Emit
CHECK_DEADLOCK FALSE
