SPECIFICATION Spec
CONSTANTS
  N = 3
  Timed = {0, 1}
  ReqAt = {0, 1, 2}
  MaxTerm = 2
  MaxEl = 2
  MaxHb = 2
  MaxReq = 1
  MaxNet = 8
  MaxDup = 2
  MaxBatch = 2
  EMIT = FALSE
  Depth = 0
CONSTRAINT Constraint
INVARIANTS C40Inv ProtocolInv NoPanic EmitMatchesLog Witness Emit
CHECK_DEADLOCK FALSE
