-------------------------------- MODULE Paxos --------------------------------
(* The proposer-side value-selection rule of hydro_test/src/cluster/paxos.rs
   (`recommit_after_leader_election`): from the p1b answers of a quorum -- each a checkpoint and
   an accepted log slot -> (ballot, value) -- a new leader derives what to re-propose under its
   own ballot.  It is the rule behind "a value chosen at a slot under ballot b is the only value
   proposed at that slot under higher ballots".

   H   : set of <<owner, <<slot, bal, v>>>>  (owner = which p1b answer holds the entry;
         v = -1 is a re-committed hole)
   cps : set of checkpoints reported (integers, -1 = none)                                  *)
EXTENDS Naturals, Integers, Sequences, FiniteSets

SetMaxP(S, d) == IF S = {} THEN d ELSE CHOOSE x \in S : \A y \in S : y <= x

SlotsOf(H) == {h[2][1] : h \in H}
MaxCp(cps) == SetMaxP(cps, -1)
MaxSlot(H) == SetMaxP(SlotsOf(H), -1)
At(H, s) == {h \in H : h[2][1] = s}
TopBal(H, s) == SetMaxP({h[2][2] : h \in At(H, s)}, -1)
TopVal(H, s) == (CHOOSE h \in At(H, s) : h[2][2] = TopBal(H, s))[2][3]
\* how many answers hold the top value at s (at any ballot)
Support(H, s) == Cardinality({h \in At(H, s) : h[2][3] = TopVal(H, s)})
\* proposers never propose two values for one (slot, ballot)
Consistent(H) == \A x, y \in H : (x[2][1] = y[2][1] /\ x[2][2] = y[2][2]) => x[2][3] = y[2][3]

(* what the new leader re-proposes: <<slot, value>> pairs (all under its own ballot) *)
Recommit(H, cps, f) ==
    {<<s, TopVal(H, s)>> : s \in {t \in SlotsOf(H) : t > MaxCp(cps) /\ Support(H, t) <= f}}
    \cup {<<s, -1>> : s \in ((MaxCp(cps) + 1)..(MaxSlot(H) - 1)) \ SlotsOf(H)}

(* safety rules on an output `out` (set of <<slot, value>>) of the real function *)
ValueKept(H, out) ==        \* never a different value (or a hole) where something was accepted
    \A o \in out : IF o[1] \in SlotsOf(H) THEN o[2] = TopVal(H, o[1]) ELSE o[2] = -1
NoLostSlot(H, cps, f, out) ==   \* a possibly chosen, not provably chosen slot is re-proposed
    \A s \in SlotsOf(H) : (s > MaxCp(cps) /\ Support(H, s) <= f) => \E o \in out : o[1] = s
OnePerSlot(out) == \A x, y \in out : x[1] = y[1] => x = y

RecommitBroken(H, cps, f, out) ==
    (IF ValueKept(H, out) THEN {} ELSE {"RecommitValueKept"})
    \cup (IF NoLostSlot(H, cps, f, out) THEN {} ELSE {"RecommitNoLostSlot"})
    \cup (IF OnePerSlot(out) THEN {} ELSE {"RecommitOnePerSlot"})
=============================================================================
