-------------------------------- MODULE Raft --------------------------------
(* Raft as implemented by hydro_test/src/cluster/raft.rs, transcribed from `raft_step`:
   one member consumes, in ONE atomic step, a batch of intra-cluster messages (processed in the
   canonical order of `sort_key`, then sender), the client requests of the tick, the two timer
   flags; then advances the leader commit index, broadcasts heartbeats, and emits the newly
   committed entries.  This module only DEFINES the step function and the safety predicates;
   RaftImpl.tla explores it, RaftTrace.tla checks recorded steps of the real function.

   Member record (RaftServerState):
     term, vf (voted_for, -1 = none), role (0 follower / 1 candidate / 2 leader), votes (set),
     hb (heartbeat_seen), log (sequence of <<term_received, message>>; index = position),
     ci (commit_index), ei (emitted_index), next / match (functions member -> index; all 0 while
     not leader -- the Rust maps keep stale values there, which nothing ever reads).
   Message record (RaftRpc), uniform fields k, src, dst, term, x, y, z, ents:
     k=0 RequestVote          x = last_log_term   y = last_log_index
     k=1 RequestVoteResponse
     k=2 AppendEntries        x = prev_log_index  y = prev_log_term  z = leader_commit  ents
     k=3 AppendEntriesReply   x = match_index     y = success (0/1)                        *)
EXTENDS Naturals, Integers, Sequences, FiniteSets, TLC

Mem(n) == 0..(n - 1)
Majority(n) == (n \div 2) + 1
Zero(n) == [o \in Mem(n) |-> 0]
MaxOf(a, b) == IF a >= b THEN a ELSE b
MinOf(a, b) == IF a <= b THEN a ELSE b
SetMax(S) == CHOOSE x \in S : \A y \in S : y <= x

InitMember(n) ==
    [term |-> 0, vf |-> -1, role |-> 0, votes |-> {}, hb |-> FALSE, log |-> <<>>,
     ci |-> 0, ei |-> 0, next |-> Zero(n), match |-> Zero(n)]

Msg(k, src, dst, term, x, y, z, ents) ==
    [k |-> k, src |-> src, dst |-> dst, term |-> term, x |-> x, y |-> y, z |-> z, ents |-> ents]
RV(src, dst, term, llt, lli) == Msg(0, src, dst, term, llt, lli, 0, <<>>)
RVR(src, dst, term) == Msg(1, src, dst, term, 0, 0, 0, <<>>)
AE(src, dst, term, prev, prevT, ents, lc) == Msg(2, src, dst, term, prev, prevT, lc, ents)
AER(src, dst, term, mi, succ) == Msg(3, src, dst, term, mi, succ, 0, <<>>)

(* sort_key(rpc) then sender -- a strict order; ties are messages whose processing commutes *)
Key(m) == <<m.k, m.term, m.x, IF m.k = 2 THEN Len(m.ents) ELSE m.y, m.src>>
RECURSIVE LexLess(_, _)
LexLess(a, b) ==
    IF a = <<>> THEN FALSE
    ELSE IF Head(a) # Head(b) THEN Head(a) < Head(b)
    ELSE LexLess(Tail(a), Tail(b))
MsgLess(a, b) == LexLess(Key(a), Key(b))

LastTerm(log) == IF log = <<>> THEN 0 ELSE log[Len(log)][1]

(* observe_term: a higher term forces follower and resets the per-term state *)
Observe(n, s, t) ==
    IF t > s.term
    THEN [s EXCEPT !.term = t, !.role = 0, !.vf = -1, !.votes = {},
                   !.next = Zero(n), !.match = Zero(n)]
    ELSE s

Lead(n, s, me) ==
    [s EXCEPT !.role = 2,
              !.next = [o \in Mem(n) |-> IF o = me THEN 0 ELSE Len(s.log) + 1],
              !.match = Zero(n)]

(* acc = [s, out, panic] : member state, outbound messages (sequence), "" or the panic text *)
Send(acc, m) == [acc EXCEPT !.out = Append(@, m)]

(* the follower append loop: truncate on conflict, skip entries already present *)
RECURSIVE AppendAll(_, _, _, _)
AppendAll(r, ci, idx, ents) ==
    \* r = [log, panic]
    IF ents = <<>> \/ r.panic # "" THEN r
    ELSE LET e == Head(ents)
             r2 == IF Len(r.log) >= idx
                   THEN IF r.log[idx][1] # e[1]
                        THEN IF idx <= ci
                             THEN [r EXCEPT !.panic = "truncate committed"]
                             ELSE [r EXCEPT !.log = Append(SubSeq(r.log, 1, idx - 1), e)]
                        ELSE r
                   ELSE [r EXCEPT !.log = Append(r.log, e)]
         IN AppendAll(r2, ci, idx + 1, Tail(ents))

HandleRV(n, acc, me, m) ==
    LET s1 == Observe(n, acc.s, m.term) IN
    IF m.term # s1.term THEN acc
    ELSE LET lt == LastTerm(s1.log)
             li == Len(s1.log)
             upToDate == m.x > lt \/ (m.x = lt /\ m.y >= li)
             canVote == s1.vf = -1 \/ s1.vf = m.src
         IN IF upToDate /\ canVote
            THEN Send([acc EXCEPT !.s = [s1 EXCEPT !.vf = m.src]], RVR(me, m.src, s1.term))
            ELSE [acc EXCEPT !.s = s1]

HandleRVR(n, acc, me, m) ==
    LET s1 == Observe(n, acc.s, m.term) IN
    IF m.term # s1.term THEN acc
    ELSE IF s1.role = 1
         THEN LET v == s1.votes \cup {m.src}
                  s2 == [s1 EXCEPT !.votes = v]
              IN [acc EXCEPT !.s = IF Cardinality(v) >= Majority(n) THEN Lead(n, s2, me) ELSE s2]
         ELSE [acc EXCEPT !.s = s1]

HandleAE(n, acc, me, m) ==
    LET s1 == Observe(n, acc.s, m.term) IN
    IF m.term # s1.term
    THEN Send(acc, AER(me, m.src, s1.term, 0, 0))
    ELSE IF s1.role = 2
    THEN [acc EXCEPT !.s = s1, !.panic = "two leaders share a term"]
    ELSE LET s2 == [s1 EXCEPT !.hb = TRUE, !.role = 0]
             matches == m.x = 0 \/ (Len(s2.log) >= m.x /\ s2.log[m.x][1] = m.y)
         IN IF ~matches
            THEN Send([acc EXCEPT !.s = s2], AER(me, m.src, s2.term, 0, 0))
            ELSE LET r == AppendAll([log |-> s2.log, panic |-> ""], s2.ci, m.x + 1, m.ents)
                     newMatch == m.x + Len(m.ents)
                     cap == MinOf(m.z, newMatch)
                     s3 == [s2 EXCEPT !.log = r.log, !.ci = MaxOf(@, cap)]
                 IN IF r.panic # ""
                    THEN [acc EXCEPT !.s = s2, !.panic = r.panic]
                    ELSE Send([acc EXCEPT !.s = s3], AER(me, m.src, s2.term, newMatch, 1))

HandleAER(n, acc, me, m) ==
    LET s1 == Observe(n, acc.s, m.term) IN
    IF m.term # s1.term THEN acc
    ELSE IF s1.role # 2 THEN [acc EXCEPT !.s = s1]
    ELSE IF m.y = 1
         THEN [acc EXCEPT !.s = [s1 EXCEPT !.match[m.src] = MaxOf(@, m.x),
                                           !.next[m.src] = MaxOf(@, m.x + 1)]]
         ELSE [acc EXCEPT !.s = [s1 EXCEPT !.next[m.src] = MaxOf(@ - 1, 1)]]

HandleMsg(n, acc, me, m) ==
    IF acc.panic # "" THEN acc
    ELSE CASE m.k = 0 -> HandleRV(n, acc, me, m)
           [] m.k = 1 -> HandleRVR(n, acc, me, m)
           [] m.k = 2 -> HandleAE(n, acc, me, m)
           [] OTHER   -> HandleAER(n, acc, me, m)

RECURSIVE RunMsgs(_, _, _, _)
RunMsgs(n, acc, me, seq) ==
    IF seq = <<>> THEN acc ELSE RunMsgs(n, HandleMsg(n, acc, me, Head(seq)), me, Tail(seq))

RECURSIVE RunReqs(_, _)
RunReqs(s, reqs) ==
    IF reqs = <<>> THEN s
    ELSE RunReqs(IF s.role = 2 THEN [s EXCEPT !.log = Append(@, <<s.term, Head(reqs)>>)] ELSE s,
                 Tail(reqs))

RECURSIVE SendAll(_, _)
SendAll(acc, msgs) == IF msgs = <<>> THEN acc ELSE SendAll(Send(acc, Head(msgs)), Tail(msgs))

Others(n, me) == [i \in 1..(n - 1) |-> IF i - 1 < me THEN i - 1 ELSE i]   \* ascending, without me

Election(n, acc, me, el) ==
    LET s == acc.s IN
    IF ~el \/ s.role = 2 THEN acc
    ELSE IF s.hb THEN [acc EXCEPT !.s.hb = FALSE]
    ELSE LET s1 == [s EXCEPT !.term = @ + 1, !.role = 1, !.vf = me, !.votes = {me}] IN
         IF 1 >= Majority(n) THEN [acc EXCEPT !.s = Lead(n, s1, me)]
         ELSE SendAll([acc EXCEPT !.s = s1],
                      [i \in 1..(n - 1) |-> RV(me, Others(n, me)[i], s1.term,
                                                LastTerm(s1.log), Len(s1.log))])

Advance(n, s, me) ==
    IF s.role # 2 THEN s
    ELSE LET C == {c \in (s.ci + 1)..Len(s.log) :
                     /\ s.log[c][1] = s.term
                     /\ 1 + Cardinality({o \in Mem(n) \ {me} : s.match[o] >= c}) >= Majority(n)}
         IN IF C = {} THEN s ELSE [s EXCEPT !.ci = SetMax(C)]

Heartbeat(n, acc, me, hbt) ==
    LET s == acc.s IN
    IF ~hbt \/ s.role # 2 THEN acc
    ELSE IF \E o \in Mem(n) \ {me} : s.next[o] < 1 \/ s.next[o] - 1 > Len(s.log)
    THEN [acc EXCEPT !.panic = "next_index out of range"]
    ELSE SendAll(acc, [i \in 1..(n - 1) |->
             LET o == Others(n, me)[i]
                 prev == s.next[o] - 1
             IN AE(me, o, s.term, prev, IF prev = 0 THEN 0 ELSE s.log[prev][1],
                   SubSeq(s.log, prev + 1, Len(s.log)), s.ci)])

(* canonical processing order of a batch given as a sequence (trace) or as a set (model) *)
Canon(seq) == SortSeq(seq, MsgLess)
RECURSIVE SortSet(_)
SortSet(S) ==
    IF S = {} THEN <<>>
    ELSE LET x == CHOOSE x \in S : \A y \in S \ {x} : ~MsgLess(y, x)
         IN <<x>> \o SortSet(S \ {x})

(* raft_step.  inp = [el, hbt : BOOLEAN, reqs : Seq(value), msgs : Seq(Msg) in canonical order].
   Result [s, out, com, panic]; com = newly emitted <<idx, term, value>>.                 *)
StepFn(n, s0, me, inp) ==
    LET a0 == [s |-> s0, out |-> <<>>, panic |-> ""]
        a1 == RunMsgs(n, a0, me, inp.msgs)
        a2 == IF a1.panic # "" THEN a1 ELSE [a1 EXCEPT !.s = RunReqs(@, inp.reqs)]
        a3 == IF a2.panic # "" THEN a2 ELSE Election(n, a2, me, inp.el)
        a4 == IF a3.panic # "" THEN a3 ELSE [a3 EXCEPT !.s = Advance(n, @, me)]
        a5 == IF a4.panic # "" THEN a4 ELSE Heartbeat(n, a4, me, inp.hbt)
        s5 == a5.s
        com == IF a5.panic # "" THEN <<>>
               ELSE [i \in 1..(s5.ci - s5.ei) |-> <<s5.ei + i, s5.log[s5.ei + i][1], s5.log[s5.ei + i][2]>>]
    IN [s |-> IF a5.panic # "" THEN s5 ELSE [s5 EXCEPT !.ei = s5.ci],
        out |-> a5.out, com |-> com, panic |-> a5.panic]

(* ---------------- safety predicates over a global state st : [Mem(n) -> member] --------------- *)
IsPrefixOf(a, b) == Len(a) <= Len(b) /\ SubSeq(b, 1, Len(a)) = a

\* at most one leader per term (current roles)
OneLeaderPerTerm(n, st) ==
    \A a, b \in Mem(n) : (a # b /\ st[a].role = 2 /\ st[b].role = 2) => st[a].term # st[b].term

\* same index and term => identical logs up to there
LogMatching(n, st) ==
    \A a, b \in Mem(n) : \A i \in 1..MinOf(Len(st[a].log), Len(st[b].log)) :
        st[a].log[i][1] = st[b].log[i][1] => SubSeq(st[a].log, 1, i) = SubSeq(st[b].log, 1, i)

\* commit / emit indices stay inside the log
Bounds(n, st) == \A a \in Mem(n) : st[a].ei <= st[a].ci /\ st[a].ci <= Len(st[a].log)

\* committed prefixes never fork (state-machine safety on the state itself)
CommittedAgree(n, st) ==
    \A a, b \in Mem(n) :
        LET k == MinOf(MinOf(st[a].ci, Len(st[a].log)), MinOf(st[b].ci, Len(st[b].log)))
        IN SubSeq(st[a].log, 1, k) = SubSeq(st[b].log, 1, k)

\* a leader of a term >= the term of a member that knows entries committed holds those entries
LeaderCompleteness(n, st) ==
    \A l, a \in Mem(n) :
        (st[l].role = 2 /\ st[l].term >= st[a].term) =>
            LET k == MinOf(st[a].ci, Len(st[a].log)) IN
            Len(st[l].log) >= k /\ SubSeq(st[l].log, 1, k) = SubSeq(st[a].log, 1, k)

\* a committed entry is stored by a majority (it was, when committed, and is never truncated)
QuorumHolds(n, st) ==
    \A a \in Mem(n) : \A i \in 1..MinOf(st[a].ci, Len(st[a].log)) :
        Cardinality({b \in Mem(n) : Len(st[b].log) >= i /\ st[b].log[i] = st[a].log[i]}) >= Majority(n)

\* terms inside a log never decrease and never exceed the member's term
LogTermsSane(n, st) ==
    \A a \in Mem(n) : \A i \in 1..Len(st[a].log) :
        /\ st[a].log[i][1] <= st[a].term
        /\ (i > 1 => st[a].log[i - 1][1] <= st[a].log[i][1])

(* ---- step (d), Raft 5.4.2: a leader commits by counting replicas only up to an entry of its OWN
   term; older-term entries commit transitively beneath it.  pre / post: the member's record before
   and after one step.  (A member that is leader after a step and whose commit index grew in it
   advanced it in step (d): a current-term AppendEntries panics at a leader, older ones are
   rejected, newer ones depose it.)                                                          *)
CommitOnlyCurrentTerm(pre, post) ==
    (post.role = 2 /\ post.ci > pre.ci /\ post.ci <= Len(post.log)) => post.log[post.ci][1] = post.term

(* the figure-8 situation: a leader holds an uncommitted OLDER-term entry stored on a majority
   while its last entry is of its own term -- the state in which a wrong 5.4.2 guard commits *)
Fig8Situation(n, s, me) ==
    /\ s.role = 2 /\ Len(s.log) > s.ci /\ LastTerm(s.log) = s.term
    /\ \E c \in (s.ci + 1)..Len(s.log) :
          /\ s.log[c][1] < s.term
          /\ 1 + Cardinality({o \in Mem(n) \ {me} : s.match[o] >= c}) >= Majority(n)

StateBroken(n, st) ==
    (IF OneLeaderPerTerm(n, st) THEN {} ELSE {"OneLeaderPerTerm"})
    \cup (IF LogMatching(n, st) THEN {} ELSE {"LogMatching"})
    \cup (IF Bounds(n, st) THEN {} ELSE {"Bounds"})
    \cup (IF CommittedAgree(n, st) THEN {} ELSE {"CommittedAgree"})
    \cup (IF LeaderCompleteness(n, st) THEN {} ELSE {"LeaderCompleteness"})
    \cup (IF QuorumHolds(n, st) THEN {} ELSE {"QuorumHolds"})
    \cup (IF LogTermsSane(n, st) THEN {} ELSE {"LogTermsSane"})
=============================================================================
