SPECIFICATION Spec
CONSTANTS
  NAcc = 3
  F = 1
  MaxBal = 3
  NSlots = 1
  Values = {1, 2}
INVARIANTS Agreement InputsConsistent Witness
CHECK_DEADLOCK FALSE
