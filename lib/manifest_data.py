"""Reasons for properties not claimed (kept current by hand)."""
NOT_APPLICABLE_REASON = {}
