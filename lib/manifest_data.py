"""Hand-maintained manifest inputs."""
# families whose checks are finished, reviewed and claimed in MANIFEST.json
READY_FAMILIES = [
    "mergesource", "algebra", "tombstone", "tuplestore", "pushpipe", "sinkpipe",
    "mpsc", "wake", "graphalgo", "partition", "determinism", "lattice", "simhooks", "replog", "pullpipe", "symjoin", "dfirtick", "hydroflow", "quorum", "net", "slice", "atomic", "hydroprog",
]
# reasons for properties not claimed
NOT_APPLICABLE_REASON = {}
