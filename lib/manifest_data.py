"""Per-property texts for MANIFEST.json."""
TECH = "TLA+ spec model-checked with TLC + conformance (TLC behaviours replayed into the code; code traces validated by TLC)"
ENGINES = {
    "mergesource": "spec/MergeSource: monitor + implementation-shaped model (TLC exhaustive), replay of all TLC behaviours into the real MergeSource, trace validation of seeded random runs",
}
CHECKS = {
    "C15": {
        "text": "TLC exhaustively checks the implementation-shaped model of poll_next (cursor, None-marking, compaction) against the C15 monitor for every configuration of <=3 sources x scripts <=3 (4 thorough); every TLC behaviour is replayed into the real MergeSource<TaggedSource> and seeded random larger runs are recorded; TLC validates all recorded traces against the monitor (per-sender order, no loss/dup, end exactly when all ended, one-round fairness).",
        "note": "Trusts the scripted stream doubles and hook H1 (constructor only). Sources are fused. Bounded: <=6 sources, scripts <=8 in random runs.",
        "technique": TECH,
        "design_ref": "DESIGN.md §6.8",
    },
}
NOT_APPLICABLE_REASON = {}
