"""C15 -- merged network sources (hydro_deploy_integration::MergeSource).
Jobs: (1) TLC exhaustive on MergeSourceImpl (implementation-shaped model x monitor);
(2) TLC generates every behaviour of the Gen config; the harness replays them into the real
MergeSource and TLC validates the recorded trace against the monitor; (3) seeded random
larger configurations, trace-validated; (4) canary: a corrupted trace must be rejected."""
import json
import os

import vlib

PROPS = ["C15"]
ENGINE = "spec/MergeSource: monitor + implementation-shaped model (TLC exhaustive), replay of all TLC behaviours into the real MergeSource, trace validation of seeded random runs"
MANIFEST = {
    "C15": {
        "text": "(a) MergeSource: TLC exhaustively checks the implementation-shaped model of poll_next (cursor, None-marking, compaction) against the C15 monitor for every configuration of <=3 sources x scripts <=3 (4 thorough); every TLC behaviour is replayed into the real MergeSource<TaggedSource> and seeded random larger runs are recorded; TLC validates all recorded traces against the monitor (per-sender order, no loss/dup, end exactly when all ended, one-round fairness). (b) The TCP copy of the same merge, multi_connection.rs TcpMultiConnectionSource, is driven over loopback sockets with seeded random connect/send/close/poll scripts and validated black-box against MultiConn.tla (per-connection order, no loss/dup, one id per client, served within one round inside a poll round).",
        "note": "Trusts the scripted stream doubles and hook H1 (constructor only). Sources are fused. Bounded: <=6 sources, scripts <=8 in random runs.",
        "technique": "TLA+ spec model-checked with TLC + conformance (TLC behaviours replayed into the code; code traces validated by TLC)",
        "design_ref": "DESIGN.md §6.8",
    },
}

SD = os.path.join(vlib.SPEC, "MergeSource")
ACTIONS = ["Enter", "LoopStep", "Cleanup"]


def _write_cfg(name, maxsrc, maxlen, emit):
    p = os.path.join(vlib.rundir("cfg"), name)
    with open(p, "w") as f:
        f.write("SPECIFICATION Spec\nCONSTANTS\n  MaxSrc = %d\n  MaxLen = %d\n  EMIT = %s\n"
                "INVARIANTS C15Inv ImplInv Progress Emit\nCHECK_DEADLOCK FALSE\n"
                % (maxsrc, maxlen, "TRUE" if emit else "FALSE"))
    return p


def _validate(trace, res, what):
    ok, r = vlib.validate_trace(SD, "MergeSourceTrace", trace, tag="ms_" + what)
    if not ok:
        raise vlib.ToolError("trace not consumed by MergeSourceTrace (%s):\n%s" % (what, r.error_trace[-2000:]))
    viol = vlib.printed_json(r, "VIOL", required=True)
    drift = vlib.printed_json(r, "DRIFT", required=True)
    res.add_tlc(r, "trace-validation:" + what)
    return (viol[0] if viol else []), (drift[0] if drift else [])


def _case_events(trace, case):
    evs, cur = [], None
    for e in vlib.read_ndjson(trace):
        if e.get("e") == "reset":
            cur = e.get("case")
        if cur == case:
            evs.append(e)
    return evs


def run(tier):
    res = vlib.PropResult("C15")
    thorough = tier == "thorough"
    bindir = vlib.cargo_build("hv_pipes", bins=["merge_source"])
    exe = os.path.join(bindir, "merge_source")
    d = vlib.rundir("mergesource")

    # (1) design: exhaustive model check of the implementation-shaped model against the monitor
    cfg = _write_cfg("ms_mc.cfg", 3, 4 if thorough else 3, False)
    r = vlib.tlc(SD, "MergeSourceImpl", cfg=cfg, workers=8, timeout=1800)
    if not r.ok:
        raise vlib.ToolError("MergeSourceImpl model check failed (spec/design error):\n" + r.error_trace[-3000:])
    vlib.require_coverage(r, ACTIONS)
    res.add_tlc(r, "MergeSourceImpl exhaustive")

    # (2) spec -> code: every behaviour of the Gen config replayed into the real code
    cfg = _write_cfg("ms_gen.cfg", 3, 4 if thorough else 3, True)
    r = vlib.tlc(SD, "MergeSourceImpl", cfg=cfg, workers=1, timeout=1800, coverage=False)
    if not r.ok:
        raise vlib.ToolError("MergeSourceImpl generator run failed:\n" + r.error_trace[-3000:])
    cases = vlib.printed_json(r, "CASE")
    if len(cases) < 100:
        raise vlib.ToolError("generator produced only %d cases" % len(cases))
    casefile = os.path.join(d, "cases.ndjson")
    vlib.write_ndjson(casefile, cases)
    trace = os.path.join(d, "replay_trace.ndjson")
    p = vlib.run_bin(exe, ["replay", casefile, trace])
    if p.returncode != 0:
        raise vlib.ToolError("merge_source replay failed: " + p.stderr[-2000:])
    summ = json.loads(p.stdout.strip().splitlines()[-1])
    viol, drift = _validate(trace, res, "replay")
    res.traces += summ["cases"]
    res.evaluations += summ["cases"]
    nontrivial = sum(1 for c in cases if len(c["scripts"]) >= 2 and
                     any(-1 in s for s in c["scripts"]) and any(any(x >= 0 for x in s) for s in c["scripts"]))
    res.distinct_nontrivial += nontrivial
    for dr in summ["drift"][:10]:
        res.drift.append({"kind": "poll-by-poll result differs from MergeSourceImpl", **dr})
    res.samples.append({"kind": "replayed TLC behaviour", **cases[len(cases) // 2]})
    for case, rule in viol:
        res.violation("mergesource/%s" % rule, "rule %s broken in replayed case %s" % (rule, case),
                      {"events": _case_events(trace, case)})
    for case in drift:
        res.drift.append({"kind": "implementation fact (held item / cursor range)", "case": case})

    # (3) code -> spec: seeded random larger configurations
    count = 20000 if thorough else 1500
    rtrace = os.path.join(d, "random_trace.ndjson")
    p = vlib.run_bin(exe, ["random", count, 6 if thorough else 5, 8 if thorough else 6, rtrace])
    if p.returncode != 0:
        raise vlib.ToolError("merge_source random failed: " + p.stderr[-2000:])
    summ = json.loads(p.stdout.strip().splitlines()[-1])
    viol, drift = _validate(rtrace, res, "random")
    res.traces += summ["cases"]
    res.evaluations += summ["cases"]
    seen = set()
    for e in vlib.read_ndjson(rtrace):
        if e.get("e") == "reset":
            sc = e["scripts"]
            if len(sc) >= 2 and any(-1 in s for s in sc) and any(any(x >= 0 for x in s) for s in sc):
                seen.add(json.dumps(sc))
            if len(res.samples) < 3 and len(sc) >= 3:
                res.samples.append({"kind": "random case (scripts; -1 = Pending)", "scripts": sc})
    res.distinct_nontrivial += len(seen)
    for case, rule in viol:
        res.violation("mergesource/%s" % rule, "rule %s broken in random case %s" % (rule, case),
                      {"events": _case_events(rtrace, case)})

    # (4) canary: swap two returned items of one sender in a good trace -> must be flagged
    evs = vlib.read_ndjson(trace)
    idx = [i for i, e in enumerate(evs) if e.get("e") == "ret" and e["r"][1] >= 0]
    done = False
    for a in range(len(idx) - 1):
        i, j = idx[a], idx[a + 1]
        if evs[i]["r"][0] == evs[j]["r"][0] and all(e.get("e") != "reset" for e in evs[i:j]):
            evs[i]["r"], evs[j]["r"] = evs[j]["r"], evs[i]["r"]
            done = True
            break
    if done:
        ctrace = os.path.join(d, "canary_trace.ndjson")
        vlib.write_ndjson(ctrace, evs)
        tmp = vlib.PropResult("C15")
        cviol, _ = _validate(ctrace, tmp, "canary")
        if not cviol:
            raise vlib.ToolError("canary (two swapped items of one sender) was NOT rejected by the trace spec")
        res.extra["canary"] = "swapped items of one sender rejected: %s" % cviol[:2]

    # (5) the TCP copy of the same merge (multi_connection.rs TcpMultiConnectionSource) over loopback,
    #     black-box: seeded random connect/send/close/poll scripts, validated against MultiConn.tla
    bindir = vlib.cargo_build("hv_pipes", bins=["tcp_multi"])
    texe = os.path.join(bindir, "tcp_multi")
    ttrace = os.path.join(d, "tcp_trace.ndjson")
    p = vlib.run_bin(texe, ["random", 1500 if thorough else 250, 4, 5, ttrace], timeout=2400)
    if p.returncode != 0:
        raise vlib.ToolError("tcp_multi failed: " + p.stderr[-2000:])
    tsumm = json.loads(p.stdout.strip().splitlines()[-1])
    ok, r = vlib.validate_trace(SD, "MultiConnTrace", ttrace, tag="ms_tcp")
    if not ok:
        raise vlib.ToolError("tcp trace not consumed by MultiConnTrace:\n" + r.error_trace[-2000:])
    res.add_tlc(r, "trace-validation:tcp-multi-connection")
    tviol = vlib.printed_json(r, "VIOL", required=True)[0]
    res.traces += tsumm["cases"]
    res.evaluations += tsumm["cases"]
    tevs = vlib.read_ndjson(ttrace)
    multi = set()
    cur, sends = None, 0
    for e in tevs:
        if e.get("e") == "reset":
            cur, sends = e, 0
        elif e.get("e") == "send":
            sends += 1
        elif e.get("e") == "drained" and cur is not None and cur["n"] >= 2 and sends >= 3:
            multi.add(cur["case"])
    res.distinct_nontrivial += len(multi)
    for case, rule in tviol:
        evs, on = [], False
        for e in tevs:
            if e.get("e") == "reset":
                on = e.get("case") == case
            if on:
                evs.append(e)
        res.violation("tcpmulti/%s" % rule, "rule %s broken by TcpMultiConnectionSource in random case %s" % (rule, case),
                      {"events": evs, "kind": "tcp"})
    # canary for the TCP monitor: swap two consecutive frames of one client
    idx = [i for i, e in enumerate(tevs) if e.get("e") == "ret"]
    for a in range(len(idx) - 1):
        i, j = idx[a], idx[a + 1]
        if tevs[i]["c"] == tevs[j]["c"] and all(e.get("e") != "reset" for e in tevs[i:j]):
            tevs[i]["q"], tevs[j]["q"] = tevs[j]["q"], tevs[i]["q"]
            ctr = os.path.join(d, "tcp_canary.ndjson")
            vlib.write_ndjson(ctr, tevs)
            ok2, r2 = vlib.validate_trace(SD, "MultiConnTrace", ctr, tag="ms_tcp_canary")
            cv = vlib.printed_json(r2, "VIOL", required=True)[0] if ok2 else []
            if not cv:
                raise vlib.ToolError("TCP canary (two swapped frames of one client) was NOT rejected")
            res.extra["tcp_canary"] = "swapped frames rejected: %s" % cv[:1]
            break

    res.rule = ("cases = script configurations (each source: sequence of items/Pending, then End); "
                "non-trivial = at least 2 sources, at least one Pending and at least one item; distinct by scripts")
    res.assumptions = ["TCP part: loopback sockets; frames written before a settle period (sleep + reactor turn) are deliverable in the next poll round; the drain waits up to ~10 s before a frame counts as lost",
                       "sources are fused (answer End forever after their script)",
                       "hook H1 (verif_new/verif_state) constructs the real MergeSource/TaggedSource unchanged",
                       "fairness formalised as: while a live source waits to be polled, every other source is served at most once"]
    return {"C15": res}


def replay(pid, path):
    with open(path) as f:
        rep = json.load(f)
    d = vlib.rundir("mergesource")
    t = os.path.join(d, "replay_one.ndjson")
    vlib.write_ndjson(t, rep["case"]["events"] + [{"e": "eof"}])
    tmp = vlib.PropResult(pid)
    if rep["case"].get("kind") == "tcp":
        ok, r = vlib.validate_trace(SD, "MultiConnTrace", t, tag="ms_tcp_replay")
        viol = vlib.printed_json(r, "VIOL", required=True)[0] if ok else [["?", "trace-not-consumed"]]
        print("recorded TCP events re-validated; rules broken:", viol)
        return 1 if viol else 0
    viol, _ = _validate(t, tmp, "replay_one")
    print("recorded events re-validated; rules broken:", viol)
    return 1 if viol else 0
