"""C08, C10 -- generalized hash tries (lattices::ght) and variadic collections
(variadics::variadic_collections) as sets / bags of tuples.
Jobs: (1) TLC exhaustive on TupleStoreImpl: for every store type and every pair of row sets
(A, B) over the row domain, a battery of all operations the type offers is executed on the
transcribed algorithms against the TupleStore monitor (relational algebra); every battery is
printed as a CASE line; (2) the harness replays the batteries into the REAL tries / collections
and TLC validates the recorded results against the monitor; (3) seeded random operation
sequences, trace-validated; (4) canary: a flipped `contains` / wrong `len` must be flagged."""
import concurrent.futures
import json
import os

import vlib

PROPS = ["C08", "C10"]
ALSO = ["C07"]        # contributed coverage: distributivity of the GHT bimorphisms (merged by the driver)
ENGINE = "spec/TupleStore: relational monitor + transcription of the GHT algorithms (TLC exhaustive over all pairs of row sets per store type), every battery replayed into the real tries/collections, trace validation of seeded random operation sequences"
MANIFEST = {
    "C08": {
        "text": "For 7 trie types (GhtType! ()=>u8,u8 / u8=>u8 / u8,u8=>() / u8=>u8,u8 / u8,u8=>u8 with VariadicHashSetStd leaves, u8=>u8 with counted and column multiset leaves) and every pair of row sets over a 3-row (4 thorough) domain, TLC runs a battery of insert, extend(new_from + merge_node), contains, recursive_iter, len, height, find_containing_leaf, prefix_iter for every prefix, get/iter of heads, eq, partial_cmp, merge, merge_node, drain, cartesian-product and deep-join bimorphisms on the transcribed algorithms against relational algebra on rows; every battery is replayed into the real lattices::ght code, plus seeded random operation sequences over 3 values per column, and TLC validates each returned value against the monitor (a panic where a result is promised is a violation).",
        "note": "Rows are u8 columns, width 2-3, trie height <= 2. COLT (force/ColtGet) is not covered. Changed flags of merge/merge_node are reported as drift only (they belong to C02).",
        "technique": "TLA+ spec model-checked with TLC + conformance (TLC behaviours replayed into the code; code traces validated by TLC)",
        "design_ref": "DESIGN.md §6.4",
    },
    "C10": {
        "text": "For VariadicHashSet, VariadicCountedHashSet and VariadicColumnMultiset over (u8,u8) and every pair of row sets over a 3-row (4 thorough) domain, TLC runs a battery of insert, extend, contains, get (with count), iter, len/is_empty, eq, drain, into_iter and reuse after drain (including duplicate inserts and extend of a non-empty collection) against the set / bag monitor; the batteries are replayed into the real collections, plus seeded random operation sequences, and TLC validates every returned value (multiplicities included).",
        "note": "Schema is (u8,u8) with the std RandomState hasher only; collections of at most a few dozen rows.",
        "technique": "TLA+ spec model-checked with TLC + conformance (TLC behaviours replayed into the code; code traces validated by TLC)",
        "design_ref": "DESIGN.md §6.4",
    },
}

SD = os.path.join(vlib.SPEC, "TupleStore")
TYPES = ["vhs", "vchs", "vcm", "g0", "g1", "g2", "g3", "g4", "g1c", "g1m"]
PID_OF = {"coll": "C10", "ght": "C08"}
CHUNKS = 4


def _write_cfg(name, types, nrows, emit):
    p = os.path.join(vlib.rundir("cfg"), name)
    with open(p, "w") as f:
        f.write("SPECIFICATION Spec\nCONSTANTS\n  TYPES = {%s}\n  NROWS = %d\n  EMIT = %s\n"
                "INVARIANTS ModelInv CmpFact Emit\nCHECK_DEADLOCK FALSE\n"
                % (", ".join('"%s"' % t for t in types), nrows, "TRUE" if emit else "FALSE"))
    return p


def _split_cases(events):
    out = []
    for e in events:
        if e.get("e") == "reset":
            out.append([])
        out[-1].append(e)
    return out


def _validate(events, d, name, results=None, chunks=CHUNKS):
    cases = _split_cases(events)
    k = max(1, min(chunks, len(cases)))
    size = (len(cases) + k - 1) // k
    paths = []
    for i in range(k):
        p = os.path.join(d, "%s_%d.ndjson" % (name, i))
        vlib.write_ndjson(p, [e for c in cases[i * size:(i + 1) * size] for e in c] + [{"e": "eof"}])
        paths.append(p)

    def one(i):
        return vlib.validate_trace(SD, "TupleStoreTrace", paths[i], timeout=2400, tag="ts_%s_%d" % (name, i))

    with concurrent.futures.ThreadPoolExecutor(max_workers=k) as ex:
        outs = list(ex.map(one, range(k)))
    viol, drift = [], []
    c07 = _validate.c07 = []
    for i, (ok, r) in enumerate(outs):
        if not ok:
            raise vlib.ToolError("trace not consumed by TupleStoreTrace (%s chunk %d):\n%s" % (name, i, r.error_trace[-2500:]))
        v = vlib.printed_json(r, "VIOL")
        dr = vlib.printed_json(r, "DRIFT")
        if not v or not dr:
            raise vlib.ToolError("TupleStoreTrace printed no VIOL/DRIFT line (%s chunk %d)" % (name, i))
        v7 = vlib.printed_json(r, "C07")
        if not v7:
            raise vlib.ToolError("TupleStoreTrace printed no C07 line (%s chunk %d)" % (name, i))
        viol += v[0]
        drift += dr[0]
        c07 += v7[0]
        for res in (results or {}).values():
            res.add_tlc(r, "trace-validation:%s/%d" % (name, i))
    return viol, drift


def _ops_only(case_events):
    return [{k: v for k, v in e.items() if k not in ("ret", "panic", "e")} for e in case_events[1:]]


def _nontrivial(case_events):
    """both stores received rows and a combining or comparing operation was executed"""
    touched = {e["s"] for e in case_events[1:] if e["op"] in ("insert", "extend") and (e["op"] == "insert" or e["rows"])}
    return touched == {1, 2} and any(e["op"] in ("merge", "mergenode", "eq", "cmp", "join", "cart") or
                                     (e["op"] == "extend" and e["s"] == 1) for e in case_events[1:])


def _extended_nonempty(evs, upto):
    """was a non-empty store extended (Extend::extend / leaf extend via merge_node) before op `upto`?"""
    filled = {1: False, 2: False}
    for e in evs[1:upto + 1]:
        s = e["s"]
        if e["op"] in ("drain", "intoiter"):
            filled[s] = False
        elif e["op"] == "insert":
            filled[s] = True
        elif e["op"] == "extend" and e["rows"]:
            if filled[s]:
                return True
            filled[s] = True
        elif e["op"] == "copy":
            filled[s] = filled[3 - s]
    return False


def _report(results, viol, events, origin):
    by_case = {c[0]["case"]: c for c in _split_cases(events)}
    for cid, rule, k in sorted(viol, key=lambda v: (v[2], len(by_case.get(v[0], [])), v[0])):
        evs = by_case.get(cid, [])[:k + 1]       # the case up to the first offending call
        head = evs[0] if evs else {}
        res = results[PID_OF.get(head.get("fam"), "C08")]
        if rule == "partial_cmp-panic-incomparable":
            fp = "ght/partial_cmp/incomparable"
        elif head.get("ty") == "vchs" and rule in ("get", "contains", "eq") and _extended_nonempty(evs, k):
            fp = "collections/vchs-extend/nonempty-rehash"
        else:
            fp = "%s/%s/%s" % ("ght" if head.get("fam") == "ght" else "collections", head.get("ty"), rule)
        last = evs[-1] if evs else {}
        res.violation(fp, "rule %s broken on store type %s in %s case %s: call #%d %s(%s) returned %s"
                      % (rule, head.get("ty"), origin, cid, k, last.get("op"),
                         json.dumps(last.get("row") or last.get("prefix") or ""), json.dumps(last.get("ret"))[:200]),
                      {"ty": head.get("ty"), "ops": _ops_only(evs), "events": evs})


SHAPE = {"g0": "()=>u8,u8", "g1": "u8=>u8", "g4": "u8,u8=>u8"}


def _report_c07(res7, c07, events, origin):
    by_case = {c[0]["case"]: c for c in _split_cases(events)}
    for cid, rule, k in sorted(c07, key=lambda v: (sum(len(by_case[v[0]][v[2]].get(x, [])) for x in ("a", "da", "b")), v[0])):
        evs = by_case.get(cid, [])
        ev = evs[k]
        ty = evs[0]["ty"]
        res7.violation("ght/%s/%s/%s" % (SHAPE.get(ty, ty), ev["bim"], rule),
                       "%s of the %s bimorphism on GhtType!(%s): a=%s da=%s b=%s: f(a|da, .) rows %s but f(a, .)|f(da, .) rows %s (own == %s)"
                       % (rule, ev["bim"], SHAPE.get(ty, ty), ev["a"], ev["da"], ev["b"],
                          json.dumps(ev["ret"][0] if not ev["panic"] else ev["ret"])[:160],
                          json.dumps(ev["ret"][1] if not ev["panic"] else "")[:160], ev["ret"][2] if not ev["panic"] else "panic"),
                       {"ty": ty, "ops": _ops_only([evs[0], ev]), "events": [evs[0], ev]})


def run(tier):
    results = {p: vlib.PropResult(p) for p in PROPS}
    res7 = vlib.PropResult("C07")
    thorough = tier == "thorough"
    bindir = vlib.cargo_build("hv_tuples", bins=["tuplestore"])
    exe = os.path.join(bindir, "tuplestore")
    d = vlib.rundir("tuplestore")
    nrows = 4 if thorough else 3

    # (1) exhaustive batteries on the model + generation (two TLC jobs side by side)
    groups = [TYPES[:5], TYPES[5:]]

    def job(i):
        cfg = _write_cfg("ts_mc%d.cfg" % i, groups[i], nrows, True)
        return vlib.tlc(SD, "TupleStoreImpl", cfg=cfg, workers=3, timeout=2400, tag="ts_mc%d" % i)

    with concurrent.futures.ThreadPoolExecutor(max_workers=2) as ex:
        rs = list(ex.map(job, range(2)))
    cases = []
    for i, r in enumerate(rs):
        if not r.ok:
            raise vlib.ToolError("TupleStoreImpl model check failed (spec/design error):\n" + r.error_trace[-3000:])
        vlib.require_coverage(r, ["Step"])
        for res in list(results.values()) + [res7]:
            res.add_tlc(r, "TupleStoreImpl exhaustive batteries %s" % ",".join(groups[i]))
        cases += vlib.printed_json(r, "CASE")
    want = len(TYPES) * (2 ** nrows) ** 2 + 5 * 2 * 2 ** nrows      # batteries + distributivity scripts (5 bimorphism/shape combos x 2 sides)
    if len(cases) != want:
        raise vlib.ToolError("generator printed %d cases, expected %d" % (len(cases), want))
    cases.sort(key=lambda c: json.dumps(c, sort_keys=True))
    for i, c in enumerate(cases):
        c["id"] = i + 1
    casefile = os.path.join(d, "cases.ndjson")
    vlib.write_ndjson(casefile, cases)

    # (2) spec -> code
    trace = os.path.join(d, "replay_trace.ndjson")
    p = vlib.run_bin(exe, ["replay", casefile, trace])
    if p.returncode != 0:
        raise vlib.ToolError("tuplestore replay failed: " + p.stderr[-2000:])
    summ = json.loads(p.stdout.strip().splitlines()[-1])
    if summ["cases"] != len(cases):
        raise vlib.ToolError("harness replayed %s of %d cases" % (summ["cases"], len(cases)))
    events = [e for e in vlib.read_ndjson(trace) if e.get("e") != "eof"]
    viol, drift = _validate(events, d, "replay", results)
    _report(results, viol, events, "replayed")
    _report_c07(res7, _validate.c07, events, "replayed")
    seen = {p: set() for p in PROPS}
    all_cases = _split_cases(events)

    # (3) code -> spec: seeded random operation sequences
    count = 6000 if thorough else 600
    rtrace = os.path.join(d, "random_trace.ndjson")
    p = vlib.run_bin(exe, ["random", count, 14, 3, rtrace])
    if p.returncode != 0:
        raise vlib.ToolError("tuplestore random failed: " + p.stderr[-2000:])
    revents = [e for e in vlib.read_ndjson(rtrace) if e.get("e") != "eof"]
    rviol, rdrift = _validate(revents, d, "random", results)
    _report(results, rviol, revents, "random")
    _report_c07(res7, _validate.c07, revents, "random")
    rcases = _split_cases(revents)

    for origin, cs, drs in (("replay", all_cases, drift), ("random", rcases, rdrift)):
        by_case = {c[0]["case"]: c for c in cs}
        for c in cs:
            res = results[PID_OF[c[0]["fam"]]]
            res.traces += 1
            res.evaluations += len(c) - 1
            if _nontrivial(c):
                seen[res.pid].add(json.dumps([c[0]["ty"], _ops_only(c)], sort_keys=True))
        for cid, what in drs:
            c = by_case.get(cid)
            if c:
                res = results[PID_OF[c[0]["fam"]]]
                if len(res.drift) < 12:
                    res.drift.append({"kind": "implementation fact: " + what, "ty": c[0]["ty"], "case": cid, "origin": origin})
    for pid in PROPS:
        results[pid].distinct_nontrivial = len(seen[pid])

    # C07 contribution: what was covered
    seen7 = set()
    for cs in (all_cases, rcases):
        for c in cs:
            dists = [e for e in c[1:] if e["op"] == "dist"]
            if dists:
                res7.traces += 1
                res7.evaluations += len(dists)
                for e in dists:
                    if e["da"] and e["b"] and any(r not in e["a"] for r in e["da"]):
                        seen7.add(json.dumps([c[0]["ty"], e["bim"], e["side"], e["a"], e["da"], e["b"]]))
    res7.distinct_nontrivial = len(seen7)
    res7.rule = ("GHT bimorphisms (cartesian product, value-type product, keyed/deep join, GhtBimorphism wrapper): case = "
                 "(trie shape, bimorphism, side, a, da, b); both f(a|da, b) and f(a, b)|f(da, b) are computed with the real code "
                 "and compared by TLC with the relational join; non-trivial = da adds a row not in a and b is non-empty; "
                 "distinct by inputs")
    res7.assumptions = ["rows are u8 columns; shapes ()=>u8,u8 (leaf product), u8=>u8 (product, keyed join, wrapper), u8,u8=>u8 (two-level deep join)"]
    d1 = next(e for c in all_cases for e in c[1:] if e["op"] == "dist" and e["bim"] == "join" and len(e["da"]) > 1 and e["b"] and e["ret"][0])
    res7.samples.append({"kind": "distributivity event of the deep join with what the real code returned", "event": d1})

    # samples
    g1 = [c for c in cases if c["ty"] == "g1" and any(o["op"] == "insert" for o in c["ops"])]
    results["C08"].samples.append({"kind": "TLC-generated battery for GhtType!(u8 => u8: VariadicHashSetStd)",
                                   "ty": "g1", "ops": g1[len(g1) // 2]["ops"][:14], "total_ops": len(g1[len(g1) // 2]["ops"])})
    rg = [c for c in rcases if c[0]["fam"] == "ght" and len(c) > 8]
    results["C08"].samples.append({"kind": "random operation sequence with the returned values", "events": rg[0][:10]})
    vc = [c for c in cases if c["ty"] == "vchs" and any(o["op"] == "insert" for o in c["ops"])]
    results["C10"].samples.append({"kind": "TLC-generated battery for VariadicCountedHashSet", "ty": "vchs",
                                   "ops": vc[len(vc) // 2]["ops"][:14], "total_ops": len(vc[len(vc) // 2]["ops"])})
    rc = [c for c in rcases if c[0]["fam"] == "coll" and len(c) > 8]
    results["C10"].samples.append({"kind": "random operation sequence with the returned values", "events": rc[0][:10]})

    # (4) canaries
    def canary(fam, op, mutate):
        for c in all_cases:
            if c[0]["fam"] == fam:
                for j, e in enumerate(c):
                    if e.get("op") == op and not e.get("panic") and j > 3:
                        badc = json.loads(json.dumps(c))
                        badc[j]["ret"] = mutate(badc[j]["ret"])
                        v, _ = _validate(badc, d, "canary_" + fam, chunks=1)
                        return v
        return None

    v1 = canary("ght", "contains", lambda r: not r)
    v2 = canary("coll", "len", lambda r: [r[0] + 1, r[1]])
    if not v1 or not any(x[1] == "contains" for x in v1) or not v2 or not any(x[1] == "len" for x in v2):
        raise vlib.ToolError("canary (flipped contains / wrong len) was NOT flagged: %s %s" % (v1, v2))
    dcase = next(c for c in all_cases if len(c) > 1 and c[1]["op"] == "dist")
    badd = json.loads(json.dumps(dcase[:2] + [e for e in dcase[2:] if e["ret"][1]][:1]))
    badd[-1]["ret"][1] = badd[-1]["ret"][1][1:]      # drop one row of the right-hand side
    _validate(badd, d, "canary_c07", chunks=1)
    if not any(x[1].startswith("distributivity") for x in _validate.c07):
        raise vlib.ToolError("canary (row dropped from f(a,b)|f(da,b)) was NOT flagged: %s" % _validate.c07)
    res7.extra["canary_ght"] = "row dropped from one side of a distributivity event flagged: %s" % _validate.c07[:2]
    results["C08"].extra["canary"] = "flipped contains() result flagged: %s" % v1[:2]
    results["C10"].extra["canary"] = "len() off by one flagged: %s" % v2[:2]

    results["C08"].rule = ("case = one store type + operation sequence on two tries; evaluations = calls whose result TLC "
                           "checked; non-trivial = both tries received rows and a merge/merge_node/eq/partial_cmp/join was "
                           "executed; distinct by (type, operation sequence)")
    results["C10"].rule = ("case = one collection type + operation sequence on two collections; evaluations = calls whose "
                           "result TLC checked; non-trivial = both collections received rows and an eq or an extend of a "
                           "non-empty collection was executed; distinct by (type, operation sequence)")
    results["C08"].assumptions = ["a trie without empty nodes is determined by its rows (inserts never create empty nodes)",
                                  "`extend` on a trie = merge_node(new_from(rows)); drain/into_iter of inner nodes return None by design",
                                  "bag semantics for counted / column leaves: merge_node adds multiplicities"]
    results["C10"].assumptions = ["RandomState hasher (hash values never enter an expectation; results are compared as bags)",
                                  "return value of insert() is not part of the property (reported as drift at most)"]
    results["C07"] = res7
    return results


def replay(pid, path):
    with open(path) as f:
        rep = json.load(f)
    bindir = vlib.cargo_build("hv_tuples", bins=["tuplestore"])
    d = vlib.rundir("tuplestore")
    cf = os.path.join(d, "replay_one_case.ndjson")
    vlib.write_ndjson(cf, [{"id": 1, "ty": rep["case"]["ty"], "ops": rep["case"]["ops"]}])
    t = os.path.join(d, "replay_one_trace.ndjson")
    p = vlib.run_bin(os.path.join(bindir, "tuplestore"), ["replay", cf, t])
    if p.returncode != 0:
        raise vlib.ToolError("tuplestore replay failed: " + p.stderr[-2000:])
    events = [e for e in vlib.read_ndjson(t) if e.get("e") != "eof"]
    viol, drift = _validate(events, d, "replay_one", chunks=1)
    print("operation sequence re-run on the real code; last event:", json.dumps(events[-1])[:400])
    print("rules broken:", viol, "drift:", drift)
    return 1 if viol else 0
