"""Common machinery for the /verif checks: TLC runner, cargo runner, evidence writer,
known-findings handling, job cache.  Python 3 stdlib only."""
import hashlib
import json
import os
import re
import shutil
import subprocess
import sys
import time

ROOT = os.path.dirname(os.path.dirname(os.path.abspath(__file__)))
REPO = os.environ.get("VERIF_REPO", "/repo")
SPEC = os.path.join(ROOT, "spec")
HARNESS = os.path.join(ROOT, "harness")
RUNS = os.path.join(ROOT, "runs")
EVID = os.path.join(ROOT, "evidence")
TLA_CP = "/opt/veriftools/tla/tla2tools.jar:/opt/veriftools/tla/CommunityModules-deps.jar"


class ToolError(Exception):
    """A tool failed / timed out / was vacuous: exit code 2, never a VIOLATION."""


def log(*a):
    print("[verif]", *a, file=sys.stderr, flush=True)


def seed():
    try:
        return int(os.environ.get("VERIF_SEED", "1"))
    except ValueError:
        return 1


def rundir(*parts):
    d = os.path.join(RUNS, *parts)
    os.makedirs(d, exist_ok=True)
    return d


# ----------------------------------------------------------------------------------------------
# TLC
# ----------------------------------------------------------------------------------------------
class TlcResult:
    def __init__(self):
        self.rc = None
        self.out = ""
        self.generated = 0      # "states generated"  (we report these as transitions)
        self.distinct = 0       # "distinct states found"
        self.ok = False         # finished with no error
        self.invariant = None   # name of violated invariant / property, if any
        self.postcondition_failed = False
        self.deadlock = False
        self.printed = []       # PrintT output lines
        self.coverage = {}      # action name -> (distinct, total) from -coverage
        self.wall = 0.0
        self.error_trace = ""


_COV_RE = re.compile(r"^<(\w+) line \d+, col \d+ to line \d+, col \d+ of module (\w+)(?: \([\d ]+\))?>: (\d+):(\d+)")


def tlc(spec_dir, module, cfg=None, workers=4, env=None, timeout=900, simulate=None,
        depth=None, coverage=True, dfs=False, xmx="4g", xss=None, extra=None, tag=None,
        seed_arg=None):
    """Run TLC on spec_dir/module.tla with cfg (default module.cfg).  Returns TlcResult.
    Raises ToolError on timeout, parse errors or JVM failure (anything that is not a clean
    finish or a reported property violation)."""
    cfg = cfg or (module + ".cfg")
    tag = tag or module
    meta = rundir("tlc", tag + "_" + str(os.getpid()))
    jopts = ["-XX:+UseParallelGC", "-Xmx" + xmx]
    if xss:
        jopts.append("-Xss" + xss)
    if dfs:
        jopts.append("-Dtlc2.tool.queue.IStateQueue=StateDeque")
    cmd = ["timeout", str(timeout), "java"] + jopts + ["-cp", TLA_CP, "tlc2.TLC",
           "-workers", str(workers), "-metadir", meta, "-cleanup", "-noGenerateSpecTE",
           "-config", cfg]
    if coverage and not simulate:
        cmd += ["-coverage", "1"]
    if simulate:
        cmd += ["-simulate", "num=%d" % simulate]
        if depth:
            cmd += ["-depth", str(depth)]
        if seed_arg is not None:
            cmd += ["-seed", str(seed_arg)]
    elif depth:
        pass
    cmd += (extra or [])
    cmd += [module + ".tla"]
    e = dict(os.environ)
    e.pop("JAVA_TOOL_OPTIONS", None)
    if env:
        e.update({k: str(v) for k, v in env.items()})
    t0 = time.time()
    p = subprocess.run(cmd, cwd=spec_dir, env=e, stdout=subprocess.PIPE, stderr=subprocess.STDOUT,
                       text=True, errors="replace")
    r = TlcResult()
    r.wall = time.time() - t0
    r.rc = p.returncode
    r.out = p.stdout
    shutil.rmtree(meta, ignore_errors=True)
    if p.returncode == 124:
        raise ToolError("TLC timeout after %ss on %s/%s" % (timeout, spec_dir, cfg))
    for line in p.stdout.splitlines():
        m = re.search(r"(\d+) states generated, (\d+) distinct states found", line)
        if m:
            r.generated, r.distinct = int(m.group(1)), int(m.group(2))
        m = re.match(r"Error: Invariant (\S+) is violated", line)
        if m:
            r.invariant = m.group(1)
        if "Error: Action property" in line or "Error: Temporal properties were violated" in line:
            r.invariant = r.invariant or "temporal/action property"
        m = re.match(r"Error: Action property (\S+) ", line)
        if m:
            r.invariant = m.group(1)
        if "Postcondition" in line and "violated" in line or "POSTCONDITION" in line and "false" in line.lower():
            r.postcondition_failed = True
        if "Error: Deadlock reached" in line:
            r.deadlock = True
        m = _COV_RE.match(line)
        if m:
            r.coverage[m.group(1)] = (int(m.group(3)), int(m.group(4)))
        if line.startswith("<<") or line.startswith('"') or line.startswith("["):
            r.printed.append(line)
    clean = ("Model checking completed. No error has been found" in p.stdout) or \
            (simulate and p.returncode == 0)
    r.ok = bool(clean) and r.invariant is None and not r.postcondition_failed and not r.deadlock
    if not r.ok and r.invariant is None and not r.postcondition_failed and not r.deadlock:
        # not a property verdict: parse / semantic / evaluation error
        tail = "\n".join(p.stdout.splitlines()[-40:])
        raise ToolError("TLC failed (rc=%s) on %s/%s:\n%s" % (p.returncode, spec_dir, cfg, tail))
    if not r.ok:
        r.error_trace = "\n".join(p.stdout.splitlines()[-120:])
    return r


def require_coverage(r, actions):
    """Anti-vacuity: every listed action must have been taken at least once."""
    missing = [a for a in actions if r.coverage.get(a, (0, 0))[1] == 0 and r.coverage.get(a, (0, 0))[0] == 0]
    if missing:
        raise ToolError("vacuous TLC run: actions never taken: %s" % missing)


def printed_json(r, marker, required=False):
    """Extract JSON payloads printed by TLC as  <<"MARKER", "<json string>">> .  TLC pretty-prints
    long tuples over several lines, so the whole output is scanned, not single lines.
    required=True: raise ToolError when no such payload was printed (an eof marker must exist)."""
    out = []
    pat = re.compile(r'<<\s*"' + re.escape(marker) + r'",\s*"((?:[^"\\]|\\.)*)"\s*>>', re.S)
    for m in pat.finditer(r.out):
        raw = m.group(1)
        try:
            sdec = raw.encode("utf-8").decode("unicode_escape")
            out.append(json.loads(sdec))
        except Exception as e:  # noqa: BLE001
            raise ToolError("cannot decode %s payload printed by TLC: %s: %s" % (marker, e, raw[:200]))
    if required and not out:
        raise ToolError("TLC printed no %s payload (expected at eof)" % marker)
    return out


def validate_trace(spec_dir, module, trace_path, cfg=None, timeout=600, env=None, xmx="4g", tag=None):
    """Trace validation: TLC on the trace spec with IOEnv TRACE=trace_path, depth-first queue,
    one worker.  Returns (accepted: bool, TlcResult)."""
    e = {"TRACE": trace_path}
    if env:
        e.update(env)
    r = tlc(spec_dir, module, cfg=cfg, workers=1, env=e, timeout=timeout, coverage=False,
            dfs=True, xmx=xmx, xss="1g", tag=tag or (module + "_tv"))
    return r.ok, r


# ----------------------------------------------------------------------------------------------
# cargo
# ----------------------------------------------------------------------------------------------
def ensure_lock(ws=None):
    """The harness workspace uses /repo's Cargo.lock as its starting lockfile (offline)."""
    dst = os.path.join(ws or HARNESS, "Cargo.lock")
    if not os.path.exists(dst):
        shutil.copy(os.path.join(REPO, "Cargo.lock"), dst)


def cargo_build(package, bins=None, release=True, timeout=3600, features=None, workspace="harness"):
    """cargo build --offline -p package in the harness workspace (rebuilds from /repo's tree
    through the path dependencies).  Returns the directory holding the binaries."""
    ws = os.path.join(ROOT, workspace)
    ensure_lock(ws)
    cmd = ["cargo", "build", "--offline", "-p", package]
    if release:
        cmd.append("--release")
    for b in (bins or []):
        cmd += ["--bin", b]
    if features:
        cmd += ["--features", ",".join(features)]
    e = dict(os.environ)
    e["CARGO_NET_OFFLINE"] = "true"
    t0 = time.time()
    try:
        p = subprocess.run(cmd, cwd=ws, env=e, stdout=subprocess.PIPE, stderr=subprocess.STDOUT,
                           text=True, errors="replace", timeout=timeout)
    except subprocess.TimeoutExpired:
        raise ToolError("cargo build timeout: %s" % package)
    if p.returncode != 0:
        raise ToolError("cargo build failed for %s:\n%s" % (package, "\n".join(p.stdout.splitlines()[-60:])))
    log("cargo build %s: %.1fs" % (package, time.time() - t0))
    return os.path.join(ws, "target", "release" if release else "debug")


def run_bin(path, args=None, stdin=None, timeout=1800, env=None, cwd=None):
    e = dict(os.environ)
    e.setdefault("VERIF_SEED", str(seed()))
    e["RUST_BACKTRACE"] = "0"
    if env:
        e.update({k: str(v) for k, v in env.items()})
    try:
        p = subprocess.run([path] + [str(a) for a in (args or [])], input=stdin, cwd=cwd or ROOT, env=e,
                           stdout=subprocess.PIPE, stderr=subprocess.PIPE, text=True, errors="replace",
                           timeout=timeout)
    except subprocess.TimeoutExpired:
        raise ToolError("harness binary timeout: %s %s" % (path, args))
    return p


def read_ndjson(path):
    out = []
    with open(path) as f:
        for line in f:
            line = line.strip()
            if line:
                out.append(json.loads(line))
    return out


def write_ndjson(path, rows):
    with open(path, "w") as f:
        for r in rows:
            f.write(json.dumps(r, separators=(",", ":")) + "\n")


# ----------------------------------------------------------------------------------------------
# state hashing / cache of family runs
# ----------------------------------------------------------------------------------------------
def _hash_tree(h, top, skip=()):
    for dp, dn, fn in os.walk(top):
        dn[:] = sorted(d for d in dn if d not in skip)
        for f in sorted(fn):
            p = os.path.join(dp, f)
            h.update(p.encode())
            try:
                with open(p, "rb") as fh:
                    h.update(fh.read())
            except OSError:
                pass


def repo_state_hash():
    h = hashlib.sha256()
    for cmd in (["git", "rev-parse", "HEAD"], ["git", "diff", "HEAD"],
                ["git", "ls-files", "--others", "--exclude-standard"]):
        p = subprocess.run(cmd, cwd=REPO, stdout=subprocess.PIPE, stderr=subprocess.DEVNULL)
        h.update(p.stdout)
        if cmd[1] == "ls-files":
            for f in p.stdout.decode(errors="replace").splitlines():
                try:
                    with open(os.path.join(REPO, f), "rb") as fh:
                        h.update(fh.read())
                except OSError:
                    pass
    return h.hexdigest()[:16]


def verif_state_hash(family):
    h = hashlib.sha256()
    _hash_tree(h, os.path.join(ROOT, "lib"), skip=("__pycache__",))
    _hash_tree(h, os.path.join(ROOT, "spec"), skip=("states",))
    _hash_tree(h, HARNESS, skip=("target", "gen"))
    _hash_tree(h, os.path.join(ROOT, "harness_hydro"), skip=("target", "gen"))
    _hash_tree(h, os.path.join(ROOT, "known_findings.d"))
    for f in ("check", "known_findings.json"):
        try:
            with open(os.path.join(ROOT, f), "rb") as fh:
                h.update(fh.read())
        except OSError:
            pass
    return h.hexdigest()[:16]


def cache_get(family, tier):
    if os.environ.get("VERIF_NOCACHE"):
        return None
    key = "%s-%s-%s-%s-%s" % (family, tier, seed(), repo_state_hash(), verif_state_hash(family))
    p = os.path.join(rundir("cache"), key + ".json")
    if os.path.exists(p):
        try:
            with open(p) as f:
                return json.load(f)
        except Exception:
            return None
    return None


def cache_put(family, tier, data):
    key = "%s-%s-%s-%s-%s" % (family, tier, seed(), repo_state_hash(), verif_state_hash(family))
    p = os.path.join(rundir("cache"), key + ".json")
    with open(p, "w") as f:
        json.dump(data, f)


# ----------------------------------------------------------------------------------------------
# results, findings, evidence
# ----------------------------------------------------------------------------------------------
class PropResult:
    """Accumulates what one run covered for one property."""

    def __init__(self, pid):
        self.pid = pid
        self.states = 0
        self.transitions = 0
        self.traces = 0            # behaviours replayed into impl + impl traces validated by TLC
        self.evaluations = 0
        self.distinct_nontrivial = 0
        self.rule = ""
        self.samples = []
        self.violations = []       # dicts: {fingerprint, what, replay}
        self.drift = []
        self.assumptions = []
        self.extra = {}
        self.jobs = []

    def add_tlc(self, r, name=None):
        self.states += r.distinct
        self.transitions += r.generated
        self.jobs.append({"job": name or "tlc", "distinct_states": r.distinct,
                          "states_generated": r.generated, "wall_s": round(r.wall, 2),
                          "coverage": {k: v[1] for k, v in r.coverage.items()} if r.coverage else {}})

    def violation(self, fingerprint, what, replay_obj):
        same = [v for v in self.violations if v["fingerprint"] == fingerprint]
        if len(same) >= 2:      # keep two witnesses per fingerprint, count the rest
            self.extra["more_" + fingerprint] = self.extra.get("more_" + fingerprint, 0) + 1
            return
        d = rundir("replay", self.pid)
        name = re.sub(r"[^A-Za-z0-9_.-]", "_", fingerprint)[:80]
        path = os.path.join(d, "%s_%d.json" % (name, len(self.violations)))
        with open(path, "w") as f:
            json.dump({"property": self.pid, "fingerprint": fingerprint, "what": what,
                       "case": replay_obj}, f, indent=1, default=str)
        self.violations.append({"fingerprint": fingerprint, "what": what, "replay": path})

    def merge(self, other, label):
        """Fold the result of a contributing family into this one."""
        self.states += other.states
        self.transitions += other.transitions
        self.traces += other.traces
        self.evaluations += other.evaluations
        self.distinct_nontrivial += other.distinct_nontrivial
        if other.rule:
            self.rule = (self.rule + " | " if self.rule else "") + "[%s] %s" % (label, other.rule)
        self.samples = list(self.samples) + [{"from_family": label, **s} if isinstance(s, dict) else s
                                             for s in other.samples[:2]]
        self.violations += other.violations
        self.drift += other.drift
        self.assumptions += [a for a in other.assumptions if a not in self.assumptions]
        for j in other.jobs:
            self.jobs.append({"family": label, **j})
        for k, v in other.extra.items():
            self.extra["%s:%s" % (label, k)] = v

    def to_json(self):
        return dict(self.__dict__)

    @staticmethod
    def from_json(d):
        r = PropResult(d["pid"])
        r.__dict__.update(d)
        return r


def load_known():
    out = {"findings": [], "fixed": []}
    paths = [os.path.join(ROOT, "known_findings.json")]
    dd = os.path.join(ROOT, "known_findings.d")
    if os.path.isdir(dd):
        paths += [os.path.join(dd, f) for f in sorted(os.listdir(dd)) if f.endswith(".json")]
    for p in paths:
        if os.path.exists(p):
            with open(p) as f:
                d = json.load(f)
            out["findings"] += d.get("findings", [])
            out["fixed"] += d.get("fixed", [])
    return out


def finish(res, tier, level, wall, design_ref=None):
    """Write evidence, print KNOWN-FINDING / VIOLATION lines, return exit code."""
    known = load_known()
    kf = {(k["property"], k["fingerprint"]): k for k in known.get("findings", [])}
    new_viol, known_hits = [], {}
    for v in res.violations:
        k = kf.get((res.pid, v["fingerprint"]))
        if k is not None:
            known_hits.setdefault(v["fingerprint"], (k, v))
        else:
            new_viol.append(v)
    cov = {
        "states": res.states,
        "transitions": res.transitions,
        "traces_validated_against_impl": res.traces,
        "evaluations": res.evaluations,
        "distinct_nontrivial": res.distinct_nontrivial,
        "rule": res.rule,
        "samples": res.samples[:6] if res.samples else [],
        "jobs": res.jobs,
        "model_drift": res.drift[:20],
        "known_findings_hit": sorted(known_hits.keys()),
    }
    cov.update(res.extra)
    ev = {
        "property_id": res.pid,
        "tier": tier,
        "seed": seed(),
        "level": level,
        "coverage": cov,
        "assumptions": res.assumptions,
        "wall_s": round(wall, 2),
        "violations": len(new_viol),
    }
    os.makedirs(EVID, exist_ok=True)
    tmp = os.path.join(EVID, res.pid + ".json.tmp")
    with open(tmp, "w") as f:
        json.dump(ev, f, indent=1, default=str)
    os.replace(tmp, os.path.join(EVID, res.pid + ".json"))
    for fp, (k, v) in sorted(known_hits.items()):
        print("KNOWN-FINDING: property=%s %s [%s]" % (res.pid, k["what"], fp), flush=True)
    for v in new_viol:
        print("VIOLATION property=%s replay=%s" % (res.pid, v["replay"]), flush=True)
        log("  " + v["fingerprint"] + ": " + v["what"])
    return 1 if new_viol else 0
