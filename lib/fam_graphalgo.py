"""C17 -- graph ordering and subgraph-merging algorithms (dfir_lang graph_algorithms.rs topo_sort /
SubgraphMerge, union_find.rs UnionFind).
Jobs: (1) TLC model-checks the implementation-shaped model GraphAlgoImpl (transcribed DFS topo sort,
try_merge window re-sort, union-find with path compression) against the relational monitor GraphAlgo
for all small inputs and prints every case with the model's predicted results; (2) a strided subset of
those cases is replayed into the real code and the recorded results are validated by TLC against the
monitor (GraphAlgoTrace); (3) seeded random larger cases, trace-validated; (4) canaries: corrupted good
traces must be rejected."""
import concurrent.futures
import json
import os

import vlib

PROPS = ["C17"]
ENGINE = "spec/GraphAlgo: relational monitor + implementation-shaped model (TLC exhaustive over all small digraphs / merge sequences / union-find call sequences), replay of TLC cases into the real topo_sort / SubgraphMerge / UnionFind, trace validation of seeded random larger cases"
MANIFEST = {
    "C17": {
        "text": "TLC checks the transcribed topo_sort DFS, SubgraphMerge::try_merge (enemy check, windowed cycle check, window re-sort) and UnionFind (path compression) against the relational C17 spec for every digraph on <=4 nodes (topo_sort), every DAG on <=3 nodes x enemy sets x merge sequences (thinned) plus pseudo-random sequences on every 4-node DAG x enemy set, and union-find call sequences; the predicted cases are replayed into the real dfir_lang code and seeded random 5..12-node cases are recorded; TLC validates every recorded result (Ok iff acyclic, order topological, reported cycle genuine, try_merge verdict exactly as specified, subgraphs() contiguous/topological, no enemies merged, no inter-group cycle, union-find connectivity).",
        "note": "Bounded: exhaustive to 4 nodes (merge sequences of 3 attempts, <=1-2 enemy pairs), random to 9 (quick) / 12 (thorough) nodes. Keys are slotmap keys created in increasing order; predecessor lists ascending in the exhaustive part, shuffled with duplicates in the random part.",
        "technique": "TLA+ spec model-checked with TLC + conformance (TLC cases replayed into the code; code traces validated by TLC)",
        "design_ref": "DESIGN.md §6.10",
    },
}

SD = os.path.join(vlib.SPEC, "GraphAlgo")


def _write_cfg(name, c):
    p = os.path.join(vlib.rundir("cfg"), name)
    with open(p, "w") as f:
        f.write("SPECIFICATION Spec\nCONSTANTS\n")
        for k, v in c.items():
            f.write("  %s = %s\n" % (k, v))
        f.write("INVARIANTS C17Inv ImplInv Emit\nCHECK_DEADLOCK FALSE\n")
    return p


def _validate_one(args):
    path, tag = args
    ok, r = vlib.validate_trace(SD, "GraphAlgoTrace", path, tag=tag, timeout=1500)
    return ok, r


def _validate(trace, res, what, chunks=4):
    """Trace validation, split into `chunks` independent TLC runs (cases are independent)."""
    rows = [r for r in vlib.read_ndjson(trace) if r.get("e") != "eof"]
    n = max(1, min(chunks, (len(rows) + 199) // 200))
    d = os.path.dirname(trace)
    jobs = []
    for i in range(n):
        part = rows[i::n]
        p = os.path.join(d, "%s_part%d.ndjson" % (what, i))
        vlib.write_ndjson(p, part + [{"e": "eof"}])
        jobs.append((p, "ga_%s_%d" % (what, i)))
    viol, drift = [], []
    with concurrent.futures.ThreadPoolExecutor(max_workers=n) as ex:
        for (ok, r), (p, _tag) in zip(ex.map(_validate_one, jobs), jobs):
            if not ok:
                raise vlib.ToolError("trace not consumed by GraphAlgoTrace (%s):\n%s" % (what, r.error_trace[-2000:]))
            v = vlib.printed_json(r, "VIOL")
            dr = vlib.printed_json(r, "DRIFT")
            if not v:
                raise vlib.ToolError("GraphAlgoTrace printed no VIOL line (%s)" % what)
            viol += v[0]
            drift += dr[0] if dr else []
            res.add_tlc(r, "trace-validation:" + what)
    return viol, drift, rows


def _nontrivial(c):
    m = c.get("mode")
    if m == "topo":
        return len(c.get("edges", [])) >= 2
    if m == "merge":
        return c.get("ok") and len(c.get("edges", [])) >= 2 and any(x["ret"] for x in c.get("merges", [])) \
            and any(not x["ret"] for x in c.get("merges", []))
    if m == "uf":
        return sum(1 for x in c.get("calls", []) if x["op"] == "union" and x["a"] != x["b"]) >= 2
    return False


def _key(c):
    return json.dumps({k: c.get(k) for k in ("mode", "n", "edges", "enemies", "ids")}
                      | {"ops": [(m["u"], m["v"]) for m in c.get("merges", [])] +
                                [(x["op"], x["a"], x["b"]) for x in c.get("calls", [])]}, sort_keys=True)


def _report(res, viol, rows, what):
    by_case = {r.get("case"): r for r in rows}
    for case, rule in viol:
        rec = by_case.get(case, {})
        res.violation("graphalgo/%s/%s" % (rec.get("mode", "?"), rule),
                      "rule %s broken in %s case %s (n=%s)" % (rule, what, case, rec.get("n")),
                      {"record": rec})


def run(tier):
    res = vlib.PropResult("C17")
    thorough = tier == "thorough"
    bindir = vlib.cargo_build("hv_graph", bins=["graph_algo"])
    exe = os.path.join(bindir, "graph_algo")
    d = vlib.rundir("graphalgo")

    # (1) design: exhaustive model check of the implementation-shaped model; every case is printed
    consts = {"MaxN": 4, "PermN": 3, "MaxMerges": 3, "MaxEnemies": 2 if thorough else 1,
              "UfKeys": 4 if thorough else 3, "UfOps": 3, "Modes": '{"topo", "merge", "uf"}',
              "Variants": 8 if thorough else 1, "ThinLo": 1 if thorough else 5, "ThinUf": 1 if thorough else 4,
              "EMIT": "TRUE"}
    cfg = _write_cfg("ga_mc.cfg", consts)
    # -coverage is unusable with the deeply recursive operators of this module (TLC runs out of memory);
    # anti-vacuity is established from the emitted cases below instead.
    r = vlib.tlc(SD, "GraphAlgoImpl", cfg=cfg, workers=8, timeout=3000, coverage=False, xmx="6g")
    if not r.ok:
        raise vlib.ToolError("GraphAlgoImpl model check failed (spec/design error):\n" + r.error_trace[-3000:])
    res.add_tlc(r, "GraphAlgoImpl exhaustive")
    cases = vlib.printed_json(r, "CASE")
    cls = {"topo-ok": 0, "topo-err": 0, "new-err": 0, "merge-true": 0, "merge-noop": 0, "merge-refused-enemy": 0,
           "merge-refused-cycle": 0, "merge-resort": 0, "uf-union": 0, "uf-find": 0, "uf-same": 0}
    for c in cases:
        if c["mode"] == "topo":
            cls["topo-ok" if c["ok"] else "topo-err"] += 1
        elif c["mode"] == "merge":
            if not c["ok"]:
                cls["new-err"] += 1
                continue
            en = {frozenset(p) for p in c["enemies"]}
            prev = c["sgs0"]
            for m in c["merges"]:
                grp = {x: tuple(s) for s in prev for x in s}
                if grp[m["u"]] == grp[m["v"]]:
                    cls["merge-noop"] += 1
                elif m["ret"]:
                    cls["merge-true"] += 1
                    flat_prev = [x for s in prev for x in s]
                    flat_now = [x for s in m["sgs"] for x in s]
                    if flat_prev != flat_now:
                        cls["merge-resort"] += 1
                elif any(frozenset((a, b)) in en for a in grp[m["u"]] for b in grp[m["v"]]):
                    cls["merge-refused-enemy"] += 1
                else:
                    cls["merge-refused-cycle"] += 1
                prev = m["sgs"]
        else:
            for x in c["calls"]:
                cls["uf-" + x["op"]] += 1
    empty = [k for k, v in cls.items() if v == 0]
    if empty or len(cases) < 5000:
        raise vlib.ToolError("vacuous GraphAlgoImpl run: %d cases, empty classes %s" % (len(cases), empty))
    res.extra["model_case_classes"] = cls
    res.evaluations += len(cases)

    # (2) spec -> code: strided subset of the model's cases replayed into the real code
    cap = 30000 if thorough else 3000
    by_mode = {}
    for c in cases:
        by_mode.setdefault(c["mode"], []).append(c)
    chosen = []
    for m, lst in sorted(by_mode.items()):
        lst.sort(key=_key)
        share = max(1, cap // 3)
        step = max(1, len(lst) // share)
        chosen += lst[::step]
    casefile = os.path.join(d, "cases.ndjson")
    vlib.write_ndjson(casefile, chosen)
    trace = os.path.join(d, "replay_trace.ndjson")
    p = vlib.run_bin(exe, ["replay", casefile, trace])
    if p.returncode != 0:
        raise vlib.ToolError("graph_algo replay failed: " + p.stderr[-2000:])
    summ = json.loads(p.stdout.strip().splitlines()[-1])
    viol, drift, rows = _validate(trace, res, "replay", chunks=6 if thorough else 4)
    res.traces += summ["cases"]
    res.evaluations += summ["cases"]
    seen = {_key(c) for c in chosen if _nontrivial(c)}
    for dr in summ["drift"][:10]:
        res.drift.append({"kind": "exact result differs from GraphAlgoImpl's prediction", "case": dr.get("case"),
                          "model": dr.get("model"), "impl": dr.get("impl")})
    for case, fact in drift[:10]:
        res.drift.append({"kind": "implementation fact", "fact": fact, "case": case})
    _report(res, viol, rows, "replayed")
    mid = [c for c in chosen if c["mode"] == "merge" and c.get("ok") and len(c["merges"]) >= 3]
    if mid:
        res.samples.append({"kind": "replayed TLC case (SubgraphMerge)", **mid[len(mid) // 2]})

    # (3) code -> spec: seeded random larger cases
    count = 5000 if thorough else 400
    rtrace = os.path.join(d, "random_trace.ndjson")
    p = vlib.run_bin(exe, ["random", count, 12 if thorough else 9, rtrace])
    if p.returncode != 0:
        raise vlib.ToolError("graph_algo random failed: " + p.stderr[-2000:])
    summ = json.loads(p.stdout.strip().splitlines()[-1])
    viol, drift, rrows = _validate(rtrace, res, "random", chunks=6 if thorough else 4)
    res.traces += summ["cases"]
    res.evaluations += summ["cases"]
    for rec in rrows:
        if rec.get("e") == "case" and _nontrivial(rec):
            seen.add(_key(rec))
    for case, fact in drift[:10]:
        res.drift.append({"kind": "implementation fact (random)", "fact": fact, "case": case})
    _report(res, viol, rrows, "random")
    big = [x for x in rrows if x.get("mode") == "merge" and x.get("ok") and x.get("n", 0) >= 7]
    if big:
        res.samples.append({"kind": "random case (SubgraphMerge, real results)", **big[0]})
    tp = [x for x in rrows if x.get("mode") == "topo" and not x.get("ok")]
    if tp:
        res.samples.append({"kind": "random case (topo_sort on a cyclic graph, real result)", **tp[0]})
    res.distinct_nontrivial = len(seen)

    # (4) canaries: a flipped try_merge verdict and a reversed topological order must be flagged
    can = []
    model_rows = [dict(c, e="case", case=0) for c in chosen]   # the model's predicted records (known good)
    for rec in model_rows:
        if rec.get("mode") == "merge" and rec.get("ok") and any(m["ret"] and m["u"] != m["v"] for m in rec["merges"]):
            c2 = json.loads(json.dumps(rec))
            for m in c2["merges"]:
                if m["ret"] and m["u"] != m["v"]:
                    m["ret"] = False
                    break
            c2["case"] = 1
            can.append(c2)
            break
    for rec in model_rows:
        if rec.get("mode") == "topo" and rec.get("ok") and len(rec["edges"]) >= 1 and len(rec["res"]) >= 2 \
                and all(a != b for a, b in rec["edges"]):
            c2 = json.loads(json.dumps(rec))
            c2["res"] = list(reversed(c2["res"]))
            c2["case"] = 2
            can.append(c2)
            break
    for rec in model_rows:
        if rec.get("mode") == "uf" and any(x["op"] == "same" for x in rec["calls"]):
            c2 = json.loads(json.dumps(rec))
            for x in c2["calls"]:
                if x["op"] == "same":
                    x["ret"] = 1 - x["ret"]
                    break
            c2["case"] = 3
            can.append(c2)
            break
    if len(can) < 3:
        raise vlib.ToolError("could not build the canary cases")
    ctrace = os.path.join(d, "canary_trace.ndjson")
    vlib.write_ndjson(ctrace, can + [{"e": "eof"}])
    tmp = vlib.PropResult("C17")
    cviol, _, _ = _validate(ctrace, tmp, "canary", chunks=1)
    flagged = {c for c, _ in cviol}
    if flagged != {1, 2, 3}:
        raise vlib.ToolError("canaries not rejected by the trace spec: flagged=%s" % sorted(flagged))
    res.extra["canary"] = "flipped try_merge verdict / reversed topo order / flipped same_set all rejected: %s" % cviol[:3]

    res.rule = ("cases = one object with its calls (topo_sort call; SubgraphMerge::new + try_merge sequence; UnionFind call "
                "sequence); non-trivial = topo: >=2 edges; merge: >=2 edges with at least one accepted and one refused "
                "attempt; uf: >=2 proper unions; distinct by inputs; counted over the cases run through the real code")
    res.assumptions = ["slotmap keys are created in increasing order (as DfirGraph does) so key order = node number",
                       "find() probes after each try_merge compress paths (observable results are unaffected)",
                       "TLC -coverage cannot be used on this module (out of memory); anti-vacuity = non-empty result classes of the emitted cases"]
    return {"C17": res}


def replay(pid, path):
    with open(path) as f:
        rep = json.load(f)
    d = vlib.rundir("graphalgo")
    t = os.path.join(d, "replay_one.ndjson")
    rec = rep["case"]["record"]
    vlib.write_ndjson(t, [rec, {"e": "eof"}])
    tmp = vlib.PropResult(pid)
    viol, _, _ = _validate(t, tmp, "replay_one", chunks=1)
    print("recorded case re-validated; rules broken:", viol)
    return 1 if viol else 0
