"""C01 C02 C03 C04 C06 C07 -- the lattice algebra of the `lattices` crate (+ lattices_macro derive).

Jobs (one shared run for the six properties):
 (1) TLC checks the lattice laws ON THE MODEL (spec/Lattice/LatticeMC): every descriptor of the
     catalogue x every value: ACI, Leq <=> Join, partial order, lub, bottom/top, atoms, Changed;
     bimorphism distributivity; the documented non-lattice (DomPair over a non-total key).
 (2) the same TLC run writes vectors (definitions in LatticeGen): all values, all pairs, a spread
     sample of triples, all bimorphism argument triples, with the model's expected scalar outputs.
 (3) harness bin `lattice replay` rebuilds every vector in every backing representation the crate
     ships (receiver x argument representation), runs the real merge / merge_owned / partial_cmp /
     == / < <= > >= != / is_bot / is_top / Default / atomize / lattice_from / bimorphism call and
     records what the code returned; TLC (LatticeTrace) re-evaluates every recorded operation.
 (4) seeded random larger values, recorded and validated the same way.
 (5) union-find histories (spec/UnionFind): TLC model checks the implementation-shaped model of
     find/union/same/merge (from the empty map, and from ARBITRARY parent maps), prints every
     behaviour; the bin `unionfind` replays them into the real UnionFind on every backing map;
     TLC (UnionFindTrace) validates the recorded traces; seeded random longer histories.
 (6) canaries: corrupted copies of good recorded events must be flagged by the trace specs.
"""
import collections
import concurrent.futures
import json
import os

import vlib

PROPS = ["C01", "C02", "C03", "C04", "C06", "C07"]
ENGINE = "spec/Lattice (type descriptors + recursive Reps/Abs/Join/Leq/IsBot/IsTop/Atoms, laws model-checked by TLC; TLC-generated vectors replayed into every backing representation; LatticeTrace re-evaluates every recorded real operation) + spec/UnionFind (implementation-shaped find/union/same/merge model, R-mode replay, trace validation)"
_T = "TLA+ spec model-checked with TLC + conformance (TLC vectors/behaviours replayed into the code; code traces validated by TLC)"
MANIFEST = {
    "C01": {
        "text": "TLC checks associativity/commutativity/idempotence of Join on the model for every catalogued descriptor (34 types incl. nestings, derived struct, union-find) over its whole small carrier; the real merge_owned is run on all values, pairs and a spread sample of triples in every receiver representation and on seeded random larger values; TLC re-evaluates each recorded law instance both through the type's own == and through Abs-equality. For C01 DomPair is taken over totally ordered keys only (TLC confirms that associativity fails over a set / vector-clock key; those DomPairs are still checked for C02/C03/C04); Point only merges equal values.",
        "note": "Bounded: element domains 3 values, 2 keys, vec length <= 2, nesting depth 2 (wider in thorough); random values up to 6 elements. Tombstone variants belong to C05's family. Array/Vec backed sets/maps are only built with distinct keys.",
        "technique": _T,
        "design_ref": "DESIGN.md §6.1, §6.2",
    },
    "C02": {
        "text": "Every recorded real merge call (all pairs of every catalogued type, every receiver x argument representation incl. cross-representation Merge<Other>, plus random larger values) has its returned flag compared by TLC with Changed(t,a,b) == Join(a,b) # a on abstract values (bottom map entries, Some(bot), representation differences abstracted away).",
        "note": "Same bounds as C01. SetUnion<Vec> is not used as a receiver (it is not a `Lattice`: no PartialOrd/Eq; extend() appends duplicates).",
        "technique": _T,
        "design_ref": "DESIGN.md §6.1",
    },
    "C03": {
        "text": "partial_cmp, ==, <, <=, >, >=, != (same- and cross-representation), is_bot, is_top and Default of the real code are recorded for all values/pairs and compared by TLC with Cmp/IsBot/IsTop of the model; TLC checks on the model that Leq is a partial order, agrees with Join, and that IsBot/IsTop are exactly least/greatest.",
        "note": "WithTop::is_top (45038df10b0) and UnionFind::find (263fd4bfaa9) were fixed after this check found them; regressions are reported as withtop/is_top/some-inner-top / uf/find/rho-cycle. Set/map/vec/union-find carriers are taken as unbounded (no greatest element).",
        "technique": _T,
        "design_ref": "DESIGN.md §6.1, §9 item 4",
    },
    "C04": {
        "text": "Every recorded merge / merge_owned / lattice_from result of every representation is Abs-compared by TLC with the model Join (incl. DomPair over partially ordered set / vector-clock keys: greater key wins, equal or incomparable keys merge key and value); union-find: TLC model checks the implementation-shaped find/union/same/merge against the partition semantics for all scripts from the empty map and for all arbitrary parent maps (find with Brent-style cycle detection terminates on every map; the pre-fix loop diverged exactly on rho-shaped maps), replays every behaviour into the real UnionFind on every backing map and validates the recorded results, revealed parent maps and termination (step budget).",
        "note": "uf/find/rho-cycle was fixed in 263fd4bfaa9 (a regression is reported under that fingerprint). Union-find bounds: 3 items, scripts <= 3 calls (4 items / longer in thorough), random histories 8 items x 12 calls.",
        "technique": _T,
        "design_ref": "DESIGN.md §6.1, §6.2, §9 item 1",
    },
    "C06": {
        "text": "atomize() of every value of every atomizable catalogued type (set, map nestings, with-bot/with-top, unit, union-find) is recorded; TLC checks the atoms are non-bottom, empty exactly for bottom, re-join to the value in the model, and that the real re-merge into Default is Abs-equal and == to the original.",
        "note": "Same bounds as C01.",
        "technique": _T,
        "design_ref": "DESIGN.md §6.1",
    },
    "C07": {
        "text": "CartesianProductBimorphism, KeyedBimorphism(CartesianProduct) and PairBimorphism: TLC checks distributivity in each argument on the model; for all argument triples (a, delta, b) the real f(a|_|delta, b) and f(a,b)|_|f(delta,b) (and the right-hand variants) are recorded in several representations and compared by TLC with each other, through ==, and with the model output.",
        "note": "GHT bimorphisms belong to the TupleStore family (C08). Bounded as C01.",
        "technique": _T,
        "design_ref": "DESIGN.md §6.1",
    },
}

SDL = os.path.join(vlib.SPEC, "Lattice")
SDU = os.path.join(vlib.SPEC, "UnionFind")

# which recorded operations bear on which property
OPS_OF = {
    "C01": {"idem", "comm", "assoc"},
    "C02": {"merge"},
    "C03": {"cmp", "un", "default"},
    "C04": {"merge", "from", "comm", "assoc"},
    "C06": {"atoms"},
    "C07": {"bimo"},
}
# rust-side cross-check of scalar outputs (field of a result group) -> trace-spec rule suffix
XCHECK = {"flag": "/merge/flag", "c": "/partial_cmp/result", "bot": "/is_bot/result", "top": "/is_top/result"}


def _cfg(name, text):
    p = os.path.join(vlib.rundir("cfg"), name)
    with open(p, "w") as f:
        f.write(text)
    return p


def _tf(b):
    return "TRUE" if b else "FALSE"


# ----------------------------------------------------------------------------------------------
# trace validation helpers
# ----------------------------------------------------------------------------------------------
def _validate_lattice(trace, wide, tag, chunks=1):
    """Returns (viol list of [line, group, rule], [TlcResult]); line numbers are 1-based lines
    of `trace`.  Large traces are cut into chunks validated by parallel TLC processes."""
    cfg = _cfg("lat_trace_%s.cfg" % _tf(wide), "SPECIFICATION TSpec\nCONSTANTS\n  WIDE = %s\nPOSTCONDITION TraceAccepted\nCHECK_DEADLOCK FALSE\n" % _tf(wide))
    with open(trace) as f:
        lines = [ln for ln in f if ln.strip()]
    body = [ln for ln in lines if '"op":"eof"' not in ln]
    n = max(1, min(chunks, (len(body) + 1999) // 2000))
    size = (len(body) + n - 1) // n if body else 1
    parts = []
    d = os.path.dirname(trace)
    for i in range(n):
        seg = body[i * size:(i + 1) * size]
        p = os.path.join(d, "%s.chunk%d.ndjson" % (os.path.basename(trace), i))
        with open(p, "w") as f:
            f.writelines(seg)
            f.write('{"op":"eof"}\n')
        parts.append((p, i * size))

    def one(arg):
        p, off = arg
        ok, r = vlib.validate_trace(SDL, "LatticeTrace", p, cfg=cfg, timeout=1500, tag="%s_c%d" % (tag, off))
        if not ok:
            raise vlib.ToolError("trace not consumed by LatticeTrace (%s):\n%s" % (p, r.error_trace[-2000:]))
        v = vlib.printed_json(r, "VIOL")
        if not v and r.distinct > 1:
            raise vlib.ToolError("LatticeTrace printed no VIOL line for %s" % p)
        return [[x[0] + off, x[1], x[2]] for x in (v[0] if v else [])], r

    viol, rs = [], []
    with concurrent.futures.ThreadPoolExecutor(max_workers=max(1, n)) as ex:
        for v, r in ex.map(one, parts):
            viol += v
            rs.append(r)
    return viol, rs, body


def _validate_uf(trace, tag):
    ok, r = vlib.validate_trace(SDU, "UnionFindTrace", trace, timeout=1500, tag=tag)
    if not ok:
        raise vlib.ToolError("trace not consumed by UnionFindTrace (%s):\n%s" % (trace, r.error_trace[-2000:]))
    v = vlib.printed_json(r, "VIOL")
    return (v[0] if v else []), r


def _uf_case_events(trace, cases):
    """events of the given cases (one pass over the trace)"""
    want, out, cur = set(cases), collections.defaultdict(list), None
    for e in vlib.read_ndjson(trace):
        if e.get("e") == "reset":
            cur = e.get("case")
        if cur in want and e.get("e") != "eof":
            out[cur].append(e)
    return out


def _uf_report(r4, viol, trace, what):
    """at most two witnesses per rule carry their events; the rest is only counted"""
    first = collections.defaultdict(list)
    for case, rule in viol:
        if len(first[rule]) < 2:
            first[rule].append(case)
    evs = _uf_case_events(trace, [c for cs in first.values() for c in cs]) if viol else {}
    for case, rule in viol:
        r4.violation("uf/" + rule, "union-find rule %s broken in %s %s" % (rule, what, case),
                     {"kind": "uf", "events": evs.get(case, [])})


def _trivial(v):
    return v in ([], 0, [[], []], [[], 0], [[], 0, []])


def _route(res, viol, events, what):
    """Distribute [line, group, rule] violations to the properties; one replay object each."""
    for line, gi, rule in viol:
        pid, fp = rule.split("|", 1)
        ev = json.loads(events[line - 1])
        fp = fp.replace("@", ev.get("ty", "?"))
        g = ev["g"][gi - 1]
        one = dict(ev)
        one["g"] = [g]
        res[pid].violation(fp, "%s: %s on %s %s, representations %s" % (
            what, rule.split("|", 1)[1], ev.get("ty"), json.dumps({k: ev[k] for k in ("a", "b", "c", "d") if k in ev}),
            g.get("reps", [])[:3]), {"kind": "lattice", "event": one})


def _account(res, events, summ, label):
    """Measured coverage per property from the recorded trace."""
    per = collections.Counter()
    distinct = collections.defaultdict(set)
    for ln in events:
        ev = json.loads(ln)
        op = ev["op"]
        per[op] += 1
        args = [ev[k] for k in ("a", "b", "c", "d") if k in ev]
        nontrivial = any(not _trivial(x) for x in args) and (len(args) < 2 or any(x != args[0] for x in args[1:]))
        if nontrivial:
            distinct[op].add((ev.get("ty"), json.dumps(args)))
    for pid in PROPS:
        ops = OPS_OF[pid]
        res[pid].traces += sum(per[o] for o in ops)
        res[pid].evaluations += sum(int(summ["per_op"].get(o, 0)) for o in ops)
        res[pid].distinct_nontrivial += sum(len(distinct[o]) for o in ops)
    return per


def _sample(res, events, label):
    want = {pid: 2 for pid in PROPS}
    step = max(1, len(events) // 400)
    for ln in events[len(events) // 3::step] + events[:len(events) // 3:step]:
        ev = json.loads(ln)
        if any(_trivial(ev.get(k)) for k in ("a", "b") if k in ev):
            continue
        for pid in PROPS:
            if want[pid] > 0 and ev["op"] in OPS_OF[pid]:
                ev2 = dict(ev)
                ev2["g"] = [dict(g, reps=g["reps"][:4] + (["...%d more" % (len(g["reps"]) - 4)] if len(g["reps"]) > 4 else [])) for g in ev["g"]]
                res[pid].samples.append({"kind": label, **ev2})
                want[pid] -= 1
        if not any(want.values()):
            break


# ----------------------------------------------------------------------------------------------
# jobs
# ----------------------------------------------------------------------------------------------
def _job_mc_gen(d, wide, thorough):
    """One TLC run: the laws on the model for every (descriptor, value) + the vector files."""
    out = os.path.join(d, "vec")
    if os.path.isdir(out):
        for f in os.listdir(out):
            os.remove(os.path.join(out, f))
    os.makedirs(out, exist_ok=True)
    cfg = _cfg("lat_mc.cfg", "SPECIFICATION Spec\nCONSTANTS\n  WIDE = %s\n  EMIT = TRUE\n  TRIPLECAP = %d\n  PAIRCAP = %d\n"
               "INVARIANTS TypeLaws ValueLawsHold NonLatticeDocumented BimoLawsHold\nCHECK_DEADLOCK FALSE\n"
               % (_tf(wide), 10 if thorough else 5, 60 if thorough else 20))
    r = vlib.tlc(SDL, "LatticeMC", cfg=cfg, workers=6, timeout=3000, env={"OUT": out})
    if not r.ok:
        raise vlib.ToolError("LatticeMC: a lattice law fails ON THE MODEL (spec error):\n" + r.error_trace[-3000:])
    vlib.require_coverage(r, ["PickType", "PickValue", "PickNonLattice", "PickBimo", "PickBimoValue", "EmitType", "EmitNonLattice", "EmitBimo"])
    nfiles = len([f for f in os.listdir(out) if f.endswith(".ndjson")])
    if nfiles < 40 or not os.path.exists(os.path.join(out, "dom_set_set.ndjson")):
        raise vlib.ToolError("LatticeMC wrote only %d vector files" % nfiles)
    return r, out


def _run_lattice_bin(exe, args):
    p = vlib.run_bin(exe, args, timeout=1500)
    if p.returncode != 0:
        raise vlib.ToolError("lattice %s failed: %s" % (args[0], p.stderr[-2000:]))
    return json.loads(p.stdout.strip().splitlines()[-1])


def _body(trace):
    with open(trace) as f:
        return [ln for ln in f if ln.strip() and '"op":"eof"' not in ln]


def _uf_fixed():
    return os.environ.get("VERIF_UF_FIXED", "1") != "0"


def _uf_cfg(name, items, modes, wf, mal, emit):
    # FIXED = TRUE models the shipped find (Brent-style cycle detection, /repo 263fd4bfaa9).
    # Dev switch VERIF_UF_FIXED=0: model the pre-fix loop 1 (diverges exactly on rho shapes).
    fixed = _uf_fixed()
    return _cfg(name, "SPECIFICATION Spec\nCONSTANTS\n  Items = {%s}\n  MODES = {%s}\n  MaxOpsWf = %d\n  MaxOpsMal = %d\n  EMIT = %s\n  FIXED = %s\n"
                "INVARIANTS ModelOK RhoExact NoUnwrapPanic Bounded FixedTerminates Emit\nCHECK_DEADLOCK FALSE\n"
                % (",".join(str(i) for i in range(items)), modes, wf, mal, _tf(emit), _tf(fixed)))


def _job_uf(exe, d, thorough):
    plan = [("q", 3, "TRUE, FALSE", 3, 1)]
    if thorough:
        plan = [("t3", 3, "TRUE, FALSE", 3, 2), ("t4", 4, "TRUE", 0, 1)]

    def gen(item):
        name, items, modes, wf, mal = item
        r = vlib.tlc(SDU, "UnionFindImpl", cfg=_uf_cfg("uf_%s.cfg" % name, items, modes, wf, mal, True), workers=2,
                     timeout=3000, tag="uf_" + name)
        if not r.ok:
            raise vlib.ToolError("UnionFindImpl (%s) model check failed (spec/design error):\n%s" % (name, r.error_trace[-3000:]))
        vlib.require_coverage(r, ["Begin", "Loop1", "Loop2"])
        cs = vlib.printed_json(r, "CASE")
        if len(cs) < 500:
            raise vlib.ToolError("UnionFindImpl (%s) printed only %d behaviours" % (name, len(cs)))
        if name == "t3":    # all 1-call and all from-empty behaviours, every third 2-call malformed one
            cs = [c for i, c in enumerate(cs) if len(c["ops"]) <= 1 or not c["init"] or i % 3 == 0]
        if name == "t4":    # 4 items: every second behaviour is replayed (all are model checked)
            cs = cs[::2]
        return ("UnionFindImpl exhaustive+emit (items=%d; from empty map: calls<=%d; arbitrary parent maps: calls<=%d)" % (items, wf, mal), r), cs

    jobs, cases = [], []
    with concurrent.futures.ThreadPoolExecutor(max_workers=len(plan)) as ex:
        for job, cs in ex.map(gen, plan):
            jobs.append(job)
            cases += cs
    if not any(c["init"] for c in cases) or not (_uf_fixed() or any(-1 in c["rets"] for c in cases)):
        raise vlib.ToolError("vacuous: no malformed / diverging union-find behaviour was generated")
    casefile = os.path.join(d, "uf_cases.ndjson")
    vlib.write_ndjson(casefile, cases)
    trace = os.path.join(d, "uf_replay_trace.ndjson")
    p = vlib.run_bin(exe, ["replay", casefile, trace], timeout=1500)
    if p.returncode != 0:
        raise vlib.ToolError("unionfind replay failed: " + p.stderr[-2000:])
    summ = json.loads(p.stdout.strip().splitlines()[-1])
    rtrace = os.path.join(d, "uf_random_trace.ndjson")
    p = vlib.run_bin(exe, ["random", 20000 if thorough else 600, 8, 12, rtrace], timeout=1500)
    if p.returncode != 0:
        raise vlib.ToolError("unionfind random failed: " + p.stderr[-2000:])
    rsumm = json.loads(p.stdout.strip().splitlines()[-1])
    # one combined trace: replayed behaviours (case k), random histories (case 1000000+k) and a
    # canary (case -1: a recorded good case with one `same` answer flipped)
    evs = [e for e in vlib.read_ndjson(trace) if e.get("e") != "eof"]
    revs = [e for e in vlib.read_ndjson(rtrace) if e.get("e") != "eof"]
    for e in revs:
        if e.get("e") == "reset":
            e["case"] += 1000000
    # canary (case -1): a good history whose last `same` answer is flipped (fixed, independent of the code)
    canary = [{"e": "reset", "case": -1, "rep": "canary", "init": []},
              {"e": "union", "a": 0, "b": 1, "ret": 1, "par": [[1, 0]]},
              {"e": "same", "a": 0, "b": 2, "ret": 1, "par": [[1, 0]]}]
    combined = os.path.join(d, "uf_all_trace.ndjson")
    vlib.write_ndjson(combined, evs + revs + canary + [{"e": "eof"}])
    allviol, r = _validate_uf(combined, "uf_tv")
    jobs.append(("trace-validation:union-find replay+random (%d events)" % (len(evs) + len(revs)), r))
    if not any(c == -1 and rule == "same/result" for c, rule in allviol):
        raise vlib.ToolError("canary: flipped `same` answer NOT flagged by UnionFindTrace")
    viol = [(c, rule) for c, rule in allviol if 0 < c < 1000000]
    rviol = [(c - 1000000, rule) for c, rule in allviol if c >= 1000000]
    return jobs, cases, summ, viol, trace, rsumm, rviol, rtrace


# ----------------------------------------------------------------------------------------------
# canaries
# ----------------------------------------------------------------------------------------------
# Fixed canary events: copies of good recorded events with ONE field corrupted (independent of
# the code under test, so a broken tree cannot make them pass by accident).  LatticeTrace must
# flag each with the named rule, otherwise the binding is not checking anything (tool error).
_CANARY = [
    ({"op": "merge", "ty": "map_set", "a": [[1, [0]]], "b": [[2, [1]]],
      "g": [{"r": [[1, [0]], [2, [1]]], "flag": 0, "ro": [[1, [0]], [2, [1]]], "reps": ["canary"]}]}, "merge/flag"),
    ({"op": "merge", "ty": "set", "a": [0], "b": [1, 2],
      "g": [{"r": [0, 1], "flag": 1, "ro": [0, 1, 2], "reps": ["canary"]}]}, "merge/result"),
    ({"op": "cmp", "ty": "map_max", "a": [[1, 1]], "b": [[1, 255]],
      "g": [{"c": 1, "eq": 0, "bits": 19, "reps": ["canary"]}]}, "partial_cmp/result"),
    ({"op": "un", "ty": "wb_set", "a": [[]], "g": [{"bot": 0, "top": 0, "reps": ["canary"]}]}, "is_bot/result"),
    ({"op": "atoms", "ty": "map_set", "a": [[1, [0, 1]]],
      "g": [{"atoms": [[[1, [0]]]], "abot": [0], "re": [[1, [0, 1]]], "eqre": 1, "reps": ["canary"]}]}, "atomize/atoms-do-not-rejoin"),
    ({"op": "assoc", "ty": "struct3", "a": [[0], 0, []], "b": [[1], 1, [0]], "c": [[], 0, [1]],
      "g": [{"l": [[0, 1], 1, [1]], "r": [[0, 1], 1, [1]], "eq": 0, "reps": ["canary"]}]}, "associative/eq"),
    ({"op": "bimo", "ty": "cart", "side": "L", "a": [0], "d": [1], "b": [0],
      "g": [{"o1": [[0, 0]], "o2": [[0, 0], [1, 0]], "eq": 0, "reps": ["canary"]}]}, "distributes/value"),
    ({"op": "from", "ty": "vec_set", "a": [[0], [1]], "g": [{"r": [[0]], "reps": ["canary"]}]}, "lattice_from/result"),
]


def _canary_events(events):
    return [json.dumps(e, separators=(",", ":")) + "\n" for e, _ in _CANARY], [w for _, w in _CANARY]


# ----------------------------------------------------------------------------------------------
def run(tier):
    thorough = tier == "thorough"
    wide = thorough
    res = {pid: vlib.PropResult(pid) for pid in PROPS}
    bindir = vlib.cargo_build("hv_lat", bins=["lattice", "unionfind"])
    exe = os.path.join(bindir, "lattice")
    ufexe = os.path.join(bindir, "unionfind")
    d = vlib.rundir("lattice")

    with concurrent.futures.ThreadPoolExecutor(max_workers=3) as ex:
        f_uf = ex.submit(_job_uf, ufexe, d, thorough)
        rtrace = os.path.join(d, "random_trace.ndjson")
        f_rnd = ex.submit(_run_lattice_bin, exe, ["random", 120 if thorough else 4, rtrace])
        r_mc, vecdir = _job_mc_gen(d, wide, thorough)
        trace = os.path.join(d, "replay_trace.ndjson")
        summ = _run_lattice_bin(exe, ["replay", vecdir, trace])
        rsumm = f_rnd.result()
        events = _body(trace)
        revents = _body(rtrace)
        cevents, cwant = _canary_events(events)
        # one combined trace (replayed vectors, random values, canaries), validated in chunks
        allt = os.path.join(d, "all_trace.ndjson")
        with open(allt, "w") as f:
            f.writelines(events + revents + cevents)
            f.write('{"op":"eof"}\n')
        allviol, rs_tv, allev = _validate_lattice(allt, wide, "lat_tv", chunks=10 if thorough else 3)
        uf_jobs, uf_cases, uf_summ, uf_viol, uf_trace, uf_rsumm, uf_rviol, uf_rtrace = f_uf.result()
    n1, n2 = len(events), len(events) + len(revents)
    viol = [v for v in allviol if v[0] <= n1]
    rviol = [[v[0] - n1, v[1], v[2]] for v in allviol if n1 < v[0] <= n2]
    cgot = {(v[0] - n2, v[2].split("|", 1)[1].split("/", 1)[1]) for v in allviol if v[0] > n2}
    missed = [(i + 1, w) for i, w in enumerate(cwant) if (i + 1, w) not in cgot]
    if missed:
        raise vlib.ToolError("canary: corrupted events NOT flagged by LatticeTrace: %s (got %s)" % (missed, sorted(cgot)))
    canary = ("8 corrupted copies of good recorded events (flag, merge result, partial_cmp, is_bot, atoms, assoc ==, "
              "bimorphism output, lattice_from) and a flipped union-find `same` answer were all flagged by the trace specs")

    # ---- harness consistency: scalar outputs cross-checked in Rust against the TLC vectors must
    # agree with the TLC verdict on the recorded trace
    rust_bad = {(m["line"], m["group"], XCHECK[m["field"]]) for m in summ["mismatch"]}
    tlc_bad = set()
    for line, gi, rule in viol:
        suffix = "/" + rule.split("|", 1)[1].split("/", 1)[1]
        if suffix.startswith("/is_top/"):      # incl. the regression class withtop/is_top/some-inner-top
            suffix = "/is_top/result"
        if suffix in XCHECK.values():
            tlc_bad.add((line, gi, suffix))
    if rust_bad != tlc_bad:
        raise vlib.ToolError("harness inconsistency: scalar cross-check in the harness and TLC verdict differ: only-harness=%s only-TLC=%s"
                             % (sorted(rust_bad - tlc_bad)[:5], sorted(tlc_bad - rust_bad)[:5]))
    if summ["ops"] < 20000 or len(events) < 5000:
        raise vlib.ToolError("vacuous replay: only %d operations / %d events" % (summ["ops"], len(events)))

    for pid in PROPS:
        res[pid].add_tlc(r_mc, "LatticeMC: laws on the model (all descriptors x all values; bimorphisms; non-lattice) + vector emission")
        for i, r in enumerate(rs_tv):
            res[pid].add_tlc(r, "trace-validation:replay+random chunk %d" % i)
    _account(res, events, summ, "replay")
    _account(res, revents, rsumm, "random")
    _sample(res, events, "vector replayed into every representation (g = distinct results of the real code)")
    _sample(res, revents, "seeded random value")
    _route(res, viol, events, "replayed vector")
    _route(res, rviol, revents, "random value")

    # ---- union-find histories (C04)
    r4 = res["C04"]
    for name, r in uf_jobs:
        r4.add_tlc(r, name)
    r4.traces += uf_summ["cases"] + uf_rsumm["cases"]
    r4.evaluations += uf_summ["calls"] + uf_rsumm["calls"]
    r4.distinct_nontrivial += len({json.dumps([c["init"], c["ops"]]) for c in uf_cases if len(c["ops"]) >= 2 or c["init"]})
    r4.samples.append({"kind": "union-find behaviour printed by TLC and replayed", **uf_cases[len(uf_cases) // 2]})
    r4.samples.append({"kind": "union-find behaviour on an arbitrary parent map", **[c for c in uf_cases if c["init"]][-7]})
    for dr in uf_summ["drift"][:10]:
        r4.drift.append({"kind": "call result / parent pointers differ from UnionFindImpl", **dr})
    _uf_report(r4, uf_viol, uf_trace, "replayed behaviour")
    _uf_report(r4, uf_rviol, uf_rtrace, "random history")
    r4.extra["union_find"] = {"behaviours_from_TLC": len(uf_cases), "runs_on_backing_maps": uf_summ["cases"],
                              "calls": uf_summ["calls"], "diverged_calls": uf_summ["diverged"],
                              "random_histories": uf_rsumm["cases"], "random_calls": uf_rsumm["calls"]}

    rule = ("cases = recorded operations: (descriptor, operation, revealed arguments) with the distinct results of all "
            "backing representations; vectors enumerate Reps(t) exhaustively (all values, all pairs up to PAIRCAP^2, a "
            "spread sample of TRIPLECAP^3 triples) plus seeded random larger values; non-trivial = some argument is not "
            "an empty/bottom representation and the arguments are not all identical; distinct by (descriptor, arguments); "
            "evaluations = real calls (one per representation combination)")
    assumptions = [
        "element/key types are u8: set, map, vec and union-find carriers are treated as unbounded (no greatest element)",
        "array/vec backed sets and maps are built with distinct keys only (the comparison code counts len())",
        "SetUnion<Vec> is exercised as merge argument and LatticeFrom source/target only (not a `Lattice`: no PartialOrd)",
        "VecUnion: the length is part of the value ([] < [bottom]); this is what ==, partial_cmp, is_bot and the flag of the code agree on",
        "Point is only merged/compared with equal values; the C01 laws are not demanded of DomPair over partially ordered keys (excluded per the property text) -- its documented join, flag and comparisons are (C04/C02/C03)",
        "a non-returning call is detected by a step budget of %d key comparisons per call (deterministic)" % 200000,
    ]
    for pid in PROPS:
        res[pid].rule = rule
        res[pid].assumptions = assumptions
        res[pid].extra["exhaustive"] = True
        res[pid].extra["canary"] = canary
        res[pid].extra["representation_combinations_skipped_because_value_does_not_fit"] = summ["skipped"]
    return res


# ----------------------------------------------------------------------------------------------
def replay(pid, path):
    """Re-run a recorded violation: lattice events are re-executed on the real code (all
    representations of the descriptor) and re-validated; union-find cases are re-validated."""
    with open(path) as f:
        rep = json.load(f)
    case = rep["case"]
    d = vlib.rundir("lattice", "replay_one")
    if case.get("kind") == "uf":
        t = os.path.join(d, "uf_one.ndjson")
        vlib.write_ndjson(t, case["events"] + [{"e": "eof"}])
        viol, _ = _validate_uf(t, "uf_replay_one")
        print("recorded union-find events re-validated; rules broken:", viol)
        return 1 if viol else 0
    ev = case["event"]
    vec = os.path.join(d, "vec")
    os.makedirs(vec, exist_ok=True)
    for f in os.listdir(vec):
        os.remove(os.path.join(vec, f))
    op = ev["op"]
    if op == "bimo":
        line = {"f": ev["ty"], "k": "b", "side": ev["side"], "a": ev["a"], "b": ev["b"], "d": ev["d"]}
        name = "bimo_%s.ndjson" % ev["ty"]
    else:
        k = "t" if "c" in ev else ("p" if "b" in ev else "v")
        line = {"ty": ev["ty"], "k": k}
        for a in ("a", "b", "c"):
            if a in ev:
                line[a] = ev[a]
        if op == "default":
            line = {"ty": ev["ty"], "k": "v", "a": []}
        name = "%s.ndjson" % ev["ty"]
    vlib.write_ndjson(os.path.join(vec, name), [line])
    bindir = vlib.cargo_build("hv_lat", bins=["lattice"])
    trace = os.path.join(d, "one_trace.ndjson")
    p = vlib.run_bin(os.path.join(bindir, "lattice"), ["replay", vec, trace])
    if p.returncode != 0:
        raise vlib.ToolError("lattice replay failed: " + p.stderr[-2000:])
    bad = set()
    for wide in (False, True):
        viol, _, events = _validate_lattice(trace, wide, "lat_replay_one")
        for line_no, gi, rule in viol:
            e = json.loads(events[line_no - 1])
            bad.add((e["op"], rule, json.dumps(e["g"][gi - 1].get("reps", [])[:3])))
        if viol or not wide:
            break
    for b in sorted(bad):
        print("re-executed on the real code: %s breaks %s (representations %s)" % b)
    if not bad:
        print("re-executed on the real code: no rule broken")
    return 1 if bad else 0
