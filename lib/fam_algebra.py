"""C09 -- the law checkers of lattices::algebra and the shipped semiring applications.
Vector variant: (1) TLC model checks AlgebraLawsImpl (reference laws x transcription of the
checkers) over every operation table of the configured strata and prints one CASE line per case;
(2) the harness feeds the same tables (closures over arrays) to the REAL checkers and logs what
they returned; (3) TLC (AlgebraLawsTrace) recomputes every law on the logged tables and reports
each disagreement <<case, checker, class>>; (4) canaries: a flipped verdict and a corrupted table
cell in a good log must be reported."""
import concurrent.futures
import json
import os
import random

import vlib

PROPS = ["C09"]
ENGINE = "spec/AlgebraLaws: reference laws + transcription of algebra.rs (TLC exhaustive over all operation tables of the strata), the same tables fed to the real checkers, verdict log re-evaluated by TLC"
MANIFEST = {
    "C09": {
        "text": "TLC evaluates the TLA+ definition of every law (associativity ... bilinearity, monoid ... field, get_single_function_properties) on every operation table over carriers of size 1-3 for single-operation laws (all 19 683 tables on 3 elements), every pair/4-tuple on size 2 and structured + seeded random tables on sizes 3-4 for multi-operation laws, and model checks the transcription of algebra.rs against them; the harness passes the same tables as closures to the real lattices::algebra functions and TLC compares every returned Ok/Err with the law, case by case. The real BinaryTrust/Multiplicity/Cost/ConfidenceScore/FuzzyLogic operations are tabulated over item samples and checked by TLC against their transcribed semiring (laws model checked on a larger sample) and against the real semiring(..) call.",
        "note": "Carriers >4 are explored only through one classical structure (the 8-element non-commutative ring of triangular matrices over GF(2)); two-operation laws on 3-4 elements are sampled (all pairs of associative tables in the thorough tier). Floating-point applications are exercised on exactly representable values only. The 0 != 1 side condition of integral domains / fields is not part of the reference law. Application values are read through a same-size transmute (private fields, no accessor).",
        "technique": "TLA+ definitions evaluated by TLC over whole finite domains (vector mode) + TLC re-evaluation of the verdict log recorded from the real code",
        "design_ref": "DESIGN.md §6.5",
    },
}

SD = os.path.join(vlib.SPEC, "AlgebraLaws")
FIELDS = ("f", "g", "h", "p", "q", "u", "w")
CHUNKS = 6


# ----------------------------------------------------------------------------------------------
# seeded picks (explicit tables) for carriers 3 and 4
# ----------------------------------------------------------------------------------------------
def _rt2(rng, n, m=None):
    m = m or n
    return [[rng.randrange(m) for _ in range(n)] for _ in range(n)]


def _rt1(rng, n, m=None):
    m = m or n
    return [rng.randrange(m) for _ in range(n)]


def _relabel2(t, perm):
    n = len(t)
    inv = [0] * n
    for i, p in enumerate(perm):
        inv[p] = i
    return [[perm[t[inv[a]][inv[b]]] for b in range(n)] for a in range(n)]


def _relabel1(t, perm):
    n = len(t)
    inv = [0] * n
    for i, p in enumerate(perm):
        inv[p] = i
    return [perm[t[inv[a]]] for a in range(n)]


_GF4_MUL = [[0, 0, 0, 0], [0, 1, 2, 3], [0, 2, 3, 1], [0, 3, 1, 2]]


def _structured(rng, n):
    """A classical structure on n elements under a random relabelling: (add, mul, neg, inv)."""
    perm = list(range(n))
    rng.shuffle(perm)
    which = rng.randrange(4)
    if which == 0 or (which == 3 and n != 4):       # Z_n
        add = [[(a + b) % n for b in range(n)] for a in range(n)]
        mul = [[(a * b) % n for b in range(n)] for a in range(n)]
        neg = [(-a) % n for a in range(n)]
        inv = [next((b for b in range(n) if (a * b) % n == 1), 0) for a in range(n)]
    elif which == 1:                                # (max, min) chain
        add = [[max(a, b) for b in range(n)] for a in range(n)]
        mul = [[min(a, b) for b in range(n)] for a in range(n)]
        neg = list(range(n))
        inv = list(range(n))
    elif which == 2:                                # (min, + saturating): tropical-like
        add = [[min(a, b) for b in range(n)] for a in range(n)]
        mul = [[min(a + b, n - 1) for b in range(n)] for a in range(n)]
        neg = list(range(n))
        inv = list(range(n))
    else:                                           # GF(4)
        add = [[a ^ b for b in range(4)] for a in range(4)]
        mul = _GF4_MUL
        neg = list(range(4))
        inv = [0, 1, 3, 2]
    return (_relabel2(add, perm), _relabel2(mul, perm), _relabel1(neg, perm), _relabel1(inv, perm))


def _ut2(rng):
    """The 8 upper-triangular 2x2 matrices over GF(2) [[a,b],[0,d]] (index 4a+2b+d): the smallest
    non-commutative ring with identity, under a random relabelling: (add, mul, neg, zero, one)."""
    el = [(a, b, d) for a in (0, 1) for b in (0, 1) for d in (0, 1)]
    idx = {e: i for i, e in enumerate(el)}
    add = [[idx[(x[0] ^ y[0], x[1] ^ y[1], x[2] ^ y[2])] for y in el] for x in el]
    mul = [[idx[(x[0] & y[0], (x[0] & y[1]) ^ (x[1] & y[2]), x[2] & y[2])] for y in el] for x in el]
    perm = list(range(8))
    rng.shuffle(perm)
    return _relabel2(add, perm), _relabel2(mul, perm), _relabel1(list(range(8)), perm)


def _perturb(rng, t):
    t = [row[:] for row in t]
    n = len(t)
    t[rng.randrange(n)][rng.randrange(n)] = rng.randrange(n)
    return t


def make_picks(count):
    rng = random.Random(vlib.seed() * 7919 + 13)
    picks = []

    def add(kind, n, m, **tabs):
        rec = {"kind": kind, "n": n, "m": m}
        for k in FIELDS:
            rec[k] = tabs.get(k, [])
        picks.append(rec)

    # a non-commutative ring with identity needs 8 elements (ring Ok, commutative_ring Err)
    for _ in range(1 if count < 1000 else 4):
        a8, m8, neg8 = _ut2(rng)
        add("ring", 8, 8, f=a8, g=m8, u=neg8, w=_rt1(rng, 8))
        add("two", 8, 8, f=a8, g=m8)
        add("one", 8, 8, f=m8)
    for i in range(count):
        n = 3 if i % 2 == 0 else 4
        mode = rng.randrange(3)      # 0 random, 1 structured, 2 structured with one corrupted cell
        a, mu, neg, inv = _structured(rng, n)
        if mode == 0:
            a, mu, neg, inv = _rt2(rng, n), _rt2(rng, n), _rt1(rng, n), _rt1(rng, n)
        elif mode == 2:
            if rng.random() < 0.5:
                a = _perturb(rng, a)
            else:
                mu = _perturb(rng, mu)
        add("one", n, n, f=a if rng.random() < 0.5 else mu)
        add("unary", n, n, f=a, u=neg if rng.random() < 0.7 else _rt1(rng, n))
        add("two", n, n, f=a, g=mu)
        add("ring", n, n, f=a, g=mu, u=neg, w=inv if rng.random() < 0.7 else _rt1(rng, n))
        # linearity: q = x -> c*x style maps and random maps, also between different carriers
        m = n if rng.random() < 0.6 else (3 if n == 4 else 2)
        if m == n:
            q = [mu[rng.randrange(n)][x] for x in range(n)] if mode else _rt1(rng, n)
            g = a if rng.random() < 0.5 else ([list(r) for r in zip(*a)] if mode == 0 else mu)
        else:
            q = _rt1(rng, n, m)
            g = _rt2(rng, m) if rng.random() < 0.5 else [[(x + y) % m for y in range(m)] for x in range(m)]
        add("lin", n, m, f=a, g=g, q=q)
        if n == 3:
            add("bilin", 3, 3, f=a, h=a, g=a, p=mu if mode else _rt2(rng, 3))
    return picks


# ----------------------------------------------------------------------------------------------
def _write_cfg(name, thorough, emit):
    p = os.path.join(vlib.rundir("cfg"), name)
    with open(p, "w") as f:
        f.write("SPECIFICATION Spec\nCONSTANTS\n  EMIT = %s\n  THOROUGH = %s\n  MaxOne = 3\n  MaxBil = %d\n"
                "  AppK = %d\nINVARIANTS Agree LinearityFact Meta Emit\nCHECK_DEADLOCK FALSE\n"
                % ("TRUE" if emit else "FALSE", "TRUE" if thorough else "FALSE",
                   2 if thorough else 1, 6 if thorough else 4))
    return p


def _validate_chunks(events, d, name, res=None):
    """Trace-validate `events` (without eof) in CHUNKS parallel TLC runs; returns (viol, nver)."""
    n = len(events)
    k = max(1, min(CHUNKS, n))
    size = (n + k - 1) // k
    paths = []
    for i in range(k):
        p = os.path.join(d, "%s_%d.ndjson" % (name, i))
        vlib.write_ndjson(p, events[i * size:(i + 1) * size] + [{"e": "eof"}])
        paths.append(p)

    def one(i):
        return vlib.validate_trace(SD, "AlgebraLawsTrace", paths[i], timeout=2400,
                                   tag="alg_%s_%d" % (name, i))

    with concurrent.futures.ThreadPoolExecutor(max_workers=k) as ex:
        outs = list(ex.map(one, range(k)))
    viol, nver = [], 0
    for i, (ok, r) in enumerate(outs):
        if not ok:
            raise vlib.ToolError("log not consumed by AlgebraLawsTrace (%s chunk %d):\n%s"
                                 % (name, i, r.error_trace[-2000:]))
        v = vlib.printed_json(r, "VIOL")
        c = vlib.printed_json(r, "NVER")
        if not v or not c:
            raise vlib.ToolError("AlgebraLawsTrace printed no VIOL/NVER line (%s chunk %d)" % (name, i))
        viol += v[0]
        nver += c[0][0]
        if res is not None:
            res.add_tlc(r, "verdict-log validation:%s/%d" % (name, i))
    return viol, nver


def _flat(v):
    if isinstance(v, list):
        for x in v:
            yield from _flat(x)
    else:
        yield v


def _nontrivial(ev):
    """some checker accepted and some checker rejected this case"""
    if ev.get("e") != "case":
        return False
    oks = errs = 0
    for k, v in ev["v"].items():
        if k == "props":
            continue
        for m in _flat(v):
            if m == "":
                oks += 1
            else:
                errs += 1
    return oks > 0 and errs > 0


def _case_of(ev):
    return {k: ev[k] for k in ("kind", "n", "m") + FIELDS if k in ev}


def _report(res, viol, by_id, origin):
    viol = sorted(viol, key=lambda v: (by_id.get(v[0], {}).get("n", 0), v[0]))    # smallest witness first
    for cid, checker, cls in viol:
        ev = by_id.get(cid, {})
        if ev.get("e") == "app":
            fp = "semiring_application/%s/%s" % (checker, cls)
            what = "%s: real %s disagrees with the transcribed semiring on items %s" % (checker, cls, ev.get("items"))
            rep = {"c": {"kind": "app", "app": ev.get("app"), "items": ev.get("items")}, "logged": ev}
        else:
            fp = "algebra/%s/%s" % (checker, cls)
            what = ("%s (%s) on carrier %s with tables %s: returned %s" %
                    (checker, cls, ev.get("n"), json.dumps({k: ev[k] for k in FIELDS if ev.get(k)}),
                     json.dumps(ev.get("v"))[:300]))
            rep = {"c": _case_of(ev), "logged_verdicts": ev.get("v"), "origin": origin}
        res.violation(fp, what, rep)


def run(tier):
    res = vlib.PropResult("C09")
    thorough = tier == "thorough"
    bindir = vlib.cargo_build("hv_tuples", bins=["algebra"])
    exe = os.path.join(bindir, "algebra")
    d = vlib.rundir("algebra")

    # (1) model check reference x transcription over all tables of the strata; emit the cases
    picks = make_picks(3000 if thorough else 300)
    pickfile = os.path.join(d, "picks.ndjson")
    vlib.write_ndjson(pickfile, picks)
    cfg = _write_cfg("alg_mc.cfg", thorough, True)
    r = vlib.tlc(SD, "AlgebraLawsImpl", cfg=cfg, workers=8, timeout=3000, env={"PICKS": pickfile},
                 xmx="6g")
    if not r.ok:
        raise vlib.ToolError("AlgebraLawsImpl model check failed (spec/design error):\n" + r.error_trace[-3000:])
    vlib.require_coverage(r, ["Eval"])
    res.add_tlc(r, "AlgebraLawsImpl exhaustive (reference x transcription)")
    gen = vlib.printed_json(r, "CASE")
    if len(gen) * 2 != r.distinct or len(gen) < 19700:
        raise vlib.ToolError("generator printed %d cases for %d states" % (len(gen), r.distinct))
    gen.sort(key=lambda c: json.dumps(c["c"], sort_keys=True))
    cases = [{"id": i + 1, "c": c["c"]} for i, c in enumerate(gen)]
    casefile = os.path.join(d, "cases.ndjson")
    vlib.write_ndjson(casefile, cases)

    # (2) the same tables through the real checkers
    trace = os.path.join(d, "verdicts.ndjson")
    p = vlib.run_bin(exe, ["replay", casefile, trace])
    if p.returncode != 0:
        raise vlib.ToolError("algebra replay failed: " + p.stderr[-2000:])
    summ = json.loads(p.stdout.strip().splitlines()[-1])
    events = [e for e in vlib.read_ndjson(trace) if e.get("e") != "eof"]
    if summ["cases"] != len(cases) or len(events) != len(cases):
        raise vlib.ToolError("harness handled %s of %d cases" % (summ["cases"], len(cases)))
    by_id = {}
    napps = 0
    for c, g, ev in zip(cases, gen, events):
        by_id[c["id"]] = ev
        if ev["id"] != c["id"]:
            raise vlib.ToolError("harness log out of step at case %s" % c["id"])
        if ev["e"] == "app":
            napps += 1
            if ev["items"] != c["c"]["items"]:
                raise vlib.ToolError("harness used other items than generated: %s" % ev)
            continue
        for k in ("kind", "n", "m") + FIELDS:
            if ev[k] != c["c"][k]:
                raise vlib.ToolError("harness echoed other tables than generated at case %s" % c["id"])
        # implementation-shaped layer: exact messages (which sub-check failed first) -> drift only
        if ev["v"] != g["impl"] and len(res.drift) < 20:
            diff = {k: [g["impl"].get(k), ev["v"].get(k)] for k in ev["v"] if ev["v"].get(k) != g["impl"].get(k)}
            res.drift.append({"kind": "returned messages differ from the transcription of algebra.rs [model, code]",
                              "case": c["c"], "diff": diff})
    if napps != 5:
        raise vlib.ToolError("expected 5 semiring application cases, saw %d" % napps)

    # (3) TLC decides every logged verdict
    viol, nver = _validate_chunks(events, d, "log", res)
    res.traces = len(events)
    res.evaluations = nver
    seen = set()
    for ev in events:
        if _nontrivial(ev):
            seen.add(json.dumps(_case_of(ev), sort_keys=True))
    res.distinct_nontrivial = len(seen)
    _report(res, viol, by_id, "replay of TLC-generated cases")
    want = [e for e in events if e["e"] == "case" and e["kind"] == "one" and e["n"] == 3 and e["v"]["assoc"] == ""]
    res.samples.append({"kind": "associative table on 3 elements and what the real checkers returned",
                        "case": _case_of(want[len(want) // 2]), "verdicts": want[len(want) // 2]["v"]})
    rings = [e for e in events if e["e"] == "case" and e["kind"] == "ring" and
             any(m == "" for m in _flat(e["v"]["field"]))]
    if rings:
        res.samples.append({"kind": "tables accepted by the real field(..) for some (zero, one)",
                            "case": _case_of(rings[len(rings) // 2]), "verdicts": rings[len(rings) // 2]["v"]})
    apps = [e for e in events if e["e"] == "app"]
    res.samples.append({"kind": "real semiring application tabulated over item codes", "event": apps[1]})

    # (4) canaries: the validation must notice a flipped verdict and a corrupted table
    good = want[0]
    c1 = json.loads(json.dumps(good))
    c1["v"]["assoc"] = "Associativity check failed."
    c2 = json.loads(json.dumps(good))
    n = c2["n"]
    flipped = False
    for a in range(n):
        for b in range(n):
            if not flipped:
                t = [row[:] for row in c2["f"]]
                t[a][b] = (t[a][b] + 1) % n
                if not all(t[x][t[y][z]] == t[t[x][y]][z] for x in range(n) for y in range(n) for z in range(n)):
                    c2["f"] = t
                    flipped = True
    c3 = json.loads(json.dumps(apps[1]))
    c3["add"][0][0] = c3["add"][0][0] + 1
    canary = [c1] + ([c2] if flipped else []) + [c3]
    cviol, _ = _validate_chunks(canary, d, "canary")
    got = {(v[0], v[2]) for v in cviol}
    if (c1["id"], "false-err") not in got or (flipped and (c2["id"], "false-ok") not in got) or \
            not any(v[2] == "add-table" for v in cviol):
        raise vlib.ToolError("canary (flipped verdict / corrupted table cell) was NOT reported: %s" % cviol)
    res.extra["canary"] = "flipped associativity verdict, corrupted table cell and corrupted application table reported: %s" % cviol[:4]
    res.extra["exhaustive"] = True
    res.extra["cases_by_kind"] = {k: sum(1 for e in events if e.get("kind") == k)
                                  for k in ("one", "unary", "two", "ring", "lin", "bilin")}

    res.rule = ("case = carrier size + operation tables (all tables / pairs / strata enumerated by TLC, plus seeded "
                "structured and random tables on 3-4 elements); evaluations = individual checker verdicts compared "
                "with the TLA+ law by TLC; non-trivial = the real checkers accepted at least one and rejected at "
                "least one law/parameter on the case; distinct by tables")
    res.assumptions = ["checkers are pure: a table passed as a closure over an array stands for any operation with that graph",
                       "integral_domain/field are specified without the 0 != 1 side condition (the trivial ring is accepted by code and reference alike)",
                       "private value fields of the semiring applications are read/built by a same-size transmute",
                       "f64 applications are exercised on exactly representable values (powers of two, quarters)"]
    return {"C09": res}


def replay(pid, path):
    with open(path) as f:
        rep = json.load(f)
    bindir = vlib.cargo_build("hv_tuples", bins=["algebra"])
    d = vlib.rundir("algebra")
    cf = os.path.join(d, "replay_one_case.ndjson")
    vlib.write_ndjson(cf, [{"id": 1, "c": rep["case"]["c"]}])
    t = os.path.join(d, "replay_one_log.ndjson")
    p = vlib.run_bin(os.path.join(bindir, "algebra"), ["replay", cf, t])
    if p.returncode != 0:
        raise vlib.ToolError("algebra replay failed: " + p.stderr[-2000:])
    events = [e for e in vlib.read_ndjson(t) if e.get("e") != "eof"]
    viol, _ = _validate_chunks(events, d, "replay_one")
    print("real verdicts:", json.dumps(events[0].get("v")))
    print("disagreements with the TLA+ laws:", viol)
    return 1 if viol else 0
