"""Which family module decides which property."""
FAMILIES = {
    "mergesource": ["C15"],
}
FAMILY_OF = {p: f for f, ps in FAMILIES.items() for p in ps}
LEVEL_OF = {p: "model_checking" for p in FAMILY_OF}
