"""Auto-discovers family modules lib/fam_<name>.py.  Each family module defines
   PROPS    = ["C15", ...]                       properties it decides
   MANIFEST = {"C15": {"text":..., "note":..., "technique":..., "design_ref":...}, ...}
   ENGINE   = "one line describing the engine"
   LEVEL    = {"C15": "model_checking"} (optional; default model_checking)
   ALSO     = ["C02", ...] (optional) properties PRIMARILY decided by another family to which this
              family contributes extra coverage: run(tier) also returns a PropResult for each of them
              and the driver merges it into the primary family's result
   run(tier) -> {pid: vlib.PropResult}          one shared run for all its properties
   replay(pid, path) -> exit code               re-run a recorded replay file
Only the AST is read here (no import), so a broken family cannot break the others."""
import ast
import glob
import os

_HERE = os.path.dirname(os.path.abspath(__file__))
FAMILIES, MANIFEST, ENGINES, LEVEL_OF, CONTRIB = {}, {}, {}, {}, {}
for _p in sorted(glob.glob(os.path.join(_HERE, "fam_*.py"))):
    _name = os.path.basename(_p)[4:-3]
    try:
        _tree = ast.parse(open(_p).read())
    except SyntaxError:
        continue
    _vals, _ns = {}, {}
    for _n in _tree.body:
        # top-level NAME = <expression over literals and earlier top-level names> (no calls into modules)
        if isinstance(_n, ast.Assign) and len(_n.targets) == 1 and isinstance(_n.targets[0], ast.Name):
            try:
                _v = eval(compile(ast.Expression(_n.value), _p, "eval"),
                          {"__builtins__": {"dict": dict, "list": list, "len": len, "str": str, "range": range}}, _ns)
            except Exception:
                continue
            _ns[_n.targets[0].id] = _v
            if _n.targets[0].id in ("PROPS", "MANIFEST", "ENGINE", "LEVEL", "TECH", "ALSO"):
                _vals[_n.targets[0].id] = _v
    if "PROPS" not in _vals:
        continue
    FAMILIES[_name] = list(_vals["PROPS"])
    for _pid in _vals.get("ALSO", []):
        CONTRIB.setdefault(_pid, []).append(_name)
    ENGINES[_name] = _vals.get("ENGINE", "")
    for _pid in _vals["PROPS"]:
        MANIFEST[_pid] = dict(_vals.get("MANIFEST", {}).get(_pid, {}))
        LEVEL_OF[_pid] = _vals.get("LEVEL", {}).get(_pid, "model_checking")
FAMILY_OF = {p: f for f, ps in FAMILIES.items() for p in ps}
