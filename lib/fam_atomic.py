"""C34 -- atomic acknowledgements imply read-after-write.
Jobs: (1) TLC exhaustive on AtomicImpl (one-tick model of the atomic region + client scripts x
the Atomic monitor), and on its non-atomic variant, where TLC MUST find the violation;
(2) TLC (AtomicGen) generates every well-formed client script; the harness plays each against
the real corpus programs (k1 singleton state, k2 keyed state) in the Hydro simulator under
exhaustive schedules and records the client-visible order of acks and snapshots; TLC validates
each explored schedule; (3) seeded random longer scripts; (4) negative control: the same
scripts against the non-atomic program n1 -- TLC must flag runs there; (5) canaries."""
import json
import os
import re

import vlib

PROPS = ["C34"]
ENGINE = "spec/Atomic: C34 monitor + one-tick model of an atomic write/ack + read program (TLC exhaustive over all client scripts and schedules; non-atomic variant must fail), TLC-generated scripts played on the corpus programs under simulator-exhaustive schedules, validated by TLC; negative-control program"
MANIFEST = {
    "C34": {
        "text": "TLC exhaustively checks a one-tick model of atomic write/ack + atomic read (fold applied before end_atomic releases the ack; reads answered from the state of their tick) against the C34 monitor for every well-formed client script of length <=6 (8 thorough) and every schedule, and finds the violation in the non-atomic variant. Every TLC-generated script (<=5 ops quick, 6 thorough) and seeded random longer ones are played against two corpus programs (atomic().fold + end_atomic + use::atomic snapshot: singleton state and keyed state) in the Hydro simulator under exhaustive schedules; per explored schedule the order of observed acks, sent reads and observed snapshots is recorded; TLC validates: every write whose ack was observed before a read was sent is contained in that read's snapshot. The non-atomic control program must be flagged on the same scripts.",
        "note": "Simulator only (no production tick partitions). 'Later snapshot' is made observable as: the read request was sent after the ack was observed.",
        "technique": "TLA+ spec model-checked with TLC + conformance (TLC cases replayed into the code under exhaustive simulator schedules; code traces validated by TLC)",
        "design_ref": "DESIGN.md §6.14 (C34)",
    },
}

SD = os.path.join(vlib.SPEC, "Atomic")
CRATE = os.path.join(vlib.ROOT, "harness_hydro", "hv_std")
ACTIONS = ["ClientWrite", "ClientAck", "ClientRead", "ClientAnswer", "Tick"]
RAW = "acknowledged-write-missing-from-later-snapshot"


def _cfg(name, text):
    p = os.path.join(vlib.rundir("cfg"), name)
    with open(p, "w") as f:
        f.write(text)
    return p


def _build(binname):
    """cargo build; the workspace is shared with other families, whose half-written crates can
    break a build transiently -- retry before giving up."""
    import time
    for attempt in range(3):
        try:
            return vlib.cargo_build("hv_std", bins=[binname], features=["runner"], workspace="harness_hydro")
        except vlib.ToolError:
            if attempt == 2:
                raise
            time.sleep(20)


def _run_harness(exe, args):
    p = vlib.run_bin(exe, args, cwd=CRATE, env={"CARGO_MANIFEST_DIR": CRATE}, timeout=3000)
    if p.returncode != 0:
        raise vlib.ToolError("%s %s failed: %s" % (os.path.basename(exe), args[0], p.stderr[-3000:]))
    return json.loads(p.stdout.strip().splitlines()[-1])


def _validate(trace, res, what):
    ok, r = vlib.validate_trace(SD, "AtomicTrace", trace, tag="atomic_" + what, timeout=1500)
    if not ok:
        raise vlib.ToolError("trace not consumed by AtomicTrace (%s):\n%s" % (what, r.error_trace[-2000:]))
    viol = vlib.printed_json(r, "VIOL")
    if res is not None:
        res.add_tlc(r, "trace-validation:" + what)
    return viol[0] if viol else []


def _cases_of(trace):
    out, cur = {}, None
    for e in vlib.read_ndjson(trace):
        if e.get("e") == "reset":
            cur = e["case"]
            out[cur] = []
        if cur is not None and e.get("e") != "eof":
            out[cur].append(e)
    return out


def _report(res, trace, viol, what):
    """Violations in the corpus programs k1/k2; the negative control n1 (prog 0) is counted."""
    cases = _cases_of(trace)
    control_hits = 0
    pre = [v for v in viol if str(v[1]).startswith("PRE-")]
    if pre:
        raise vlib.ToolError("harness inconsistency (%s): %s" % (what, pre[:3]))
    for case, rule in viol:
        evs = cases.get(case, [])
        prog = evs[0].get("prog") if evs else -1
        if prog == 0:
            if rule != RAW:
                raise vlib.ToolError("negative control broke an unexpected rule %s in case %s" % (rule, case))
            control_hits += 1
            continue
        res.violation("atomic/k%s/%s" % (prog, rule),
                      "rule %s broken in %s case %s (program k%s, schedule %s, script %s)"
                      % (rule, what, case, prog, evs[0].get("sched") if evs else "?",
                         json.dumps(evs[0].get("inp")) if evs else "?"), {"events": evs})
    return cases, control_hits


def _head(evs, ncases):
    """the first ncases whole cases of a trace, plus eof"""
    out, n = [], 0
    for e in evs:
        if e.get("e") == "reset":
            n += 1
            if n > ncases:
                break
        if e.get("e") != "eof":
            out.append(json.loads(json.dumps(e)))       # deep copy
    return out + [{"e": "eof"}]


def _canaries(res, muts):
    """Each (trace, mutate, label) corrupts its own copy of a short prefix of a good recorded
    trace; the copies are concatenated (case ids offset by 100000 * i) and validated in ONE TLC
    run; every copy must be flagged, else the binding is vacuous (ToolError)."""
    allevs, ctrace = [], None
    for i, (trace, mutate, label) in enumerate(muts):
        full = vlib.read_ndjson(trace)
        ctrace = ctrace or trace.replace(".ndjson", "_canaries.ndjson")
        for n in (80, 600, 4000, 10 ** 9):          # shortest prefix of whole cases that can be corrupted
            evs = _head(full, n)
            if mutate(evs):
                break
        else:
            raise vlib.ToolError("canary %s: no place to corrupt in %s" % (label, trace))
        for e in evs:
            if e.get("e") == "reset":
                e["case"] += 100000 * (i + 1)
        allevs += [e for e in evs if e.get("e") != "eof"]
    vlib.write_ndjson(ctrace, allevs + [{"e": "eof"}])
    cviol = _validate(ctrace, None, "canary")
    for i, (_, _, label) in enumerate(muts):
        hit = sorted({v[1] for v in cviol if v[0] // 100000 == i + 1})
        if not hit:
            raise vlib.ToolError("canary (%s) was NOT rejected by AtomicTrace" % label)
        res.extra.setdefault("canaries", []).append("%s -> %s" % (label, hit[:3]))


def _stale_snapshot(evs):
    """remove an acknowledged write from a snapshot taken for a read sent after the ack"""
    acked, must, prog = set(), {}, None
    for e in evs:
        k = e.get("e")
        if k == "reset":
            acked, must, prog = set(), {}, e["prog"]
        elif k == "ack":
            acked.add(e["w"])
        elif k == "read":
            must[e["r"]] = set(acked)
        elif k == "snap" and prog != 0 and must.get(e["r"]):
            w = sorted(must[e["r"]])[0]
            if w in e["s"]:
                e["s"] = [x for x in e["s"] if x != w]
                return True
    return False


def _ack_never_written(evs):
    for e in evs:
        if e.get("e") == "ack":
            e["w"] += 50
            return True
    return False


def _phantom_write(evs):
    for e in evs:
        if e.get("e") == "snap":
            e["s"] = e["s"] + [77]
            return True
    return False


def run(tier):
    res = vlib.PropResult("C34")
    thorough = tier == "thorough"
    bindir = _build("hv_atomic")
    exe = os.path.join(bindir, "hv_atomic")
    d = vlib.rundir("atomic")

    # (1) design: atomic model holds, non-atomic model must fail
    ml = 8 if thorough else 6
    cfg = _cfg("atomic_mc.cfg", "SPECIFICATION Spec\nCONSTANTS\n  MaxLen = %d\n  ATOMIC = TRUE\n"
                                "INVARIANTS Inv AckAfterApply\nCHECK_DEADLOCK FALSE\n" % ml)
    r = vlib.tlc(SD, "AtomicImpl", cfg=cfg, workers=8, timeout=3000, xmx="8g")
    if not r.ok:
        raise vlib.ToolError("AtomicImpl model check failed (spec/design error):\n" + r.error_trace[-3000:])
    vlib.require_coverage(r, ACTIONS)
    res.add_tlc(r, "AtomicImpl exhaustive (all client scripts <=%d ops, all schedules)" % ml)
    cfg = _cfg("atomic_neg.cfg", "SPECIFICATION Spec\nCONSTANTS\n  MaxLen = 4\n  ATOMIC = FALSE\nINVARIANTS Inv\n"
                                 "CHECK_DEADLOCK FALSE\n")
    r = vlib.tlc(SD, "AtomicImpl", cfg=cfg, workers=2, timeout=900, coverage=False, tag="AtomicNeg")
    if r.ok or r.invariant != "Inv":
        raise vlib.ToolError("the non-atomic variant of the model did NOT violate C34 -- monitor is vacuous")
    res.extra["non_atomic_model"] = "TLC finds the read-after-write violation (invariant Inv) as required"

    # (2) spec -> code
    gl = 6 if thorough else 5
    cfg = _cfg("atomic_gen.cfg", "SPECIFICATION Spec\nCONSTANTS\n  MaxLen = %d\n  Progs = {1, 2}\nCHECK_DEADLOCK FALSE\n" % gl)
    r = vlib.tlc(SD, "AtomicGen", cfg=cfg, workers=1, timeout=1200, coverage=False)
    if not r.ok:
        raise vlib.ToolError("AtomicGen failed:\n" + r.error_trace[-3000:])
    cases = vlib.printed_json(r, "CASE")
    if len(cases) < 100:
        raise vlib.ToolError("AtomicGen produced only %d cases" % len(cases))
    cases.sort(key=lambda c: json.dumps(c, sort_keys=True))
    cfile = os.path.join(d, "cases.ndjson")
    vlib.write_ndjson(cfile, cases)
    trace = os.path.join(d, "replay_trace.ndjson")
    summ = _run_harness(exe, ["replay", cfile, trace])
    if summ["schedules"] < len(cases):
        raise vlib.ToolError("fewer schedules (%d) than cases (%d)" % (summ["schedules"], len(cases)))
    viol = _validate(trace, res, "replay")
    tc, _ = _report(res, trace, viol, "replayed")
    res.traces += summ["schedules"]
    res.evaluations += summ["schedules"]
    res.extra["atomic_replay"] = summ

    # (3) random longer scripts (includes the control program with probability 1/5)
    rtrace = os.path.join(d, "random_trace.ndjson")
    summ = _run_harness(exe, ["random", 300 if thorough else 50, 9 if thorough else 8, rtrace])
    viol = _validate(rtrace, res, "random")
    rc, _ = _report(res, rtrace, viol, "random")
    res.traces += summ["schedules"]
    res.evaluations += summ["schedules"]
    res.extra["atomic_random"] = summ

    # (4) negative control: same scripts, program n1 (no atomic region)
    ctl = [dict(c, prog=0) for c in cases if c["prog"] == 1 and len(c["script"]) <= 5]
    ctlfile = os.path.join(d, "control_cases.ndjson")
    vlib.write_ndjson(ctlfile, ctl)
    ctrace = os.path.join(d, "control_trace.ndjson")
    summ = _run_harness(exe, ["replay", ctlfile, ctrace])
    viol = _validate(ctrace, res, "control")
    _, hits = _report(res, ctrace, viol, "control")
    if hits == 0:
        raise vlib.ToolError("negative control (non-atomic program n1) was never flagged on %d schedules -- "
                             "the binding cannot see read-after-write violations" % summ["schedules"])
    res.extra["negative_control"] = {"program": "n1 (no atomic region)", "schedules": summ["schedules"],
                                     "schedules_flagged_by_TLC": hits}

    # non-trivial: a schedule in which some read was sent after an observed ack
    seen = set()
    for cs in (tc, rc):
        for evs in cs.values():
            if evs[0]["prog"] == 0:
                continue
            acked = False
            hit = False
            for e in evs:
                if e.get("e") == "ack":
                    acked = True
                if e.get("e") == "read" and acked:
                    hit = True
            if hit:
                seen.add(json.dumps([evs[0]["prog"], evs[1:]], sort_keys=True))
                if len(res.samples) < 2 and len(evs) >= 7:
                    res.samples.append({"kind": "one explored schedule (k%d)" % evs[0]["prog"], "events": evs})
    res.distinct_nontrivial = len(seen)

    # (5) canaries
    _canaries(res, [
        (trace, _stale_snapshot, "acknowledged write removed from a later snapshot"),
        (trace, _ack_never_written, "ack of a write that was never sent"),
        (trace, _phantom_write, "snapshot contains an unknown write"),
    ])

    res.rule = ("case = (program, client script) x one explored simulator schedule; non-trivial = some read is sent "
                "after an acknowledgement was observed (so the monitor's obligation is non-empty); distinct by the "
                "recorded event sequence")
    res.assumptions = [
        "simulator exhaustive schedules stand for 'all schedules'; production tick partitions are not exercised by this family",
        "a snapshot answering read r is taken after r was sent, so 'ack observed before r was sent' implies 'ack before snapshot'",
        "writes carry unique ids and the state is the list of applied ids, so 'reflects the update' = contains the id",
    ]
    return {"C34": res}


def replay(pid, path):
    with open(path) as f:
        rep = json.load(f)
    t = os.path.join(vlib.rundir("atomic"), "replay_one.ndjson")
    vlib.write_ndjson(t, rep["case"]["events"] + [{"e": "eof"}])
    viol = _validate(t, None, "replay_one")
    print("recorded events re-validated; rules broken:", viol)
    return 1 if viol else 0
