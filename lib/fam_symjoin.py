"""C13 -- the symmetric hash join of dfir_pipes emits exactly the join of everything that arrived.
Jobs per configuration (single tick with every Pending placement; 2 and 3 ticks with every
'tick/'static combination): (1) TLC model-checks the implementation-shaped model SymJoinImpl
(SymmetricHashJoin::pull, drain + NewTickJoinIter, HalfSet/HalfMultisetJoinState build/probe/
pop_match) composed with the SymJoin monitor and prints every behaviour as a CASE line; (2) the
harness replays every case into the REAL join (both paths, both half-state flavours, persisted or
cleared states); (3) TLC validates the recorded trace against the monitor (SymJoinTrace);
(4) seeded random larger multi-tick cases incl. mixed flavours; (5) canary."""
import concurrent.futures
import json
import os

import vlib

PROPS = ["C13"]
ENGINE = "spec/SymJoin: monitor (relational join of all arrivals as a bag, set-dedup or multiset, per tick with persisted state) + implementation-shaped model of the incremental pull and the drain-then-enumerate path (TLC exhaustive), all TLC behaviours replayed into the real join, TLC trace validation of replayed and seeded random runs"
MANIFEST = {
    "C13": {
        "text": "TLC exhaustively checks the transcribed SymmetricHashJoin::pull loop, the symmetric_hash_join(is_new_tick=true) drain + NewTickJoinIter and the set/multiset half states against the relational join (bag of (k,(v1,v2)); set flavour deduplicates entries) for all inputs of <=2 entries per side (1 key x 2 values and 2 keys x 1 value; thorough: 2 keys x 2 values) with every placement of <=1 Pending per side (single tick), and for 2- and 3-tick histories with every 'tick/'static persistence combination; every TLC behaviour is replayed into the real join and TLC validates the recorded traces: each emitted pair belongs to the join and is never emitted more often than the join contains it, nothing is missing at the end, incremental mode emits exactly the pairs with a new member, the new-tick path emits the full join after draining both inputs; both paths are checked against the same reference.",
        "note": "Inputs are fused scripted doubles; the order of pairs is not compared (hash-map order); persistence is driven as the join operator does it (clear() of 'tick sides at tick end). Mixed set/multiset flavours only in the 3-entry and random jobs.",
        "technique": "TLA+ spec model-checked with TLC + conformance (TLC behaviours replayed into the code; code traces validated by TLC)",
        "design_ref": "DESIGN.md §6.6",
    },
}

SD = os.path.join(vlib.SPEC, "SymJoin")
ACTIONS = ["Reset", "TickStart", "DrainCall", "PullCall", "TickEnd"]

# (name, NTICKS, LI, LP, NK, NV, MODES, FLAVS, PERS)
BOTH = '{"incr", "newtick"}'
ALLP = '{"tt", "ts", "st", "ss"}'
QUICK = [
    ("tick1-pend-1key", 1, 2, 1, 1, 2, BOTH, '{"ss", "mm"}', '{"tt"}'),
    ("tick1-pend-2keys", 1, 2, 1, 2, 1, BOTH, '{"ss", "mm"}', '{"tt"}'),
    ("tick1-3entries-mixed", 1, 3, 0, 2, 1, BOTH, '{"ss", "mm", "sm", "ms"}', '{"tt"}'),
    ("tick2", 2, 1, 0, 2, 2, BOTH, '{"ss", "mm"}', '{"tt", "ts", "ss"}'),
    ("tick2-dups", 2, 2, 0, 1, 2, BOTH, '{"ss"}', '{"ss"}'),
    ("tick3", 3, 1, 0, 1, 2, BOTH, '{"ss", "mm"}', '{"st", "ss"}'),
]
THOROUGH = [
    ("tick1-pend", 1, 2, 1, 2, 2, BOTH, '{"ss", "mm"}', '{"tt"}'),
    ("tick1-3entries-mixed", 1, 3, 1, 2, 1, BOTH, '{"ss", "mm", "sm", "ms"}', '{"tt"}'),
    ("tick2", 2, 1, 0, 2, 2, BOTH, '{"ss", "mm", "sm"}', ALLP),
    ("tick2-dups", 2, 2, 0, 1, 2, BOTH, '{"ss", "mm"}', ALLP),
    ("tick3", 3, 1, 0, 1, 2, BOTH, '{"ss", "mm"}', ALLP),
]


def _write_cfg(job):
    name, nt, li, lp, nk, nv, modes, flavs, pers = job
    p = os.path.join(vlib.rundir("cfg"), "sj_%s.cfg" % name)
    with open(p, "w") as f:
        f.write("SPECIFICATION Spec\nCONSTANTS\n  NTICKS = %d\n  LI = %d\n  LP = %d\n  NK = %d\n  NV = %d\n"
                "  MODES = %s\n  FLAVS = %s\n  PERS = %s\n  EMIT = TRUE\n"
                "INVARIANTS C13Inv ImplInv Emit\nCHECK_DEADLOCK TRUE\n" % (nt, li, lp, nk, nv, modes, flavs, pers))
    return p


def _fingerprint(c, rule):
    return "symjoin/%s/%s-%s/%s" % (c["mode"], c["lk"], c["rk"], rule)


def _validate(trace, name):
    ok, r = vlib.validate_trace(SD, "SymJoinTrace", trace, tag="sj_" + name, timeout=2400)
    if not ok:
        raise vlib.ToolError("trace not consumed by SymJoinTrace (%s):\n%s" % (name, r.error_trace[-2000:]))
    viol = vlib.printed_json(r, "VIOL")
    drift = vlib.printed_json(r, "DRIFT")
    if not viol or not drift:
        raise vlib.ToolError("SymJoinTrace printed no verdict (%s)" % name)
    return r, viol[0], drift[0]


def _case_events(trace, wanted):
    out, cur = {c: [] for c in wanted}, None
    for e in vlib.read_ndjson(trace):
        if e.get("e") == "reset":
            cur = e.get("case")
        if cur in out:
            out[cur].append(e)
    return out


def _group_job(exe, d, job):
    name = job[0]
    r = vlib.tlc(SD, "SymJoinImpl", cfg=_write_cfg(job), workers=3, timeout=3000, tag="sj_mc_" + name)
    if not r.ok:
        raise vlib.ToolError("SymJoinImpl (%s) model check failed (spec/design error):\n%s" % (name, r.error_trace[-3000:]))
    vlib.require_coverage(r, ACTIONS)
    cases = vlib.printed_json(r, "CASE")
    if len(cases) < 100:
        raise vlib.ToolError("SymJoinImpl (%s) produced only %d cases" % (name, len(cases)))
    casefile = os.path.join(d, "%s_cases.ndjson" % name)
    vlib.write_ndjson(casefile, cases)
    trace = os.path.join(d, "%s_trace.ndjson" % name)
    p = vlib.run_bin(exe, ["replay", casefile, trace])
    if p.returncode != 0:
        raise vlib.ToolError("sym_join replay (%s) failed: %s" % (name, p.stderr[-2000:]))
    summ = json.loads(p.stdout.strip().splitlines()[-1])
    if summ["cases"] != len(cases):
        raise vlib.ToolError("sym_join replay (%s): %d of %d cases run" % (name, summ["cases"], len(cases)))
    tv, viol, drift = _validate(trace, "replay_" + name)
    return {"name": name, "mc": r, "tv": tv, "cases": cases, "viol": viol, "drift": drift, "summ": summ, "trace": trace}


def _nontrivial(c, nresults):
    pend = any([-1] in t["l"] or [-1] in t["r"] for t in c["ticks"])
    return nresults > 0 and (pend or len(c["ticks"]) >= 2)


def _report(res, cases_by_id, viol, trace, where):
    by_case = {}
    for case, rule in viol:
        by_case.setdefault(case, set()).add(rule)
    evs = _case_events(trace, sorted(by_case)[:3000])
    for case, rules in sorted(by_case.items()):
        c = cases_by_id(case)
        for rule in sorted(rules):
            res.violation(_fingerprint(c, rule),
                          "rule %s broken by the real join (%s case %s): %s" % (rule, where, case, json.dumps(
                              {k: c[k] for k in ("lk", "rk", "mode", "pers", "ticks")})),
                          {"case": {k: c[k] for k in ("lk", "rk", "mode", "pers", "ticks")}, "rule": rule,
                           "events": evs.get(case, [])})


def run(tier):
    res = vlib.PropResult("C13")
    thorough = tier == "thorough"
    bindir = vlib.cargo_build("hv_pull", bins=["sym_join"])
    exe = os.path.join(bindir, "sym_join")
    d = vlib.rundir("symjoin")
    jobs = THOROUGH if thorough else QUICK
    with concurrent.futures.ThreadPoolExecutor(max_workers=3) as ex:
        outs = list(ex.map(lambda j: _group_job(exe, d, j), jobs))

    keys = set()
    for o in outs:
        name, cases = o["name"], o["cases"]
        res.add_tlc(o["mc"], "SymJoinImpl exhaustive+generate:%s" % name)
        res.add_tlc(o["tv"], "trace-validation:replay_%s" % name)
        res.traces += len(cases)
        res.evaluations += len(cases)
        for c in cases:
            n = sum(len(cl["i"]) for t in c["calls"] for cl in t)
            if _nontrivial(c, n):
                keys.add(json.dumps([c[k] for k in ("lk", "rk", "mode", "pers", "ticks")], sort_keys=True))
        if o["summ"]["ndrift"]:
            for dr in o["summ"]["drift"][:3]:
                res.drift.append({"kind": "calls / state sizes differ from SymJoinImpl", "group": name, **dr})
            res.extra["drift_cases_" + name] = o["summ"]["ndrift"]
        _report(res, lambda i, cs=cases: cs[i - 1], o["viol"], o["trace"], "replayed " + name)
        for case, what in o["drift"][:5]:
            res.drift.append({"kind": "implementation fact: " + what, "group": name, "case": case})
    big = [c for c in outs[0]["cases"] if sum(len(cl["i"]) for t in c["calls"] for cl in t) >= 2]
    res.samples.append({"kind": "replayed TLC behaviour ([-1] = Pending; calls: polls p, status s, items i)",
                        **{k: big[len(big) // 2][k] for k in ("lk", "rk", "mode", "pers", "ticks", "calls")}})
    multi = [c for c in outs[-1]["cases"] if sum(len(cl["i"]) for t in c["calls"] for cl in t) >= 2]
    res.samples.append({"kind": "replayed TLC behaviour (3 ticks)",
                        **{k: multi[len(multi) // 2][k] for k in ("lk", "rk", "mode", "pers", "ticks")}})

    # (4) seeded random larger cases (1-3 ticks, mixed flavours, up to 3 keys x 3 values)
    count = 30000 if thorough else 3000
    rtrace = os.path.join(d, "random_trace.ndjson")
    p = vlib.run_bin(exe, ["random", count, 8 if thorough else 5, 4 if thorough else 2, rtrace])
    if p.returncode != 0:
        raise vlib.ToolError("sym_join random failed: " + p.stderr[-2000:])
    summ = json.loads(p.stdout.strip().splitlines()[-1])
    tv, viol, drift = _validate(rtrace, "random")
    res.add_tlc(tv, "trace-validation:random")
    res.traces += summ["cases"]
    res.evaluations += summ["cases"]
    rc, cur = {}, None
    for e in vlib.read_ndjson(rtrace):
        if e.get("e") == "reset":
            cur = {"lk": e["lk"], "rk": e["rk"], "mode": e["mode"], "pers": e["pers"], "ticks": [], "n": 0}
            rc[e["case"]] = cur
        elif e.get("e") == "tick":
            cur["ticks"].append({"l": e["l"], "r": e["r"]})
        elif e.get("e") == "call":
            cur["n"] += len(e["i"])
    for c in rc.values():
        if _nontrivial(c, c["n"]):
            keys.add(json.dumps([c[k] for k in ("lk", "rk", "mode", "pers", "ticks")], sort_keys=True))
    res.samples.append({"kind": "random case", **{k: rc[3][k] for k in ("lk", "rk", "mode", "pers", "ticks")}})
    _report(res, lambda i: rc[i], viol, rtrace, "random")
    for case, what in drift[:5]:
        res.drift.append({"kind": "implementation fact: " + what, "group": "random", "case": case})
    res.distinct_nontrivial = len(keys)

    # (5) canary: repeat one emitted pair / drop one emitted pair of a good trace -> both flagged
    cur, done, out = None, {}, []
    for e in vlib.read_ndjson(outs[0]["trace"]):
        if e.get("e") == "reset":
            if len(done) == 2:
                break
            cur = e["case"]
        out.append(e)
        if e.get("e") == "call" and e["s"] == "R" and e["p"] == [] and cur not in done.values():
            if "dup" not in done:
                out.append(json.loads(json.dumps(e)))
                done["dup"] = cur
            elif "drop" not in done:
                out.pop()
                done["drop"] = cur
    if len(done) < 2:
        raise vlib.ToolError("canary: no suitable events found to corrupt")
    out = [e for e in out if e.get("e") != "eof"]
    ctrace = os.path.join(d, "canary_trace.ndjson")
    vlib.write_ndjson(ctrace, out + [{"e": "eof"}])
    _, cviol, _ = _validate(ctrace, "canary")
    got = {(c, r) for c, r in cviol}
    if (done["dup"], "pair-not-in-join-or-repeated") not in got or (done["drop"], "ended-with-missing-pairs") not in got:
        raise vlib.ToolError("canary (repeated / dropped pair) was NOT rejected by the trace spec: %s %s" % (done, cviol[:4]))
    res.extra["canary"] = "repeated pair and dropped pair flagged: %s" % sorted(got)[:4]
    res.extra["exhaustive"] = True
    res.extra["bounds"] = [{"job": j[0], "ticks": j[1], "max_entries_per_side_per_tick": j[2], "max_pendings": j[3],
                            "keys": j[4], "values": j[5], "modes": j[6], "flavours": j[7], "persistence": j[8]} for j in jobs]
    res.rule = ("cases = (half-state flavours, path incr/newtick, persistence per side, per tick one script of (k,v) entries/"
                "Pending per side); exhaustive within the bounds listed under coverage.bounds, plus seeded random cases; "
                "non-trivial = at least one joined pair and (a Pending or >= 2 ticks); distinct by the whole case")
    res.assumptions = ["inputs are fused scripted doubles answering exactly their script",
                       "persistence is driven like the dfir join operator: HalfJoinState::clear() on 'tick sides at tick end",
                       "the order of emitted pairs is not compared (hash-map iteration order)",
                       "the pull is driven to Ended in every tick (current_matches is empty at tick end)"]
    return {"C13": res}


def replay(pid, path):
    with open(path) as f:
        rep = json.load(f)
    c = rep["case"]["case"]
    d = vlib.rundir("symjoin")
    bindir = vlib.cargo_build("hv_pull", bins=["sym_join"])
    casefile = os.path.join(d, "replay_one_case.ndjson")
    vlib.write_ndjson(casefile, [c])
    t = os.path.join(d, "replay_one.ndjson")
    p = vlib.run_bin(os.path.join(bindir, "sym_join"), ["replay", casefile, t])
    if p.returncode != 0:
        raise vlib.ToolError("sym_join replay failed: " + p.stderr[-2000:])
    _, viol, _ = _validate(t, "replay_one")
    print("case re-run against the real join; rules broken:", sorted({r for _, r in viol}))
    return 1 if viol else 0
