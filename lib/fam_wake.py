"""C27 -- a running dataflow never misses an external wake-up (dfir_rs/src/scheduled/context.rs).
Jobs: (1) TLC exhaustive on WakeImpl (one step per code segment between two H2 yield points;
runner x 1-3 wakers; safety + liveness under weak fairness); (2) TLC generator runs print, for
every reachable model state, the schedule that reaches it with the predicted yield points;
the harness replays each schedule on the REAL Dfir::run() / WakeState::wake_by_ref with a
controlled scheduler (one OS thread per waker, hook H2 blocks every thread at every yield
point), runs on to quiescence and logs the segments in the controller's order; TLC validates
the trace against the Wake monitor; (3) seeded random controlled schedules, trace-validated;
(4) canary."""
import concurrent.futures
import json
import os
import random

import vlib

PROPS = ["C27"]
ENGINE = "spec/Wake: monitor + implementation-shaped model of run/run_available/run_tick/wake_by_ref at yield-point granularity (TLC exhaustive, liveness), controlled-scheduler replay of TLC interleavings on the real Dfir::run() with wakers on their own OS threads (hook H2), TLC trace validation of replayed and seeded random schedules"
MANIFEST = {
    "C27": {
        "text": "TLC exhaustively checks the model of Dfir::run / run_available / run_tick and WakeState::wake_by_ref (one step per code segment between two H2 yield points; flag, AtomicWaker registration, source-waker registration, task wake flag) for 2-3 waker threads x 1-2 pushes, all interleavings incl. spurious polls of the parked runner: the runner is never at rest (poll returned Pending, task not woken, no waker inside wake_by_ref) with unserved data or a wake-up not followed by a tick body; liveness under weak fairness: every arrival is eventually served and the runner comes to rest. For every reachable model state TLC prints the schedule reaching it; a controlled scheduler (hook H2 blocks each OS thread at every yield point) replays it on the real Dfir::run() of a real dfir_syntax! dataflow (source_stream over a tokio unbounded channel) with each waker on its own OS thread, then runs to quiescence; TLC validates the recorded segment traces (plus seeded random controlled schedules) against the monitor.",
        "note": "Sequential consistency of the two atomics is ASSUMED (the code uses Relaxed on can_start_tick and relies on AtomicWaker's internal ordering; TLA+ does not model weak memory) and AtomicWaker::register/wake are treated as atomic. The run() future is polled by a hand-written executor on a dedicated OS thread (tokio::task::yield_now then wakes immediately, as it does outside a runtime) rather than by tokio's scheduler. Interleaving granularity = the 13 H2 yield points; the tick body (source poll) is one step. Bounded: <=3 wakers, <=3 pushes each.",
        "technique": "TLA+ spec model-checked with TLC + conformance (TLC behaviours replayed into the code under a controlled scheduler; code traces validated by TLC)",
        "design_ref": "DESIGN.md §6.13, §8 H2",
    },
}

SD = os.path.join(vlib.SPEC, "Wake")


def _cfg(name, nw, sends, spurious, maxspur, emit, emitall, spec="Spec", properties=None, view=False):
    p = os.path.join(vlib.rundir("cfg"), name)
    b = lambda x: "TRUE" if x else "FALSE"
    with open(p, "w") as f:
        f.write("SPECIFICATION %s\nCONSTANTS\n  NW = %d\n  Sends = %d\n  SPURIOUS = %s\n  MaxSpur = %d\n"
                "  EMIT = %s\n  EMITALL = %s\nINVARIANTS C27Inv ImplInv Emit\n"
                % (spec, nw, sends, b(spurious), maxspur, b(emit), b(emitall)))
        if properties:
            f.write("PROPERTIES %s\n" % " ".join(properties))
        if view:
            f.write("VIEW NoHist\n")
        f.write("CHECK_DEADLOCK FALSE\n")
    return p


def _validate(trace, res, what):
    ok, r = vlib.validate_trace(SD, "WakeTrace", trace, tag="wake_" + what, timeout=1200)
    if not ok:
        raise vlib.ToolError("trace not consumed by WakeTrace (%s):\n%s" % (what, r.error_trace[-2500:]))
    viol = vlib.printed_json(r, "VIOL")
    drift = vlib.printed_json(r, "DRIFT")
    if res is not None:
        res.add_tlc(r, "trace-validation:" + what)
    return (viol[0] if viol else []), (drift[0] if drift else [])


def _split_cases(trace):
    out, cur = {}, None
    for e in vlib.read_ndjson(trace):
        if e.get("e") == "reset":
            cur = e.get("case")
            out[cur] = []
        if cur is not None and e.get("e") != "eof":
            out[cur].append(e)
    return out


def _nontrivial_key(evs):
    """non-trivial = some push fired wake_by_ref and, between that push and the return of
    wake_by_ref, the runner executed at least one segment or was in the middle of its protocol
    (not in the executor); distinct by the thread sequence."""
    rpos, open_w, hit = "rt_idle", set(), False
    for e in evs:
        k = e.get("e")
        if k == "arrive" and e["fired"]:
            open_w.add(e["w"])
            if rpos != "rt_idle":
                hit = True
        elif k == "wseg":
            if rpos != "rt_idle":
                hit = True
            if e["to"] == "done":
                open_w.discard(e["w"])
        elif k in ("run", "tick"):
            rpos = e["to"]
            if open_w:
                hit = True
    if not hit:
        return None
    return json.dumps([evs[0].get("nw"), evs[0].get("sends"), [e.get("thr") for e in evs[1:]]])


def _run_harness(exe, args, what):
    p = vlib.run_bin(exe, args, timeout=2400)
    if p.returncode != 0:
        raise vlib.ToolError("wake %s failed (rc=%s): %s" % (what, p.returncode, p.stderr[-2000:]))
    return json.loads(p.stdout.strip().splitlines()[-1])


def run(tier):
    res = vlib.PropResult("C27")
    thorough = tier == "thorough"
    bindir = vlib.cargo_build("hv_sched", bins=["wake"])
    exe = os.path.join(bindir, "wake")
    d = vlib.rundir("wake")
    LIVE = ["EveryArrivalServed", "ComesToRest"]

    jobs = {
        # exhaustive safety + liveness, no spurious polls
        "mc_live": dict(cfg=_cfg("wake_mc_live.cfg", 2, 2 if thorough else 1, False, 0, False, False,
                                 spec="FairSpec", properties=LIVE), workers=2, coverage=True),
        # exhaustive safety with spurious polls of the parked runner
        "mc_2x2": dict(cfg=_cfg("wake_mc_2x2.cfg", 2, 2, True, 1, False, False), workers=4, coverage=True),
        "mc_3x1": dict(cfg=_cfg("wake_mc_3x1.cfg", 3, 1, True, 1, False, False), workers=4, coverage=True),
        # generators: one schedule per reachable state (breadth-first tree path)
        "gen_1x2": dict(cfg=_cfg("wake_gen_1x2.cfg", 1, 2, True, 1, True, True, view=True), workers=1, coverage=False),
        "gen_2x1": dict(cfg=_cfg("wake_gen_2x1.cfg", 2, 1, True, 1, True, True, view=True), workers=1, coverage=False),
    }
    if thorough:
        jobs["mc_3x2"] = dict(cfg=_cfg("wake_mc_3x2.cfg", 3, 2, True, 1, False, False), workers=6, coverage=True)
        jobs["gen_2x2"] = dict(cfg=_cfg("wake_gen_2x2.cfg", 2, 2, True, 1, True, True, view=True), workers=1,
                               coverage=False)
    if os.environ.get("VERIF_DEV_SKIP_MC"):     # development only: conformance jobs alone
        jobs = {k: v for k, v in jobs.items() if k.startswith("gen_")}

    def _run(name):
        j = jobs[name]
        return name, vlib.tlc(SD, "WakeImpl", cfg=j["cfg"], workers=j["workers"], timeout=2400,
                              coverage=j["coverage"], tag="wake_" + name)

    results = {}
    with concurrent.futures.ThreadPoolExecutor(max_workers=3) as ex:
        for name, r in ex.map(_run, list(jobs)):
            results[name] = r
    for name, r in results.items():
        if not r.ok:
            raise vlib.ToolError("WakeImpl job %s failed (spec/design error: %s):\n%s"
                                 % (name, r.invariant, r.error_trace[-3000:]))
        res.add_tlc(r, "WakeImpl " + name)
        if name.startswith("mc_"):
            vlib.require_coverage(r, ["Runner", "Waker"])

    # ---- spec -> code: controlled-scheduler replay ----------------------------------------
    rnd = random.Random(vlib.seed())
    cases = []
    for name in sorted(n for n in results if n.startswith("gen_")):
        cs = vlib.printed_json(results[name], "CASE")
        if len(cs) < 500:
            raise vlib.ToolError("generator %s produced only %d cases" % (name, len(cs)))
        keep = [c for c in cs if c["terminal"] or c["broken"]]
        rest = [c for c in cs if not (c["terminal"] or c["broken"])]
        # quick tier: every terminal state + a seeded sample of the other states of the larger
        # configurations (the 1-waker configuration is replayed completely)
        limit = len(rest) if (thorough or name == "gen_1x2") else 900
        if len(rest) > limit:
            rest = rnd.sample(rest, limit)
        for c in keep + rest:
            c["src"] = name
            cases.append(c)
        res.extra.setdefault("model_states_per_generator", {})[name] = len(cs)
    cases.sort(key=lambda c: (c["src"], len(c["steps"])))
    casefile = os.path.join(d, "cases.ndjson")
    vlib.write_ndjson(casefile, cases)
    trace = os.path.join(d, "replay_trace.ndjson")
    summ = _run_harness(exe, ["replay", casefile, trace], "replay")
    if summ["cases"] != len(cases):
        raise vlib.ToolError("wake replay ran %d of %d cases" % (summ["cases"], len(cases)))
    viol, drift = _validate(trace, res, "replay")
    by_case = _split_cases(trace)
    res.traces += summ["cases"]
    res.evaluations += summ["steps"]
    keys = {k for k in (_nontrivial_key(evs) for evs in by_case.values()) if k}
    res.distinct_nontrivial += len(keys)
    res.extra["replay_cases"] = len(cases)
    res.extra["replay_ticks_executed"] = summ["ticks"]
    res.extra["replay_step_drift_cases"] = summ.get("ndrift", 0)
    for dr in summ["drift"][:10]:
        res.drift.append({"kind": "segment differs from WakeImpl (yield point / wake flag / served items)", **dr})
    got = {}
    for case, rule in viol:
        got.setdefault(case, set()).add(rule)
    for i, c in enumerate(cases):
        pred = set(c.get("broken", []))
        if pred and not pred <= got.get(i + 1, set()):
            res.drift.append({"kind": "model predicts a broken rule the real runner does not show", "case": i + 1,
                              "model": sorted(pred)})
    for case, o in drift[:10]:
        res.drift.append({"kind": "implementation fact does not hold (not property-level)", "run": "replay",
                          "case": case, "what": o})
    mid = cases[len(cases) // 2]
    res.samples.append({"kind": "replayed TLC schedule: [thread (0 = runner), event, yield point reached, task wake flag]",
                        "nw": mid["nw"], "sends": mid["sends"],
                        "steps": [[s["thr"], s["e"], s["to"], s["tw"]] for s in mid["steps"]]})
    for case, rule in viol:
        res.violation("wake/" + rule, "rule %s broken in replayed case %s" % (rule, case),
                      {"events": by_case.get(case, [])})

    # ---- code -> spec: seeded random controlled schedules ----------------------------------
    count = 6000 if thorough else 700
    rtrace = os.path.join(d, "random_trace.ndjson")
    summ = _run_harness(exe, ["random", count, 3, 3, rtrace], "random")
    rviol, rdrift = _validate(rtrace, res, "random")
    rby = _split_cases(rtrace)
    res.traces += summ["cases"]
    res.evaluations += summ["steps"]
    rkeys = {k for k in (_nontrivial_key(evs) for evs in rby.values()) if k}
    res.distinct_nontrivial += len(rkeys - keys)
    res.extra["random_ticks_executed"] = summ["ticks"]
    for case, o in rdrift[:10]:
        res.drift.append({"kind": "implementation fact does not hold (not property-level)", "run": "random",
                          "case": case, "what": o})
    for cid, evs in rby.items():
        if evs[0]["nw"] >= 2 and any(e.get("e") == "arrive" and e["fired"] for e in evs):
            res.samples.append({"kind": "random controlled schedule (segments as recorded from the real runner)",
                                "events": evs[:60]})
            break
    for case, rule in rviol:
        res.violation("wake/" + rule, "rule %s broken in random case %s" % (rule, case),
                      {"events": rby.get(case, [])})

    # ---- canary: the last tick body of a good case "serves nothing" -> must be flagged ------
    evs = vlib.read_ndjson(trace)
    bad_cases = {c for c, _ in viol}
    cur, target = None, None
    last_tick = {}
    for i, e in enumerate(evs):
        if e.get("e") == "reset":
            cur = e["case"]
        elif e.get("e") == "tick" and e["items"] and cur not in bad_cases:
            last_tick[cur] = i
    if not last_tick:
        raise vlib.ToolError("no case with a serving tick to build the canary from")
    target = sorted(last_tick)[len(last_tick) // 2]
    evs[last_tick[target]]["items"] = []
    ctrace = os.path.join(d, "canary_trace.ndjson")
    vlib.write_ndjson(ctrace, evs)
    cviol, _ = _validate(ctrace, None, "canary")
    if not any(c == target and rule == "NoUnservedData" for c, rule in cviol):
        raise vlib.ToolError("canary (a tick body that serves nothing) was NOT rejected by the trace spec")
    res.extra["canary"] = "case %s with its last tick body emptied rejected: NoUnservedData" % target

    res.extra["exhaustive"] = True
    res.rule = ("cases = controlled schedules (sequence of thread ids; each step runs one thread from one H2 yield "
                "point to the next) for nw wakers x sends pushes; TLC cases: one per reachable model state "
                "(breadth-first tree path; quick tier samples the non-terminal ones of the 2-waker configuration), "
                "continued to quiescence; random cases: seeded; non-trivial = a push fired wake_by_ref while the "
                "runner was inside its protocol or the runner moved while a waker was inside wake_by_ref; distinct "
                "by thread sequence; evaluations = segments executed on the real code")
    res.assumptions = [
        "sequential consistency of can_start_tick (Relaxed in the code) and of AtomicWaker (register / wake atomic); "
        "weak-memory reorderings are not explored",
        "hook H2 yield points are no-ops apart from blocking; interleaving granularity = the yield points "
        "(the tick body incl. the source poll is one step)",
        "the run() future is polled by a hand-written single-task executor (flag waker) on its own OS thread; "
        "tokio::task::yield_now wakes immediately outside a runtime",
        "external data = tokio unbounded channel feeding source_stream; its waker registration is part of the run",
        "C27 is checked in safety form at quiescence (runner at rest, task not woken, no waker inside wake_by_ref) "
        "plus TLC liveness under weak fairness on the model",
    ]
    return {"C27": res}


def replay(pid, path):
    with open(path) as f:
        rep = json.load(f)
    d = vlib.rundir("wake")
    evs = rep["case"]["events"]
    reset = evs[0]
    steps = [{"thr": e["thr"]} for e in evs if e.get("e") in ("run", "tick", "arrive", "wseg")]
    cf = os.path.join(d, "replay_one_case.ndjson")
    vlib.write_ndjson(cf, [{"nw": reset["nw"], "sends": reset["sends"], "steps": steps, "terminal": False}])
    bindir = vlib.cargo_build("hv_sched", bins=["wake"])
    t = os.path.join(d, "replay_one.ndjson")
    _run_harness(os.path.join(bindir, "wake"), ["replay", cf, t], "replay")
    viol, _ = _validate(t, None, "replay_one")
    print("schedule re-run on the real runner; rules broken:", viol)
    for e in vlib.read_ndjson(t):
        print("  ", json.dumps(e))
    return 1 if viol else 0
