"""C16 -- the single-threaded (unsync) mpsc channel dfir_rs::util::unsync::mpsc.
Jobs: (1) TLC exhaustive on MpscImpl (implementation-shaped model x Mpsc monitor): all C16
invariants (incl. NoStrandedSender) with spurious polls, close_this_sender and 3 senders, plus
liveness under weak fairness; (2) TLC generator runs (breadth-first path cover via
VIEW, plus -simulate walks of a larger configuration) print schedules with the model's
predicted poll results; the harness replays them by polling the REAL futures by hand and TLC
validates the recorded trace against the monitor; (3) seeded random longer schedules,
trace-validated; (4) canary."""
import concurrent.futures
import json
import os

import vlib

PROPS = ["C16"]
ENGINE = "spec/Mpsc: monitor + implementation-shaped model (TLC exhaustive, liveness), TLC-generated poll interleavings replayed into the real unsync mpsc futures/Sink/Stream polled by hand with flag wakers, TLC trace validation of replayed and seeded random schedules"
MANIFEST = {
    "C16": {
        "text": "TLC exhaustively checks the implementation-shaped model of unsync::mpsc (buffer, send_wakers kept exactly as the SmallVec incl. duplicates and drained by every successful receive, recv_waker, Weak/Rc closure) against the C16 monitor (global FIFO, exactly once, capacity, consistent closure, and in every quiescent state nobody waits for something available) for all programs of 2 sender tasks x <=2 ops (send / Sink feed / try_send, drop / close_this_sender / keep) + receiver (optional close), capacities 0-2, every interleaving, with and without spurious re-polls, plus liveness under weak fairness; TLC-generated interleavings (path cover of the state graph + random walks of 3 senders) are replayed by hand-polling the real futures with flag-setting wakers, and seeded random longer schedules are recorded; TLC validates every recorded trace against the monitor.",
        "note": "Bounded: <=3 sender tasks x <=2 ops in TLC, <=4 x <=4 in random runs; at most 1-2 spurious polls per behaviour in the exhaustive runs. One scheduler step = one poll of one op. Cancellation of a pending send future (dropping it) is not explored. Two genuine defects found by this check (stale duplicate waker strands a sender; close_this_sender does not wake the receiver) are fixed in /repo and listed under 'fixed' in known_findings.d/sched.json; the model transcribes the fixed code.",
        "technique": "TLA+ spec model-checked with TLC + conformance (TLC behaviours replayed into the code; code traces validated by TLC)",
        "design_ref": "DESIGN.md §6.9, §9 item 5",
    },
}

SD = os.path.join(vlib.SPEC, "Mpsc")

def _fp(rule):
    return "mpsc/" + rule


def _set(xs):
    return "{" + ", ".join(xs) + "}"


def _cfg(name, nsend, caps, kinds, maxops, enders, rcloseat, spurious, maxspur, emit,
         invariants, spec="Spec", properties=None, view=False):
    p = os.path.join(vlib.rundir("cfg"), name)
    with open(p, "w") as f:
        f.write("SPECIFICATION %s\nCONSTANTS\n" % spec)
        f.write("  NSend = %d\n  Caps = %s\n  DataKinds = %s\n  MaxOps = %d\n  Enders = %s\n"
                % (nsend, _set(str(c) for c in caps), _set('"%s"' % k for k in kinds), maxops,
                   _set('"%s"' % e for e in enders)))
        f.write("  RCloseAt = %s\n  NeverClose = TRUE\n  SPURIOUS = %s\n  MaxSpur = %d\n  EMIT = %s\n"
                % (_set(str(c) for c in rcloseat), "TRUE" if spurious else "FALSE", maxspur,
                   "TRUE" if emit else "FALSE"))
        f.write("INVARIANTS %s\n" % " ".join(invariants))
        if properties:
            f.write("PROPERTIES %s\n" % " ".join(properties))
        if view:
            f.write("VIEW NoHist\n")
        f.write("CHECK_DEADLOCK FALSE\n")
    return p


def _validate(trace, res, what):
    ok, r = vlib.validate_trace(SD, "MpscTrace", trace, tag="mpsc_" + what, timeout=900)
    if not ok:
        raise vlib.ToolError("trace not consumed by MpscTrace (%s):\n%s" % (what, r.error_trace[-2500:]))
    viol = vlib.printed_json(r, "VIOL")
    drift = vlib.printed_json(r, "DRIFT")
    if res is not None:
        res.add_tlc(r, "trace-validation:" + what)
    return (viol[0] if viol else []), (drift[0] if drift else [])


def _split_cases(trace):
    """case id -> list of events"""
    out, cur = {}, None
    for e in vlib.read_ndjson(trace):
        if e.get("e") == "reset":
            cur = e.get("case")
            out[cur] = []
        if cur is not None and e.get("e") != "eof":
            out[cur].append(e)
    return out


def _nontrivial_key(evs):
    """A case is non-trivial if at least one poll returned Pending (some task had to wait) and
    at least two tasks took steps; distinct by (cap, programs, rclose, schedule)."""
    steps = [e for e in evs if e.get("e") == "step"]
    if not any(e["r"] == "pending" for e in steps):
        return None
    if len({e["t"] for e in steps}) < 2:
        return None
    r = evs[0]
    return json.dumps([r["cap"], r["progs"], r["rclose"], [e["t"] for e in steps]])


def _report(res, viol, by_case, what):
    for case, rule in viol:
        res.violation(_fp(rule), "rule %s broken in %s case %s" % (rule, what, case),
                      {"events": by_case.get(case, [])})


def run(tier):
    res = vlib.PropResult("C16")
    thorough = tier == "thorough"
    bindir = vlib.cargo_build("hv_sched", bins=["mpsc"])
    exe = os.path.join(bindir, "mpsc")
    d = vlib.rundir("mpsc")
    ALLK = ["send", "feed", "try"]

    # ---- TLC jobs (independent; run a few at a time) ------------------------------------
    jobs = {}
    ALLINV = ["C16Safety", "C16Wake", "ImplInv"]
    # (1a) 2 senders x <=2 ops, spurious polls, drop / close_this_sender (/ keep): every invariant
    jobs["mc_two"] = dict(cfg=_cfg("mpsc_mc_two.cfg", 2, [0, 1, 2] if thorough else [1], ["send", "try"], 2,
                                   ["drop", "close", "keep"] if thorough else ["drop", "close"], [1],
                                   True, 2 if thorough else 1, False, ALLINV),
                          workers=4, coverage=True)
    # (1b) 3 senders x <=1 op, spurious polls (the stranding scenario needs 3 waker entries)
    jobs["mc_three"] = dict(cfg=_cfg("mpsc_mc_three.cfg", 3, [1, 2] if thorough else [1], ["send", "try"], 1,
                                     ["drop", "close", "keep"] if thorough else ["drop", "close"], [1],
                                     True, 1, False, ALLINV),
                            workers=4, coverage=True)
    # (1c) liveness under weak fairness of the due polls
    jobs["mc_live"] = dict(cfg=_cfg("mpsc_mc_live.cfg", 2, [1], ["send"] if not thorough else ["send", "try"], 2,
                                    ["drop", "close", "keep"], [1], False, 0, False,
                                    ALLINV, spec="FairSpec",
                                    properties=["SenderProgress", "RecvProgress"]),
                           workers=2, coverage=False)
    # (2) generators: path cover (VIEW NoHist, one worker so that the recorded schedules are the
    #     breadth-first tree paths)
    jobs["gen_a"] = dict(cfg=_cfg("mpsc_gen_a.cfg", 2, [0, 1, 2] if thorough else [1, 2], ALLK, 1,
                                  ["drop", "close", "keep"], [0, 1], True, 1, True,
                                  ALLINV + ["Emit"], view=True),
                         workers=1, coverage=False)
    jobs["gen_b"] = dict(cfg=_cfg("mpsc_gen_b.cfg", 2, [1], ALLK if thorough else ["send", "feed"], 2, ["drop"], [],
                                  True, 1, True, ALLINV + ["Emit"], view=True),
                         workers=1, coverage=False)
    jobs["gen_sim"] = dict(cfg=_cfg("mpsc_gen_sim.cfg", 3, [0, 1, 2], ALLK, 2, ["drop", "close", "keep"], [2],
                                    True, 2, True, ALLINV + ["Emit"]),
                           workers=1, coverage=False, simulate=3000 if thorough else 400, depth=60,
                           seed_arg=vlib.seed())

    def _run(name):
        j = jobs[name]
        return name, vlib.tlc(SD, "MpscImpl", cfg=j["cfg"], workers=j["workers"], timeout=2400,
                              coverage=j["coverage"], simulate=j.get("simulate"), depth=j.get("depth"),
                              seed_arg=j.get("seed_arg"), tag="mpsc_" + name)

    if os.environ.get("VERIF_DEV_SKIP_MC"):     # development only: conformance jobs alone
        jobs = {k: v for k, v in jobs.items() if k.startswith("gen_")}
    results = {}
    with concurrent.futures.ThreadPoolExecutor(max_workers=3) as ex:
        for name, r in ex.map(_run, list(jobs)):
            results[name] = r
    for name, r in results.items():
        if not r.ok:
            raise vlib.ToolError("MpscImpl job %s failed (spec/design error: %s):\n%s"
                                 % (name, r.invariant, r.error_trace[-3000:]))
        if not name.startswith("gen_sim"):
            res.add_tlc(r, "MpscImpl " + name)
    for name in [x for x in ("mc_two", "mc_three") if x in results]:
        vlib.require_coverage(results[name], ["SendTask", "RecvTask"])

    # ---- (2) spec -> code: replay ------------------------------------------------------
    cases, seen = [], set()
    for name in ("gen_a", "gen_b", "gen_sim"):
        for c in vlib.printed_json(results[name], "CASE"):
            k = json.dumps([c["cap"], c["progs"], c["rclose"], [s["t"] for s in c["steps"]]])
            if k not in seen:
                seen.add(k)
                c["src"] = name
                cases.append(c)
    if len(cases) < 300:
        raise vlib.ToolError("generators produced only %d cases" % len(cases))
    casefile = os.path.join(d, "cases.ndjson")
    vlib.write_ndjson(casefile, cases)
    trace = os.path.join(d, "replay_trace.ndjson")
    p = vlib.run_bin(exe, ["replay", casefile, trace])
    if p.returncode != 0:
        raise vlib.ToolError("mpsc replay failed: " + p.stderr[-2000:])
    summ = json.loads(p.stdout.strip().splitlines()[-1])
    if summ["cases"] != len(cases):
        raise vlib.ToolError("mpsc replay ran %d of %d cases" % (summ["cases"], len(cases)))
    viol, drift = _validate(trace, res, "replay")
    by_case = _split_cases(trace)
    res.traces += summ["cases"]
    res.evaluations += summ["steps"]
    keys = {k for k in (_nontrivial_key(evs) for evs in by_case.values()) if k}
    res.distinct_nontrivial += len(keys)
    res.extra["replay_cases_by_generator"] = {n: sum(1 for c in cases if c["src"] == n)
                                              for n in ("gen_a", "gen_b", "gen_sim")}
    for dr in summ["drift"][:10]:
        res.drift.append({"kind": "step result differs from MpscImpl", **dr})
    res.extra["replay_step_drift_cases"] = summ.get("ndrift", 0)
    for case, o in drift[:10]:
        res.drift.append({"kind": "answer differs from the abstract channel (not property-level)",
                          "run": "replay", "case": case, "what": o})
    mid = cases[len(cases) // 2]
    res.samples.append({"kind": "replayed TLC schedule (t: 0 = receiver; r = predicted result)",
                        "cap": mid["cap"], "progs": mid["progs"], "rclose": mid["rclose"],
                        "steps": [[s["t"], s["op"], s["item"], s["r"], s["v"]] for s in mid["steps"]]})
    _report(res, viol, by_case, "replayed")

    # ---- (3) code -> spec: seeded random longer schedules -------------------------------
    count = 20000 if thorough else 2500
    rtrace = os.path.join(d, "random_trace.ndjson")
    p = vlib.run_bin(exe, ["random", count, 4, 4, rtrace])
    if p.returncode != 0:
        raise vlib.ToolError("mpsc random failed: " + p.stderr[-2000:])
    summ = json.loads(p.stdout.strip().splitlines()[-1])
    rviol, rdrift = _validate(rtrace, res, "random")
    rby = _split_cases(rtrace)
    res.traces += summ["cases"]
    res.evaluations += summ["steps"]
    rkeys = {k for k in (_nontrivial_key(evs) for evs in rby.values()) if k}
    res.distinct_nontrivial += len(rkeys - keys)
    for case, o in rdrift[:10]:
        res.drift.append({"kind": "answer differs from the abstract channel (not property-level)",
                          "run": "random", "case": case, "what": o})
    for cid, evs in rby.items():
        if len(evs) > 12 and len(evs[0]["progs"]) >= 3:
            res.samples.append({"kind": "random schedule (events as recorded from the real channel)",
                                "events": evs[:40]})
            break
    _report(res, rviol, rby, "random")

    # ---- (4) canary: swap the values of two consecutive receives of one good case -------
    evs = vlib.read_ndjson(trace)
    bad_cases = {c for c, _ in viol}
    cur, last_item, done = None, None, False
    for i, e in enumerate(evs):
        if e.get("e") == "reset":
            cur, last_item = e["case"], None
        elif e.get("e") == "step" and e["t"] == 0 and e["r"] == "item" and cur not in bad_cases:
            if last_item is not None:
                evs[last_item]["v"], e["v"] = e["v"], evs[last_item]["v"]
                done = cur
                break
            last_item = i
    if not done:
        raise vlib.ToolError("no case with two received items to build the canary from")
    ctrace = os.path.join(d, "canary_trace.ndjson")
    vlib.write_ndjson(ctrace, evs)
    cviol, _ = _validate(ctrace, None, "canary")
    if not any(c == done and rule == "recv-not-head-of-queue" for c, rule in cviol):
        raise vlib.ToolError("canary (two swapped received items) was NOT rejected by the trace spec")
    res.extra["canary"] = "swapped received items in case %s rejected: recv-not-head-of-queue" % done

    res.extra["exhaustive"] = True
    res.rule = ("cases = (capacity, sender programs, receiver close point, schedule of task polls); TLC cases: "
                "breadth-first path cover of the model's state graph + simulation walks; random cases: seeded; "
                "non-trivial = at least one poll returned Pending and at least two tasks took steps; "
                "distinct by (cap, programs, rclose, schedule); evaluations = polls/calls executed on the real channel")
    res.assumptions = [
        "single-threaded: one poll/call is atomic (the channel is !Send)",
        "one scheduler step = one poll of one op; a task continuing with its next op is modelled as runnable",
        "quiescent = no task has work it is not waiting for and no waiting task has its wake flag set; "
        "the wake-up guarantees are checked as 'nobody waits for something available in a quiescent state' "
        "(safety form) plus TLC liveness under weak fairness on the model",
        "spurious polls (polling a waiting task that was not woken) are legal executor behaviour",
        "dropping a pending send future (cancellation) is outside the explored space",
    ]
    return {"C16": res}


def replay(pid, path):
    with open(path) as f:
        rep = json.load(f)
    d = vlib.rundir("mpsc")
    evs = rep["case"]["events"]
    # re-run the recorded schedule on the real channel, then validate that trace
    reset = evs[0]
    case = {"cap": reset["cap"], "progs": reset["progs"], "rclose": reset["rclose"],
            "steps": [{"t": e["t"]} for e in evs if e.get("e") == "step"]}
    cf = os.path.join(d, "replay_one_case.ndjson")
    vlib.write_ndjson(cf, [case])
    bindir = vlib.cargo_build("hv_sched", bins=["mpsc"])
    t = os.path.join(d, "replay_one.ndjson")
    p = vlib.run_bin(os.path.join(bindir, "mpsc"), ["replay", cf, t])
    if p.returncode != 0:
        raise vlib.ToolError("mpsc replay failed: " + p.stderr[-2000:])
    viol, _ = _validate(t, None, "replay_one")
    print("schedule re-run on the real channel; rules broken:", viol)
    for e in vlib.read_ndjson(t):
        print("  ", json.dumps(e))
    return 1 if viol else 0
