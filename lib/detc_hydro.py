"""C42, Hydro-level half -- deterministic code generation of Hydro flows.

A plain module (not a family): `run_hydro_determinism(tier, res)` is called by the owner of
lib/fam_determinism.py and adds the Hydro half to the C42 PropResult.  It reuses spec/Determinism
(the memoised-equality monitor: Compile(input, output) is accepted only if it equals the output
memoised for that input) and its trace format, so both halves share one specification:

    {"e":"compile","input":id,"proc":p,"run":r,"stage":..,"verdict":..,"graph":hash,"code":hash,...}

Inputs and what is compared for each:
  hydro/<prog>/<loc>   production compilation (`generate_embedded`) of one Hydro program of the
                       hv_prog_flows corpus (hand-written + TLC-enumerated HydroProg terms):
                       graph = the partitioned DFIR graph JSON baked into the emitted code for that
                       location, code = the emitted Rust of that location's function (token text)
  hydro/<prog>/file    code = the whole emitted file (prettyplease text), including the generated
                       structs and the `use` header
  hydro-sim/<prog>     simulator builder (`flow.sim().compiled()`): graph = the content-hash crate /
                       example name chosen by hydro_lang/src/compile/trybuild/generate.rs (observed
                       through its `hydro_build` tracing spans), code = the generated source it named
Runs: every input twice inside process 1, twice in process 2, once in processes 3 and 4 (std
RandomState seeds differ per process and per map, heap ballast differs); for the production
builder the build script of hv_prog_embedded is a fifth process."""
import concurrent.futures
import copy
import os

import vlib

SD = os.path.join(vlib.SPEC, "Determinism")
WS = "harness_hydro"
PROCS = 4


def _validate(rows, d, what, res):
    t = os.path.join(d, what + ".ndjson")
    vlib.write_ndjson(t, rows + [{"e": "eof"}])
    ok, r = vlib.validate_trace(SD, "DeterminismTrace", t, tag="deth_" + what, timeout=2400, xmx="4g")
    if not ok:
        raise vlib.ToolError("runs not consumed by DeterminismTrace (%s):\n%s" % (what, r.error_trace[-2000:]))
    v = vlib.printed_json(r, "VIOL")
    if not v:
        raise vlib.ToolError("DeterminismTrace printed no VIOL line (%s)" % what)
    if res is not None:
        res.add_tlc(r, "trace-validation:hydro-" + what)
    return v[0]


def _sim_row(e):
    """C42 speaks about code generation: the outcome compared is whether the simulator's code
    generator produced a crate (name + source); whether cargo/rustc then built it is C41's business
    (and depends on the shared build directory)."""
    generated = bool(e["crate"])
    return {"e": "compile", "input": "hydro-sim/" + e["prog"], "proc": e["proc"], "run": e["run"],
            "stage": "done" if generated else "panic:" + e["msg"][:200],
            "verdict": "ok" if generated else "panic", "graph": e["crate"], "code": e["src"],
            "glen": len(e["crate"]), "clen": e["srclen"], "cargo": e["verdict"]}


def hydro_runs(tier, d):
    """Rows of the Hydro half.  Returns (rows, n_prod_programs, n_sim_programs)."""
    thorough = tier == "thorough"
    bindir = vlib.cargo_build("hv_prog_flows", bins=["progsim"], workspace=WS, timeout=7200)
    vlib.cargo_build("hv_prog_embedded", bins=["progc"], workspace=WS, timeout=7200)
    progc, progsim = os.path.join(bindir, "progc"), os.path.join(bindir, "progsim")

    def prod(proc):
        out = os.path.join(d, "hydro_prod_p%d.ndjson" % proc)
        args = ["det", out, proc, 2 if proc <= 2 else 1, "all"] + (["withbuild"] if proc == 1 else [])
        p = vlib.run_bin(progc, args, timeout=3000, env={"VERIF_BALLAST_%d" % proc: "x" * (proc * 257)})
        if p.returncode != 0:
            raise vlib.ToolError("progc det (process %d) failed: %s" % (proc, p.stderr[-2000:]))
        return vlib.read_ndjson(out)

    # simulator builder: each build runs cargo, so only a few programs
    sim_progs = ["h_tick_cycle", "h_network_cycle"]
    if thorough:
        sim_progs += ["h_tee_state_and_tick", "h_keyed_fold", "h_forward_ref", "h_singleton_ref", "h_cluster_roundtrip"]

    def sim(proc):
        out = os.path.join(d, "hydro_sim_p%d.ndjson" % proc)
        p = vlib.run_bin(progsim, [",".join(sim_progs), "d%d" % proc, 2 if proc <= 2 else 1, out], timeout=6000,
                         env={"VERIF_BALLAST_%d" % proc: "y" * (proc * 131)})
        if p.returncode != 0:
            raise vlib.ToolError("progsim (process %d) failed: %s" % (proc, p.stderr[-2000:]))
        rows = []
        for e in vlib.read_ndjson(out):
            rows.append(_sim_row(e))
        return rows

    rows = []
    with concurrent.futures.ThreadPoolExecutor(max_workers=PROCS) as ex:
        prod_f = [ex.submit(prod, p) for p in range(1, PROCS + 1)]
        for f in prod_f:
            rows += f.result()
        # the simulator builds share one trybuild project: run the processes one after the other
        for p in range(1, PROCS + 1):
            rows += sim(p)
    n_prod = len({r["input"].split("/")[1] for r in rows if r["input"].startswith("hydro/")})
    return rows, n_prod, len(sim_progs)


def run_hydro_determinism(tier, res):
    """Adds the Hydro half of C42 to `res` (a vlib.PropResult for C42)."""
    d = vlib.rundir("determinism")
    rows, n_prod, n_sim = hydro_runs(tier, d)
    per_input = {}
    for x in rows:
        per_input.setdefault(x["input"], []).append(x)
    # every input must have been compiled in all processes
    short = {i: len(v) for i, v in per_input.items() if len(v) < 6}
    if n_prod < 10 or short:
        raise vlib.ToolError("hydro determinism: harness inconsistency: %d programs, inputs with < 6 runs: %s"
                             % (n_prod, list(short.items())[:5]))
    with_code = [i for i, v in per_input.items() if v[0]["code"]]
    if len(with_code) < 20:
        raise vlib.ToolError("hydro determinism: vacuous run, only %d inputs produced code" % len(with_code))
    viol = _validate(rows, d, "hydro_runs", res)
    res.traces += len(rows)
    res.evaluations += len(rows)
    res.distinct_nontrivial += len(with_code)
    res.extra["hydro_inputs"] = len(per_input)
    res.extra["hydro_programs_production_builder"] = n_prod
    res.extra["hydro_programs_simulator_builder"] = n_sim
    big = sorted((i for i in with_code if i.endswith("/loc1")), key=lambda i: -per_input[i][0]["clen"])[:1]
    sims = [i for i in with_code if i.startswith("hydro-sim/")][:1]
    for i in big + sims:
        res.samples.append({"kind": "Hydro input with its recorded runs", "id": i,
                            "runs": [{k: x[k] for k in ("proc", "run", "graph", "code", "glen", "clen")} for x in per_input[i]]})
    for i, kind in sorted(viol):
        where = "simulator-builder" if i.startswith("hydro-sim/") else "production-builder"
        res.violation("determinism/hydro/%s/%s" % (where, kind), "%s for input %s" % (kind, i),
                      {"id": i, "runs": per_input.get(i, []), "hydro": True})
    # canary: one altered hash of one run must be flagged
    tgt = next(i for i in with_code if i.endswith("/loc1"))
    can = copy.deepcopy(per_input[tgt])
    can[-1]["graph"] = "0" * 32
    cviol = _validate(can, d, "hydro_canary", None)
    if [list(x) for x in cviol] != [[tgt, "partitioned-graph-differs"]]:
        raise vlib.ToolError("hydro determinism canary (altered graph hash) not flagged: %s" % cviol)
    res.extra["hydro_canary"] = "altered graph hash of one run flagged: %s" % cviol
    res.assumptions += [
        "Hydro half: the corpus is the quick program set of hv_prog_flows (hand-written + TLC-enumerated HydroProg terms); flow construction (the Rust function building the IR) is part of what is repeated",
        "Hydro half: the trybuild crate name is observed through the `hydro_build` tracing spans (field bin_name) of trybuild/generate.rs; the generated simulator source is read back from the trybuild project",
    ]
    return res


def replay_hydro(case):
    """Re-runs one Hydro input (called by fam_determinism.replay for replay files with "hydro": true)."""
    d = vlib.rundir("determinism")
    bindir = vlib.cargo_build("hv_prog_embedded", bins=["progc"], workspace=WS, timeout=7200)
    name = case["id"].split("/")[1]
    rows = []
    if case["id"].startswith("hydro-sim/"):
        bindir = vlib.cargo_build("hv_prog_flows", bins=["progsim"], workspace=WS, timeout=7200)
        for proc in (1, 2):
            out = os.path.join(d, "replay_sim_p%d.ndjson" % proc)
            p = vlib.run_bin(os.path.join(bindir, "progsim"), [name, "r%d" % proc, 2, out], timeout=3000)
            if p.returncode != 0:
                raise vlib.ToolError("progsim failed: " + p.stderr[-2000:])
            for e in vlib.read_ndjson(out):
                rows.append(_sim_row(e))
    else:
        for proc in range(1, PROCS + 1):
            out = os.path.join(d, "replay_hydro_p%d.ndjson" % proc)
            p = vlib.run_bin(os.path.join(bindir, "progc"), ["det", out, proc, 2, name, "withbuild"], timeout=3000)
            if p.returncode != 0:
                raise vlib.ToolError("progc det failed: " + p.stderr[-2000:])
            rows += vlib.read_ndjson(out)
    viol = _validate(rows, d, "hydro_replay", None)
    print("Hydro input recompiled %d times; non-deterministic components:" % len(rows), viol)
    return 1 if viol else 0
