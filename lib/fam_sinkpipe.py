"""C14 -- sinktools futures::Sink adaptors route every item to the right sink, once, in order.
Same engine as C12 (lib/fam_pushpipe.py::engine): (1) TLC model checks the implementation-shaped
model SinkPipeImpl (adaptor fields and method bodies transcribed from sinktools/src/*.rs,
including the LazySink / LazySinkSource state machines) composed with the SinkPipe monitor for
every catalogue shape x small inputs x every placement of Pending answers in the downstream
poll_ready / poll_flush / poll_close scripts x client plans (spurious polls, flushes, interleaved
source polls), printing every behaviour; (2) every behaviour replayed into the REAL adaptors over
scripted checking Sink doubles; (3) seeded random longer runs; (4) canary; TLC validates all
recorded call sequences against the monitor."""
import os

import vlib
import fam_pushpipe as pp

PROPS = ["C14"]
ENGINE = "spec/SinkPipe: monitor (reference semantics shared with PushPipe) + implementation-shaped interpreter of the sinktools adaptors incl. the LazySink / LazySinkSource state machines (TLC exhaustive), replay of all TLC behaviours into the real sinktools code, TLC trace validation of replayed and seeded random runs"
MANIFEST = {
    "C14": {
        "text": "TLC exhaustively checks the implementation-shaped model of 23 sink shapes (map, filter, filter_map, inspect, flat_map, flatten, unzip, for_each, try_for_each, send_iter, send_stream, demux_map, demux_map_lazy, demux_var, LazySink with immediate / delayed initialisation, LazySinkSource with source polls interleaved at every point of the sink client's plan, five compositions) against the C14 monitor for inputs <=2 (3 thorough) x every placement of Pending answers (<=2 per script for single-sink shapes) in the downstream poll_ready / poll_flush / poll_close scripts x client plans; every behaviour is replayed into the real adaptors over scripted checking Sink doubles, plus seeded random longer runs; TLC validates every recorded call sequence: start_send only with an unconsumed Ready(Ok) and never after close, received sequence = prefix of the reference output and complete whenever flush / close / send_iter / send_stream completes, lazy initialisation started at most once and the init future never polled after completion, no item lost before / during initialisation, no panic, Pending only when something below pended.",
        "note": "Only Ok paths: downstream doubles and init futures never fail (error propagation is outside C14's statement). Flush / close propagation to every downstream is recorded as an implementation fact (drift), not as part of the property. HashMap poll order of demux_map is not compared. Known defects of the unchanged tree are listed in known_findings.d/push.json.",
        "technique": "TLA+ spec model-checked with TLC + conformance (TLC behaviours replayed into the code; code traces validated by TLC)",
        "design_ref": "DESIGN.md §6.7",
    },
}

SD = os.path.join(vlib.SPEC, "SinkPipe")
SHAPES = ["map", "filter", "filter_map", "inspect", "flat_map", "flatten", "unzip", "for_each", "try_for_each",
          "send_iter", "send_stream", "demux_map", "demux_map_lazy", "demux_var", "lazy0", "lazy2", "lss0", "lss2",
          "map_flat_map", "flat_map_unzip", "lazy_flat_map", "send_iter_filter", "demux_lazy_sinks"]
BADSHAPES = ["demux_map_lazy", "lss0", "lss2"]
# fingerprints name the adaptor type, not the catalogue variant
KIND_OF = {"lss0": "lazy_sink_source", "lss2": "lazy_sink_source", "lazy0": "lazy", "lazy2": "lazy"}


def _cfg(b, shapes=None):
    return ("SPECIFICATION Spec\nCONSTANTS\n  SHAPES = %s\n  BADSHAPES = %s\n  EMIT = TRUE\n" % (pp._set(shapes or SHAPES), pp._set(BADSHAPES))
            + "".join("  %s = %s\n" % kv for kv in b.items())
            + "INVARIANTS InvClean InvDriver InvFacts Progress Emit\nCHECK_DEADLOCK FALSE\n")


def _bounds(thorough):
    if thorough:
        return dict(MaxIn1=2, MaxIn2=2, MaxIn3=1, MaxPend1=2, MaxPend2=1, MaxPend3=1,
                    RLen1=3, RLen2=2, RLen3=1, XLen1=1, XLen2=1, XLen3=1, CLen1=1, CLen2=0, CLen3=0,
                    EXTRA="FALSE", FLUSH=2, MaxSrcPolls=0)
    return dict(MaxIn1=2, MaxIn2=2, MaxIn3=1, MaxPend1=2, MaxPend2=1, MaxPend3=1,
                RLen1=2, RLen2=2, RLen3=1, XLen1=1, XLen2=1, XLen3=1, CLen1=1, CLen2=0, CLen3=0,
                EXTRA="FALSE", FLUSH=1, MaxSrcPolls=1)


def _bounds_lss():
    # lazy sink-source: up to two source polls at every pair of points of the sink client's plan
    return dict(MaxIn1=2, MaxIn2=1, MaxIn3=1, MaxPend1=2, MaxPend2=1, MaxPend3=1,
                RLen1=2, RLen2=1, RLen3=1, XLen1=1, XLen2=1, XLen3=1, CLen1=1, CLen2=0, CLen3=0,
                EXTRA="FALSE", FLUSH=1, MaxSrcPolls=2)


def _bounds_extra():
    return dict(MaxIn1=2, MaxIn2=1, MaxIn3=1, MaxPend1=1, MaxPend2=1, MaxPend3=1,
                RLen1=1, RLen2=1, RLen3=1, XLen1=1, XLen2=1, XLen3=1, CLen1=1, CLen2=1, CLen3=1,
                EXTRA="TRUE", FLUSH=1, MaxSrcPolls=1)


def run(tier):
    thorough = tier == "thorough"
    if thorough:
        lss = ["lss0", "lss2"]
        cfgs = [("mc", _cfg(_bounds(True), [x for x in SHAPES if x not in lss])),
                ("mc_lss", _cfg(_bounds_lss(), lss)), ("mc_extra", _cfg(_bounds_extra()))]
    else:
        cfgs = [("mc", _cfg(_bounds(False)))]
    rnd = [12000, 8, 8] if thorough else [1200, 6, 6]
    res = pp.engine("C14", SD, "SinkPipeImpl", "SinkPipeTrace", "sink_pipe", "sink", SHAPES, BADSHAPES, cfgs, rnd,
                    "sinkpipe", pp._alter, has_drift=True, kind_of=KIND_OF)
    res.rule = ("cases = (shape, inputs, poll_ready / poll_flush / poll_close scripts, client plan); non-trivial = "
                "at least one input and at least one Pending in some script; distinct by that tuple")
    res.assumptions = ["downstream sink doubles are fused (Ready after their script, Ready forever once closed) and never fail",
                       "the client is a legal futures::Sink client following its plan (poll_ready until Ready(Ok) before every start_send; flushes only between sends; close last)",
                       "closures from the fixed vocabulary of spec/PushPipe/PushPipe.tla (mirrored in harness/hv_push/src/lib.rs)",
                       "init futures resolve Ok after k client calls; the source half's inner stream is scripted and fused",
                       "send_stream's source stream is fused (it is polled again after None when the final flush pends)"]
    return {"C14": res}


def replay(pid, path):
    return pp.replay_one(pid, path, SD, "SinkPipeTrace", "sink_pipe", "sinkpipe")
