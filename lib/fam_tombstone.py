"""C05 -- set / map lattices with tombstones on the hash-set, roaring (u64) and FST (String)
tombstone backends.
Jobs: (1) TLC exhaustive on TombstoneImpl (transcription of both `merge` functions x the C05
monitor) in free mode: replicas insert / delete / merge in any order and repetition;
(2) TLC GenSpec prints every short history and, for every pair of well-formed values (A, B), the
script <<load A, load B, merge>>; the harness replays them into the REAL lattices on all three
backends and TLC validates the recorded trace against the monitor; (3) seeded random longer
histories, trace-validated; (4) canary: a resurrected item in a good trace must be flagged."""
import concurrent.futures
import json
import os
import re

import vlib

PROPS = ["C05"]
ALSO = ["C01", "C02", "C03", "C04"]      # contributed coverage for the tombstone lattices (merged by the driver)
ENGINE = "spec/Tombstone: monitor + transcription of the set/map tombstone merges (TLC exhaustive over replica histories), all short histories and all merge pairs replayed into the real lattices on 3 backends, trace validation of seeded random histories"
MANIFEST = {
    "C05": {
        "text": "TLC exhaustively explores replicas that insert, delete and merge in any order (3 replicas x 2 items, 2 replicas x 3 items, map lattice with 2 keys x 2 values; 3x3 thorough) on the transcription of SetUnionWithTombstones::merge / MapUnionWithTombstones::merge against the monitor (live = inserted minus tombstoned, live and tombstones disjoint, no resurrection, convergence). Every history up to length 3 (4 thorough) and every merge of two well-formed values over 3 items (set) / 2 keys x 2 values (map) is replayed into the real lattices on the HashSet, RoaringTombstoneSet (u64) and FstTombstoneSet (String) backends, plus seeded random histories of up to 30 steps over 6 keys; TLC validates what every backend reveals after every call against the monitor and requires the backends to agree (contents and changed flag).",
        "note": "Map values are SetUnion<HashSet<u8>> only. Keys are 12 fixed u64 / String representatives (including 0, u64::MAX, 2^32 boundaries, the empty string, shared prefixes, non-ASCII). partial_cmp of the tombstone lattices is not part of C05 and is not checked here.",
        "technique": "TLA+ spec model-checked with TLC + conformance (TLC behaviours replayed into the code; code traces validated by TLC)",
        "design_ref": "DESIGN.md §6.3",
    },
}

SD = os.path.join(vlib.SPEC, "Tombstone")
FREE_ACTIONS = ["FreeInsert", "FreeDelete", "FreeMerge"]
CHUNKS = 4


_COV = re.compile(r"^<(\w+) line \d+, col \d+ to line \d+, col \d+ of module \w+(?: \([\d ]+\))?>: (\d+):(\d+)")


def _fix_coverage(r):
    """vlib's coverage regex misses actions with a quantifier (TLC appends the body location in
    parentheses); re-parse them here."""
    for line in r.out.splitlines():
        m = _COV.match(line)
        if m:
            r.coverage[m.group(1)] = (int(m.group(2)), int(m.group(3)))
    return r


def _set(xs):
    return "{" + ", ".join(str(x) for x in xs) + "}"


def _write_cfg(name, spec, variant, nrep, items, vals, pair_items, maxlen, emit):
    p = os.path.join(vlib.rundir("cfg"), name)
    with open(p, "w") as f:
        f.write("SPECIFICATION %s\nCONSTANTS\n  VARIANT = \"%s\"\n  NRep = %d\n  Items = %s\n  Vals = %s\n"
                "  PairItems = %s\n  LawItems = %s\n  MaxLen = %d\n  EMIT = %s\nINVARIANTS C05Inv ImplInv AlsoInv%s\n"
                "PROPERTIES NoResurrection\nCHECK_DEADLOCK FALSE\n"
                % (spec, variant, nrep, _set(items), _set(vals), _set(pair_items),
                   _set([0, 1] if variant == "set" else [0]), maxlen,
                   "TRUE" if emit else "FALSE", " Emit" if emit else ""))
    return p


def _split_cases(events):
    """events (without eof) -> list of per-case event lists"""
    out = []
    for e in events:
        if e.get("e") == "reset":
            out.append([])
        out[-1].append(e)
    return out


def _validate(events, d, name, res=None, chunks=CHUNKS):
    """Trace-validate whole cases in parallel chunks; returns (viol, drift) as lists of [case, rule]."""
    cases = _split_cases(events)
    k = max(1, min(chunks, len(cases)))
    size = (len(cases) + k - 1) // k
    paths = []
    for i in range(k):
        p = os.path.join(d, "%s_%d.ndjson" % (name, i))
        vlib.write_ndjson(p, [e for c in cases[i * size:(i + 1) * size] for e in c] + [{"e": "eof"}])
        paths.append(p)

    def one(i):
        return vlib.validate_trace(SD, "TombstoneTrace", paths[i], timeout=2400, tag="tomb_%s_%d" % (name, i))

    with concurrent.futures.ThreadPoolExecutor(max_workers=k) as ex:
        outs = list(ex.map(one, range(k)))
    viol, drift = [], []
    also = _validate.also = []
    for i, (ok, r) in enumerate(outs):
        if not ok:
            raise vlib.ToolError("trace not consumed by TombstoneTrace (%s chunk %d):\n%s" % (name, i, r.error_trace[-2000:]))
        v = vlib.printed_json(r, "VIOL")
        dr = vlib.printed_json(r, "DRIFT")
        if not v or not dr:
            raise vlib.ToolError("TombstoneTrace printed no VIOL/DRIFT line (%s chunk %d)" % (name, i))
        al = vlib.printed_json(r, "ALSO")
        if not al:
            raise vlib.ToolError("TombstoneTrace printed no ALSO line (%s chunk %d)" % (name, i))
        viol += v[0]
        drift += dr[0]
        also += al[0]
        if res is not None:
            res.add_tlc(r, "trace-validation:%s/%d" % (name, i))
    return viol, drift


def _nontrivial(case_events):
    """at least one delete of a key that some replica had live, and at least one merge"""
    ops = [e["e"] for e in case_events]
    if "merge" not in ops:
        return False
    tombs = any(e.get("obs") and e["obs"][0]["tomb"] for e in case_events if e["e"] != "reset")
    lives = any(e.get("obs") and e["obs"][0]["live"] for e in case_events if e["e"] != "reset")
    return tombs and lives


def _sig(case_events):
    return json.dumps([{k: v for k, v in e.items() if k not in ("obs", "case")} for e in case_events], sort_keys=True)


def _report(res, viol, events, origin):
    by_case = {c[0]["case"]: c for c in _split_cases(events)}
    for cid, rule in sorted(viol, key=lambda v: (len(by_case.get(v[0], [])), v[0])):
        evs = by_case.get(cid, [])
        variant = evs[0].get("variant") if evs else "?"
        res.violation("tombstone/%s/%s" % (variant, rule),
                      "rule %s broken on the %s lattice in %s case %s (%d steps)" % (rule, variant, origin, cid, len(evs) - 1),
                      {"events": evs})


def _report_also(extra, also, events, origin):
    """C01 / C02 / C03 rule breaks <<case, property, rule>> -> violations of that property"""
    by_case = {c[0]["case"]: c for c in _split_cases(events)}
    for cid, pid, rule in sorted(also, key=lambda v: (len(by_case.get(v[0], [])), v[0])):
        evs = by_case.get(cid, [])
        variant = evs[0].get("variant") if evs else "?"
        last = evs[-1] if evs else {}
        if last.get("e") == "nlaw":
            variant = "nested-" + last["ty"]
        inp = {k: last[k] for k in ("a", "b", "c") if k in last} or [{k: v for k, v in e.items() if k != "obs"} for e in evs[1:]]
        extra[pid].violation("tombstone/%s/%s" % (variant, rule),
                             "%s wrong on the %s tombstone lattice in %s case %s: input %s observed %s"
                             % (rule, variant, origin, cid, json.dumps(inp)[:300], json.dumps(last.get("obs"))[:300]),
                             {"events": evs})


def _count_also(extra, events):
    for c in _split_cases(events):
        ops = [e["e"] for e in c[1:]]
        n_law, n_ord = ops.count("law"), ops.count("ord")
        n_merge = sum(1 for o in ops if o in ("ins", "insbot", "del", "merge"))
        if n_law:
            extra["C01"].traces += 1
            extra["C01"].evaluations += 3 * n_law * len(c[1]["obs"])
        if n_ord:
            extra["C03"].traces += 1
            extra["C03"].evaluations += 4 * n_ord * len(c[1]["obs"])
        n_from, n_nlaw = ops.count("from"), ops.count("nlaw")
        if n_from:
            extra["C04"].traces += 1
            extra["C04"].evaluations += n_from * len(c[1]["obs"])
        if n_nlaw:
            extra["C04"].traces += 1
            extra["C04"].evaluations += 5 * n_nlaw * len(c[1]["obs"])
            extra["C01"].traces += 1
            extra["C01"].evaluations += 3 * n_nlaw * len(c[1]["obs"])
        if n_ord or n_merge:
            extra["C02"].traces += 1
            extra["C02"].evaluations += (n_ord + n_merge) * len(c[1]["obs"])


def run(tier):
    res = vlib.PropResult("C05")
    extra = {p: vlib.PropResult(p) for p in ALSO}
    thorough = tier == "thorough"
    bindir = vlib.cargo_build("hv_tuples", bins=["tombstone"])
    exe = os.path.join(bindir, "tombstone")
    d = vlib.rundir("tombstone")

    # (1) design: exhaustive model check of the transcribed merges against the monitor, and
    # (2a) generation of every short history + every merge pair -- all TLC jobs run concurrently
    mc = [("set", 3, [0, 1], [0]), ("set", 2, [0, 1, 2], [0]), ("map", 2, [0, 1], [0, 1])]
    if thorough:
        mc = [("set", 3, [0, 1, 2], [0]), ("map", 3, [0, 1], [0, 1]), ("map", 2, [0, 1, 2], [0, 1])]
    gens = [("set", 2, [0, 1], [0], [0, 1, 2, 3] if thorough else [0, 1, 2], 4 if thorough else 3),
            ("map", 2, [0, 1], [0, 1], [0, 1], 3 if thorough else 2)]

    def mc_job(i):
        variant, nrep, items, vals = mc[i]
        cfg = _write_cfg("tomb_mc%d.cfg" % i, "Spec", variant, nrep, items, vals,
                         [0, 1] if variant == "map" else [0, 1, 2], 0, False)
        return vlib.tlc(SD, "TombstoneImpl", cfg=cfg, workers=4 if thorough else 2, timeout=2400, tag="tomb_mc%d" % i)

    def gen_job(i):
        variant, nrep, items, vals, pitems, maxlen = gens[i]
        cfg = _write_cfg("tomb_gen%d.cfg" % i, "GenSpec", variant, nrep, items, vals, pitems, maxlen, True)
        return vlib.tlc(SD, "TombstoneImpl", cfg=cfg, workers=2, timeout=2400, coverage=False, tag="tomb_gen%d" % i)

    with concurrent.futures.ThreadPoolExecutor(max_workers=5) as ex:
        mcf = [ex.submit(mc_job, i) for i in range(len(mc))]
        genf = [ex.submit(gen_job, i) for i in range(len(gens))]
        mcr = [f.result() for f in mcf]
        genr = [f.result() for f in genf]
    for (variant, nrep, items, vals), r in zip(mc, mcr):
        if not r.ok:
            raise vlib.ToolError("TombstoneImpl model check failed (spec/design error):\n" + r.error_trace[-3000:])
        vlib.require_coverage(_fix_coverage(r), FREE_ACTIONS + (["FreeInsertBot"] if variant == "map" else []))
        res.add_tlc(r, "TombstoneImpl exhaustive %s R=%d items=%s vals=%s" % (variant, nrep, items, vals))
    cases = []
    for g, r in zip(gens, genr):
        if not r.ok:
            raise vlib.ToolError("TombstoneImpl generator run failed:\n" + r.error_trace[-3000:])
        res.add_tlc(r, "TombstoneImpl generator %s" % g[0])
        got = vlib.printed_json(r, "CASE")
        if len(got) < 300:
            raise vlib.ToolError("generator produced only %d %s cases" % (len(got), g[0]))
        cases += got
    cases.sort(key=lambda c: json.dumps(c, sort_keys=True))
    for i, c in enumerate(cases):
        c["id"] = i + 1
    casefile = os.path.join(d, "cases.ndjson")
    vlib.write_ndjson(casefile, cases)
    trace = os.path.join(d, "replay_trace.ndjson")
    p = vlib.run_bin(exe, ["replay", casefile, trace])
    if p.returncode != 0:
        raise vlib.ToolError("tombstone replay failed: " + p.stderr[-2000:])
    summ = json.loads(p.stdout.strip().splitlines()[-1])
    if summ["cases"] != len(cases):
        raise vlib.ToolError("harness replayed %s of %d cases" % (summ["cases"], len(cases)))
    events = [e for e in vlib.read_ndjson(trace) if e.get("e") != "eof"]
    viol, drift = _validate(events, d, "replay", res)
    _report_also(extra, _validate.also, events, "replayed")
    _count_also(extra, events)
    res.traces += len(cases)
    res.evaluations += len(events) - len(cases)
    for dr in summ["drift"][:10]:
        res.drift.append({"kind": "revealed contents differ from the TombstoneImpl prediction", **dr})
    for cid, what in drift[:10]:
        res.drift.append({"kind": "implementation fact: " + what, "case": cid, "origin": "replay"})
    _report(res, viol, events, "replayed")
    seen = set()
    for c in _split_cases(events):
        if _nontrivial(c):
            seen.add(_sig(c))
    pair = next(c for c in cases if c["steps"][0]["o"]["op"] == "load" and len(c["steps"]) > 1 and c["steps"][1]["o"]["tomb"] and c["steps"][0]["o"]["live"])
    res.samples.append({"kind": "replayed merge pair (TLC-generated, with the model's prediction per step)", **pair})
    hist = [c for c in cases if c["steps"][0]["o"]["op"] not in ("load", "law", "ord") and len(c["steps"]) >= 3 and
            any(s["o"]["op"] == "merge" for s in c["steps"]) and any(s["o"]["op"] == "del" for s in c["steps"])]
    res.samples.append({"kind": "replayed history", **hist[len(hist) // 2]})

    # (3) code -> spec: seeded random longer histories
    count = 5000 if thorough else 400
    rtrace = os.path.join(d, "random_trace.ndjson")
    p = vlib.run_bin(exe, ["random", count, 30, 6, rtrace])
    if p.returncode != 0:
        raise vlib.ToolError("tombstone random failed: " + p.stderr[-2000:])
    revents = [e for e in vlib.read_ndjson(rtrace) if e.get("e") != "eof"]
    rviol, rdrift = _validate(revents, d, "random", res)
    _report_also(extra, _validate.also, revents, "random")
    _count_also(extra, revents)
    res.traces += count
    res.evaluations += len(revents) - count
    for cid, what in rdrift[:10]:
        res.drift.append({"kind": "implementation fact: " + what, "case": cid, "origin": "random"})
    _report(res, rviol, revents, "random")
    rcases = _split_cases(revents)
    for c in rcases:
        if _nontrivial(c):
            seen.add(_sig(c))
    res.distinct_nontrivial = len(seen)
    big = max(rcases, key=len)
    res.samples.append({"kind": "random history (events without observations)",
                        "events": [{k: v for k, v in e.items() if k != "obs"} for e in big[:12]]})

    # (4) canary: in a good case, put a tombstoned key back into what one backend reveals
    done = False
    for c in rcases:
        for j, e in enumerate(c):
            if e["e"] != "reset" and e["obs"][1]["tomb"] and not done:
                bad = json.loads(json.dumps(c))
                k = bad[j]["obs"][1]["tomb"][0]
                bad[j]["obs"][1]["live"] = sorted(bad[j]["obs"][1]["live"] + [[k, 0]])
                bad[j]["obs"][1]["keys"] = sorted(set(bad[j]["obs"][1]["keys"] + [k]))
                cviol, _ = _validate(bad, d, "canary", chunks=1)
                rules = {v[1] for v in cviol}
                if not {"live-and-tombstoned", "backends-differ", "live-not-inserted-minus-tombstoned"} <= rules:
                    raise vlib.ToolError("canary (tombstoned key revealed live by one backend) was NOT flagged: %s" % cviol)
                res.extra["canary"] = "tombstoned key put back into one backend's revealed set flagged as %s" % sorted(rules)
                done = True
    if not done:
        raise vlib.ToolError("no event with tombstones found for the canary")
    # canary for the contributed properties: a flipped merge flag / a wrong partial_cmp must be flagged
    mcase = next(c for c in rcases if any(e["e"] == "merge" for e in c))
    badm = json.loads(json.dumps(mcase))
    j = next(i for i, e in enumerate(badm) if e["e"] == "merge")
    for o in badm[j]["obs"]:
        o["ch"] = not o["ch"]
    ocase = next(c for c in _split_cases(events) if len(c) > 1 and c[1]["e"] == "ord" and c[1]["obs"][0]["cmp"] == "lt")
    bado = json.loads(json.dumps(ocase))
    bado[1]["obs"][0]["cmp"] = "gt"
    lcase = next(c for c in _split_cases(events) if len(c) > 1 and c[1]["e"] == "law")
    badl = json.loads(json.dumps(lcase))
    badl[1]["obs"][0]["eqc"] = 0
    fcase = next(c for c in _split_cases(events) if len(c) > 1 and c[1]["e"] == "from" and c[1]["a"]["live"] and not c[1]["a"]["tomb"])
    badf = json.loads(json.dumps(fcase))
    o = badf[1]["obs"][1]["out"]
    o["live"], o["tomb"] = [], sorted({p[0] for p in o["live"]})        # the two parts swapped
    ncase = next(c for c in _split_cases(events) if len(c) > 1 and c[1]["e"] == "nlaw" and c[1]["b"] and not c[1]["a"])
    badn = json.loads(json.dumps(ncase))
    badn[1]["obs"][0]["ab"] = []
    _validate(badm + bado + badl + badf + badn, d, "canary_also", chunks=1)
    got = {(v[1], v[2]) for v in _validate.also}
    if not {("C02", "changed-flag"), ("C03", "partial_cmp"), ("C01", "commutativity"), ("C04", "lattice_from"),
            ("C04", "merge-not-join")} <= got:
        raise vlib.ToolError("canary (flipped merge flag / wrong partial_cmp / failed == / swapped lattice_from / wrong nested merge) NOT flagged: %s" % sorted(got))
    for p in ALSO:
        extra[p].extra["canary_tombstone"] = "flipped merge flag, wrong partial_cmp and failed commutativity == flagged: %s" % sorted(got)
    res.extra["backends"] = ["hash (HashSet<u64>)", "roaring (RoaringTombstoneSet, u64)", "fst (FstTombstoneSet<String>)"]

    res.rule = ("case = one replica history (reset + ops) executed on all three backends; evaluations = calls observed; "
                "non-trivial = the history contains a merge between replicas and, at some point, both live items and "
                "tombstones; distinct by the op sequence")
    res.assumptions = ["insert / delete are realised as merges of singleton / tombstone-only values (as the lattices intend)",
                       "map values are SetUnion<HashSet<u8>>; a key's value is identified with its set of <<key, value>> pairs",
                       "replica-to-replica merge passes a clone of the source replica of the same concrete type"]
    nt = {"C01": set(), "C02": set(), "C03": set(), "C04": set()}
    for c in _split_cases(events) + rcases:
        for e in c[1:]:
            if e["e"] == "law" and e["a"] != e["b"] and (e["a"]["tomb"] or e["b"]["tomb"]):
                nt["C01"].add(json.dumps([c[0]["variant"], e["a"], e["b"], e["c"]], sort_keys=True))
            if e["e"] == "from" and e["a"]["live"] != e["a"]["tomb"]:
                nt["C04"].add(json.dumps([c[0]["variant"], e["a"]], sort_keys=True))
            if e["e"] == "nlaw" and e["a"] != e["b"] and e["b"]:
                sig = json.dumps([e["ty"], e["a"], e["b"], e["c"]], sort_keys=True)
                nt["C04"].add(sig)
                nt["C01"].add(sig)
            if e["e"] == "ord" and e["a"] != e["b"] and (e["a"]["tomb"] or e["b"]["tomb"]):
                nt["C03"].add(json.dumps([c[0]["variant"], e["a"], e["b"]], sort_keys=True))
                nt["C02"].add(json.dumps([c[0]["variant"], e["a"], e["b"]], sort_keys=True))
        if _nontrivial(c):
            nt["C02"].add(_sig(c))
    for p in ALSO:
        x = extra[p]
        x.distinct_nontrivial = len(nt[p])
        x.rule = ("tombstone lattices (set / map; hash, roaring, fst backends): case = explicit values (a, b[, c]) over the "
                  "small domain or a replica history; non-trivial = distinct values with at least one tombstone (C02 also: "
                  "histories with merges, live items and tombstones); distinct by inputs")
        x.assumptions = ["the type's own == / partial_cmp exist only for the HashSet tombstone backend; the roaring and fst "
                         "backends are compared through their revealed contents"]
        x.samples.append({"kind": "tombstone-lattice case", "events": [e for e in next(
            c for c in _split_cases(events) if len(c) > 1 and c[1]["e"] == {"C01": "law", "C04": "from"}.get(p, "ord") and c[1]["a"]["tomb"])]})
    out = {"C05": res}
    out.update(extra)
    return out


def replay(pid, path):
    """Re-run the recorded op sequence on the real lattices and validate the fresh trace."""
    with open(path) as f:
        rep = json.load(f)
    evs = rep["case"]["events"]
    steps = []
    for e in evs[1:]:
        o = {k: v for k, v in e.items() if k not in ("e", "obs")}
        o["op"] = e["e"]
        steps.append({"o": o, "live": [], "tomb": []})
    bindir = vlib.cargo_build("hv_tuples", bins=["tombstone"])
    d = vlib.rundir("tombstone")
    cf = os.path.join(d, "replay_one_case.ndjson")
    vlib.write_ndjson(cf, [{"id": 1, "variant": evs[0]["variant"], "R": evs[0]["R"], "steps": steps}])
    t = os.path.join(d, "replay_one_trace.ndjson")
    p = vlib.run_bin(os.path.join(bindir, "tombstone"), ["replay", cf, t])
    if p.returncode != 0:
        raise vlib.ToolError("tombstone replay failed: " + p.stderr[-2000:])
    events = [e for e in vlib.read_ndjson(t) if e.get("e") != "eof"]
    viol, drift = _validate(events, d, "replay_one", chunks=1)
    print("op sequence re-run on the real lattices; rules broken:", viol, "drift:", drift)
    return 1 if viol else 0
