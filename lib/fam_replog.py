"""C40 -- the replicated-log examples never diverge (hydro_test/src/cluster/raft.rs, paxos.rs /
kv_replica).

Jobs (one shared run):
 (1) TLC exhaustive on RaftImpl: the step function of raft.rs (Raft.tla, transcribed from
     `raft_step`) on a 3-member cluster over a fail-stop network, every schedule of a bounded set
     of inputs (election/heartbeat timer interrupts, client requests) and every batching; checked
     against the ReplLog monitor (Agreement, AppendOnly, ElectionSafety) and the protocol safety
     predicates (LogMatching, LeaderCompleteness, QuorumHolds, ...).  Witness lines prove the bounds
     reach commits on two members, a leader change after a commit and conflicting logs.
 (2) spec -> code: TLC simulation of RaftImpl prints behaviours (inputs of every tick); the harness
     replays them into the REAL `raft_step` (N real RaftServerStates + harness-owned network).
 (2b) directed spec -> code: a TLC breadth-first search (VIEW without the history variable) finds a
     shortest behaviour into every figure-8 situation (3 elections among 3 members; a re-elected
     leader holds an older-term entry stored on a majority plus an unacked entry of its own term);
     all of them (capped) are replayed into the real `raft_step`.
 (3) code -> spec: seeded random schedules of the real `raft_step` (larger bounds, crashes, 3 and 5
     members; every third case biased toward re-elections of former leaders with unreplicated
     entries and interleaved client requests).
     (2)+(2b)+(3) are validated by TLC against RaftTrace: StepFn must reproduce the real post state /
     outbound bag (else model drift); a different COMMIT decision (commit index / emitted entries)
     than StepFn's is the violation `commit-differs-from-model`; the recorded global states must
     satisfy the monitor, CommitOnlyCurrentTerm (Raft 5.4.2) and the protocol predicates (else
     VIOLATION).  The evidence counts the real steps that ran step (d) in a figure-8 situation.
 (4) simulator level: the REAL `raft_server` dataflow under the Hydro simulator with seeded fuzzed
     schedules plus a bounded-exhaustive exploration of two simultaneous candidates; per member the
     committed entries and leader views are recorded and validated by TLC against ReplLogTrace.
 (5) Paxos side (what the simulator can run): the real `kv_replica` (slot sequencing + application)
     on 3 replicas fed the same decided log in simulator-chosen orders/instalments; ReplLogTrace.
 (5b) Paxos proposer side: PaxosImpl (acceptor rules of paxos.rs + Recommit of Paxos.tla) is model
     checked for Agreement; the real `recommit_after_leader_election` and `index_payloads` run under
     the simulator on seeded consistent p1b quorums / payload scripts; PaxosTrace / ReplLogTrace.
 (6) canaries: corrupted copies of good recorded cases ride along in the same TLC runs and MUST be
     flagged (one committed entry changed; a second leader forged into a term)."""
import copy
import json
import os
import re

import vlib

PROPS = ["C40"]
ENGINE = "spec/ReplLog: ReplLog monitor + Raft.tla step function (TLC exhaustive over schedules of bounded inputs), TLC behaviours replayed into the real raft_step, real raft_step / simulator runs of raft_server and kv_replica validated by TLC (RaftTrace, ReplLogTrace)"
MANIFEST = {
    "C40": {
        "text": "TLC exhaustively checks the Raft step function transcribed from raft.rs (3 members, all schedules and batchings of <=2 election interrupts, <=2 heartbeat interrupts, <=1-2 requests) against Agreement / AppendOnly / ElectionSafety and the protocol invariants; TLC-generated behaviours are replayed into the real raft_step and seeded random real runs are recorded, a directed TLC search replays every shortest behaviour into a figure-8 situation (re-elected leader, older-term entry on a majority, unacked own-term entry); TLC re-derives every recorded step (state, messages, commits), treats a commit decision different from the specified step function as a violation, and evaluates CommitOnlyCurrentTerm (Raft 5.4.2) and the other invariants on the recorded cluster states; the real raft_server dataflow runs under the Hydro simulator (seeded fuzzed schedules + bounded-exhaustive two-candidate election) and the real kv_replica applies a decided Paxos log in all simulator orders; TLC validates every recorded committed/applied history. Paxos: TLC checks Agreement of a multi-slot Paxos model built from the acceptor rules of paxos.rs and the Recommit rule, and validates recorded calls of the real recommit_after_leader_election / index_payloads against that rule.",
        "note": "Paxos: the full protocol is not simulable (leader election uses wall-clock timers); bound are the components the simulator can run -- recommit_after_leader_election (value selection after an election, validated against Paxos.tla whose rule is model-checked inside PaxosImpl for Agreement), index_payloads (slot assignment) and kv_replica (slot sequencing + application); acceptor_p1/p2 and the quorum plumbing are modelled only. Simulator runs use fail-stop channels without member crashes; crashes are covered at the raft_step level (a member stops taking steps). Bounded: 3 members, terms <= 2 (exhaustive) / <= ~20 (random).",
        "technique": "TLA+ spec model-checked with TLC + conformance (TLC behaviours replayed into the code; code and simulator traces validated by TLC)",
        "design_ref": "DESIGN.md §6.17",
    },
}

SD = os.path.join(vlib.SPEC, "ReplLog")
# TLC's -coverage runs out of memory on this module (recursive operators), so anti-vacuity is
# established by reachability witnesses printed by the Witness "invariant" of RaftImpl instead:
# every kind of input / message had an effect, and the fork-prone situations were reached.
WITNESSES = ["election-timer-started-candidacy", "vote-granted", "leader-elected", "request-appended",
             "heartbeat-broadcast", "follower-appended", "ack-counted", "follower-learned-commit",
             "two-members-committed", "leader-change-with-commit"]
CANARY_BASE = 900000


def _cfg(name, timed, maxterm, el, hb, req, net, dup, batch, emit=False, depth=0, witness=True,
         reqat="{0, 1, 2}", directed=False):
    p = os.path.join(vlib.rundir("cfg"), name)
    inv = "C40Inv ProtocolInv NoPanic EmitMatchesLog " + ("Witness " if witness else "") + "Emit"
    view = ""
    if directed:
        # breadth-first search that identifies states without the history variable: `hist` is one
        # shortest behaviour to each state; EmitFig8 prints it at every figure-8 situation
        inv = "C40Inv ProtocolInv NoPanic Witness EmitFig8"
        view = "VIEW NoHist\n"
    with open(p, "w") as f:
        f.write("SPECIFICATION Spec\nCONSTANTS\n  N = 3\n  Timed = %s\n  ReqAt = %s\n  MaxTerm = %d\n  MaxEl = %d\n"
                "  MaxHb = %d\n  MaxReq = %d\n  MaxNet = %d\n  MaxDup = %d\n  MaxBatch = %d\n"
                "  EMIT = %s\n  Depth = %d\nCONSTRAINT Constraint\n%sINVARIANTS %s\nCHECK_DEADLOCK FALSE\n"
                % (timed, reqat, maxterm, el, hb, req, net, dup, batch, "TRUE" if emit else "FALSE", depth,
                   view, inv))
    return p


FIG8 = "older-term-entry-on-majority-with-unacked-current-term-entry"


def _fig8_counts(cases):
    """Real steps that exercised step (d) of raft_step with an OLDER-term candidate index:
    (a) the leader ends the step holding an uncommitted entry of an older term;
    (b) ... that entry is stored on a majority AND the leader's last entry is of its own term
        (the figure-8 situation: a wrong Raft 5.4.2 guard commits here, the real code must not)."""
    a = b = 0
    bcases = set()
    for c in cases:
        n = c[0].get("n", 3)
        for e in c:
            if e.get("e") != "step" or e["post"]["role"] != 2:
                continue
            p = e["post"]
            log, ci, term = p["log"], p["ci"], p["term"]
            old = [i for i in range(ci + 1, len(log) + 1) if log[i - 1][0] < term]
            if not old:
                continue
            a += 1
            if log[-1][0] == term and any(
                    1 + sum(1 for o in range(n) if o != e["m"] and p["match"][o] >= i) >= n // 2 + 1 for i in old):
                b += 1
                bcases.add(c[0]["case"])
    return a, b, len(bcases)


def _printed(r, marker):
    """JSON payloads of PrintT(<<"MARKER", ToJson(x)>>).  Unlike vlib.printed_json this also
    accepts the form TLC uses for long values (the tuple wrapped over several lines)."""
    out = []
    pat = re.compile(r'<<\s*"' + re.escape(marker) + r'",\s*"((?:[^"\\]|\\.)*)"\s*>>', re.S)
    for m in pat.finditer(r.out):
        out.append(json.loads(m.group(1).encode("utf-8").decode("unicode_escape")))
    return out


def _witnesses(r):
    out = set()
    for line in r.printed:
        if line.startswith('<<"WITNESS"'):
            out.add(line.split('"')[3])
    return out


def _run(exe, args, what, timeout=3600):
    p = vlib.run_bin(exe, args, timeout=timeout)
    if p.returncode != 0:
        raise vlib.ToolError("%s failed (rc=%s): %s" % (what, p.returncode, p.stderr[-3000:]))
    try:
        return json.loads(p.stdout.strip().splitlines()[-1])
    except Exception:
        raise vlib.ToolError("%s printed no summary: %s" % (what, p.stdout[-500:] + p.stderr[-1500:]))


def _run_sim(exe, args, trace, what, timeout=7200):
    """Like _run, but a simulator process killed by an assert of the example under test (the
    raft.rs protocol guards abort through the dylib boundary) is DATA: the trace written so far is
    kept and the unfinished case gets a panic event."""
    p = vlib.run_bin(exe, args, timeout=timeout)
    if p.returncode == 0:
        try:
            return json.loads(p.stdout.strip().splitlines()[-1])
        except Exception:
            raise vlib.ToolError("%s printed no summary: %s" % (what, p.stdout[-500:] + p.stderr[-1500:]))
    err = p.stderr or ""
    if "protocol violation" in err and os.path.exists(trace):
        lines = [x for x in open(trace).read().splitlines() if x.strip()]
        good = []
        for x in lines:
            try:
                good.append(json.loads(x))
            except Exception:
                break
        msg = [x for x in err.splitlines() if "protocol violation" in x][-1][:300]
        good.append({"e": "panic", "msg": msg})
        good.append({"e": "eof"})
        vlib.write_ndjson(trace, good)
        n = sum(1 for e in good if e.get("e") == "reset")
        return {"cases": n, "commits": sum(1 for e in good if e.get("e") == "commit"), "panics": 1,
                "multi_leader": 0, "nontrivial": 0, "aborted": msg, "explored": n, "complete": False,
                "err": msg}
    raise vlib.ToolError("%s failed (rc=%s): %s" % (what, p.returncode, err[-3000:]))


def _cases(path):
    """Split an ndjson trace into cases: list of (reset_event, [events incl. reset])."""
    out, cur = [], None
    for e in vlib.read_ndjson(path):
        if e.get("e") == "eof":
            continue
        if e.get("e") == "reset":
            cur = [e]
            out.append(cur)
        elif cur is not None:
            cur.append(e)
    return out


def _validate(module, cases, res, what):
    """cases: list of event lists (each starting with a reset whose "case" is unique)."""
    d = vlib.rundir("replog")
    path = os.path.join(d, "tv_%s.ndjson" % what)
    vlib.write_ndjson(path, [e for c in cases for e in c] + [{"e": "eof"}])
    ok, r = vlib.validate_trace(SD, module, path, tag="rl_" + what, timeout=1500)
    if not ok:
        raise vlib.ToolError("trace not consumed by %s (%s):\n%s" % (module, what, r.error_trace[-2500:]))
    viol = _printed(r, "VIOL")
    drift = _printed(r, "DRIFT")
    if len(viol) != 1 or len(drift) != 1:
        raise vlib.ToolError("%s (%s) printed no verdict (VIOL %d, DRIFT %d lines)" % (module, what, len(viol), len(drift)))
    res.add_tlc(r, "trace-validation:" + what)
    return viol[0], drift[0]


def _renumber(cases, base):
    out = []
    for i, c in enumerate(cases):
        c = [dict(e) for e in c]
        c[0]["case"] = base + i + 1
        out.append(c)
    return out


def _step_canaries(cases):
    """Two corrupted copies of good raft_step cases."""
    out = []
    # (a) one committed entry of one member changed (another member commits the same position)
    for c in cases:
        seen = {}
        hit = None
        for i, e in enumerate(c):
            if e.get("e") == "step":
                for ent in e["com"]:
                    if ent[0] in seen and seen[ent[0]] != e["m"]:
                        hit = (i, ent[0])
                    seen.setdefault(ent[0], e["m"])
            if hit:
                break
        if hit:
            c2 = copy.deepcopy(c)
            for ent in c2[hit[0]]["com"]:
                if ent[0] == hit[1]:
                    ent[2] += 1000
            c2[0]["case"] = CANARY_BASE + 1
            out.append(("Agreement", c2))
            break
    # (b) a second leader forged into a term that already has one
    for c in cases:
        lead = None
        for i, e in enumerate(c):
            if e.get("e") != "step":
                continue
            if lead is None and e["post"]["role"] == 2:
                lead = (e["m"], e["post"]["term"])
            elif lead is not None and e["m"] != lead[0] and e["post"]["term"] == lead[1] \
                    and e["post"]["role"] == 0:
                c2 = copy.deepcopy(c[:i + 1])
                c2[i]["post"]["role"] = 2
                c2[0]["case"] = CANARY_BASE + 2
                out.append(("ElectionSafety", c2))
                break
        if len(out) >= 2:
            break
    # (c) a leader's commit index moved over an entry that only the leader stores
    for c in cases:
        logs = {}
        for i, e in enumerate(c):
            if e.get("e") != "step":
                continue
            logs[e["m"]] = e["post"]["log"]
            p = e["post"]
            if p["role"] == 2 and len(p["log"]) > p["ci"] and e["reqs"]:
                k = len(p["log"])
                if all(len(l) < k for m, l in logs.items() if m != e["m"]):
                    c2 = copy.deepcopy(c[:i + 1])
                    c2[i]["post"]["ci"] = k
                    c2[0]["case"] = CANARY_BASE + 3
                    out.append(("QuorumHolds", c2))
                    return out
    return out


def _sim_canary(cases):
    for c in cases:
        seen = {}
        for i, e in enumerate(c):
            if e.get("e") == "commit":
                if e["idx"] in seen and seen[e["idx"]] != e["m"]:
                    c2 = copy.deepcopy(c)
                    c2[i]["v"] += 1000
                    c2[0]["case"] = CANARY_BASE + 1
                    return [("Agreement", c2)]
                seen.setdefault(e["idx"], e["m"])
    return []


def _report(res, viol, cases_by_id, area, spec, canaries):
    """viol: [[case, rule]..]. Canary cases must be flagged; everything else is a violation."""
    flagged = {}
    for case, rule in viol:
        flagged.setdefault(case, set()).add(rule)
    for rule, c in canaries:
        cid = c[0]["case"]
        if rule not in flagged.get(cid, set()):
            raise vlib.ToolError("canary %s/%s (expected rule %s) was NOT rejected by %s: %s"
                                 % (area, cid, rule, spec, sorted(flagged.get(cid, []))))
        res.extra.setdefault("canaries", []).append(
            "%s: corrupted case rejected with %s" % (spec, sorted(flagged[cid])))
    for case, rules in sorted(flagged.items()):
        if case > CANARY_BASE:
            continue
        evs = cases_by_id.get(case, [])
        src = evs[0].get("src", "?") if evs else "?"
        for rule in sorted(rules):
            res.violation("%s/%s/%s" % (area, src, rule),
                          "rule %s broken in recorded %s case %s" % (rule, src, case),
                          {"spec": spec, "events": evs})


def run(tier):
    res = vlib.PropResult("C40")
    thorough = tier == "thorough"
    bindir = vlib.cargo_build("hv_raft", bins=["raft_step", "raft_sim", "paxos_replica", "paxos_parts"],
                              workspace="harness_hydro", timeout=7200)
    step_exe = os.path.join(bindir, "raft_step")
    sim_exe = os.path.join(bindir, "raft_sim")
    kv_exe = os.path.join(bindir, "paxos_replica")
    d = vlib.rundir("replog")

    # (1) design level: exhaustive model check
    if thorough:
        cfg = _cfg("raft_mc.cfg", "{0, 1}", 2, 2, 2, 2, 8, 2, 2)
        need = WITNESSES + ["conflicting-logs"]
    else:
        cfg = _cfg("raft_mc.cfg", "{0, 1}", 2, 2, 2, 1, 8, 2, 2)
        need = WITNESSES
    r = vlib.tlc(SD, "RaftImpl", cfg=cfg, workers=8, timeout=3000, coverage=False, xmx="6g")
    if not r.ok:
        raise vlib.ToolError("RaftImpl model check failed (the transcribed design breaks %s):\n%s"
                             % (r.invariant, r.error_trace[-3000:]))
    missing = [w for w in need if w not in _witnesses(r)]
    if missing:
        raise vlib.ToolError("vacuous RaftImpl run: witnesses never reached: %s" % missing)
    res.add_tlc(r, "RaftImpl exhaustive")
    res.extra["exhaustive"] = True
    res.extra["model_bounds"] = open(cfg).read().split("CONSTRAINT")[0].replace("\n", " ").strip()
    res.extra["witnesses_reached"] = sorted(_witnesses(r))

    # (2) spec -> code: TLC simulation behaviours replayed into the real raft_step
    nsim = 400 if thorough else 60
    r = vlib.tlc(SD, "RaftImpl",
                 cfg=_cfg("raft_gen.cfg", "{0, 1, 2}", 3, 4, 5, 3, 12, 2, 3, emit=True, depth=40, witness=False),
                 workers=2, timeout=1500, simulate=nsim, depth=45, seed_arg=vlib.seed(), coverage=False)
    if not r.ok:
        raise vlib.ToolError("RaftImpl simulation failed:\n" + r.error_trace[-3000:])
    seen, gen = set(), []
    for c in _printed(r, "CASE"):
        k = json.dumps(c, sort_keys=True)
        if k not in seen:
            seen.add(k)
            gen.append(c)
    if len(gen) < 20:
        raise vlib.ToolError("TLC simulation produced only %d behaviours" % len(gen))
    casefile = os.path.join(d, "cases.ndjson")
    vlib.write_ndjson(casefile, gen)
    rp_trace = os.path.join(d, "step_replay.ndjson")
    summ = _run(step_exe, ["replay", casefile, rp_trace], "raft_step replay")
    for dv in summ["diverged"][:10]:
        res.drift.append({"kind": "a message the model delivers was never sent by the real code", **dv})
    rp_cases = _renumber(_cases(rp_trace), 0)
    res.samples.append({"kind": "TLC behaviour replayed into raft_step (tick inputs)",
                        "steps": gen[len(gen) // 2]["steps"][:8]})

    # (2b) directed spec -> code: every shortest behaviour into a figure-8 situation (3 elections among
    #      3 members: a re-elected leader gets a client request between sending AppendEntries for
    #      its old-term entry and receiving the ack) is replayed into the real raft_step
    r = vlib.tlc(SD, "RaftImpl",
                 cfg=_cfg("raft_fig8.cfg", "{0, 2}", 3, 3, 2, 2, 4 if thorough else 3, 1, 1, emit=True, depth=40,
                          reqat="{0}", directed=True),
                 workers=8, timeout=1500, coverage=False)
    if not r.ok:
        raise vlib.ToolError("RaftImpl directed (figure-8) run failed (%s):\n%s" % (r.invariant, r.error_trace[-3000:]))
    if FIG8 not in _witnesses(r):
        raise vlib.ToolError("vacuous directed run: the figure-8 situation was never reached")
    res.add_tlc(r, "RaftImpl directed search for figure-8 situations (VIEW without history)")
    seen8, fig = set(), []
    for c in _printed(r, "CASE"):
        k = json.dumps(c, sort_keys=True)
        if k not in seen8:
            seen8.add(k)
            fig.append(c)
    fig.sort(key=lambda c: json.dumps(c, sort_keys=True))
    nfig = len(fig)
    cap = 400 if thorough else 80
    if len(fig) > cap:
        fig = [fig[(i * len(fig)) // cap] for i in range(cap)]
    if len(fig) < 10:
        raise vlib.ToolError("directed run produced only %d figure-8 behaviours" % len(fig))
    f8file = os.path.join(d, "cases_fig8.ndjson")
    vlib.write_ndjson(f8file, fig)
    f8_trace = os.path.join(d, "step_fig8.ndjson")
    fsumm = _run(step_exe, ["replay", f8file, f8_trace], "raft_step replay (figure-8)")
    for dv in fsumm["diverged"][:10]:
        res.drift.append({"kind": "a message the model delivers was never sent by the real code (fig8)", **dv})
    f8_cases = _renumber(_cases(f8_trace), 50000)
    rp_cases += f8_cases
    summ["steps"] += fsumm["steps"]
    res.extra["directed_fig8"] = {"behaviours_found_by_tlc": nfig, "replayed_into_raft_step": len(fig)}
    res.samples.append({"kind": "directed TLC behaviour into a figure-8 situation (tick inputs, last 4 ticks)",
                        "steps": fig[0]["steps"][-4:]})

    # (3) code -> spec: seeded random schedules of the real raft_step
    count, steps = (1000, 80) if thorough else (150, 60)
    rd_trace = os.path.join(d, "step_random.ndjson")
    rsumm = _run(step_exe, ["random", count, 3, steps, rd_trace], "raft_step random")
    rd_cases = _renumber(_cases(rd_trace), 100000)
    # 5-member clusters: a majority is 3, so "stored on leader + one follower" is NOT a quorum
    count5 = count // 2
    rd5_trace = os.path.join(d, "step_random5.ndjson")
    rsumm5 = _run(step_exe, ["random", count5, 5, steps + 20, rd5_trace], "raft_step random n=5")
    rd_cases += _renumber(_cases(rd5_trace), 150000)
    for k in ("steps", "commits", "nontrivial"):
        rsumm[k] += rsumm5[k]
    count += count5
    vacuous_steps = rsumm["commits"] < count or rsumm["nontrivial"] < count // 20
    step_cases = rp_cases + rd_cases
    can = _step_canaries(rd_cases)
    viol, drift = _validate("RaftTrace", step_cases + [c for _, c in can], res, "steps")
    by_id = {c[0]["case"]: c for c in step_cases}
    _report(res, viol, by_id, "raft", "RaftTrace", can)
    a8, b8, c8 = _fig8_counts(step_cases)
    d8 = _fig8_counts(rd_cases)
    res.extra["step_d_older_term_candidate"] = {
        "real_steps_leader_holds_uncommitted_older_term_entry": a8,
        "real_steps_in_figure8_situation (older-term entry on a majority, last entry of own term)": b8,
        "cases_with_figure8_situation": c8,
        "of_which_in_seeded_random_runs": {"steps": d8[1], "cases": d8[2]}}
    if b8 == 0 and not res.violations:
        raise vlib.ToolError("vacuous: no recorded real step was in the figure-8 situation")
    if vacuous_steps and not res.violations:
        raise vlib.ToolError("vacuous random raft_step run: %s" % rsumm)
    if len(can) < 3 and not res.violations:
        # (on a broken implementation the recorded cases may not contain the needed situations;
        #  that must not mask the violations themselves)
        raise vlib.ToolError("could not build the three raft_step canaries from the recorded cases")
    nd = 0
    for case, line in drift:
        if case > CANARY_BASE:
            continue
        nd += 1
        if len(res.drift) < 12:
            res.drift.append({"kind": "Raft.tla StepFn does not reproduce the real raft_step", "case": case,
                              "trace_line": line})
    res.extra["step_drift_events"] = nd
    nsteps = summ["steps"] + rsumm["steps"]
    res.traces += len(step_cases)
    res.evaluations += nsteps
    res.extra["real_raft_step_calls_rederived_by_tlc"] = nsteps
    nontriv = set()
    for c in step_cases:
        terms = {e["post"]["term"] for e in c if e.get("e") == "step" and e["post"]["role"] == 2}
        ncom = sum(len(e["com"]) for e in c if e.get("e") == "step")
        if len(terms) >= 2 and ncom >= 2:
            nontriv.add(json.dumps([[e["m"], e["el"], e["hb"], e["reqs"], e["msgs"]] for e in c
                                    if e.get("e") == "step"], sort_keys=True))
    res.distinct_nontrivial += len(nontriv)
    ex = next((c for c in rd_cases if any(e.get("e") == "step" and e["com"] for e in c)), rd_cases[0])
    res.samples.append({"kind": "recorded real raft_step calls (first steps of a random case)",
                        "events": [{k: e[k] for k in ("m", "el", "hb", "reqs", "msgs", "com")}
                                   for e in ex[1:6]]})

    try:
        _sim_stages(res, thorough, sim_exe, kv_exe, os.path.join(bindir, "paxos_parts"), d)
    except vlib.ToolError as e:
        if not res.violations:
            raise
        res.extra["later_stage_tool_error"] = str(e)[:600]
    _finish(res)
    return {"C40": res}


def _sim_stages(res, thorough, sim_exe, kv_exe, px_exe, d):
    # (4) simulator level: the real raft_server dataflow
    nfuzz = 3000 if thorough else 300
    sim_trace = os.path.join(d, "sim_fuzz.ndjson")
    ssumm = _run_sim(sim_exe, ["fuzz", nfuzz, sim_trace], sim_trace, "raft_sim fuzz")
    if "aborted" not in ssumm and (ssumm["commits"] < nfuzz // 2 or ssumm["multi_leader"] < nfuzz // 10):
        raise vlib.ToolError("vacuous raft_sim run: %s" % ssumm)
    sim_cases = _renumber(_cases(sim_trace), 0)
    x_trace = os.path.join(d, "sim_x.ndjson")
    xs = _run_sim(sim_exe, ["exhaustive", 0, x_trace, 60000], x_trace, "raft_sim exhaustive")
    if not xs["complete"] and "budget" not in xs["err"]:
        # a panic inside the exhaustive exploration (not our budget stop): record it as a case
        res.extra["sim_exhaustive_error"] = xs["err"][:300]
    xall = _cases(x_trace)
    # many schedules have the same observable outcome: validate each distinct outcome once
    seenx, xd = set(), []
    for c in xall:
        k = json.dumps(c[1:], sort_keys=True)
        if k not in seenx:
            seenx.add(k)
            xd.append(c)
    x_cases = _renumber(xd, 200000)
    res.extra["sim_exhaustive"] = {"scenario": "election timers of members 0 and 1 fire concurrently",
                                   "schedules": xs["explored"], "complete": xs["complete"],
                                   "distinct_outcomes": len(xd)}
    # (5) Paxos side: replica application
    nkv = 2000 if thorough else 300
    kv_trace = os.path.join(d, "kv_fuzz.ndjson")
    ksumm = _run(kv_exe, ["fuzz", nkv, kv_trace], "paxos_replica fuzz", timeout=7200)
    if ksumm["applies"] < nkv:
        raise vlib.ToolError("vacuous paxos_replica run: %s" % ksumm)
    kv_cases = _renumber(_cases(kv_trace), 300000)
    kx_trace = os.path.join(d, "kv_x.ndjson")
    kxs = _run(kv_exe, ["exhaustive", 3 if thorough else 2, kx_trace, 60000], "paxos_replica exhaustive", timeout=7200)
    seenx, kxd = set(), []
    for c in _cases(kx_trace):
        k = json.dumps(c[1:], sort_keys=True)
        if k not in seenx:
            seenx.add(k)
            kxd.append(c)
    kx_cases = _renumber(kxd, 400000)
    res.extra["kv_replica_exhaustive"] = {"schedules": kxs["explored"], "complete": kxs["complete"],
                                          "distinct_outcomes": len(kxd)}
    all_sim = sim_cases + x_cases + kv_cases + kx_cases
    # Paxos proposer side: slot assignment (index_payloads) joins the same TLC run
    nix = 1000 if thorough else 150
    ix_trace = os.path.join(d, "index.ndjson")
    isumm = _run(px_exe, ["index", nix, ix_trace], "paxos_parts index", timeout=7200)
    if isumm["applies"] < nix:
        raise vlib.ToolError("vacuous paxos_parts index run: %s" % isumm)
    ix_cases = _renumber(_cases(ix_trace), 500000)
    all_sim += ix_cases
    res.traces += len(ix_cases)
    res.evaluations += nix
    can = _sim_canary(sim_cases)
    viol, drift = _validate("ReplLogTrace", all_sim + [c for _, c in can], res, "sim")
    by_id = {c[0]["case"]: c for c in all_sim}
    _report(res, viol, by_id, "replog", "ReplLogTrace", can)
    if not can and not res.violations:
        raise vlib.ToolError("could not build the simulator canary (no position committed by two members)")
    for case in drift[:5]:
        res.drift.append({"kind": "kv_replica did not apply exactly the delivered gap-free prefix", "case": case})
    res.traces += len(sim_cases) + xs["explored"] + len(kv_cases) + kxs["explored"]
    res.evaluations += nfuzz + xs["explored"] + nkv + kxs["explored"]
    res.extra["simulator_runs"] = {"raft_fuzz": nfuzz, "raft_exhaustive": xs["explored"],
                                   "kv_replica_fuzz": nkv, "kv_replica_exhaustive": kxs["explored"],
                                   "raft_commit_events": ssumm["commits"], "raft_panics": ssumm["panics"]}
    nt = set()
    for c in sim_cases:
        terms = {e["term"] for e in c if e.get("e") == "view" and e["leader"] == e["m"]}
        ncom = sum(1 for e in c if e.get("e") == "commit")
        if len(terms) >= 2 and ncom >= 2:
            nt.add(json.dumps(c[1:], sort_keys=True))
    res.distinct_nontrivial += len(nt)
    ex = next((c for c in sim_cases if sum(1 for e in c if e.get("e") == "commit") >= 3), sim_cases[0])
    res.samples.append({"kind": "simulator run of raft_server: input script and recorded outputs",
                        "script": ex[0]["script"], "events": ex[1:14]})
    res.samples.append({"kind": "kv_replica run", "reset": kv_cases[0][0], "events": kv_cases[0][1:8]})

    _paxos_stage(res, thorough, px_exe, d)


def _paxos_stage(res, thorough, px_exe, d):
    # (5b) Paxos value selection: design-level model around Recommit + the real function
    cfgp = os.path.join(vlib.rundir("cfg"), "paxos_mc.cfg")
    with open(cfgp, "w") as f:
        f.write("SPECIFICATION Spec\nCONSTANTS\n  NAcc = 3\n  F = 1\n  MaxBal = %d\n  NSlots = %d\n"
                "  Values = {1, 2}\nINVARIANTS Agreement InputsConsistent Witness\nCHECK_DEADLOCK FALSE\n"
                % ((2, 2) if thorough else (3, 1)))
    r = vlib.tlc(SD, "PaxosImpl", cfg=cfgp, workers=8, timeout=3000, coverage=False, xmx="6g")
    if not r.ok:
        raise vlib.ToolError("PaxosImpl model check failed (%s):\n%s" % (r.invariant, r.error_trace[-3000:]))
    missing = [w for w in ("leader-elected-after-a-choice", "two-values-proposed-for-a-slot")
               if w not in _witnesses(r)]
    if missing:
        raise vlib.ToolError("vacuous PaxosImpl run: witnesses never reached: %s" % missing)
    res.add_tlc(r, "PaxosImpl exhaustive (acceptor rules of paxos.rs + Recommit)")
    nrc = 1500 if thorough else 200
    rc_trace = os.path.join(d, "recommit.ndjson")
    rsumm = _run(px_exe, ["recommit", nrc, rc_trace], "paxos_parts recommit", timeout=7200)
    evs = [e for e in vlib.read_ndjson(rc_trace) if e.get("e") != "eof"]
    if rsumm["nontrivial"] < nrc // 10:
        raise vlib.ToolError("vacuous paxos_parts recommit run: %s" % rsumm)
    # canary: the value re-proposed for one slot changed
    can = None
    for e in evs:
        if e.get("e") == "recommit" and e["out"]:
            can = copy.deepcopy(e)
            can["out"][0][2] = can["out"][0][2] + 7
            can["case"] = CANARY_BASE + 1
            break
    if can is None:
        raise vlib.ToolError("could not build the recommit canary")
    path = os.path.join(d, "tv_recommit.ndjson")
    vlib.write_ndjson(path, evs + [can, {"e": "eof"}])
    ok, r = vlib.validate_trace(SD, "PaxosTrace", path, tag="rl_recommit", timeout=1500)
    if not ok:
        raise vlib.ToolError("trace not consumed by PaxosTrace:\n%s" % r.error_trace[-2500:])
    res.add_tlc(r, "trace-validation:recommit")
    pv, pd = _printed(r, "VIOL"), _printed(r, "DRIFT")
    if len(pv) != 1 or len(pd) != 1:
        raise vlib.ToolError("PaxosTrace printed no verdict")
    viol, drift = pv[0], pd[0]
    if [CANARY_BASE + 1, "RecommitValueKept"] not in viol:
        raise vlib.ToolError("recommit canary (changed re-proposed value) was NOT rejected: %s" % viol)
    res.extra.setdefault("canaries", []).append("PaxosTrace: changed re-proposed value rejected")
    by_case = {e["case"]: e for e in evs}
    for case, rule in viol:
        if case > CANARY_BASE:
            continue
        res.violation("paxos/recommit/%s" % rule, "rule %s broken by recommit_after_leader_election in case %s"
                      % (rule, case), {"spec": "PaxosTrace", "events": [by_case.get(case)]})
    for case in [c for c in drift if c <= CANARY_BASE][:5]:
        res.drift.append({"kind": "recommit output differs from Recommit(..) of Paxos.tla", "case": by_case.get(case)})
    res.traces += len(evs)
    res.evaluations += len(evs)
    res.distinct_nontrivial += len({json.dumps(e["logs"], sort_keys=True) for e in evs
                                    if e.get("e") == "recommit" and len(e["out"]) >= 2})
    ex = next((e for e in evs if e.get("e") == "recommit" and len(e["out"]) >= 2), evs[0])
    res.samples.append({"kind": "recorded recommit_after_leader_election call ([slot, ballot, value], -1 = hole/none)",
                        **{k: ex[k] for k in ("f", "bal", "logs", "out", "maxslot") if k in ex}})


def _finish(res):
    res.rule = ("cases = (a) raft_step schedules: sequence of ticks (member, timers, requests, delivered batch), "
                "TLC-generated or seeded random; (b) simulator runs: input script x simulator decision bytes. "
                "non-trivial = leaders in >= 2 different terms and >= 2 committed entries in the case; "
                "distinct by the full tick-input sequence (a) / by the full recorded output history (b)")
    res.assumptions = [
        "fail-stop network: no loss or duplication; arbitrary delay, reordering and batching; a crashed member stops taking steps",
        "raft_step level: the harness-owned network delivers any sub-multiset of the in-flight messages (superset of per-channel FIFO)",
        "simulator level: the simulator's own scheduler decides batches/interleavings from seeded decision bytes (4096 bytes, then zeros)",
        "persistent state is never lost (no restart with amnesia)",
        "Paxos: the whole protocol (leader election with wall-clock timers, phase 1/2 message flow) is not simulable; bound components: recommit_after_leader_election (value selection), index_payloads (slot assignment), kv_replica (sequencing + application); acceptor_p2 is only modelled (PaxosImpl), not bound",
    ]


def replay(pid, path):
    with open(path) as f:
        rep = json.load(f)
    spec = rep["case"].get("spec", "ReplLogTrace")
    tmp = vlib.PropResult(pid)
    viol, drift = _validate(spec, [rep["case"]["events"]], tmp, "replay_one")
    print("recorded case re-validated against %s; rules broken: %s; drift: %s" % (spec, viol, drift))
    return 1 if viol else 0
